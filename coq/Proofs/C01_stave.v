(* C01, the stave tier: a conforming trigger packet closes its readout frame silently (only the ALPIDE statistics message). *)
From Coq Require Import List NArith ZArith Bool Lia Arith.
From FP Require Import Model.Base Model.ItsWords Model.ItsFsm Model.Rdh Model.Alpide Model.CdpRunning
  Spec.AlpideEnc Spec.GrammarStave Proofs.C13_lane Proofs.C13_frame.
From FP Require Gen.Facts.
Import ListNotations.
Open Scope N_scope.

(* ---- the lanes assembled from the data words: first-seen order, each with all its bytes ---- *)
Lemma store_all_ids ws : forall acc, map fst (store_all ws acc) = map fst acc ++ uniq_N (map fst acc) (map fst ws).
Proof.
  induction ws as [|[i d] ws IH]; intros acc; cbn [store_all fold_left map fst uniq_N].
  - rewrite app_nil_r. reflexivity.
  - fold (store_all ws (store_lane acc i d)). rewrite IH, store_lane_ids.
    destruct (existsb (N.eqb i) (map fst acc)) eqn:E; [reflexivity|].
    rewrite <- app_assoc. cbn [app]. f_equal. f_equal.
    (* uniq with seen = ids ++ [i]  versus  i :: ids : same membership *)
    assert (G : forall l s1 s2, (forall x, existsb (N.eqb x) s1 = existsb (N.eqb x) s2) -> uniq_N s1 l = uniq_N s2 l).
    { induction l as [|x l IHl]; intros s1 s2 Hs; cbn [uniq_N]; [reflexivity|]. rewrite (Hs x).
      destruct (existsb (N.eqb x) s2); [apply IHl; exact Hs|]. f_equal. apply IHl. intros y. cbn [existsb]. rewrite (Hs y). reflexivity. }
    apply G. intros x. rewrite existsb_app. cbn [existsb]. rewrite orb_false_r. apply orb_comm.
Qed.

Lemma uniq_N_nodup l : forall seen, NoDup (uniq_N seen l).
Proof. exact (uniq_N_NoDup l). Qed.

Lemma lookup_in l : NoDup (map fst l) -> forall id b, In (id, b) l -> lookup l id = b.
Proof.
  unfold lookup. induction l as [|[i x] l IH]; intros ND id b Hin; [destruct Hin|].
  cbn [find fst]. cbn [map fst] in ND. inversion ND as [|? ? Hni ND']; subst.
  destruct Hin as [E|Hin].
  - injection E as -> ->. rewrite N.eqb_refl. reflexivity.
  - destruct (N.eqb_spec i id) as [->|_]; [exfalso; apply Hni; apply (in_map fst) in Hin; exact Hin|]. apply IH; assumption.
Qed.

Lemma stored_lane data id b : In (id, b) (store_all (lane_words data) []) ->
  In id (lane_ids data) /\ b = lane_bytes (lane_words data) id.
Proof.
  intros Hin. pose proof (store_all_ids (lane_words data) []) as Hids. cbn [map app] in Hids.
  split.
  - unfold lane_ids. rewrite <- Hids. apply (in_map fst) in Hin. exact Hin.
  - assert (ND : NoDup (map fst (store_all (lane_words data) []))) by (rewrite Hids; apply uniq_N_nodup).
    rewrite <- (lookup_in _ ND id b Hin). rewrite store_all_lookup. reflexivity.
Qed.

(* ---- a conforming lane is analysed without a crash and passes with the common bunch crossing ---- *)
Lemma lane_conf_outcome ly bc ws id : lane_conf ly bc ws id ->
  lane_total ly None None (id, lane_bytes ws id) /\ lane_outcome ly None None (id, lane_bytes ws id) = Ok (LO_ok bc).
Proof.
  intros (items & Hwf & Hb & Hf & Hd & Hc & Hbc & Hib). rewrite Hb.
  split; [apply encoded_lane_total; [exact Hwf|right; exact Hc]|].
  unfold lane_outcome. cbn [fst snd].
  destruct (lane_decode_encode items Hwf) as [_ A]. set (s := lane_run (encode_lane items)) in *.
  assert (Sf : ls_fatal s = false) by (change (la_fatal (abs_of s) = false); rewrite A; exact Hf).
  assert (Sc : ls_chips s = la_chips (lane_summary items)) by (change (la_chips (abs_of s) = la_chips (lane_summary items)); rewrite A; reflexivity).
  assert (Sd : ls_bc_already_set s = false) by (change (la_dup (abs_of s) = false); rewrite A; exact Hd).
  assert (Sne : ls_chips s <> []) by (rewrite Sc; exact Hc).
  destruct (lane_ok_iff ly (lane_number_of ly id) None None s Sf Sne) as [Hiff Hall].
  assert (Hgood : ~ lane_bad ly (lane_number_of ly id) None None s).
  { unfold lane_bad. rewrite Sc, Sd. intros [H|[H|[H|H]]].
    - destruct H as (c1 & c2 & I1 & I2 & Hne). apply Hne. rewrite (Hbc c1 I1), (Hbc c2 I2). reflexivity.
    - unfold bad_count in H. destruct ly; [|destruct H as (c & Hx & _); discriminate|destruct H as (c & Hx & _); discriminate].
      rewrite (Hib eq_refl) in H. apply H. reflexivity.
    - unfold bad_order in H. destruct ly; [|destruct H as (c & Hx & _); discriminate|destruct H as (c & Hx & _); discriminate].
      rewrite (Hib eq_refl) in H. apply H. reflexivity.
    - discriminate. }
  destruct (proj2 Hiff Hgood) as [bc' Hok]. rewrite Hok. f_equal. f_equal.
  destruct (ls_chips s) as [|c0 r] eqn:Ec; [contradiction|].
  rewrite <- (Hall bc' Hok c0 (or_introl eq_refl)). apply Hbc. rewrite <- Sc. left. reflexivity.
Qed.

Definition stave_cfg : vcfg :=
  {| v_running := true; v_target := T_stave; v_period := None; v_custom_version := None; v_chip_count := None; v_chip_orders := None |}.

(* ---- closing the readout frame of a conforming trigger packet: only the statistics message ---- *)
Lemma stave_frame_silent s rf ly st data :
  rf_frame rf = Some {| fr_start := st; fr_lanes := store_all (lane_words data) [] |} -> rf_layer rf = Some ly -> rf_fatal_lanes rf = None ->
  packet_stave_ok ly data ->
  exists fl, process_readout_frame stave_cfg s rf =
             Ok (set_rfv s (Some {| rf_frame := None; rf_in_frame := false; rf_layer := Some ly; rf_fatal_lanes := None |}), [VStats fl]).
Proof.
  intros Hfr Hly Hfat (Hne & Hsz & bc & Hrule & Hlanes).
  set (lanes := store_all (lane_words data) []) in *.
  assert (Hids : map fst lanes = lane_ids data).
  { pose proof (store_all_ids (lane_words data) []) as H. cbn [map app] in H. exact H. }
  assert (Hlne : lanes <> []).
  { intros E. destruct data as [|w data]; [contradiction|]. unfold lanes, lane_words in E. cbn [map store_all fold_left] in E.
    fold (store_all (map (fun w0 => (nb 9 w0, take 9 w0)) data) (store_lane [] (nb 9 w) (take 9 w))) in E.
    apply (f_equal (map fst)) in E. rewrite store_all_ids in E. cbn in E. discriminate. }
  assert (Hout : forall l, In l lanes -> lane_total ly None None l /\ lane_outcome ly None None l = Ok (LO_ok bc)).
  { intros [id b] Hin. destruct (stored_lane data id b Hin) as [Hid ->].
    apply lane_conf_outcome. rewrite Forall_forall in Hlanes. apply Hlanes. exact Hid. }
  assert (Htot : Forall (lane_total ly None None) lanes) by (apply Forall_forall; intros l Hl; apply (Hout l Hl)).
  unfold process_readout_frame. rewrite Hfr. cbn [fr_lanes fr_start].
  destruct lanes as [|l0 lanes'] eqn:El; [contradiction|]. rewrite <- El in *. rewrite Hly.
  destruct (check_frame_spec ly None None {| fr_start := st; fr_lanes := lanes |} Htot) as (res & Hres & Herrs & Hmis & Hnf & Hfl).
  cbn [v_chip_count v_chip_orders stave_cfg]. rewrite Hres. cbn [fr_lanes] in *.
  (* no lane error, no fatal lane, one bunch crossing *)
  assert (E1 : errs_of ly None None lanes = []).
  { apply errs_of_nil. intros (l & a & b & c & d & Hin & Ho). rewrite (proj2 (Hout l Hin)) in Ho. discriminate. }
  assert (E2 : fatal_of ly None None lanes = []).
  { unfold fatal_of. clear -Hout. induction lanes as [|x lanes IH]; [reflexivity|]. cbn [flat_map].
    rewrite (proj2 (Hout x (or_introl eq_refl))). cbn. apply IH. intros l Hl. apply Hout. right. exact Hl. }
  assert (E3 : Nat.ltb 1 (length (uniq_N [] (map snd (valid_of ly None None lanes)))) = false).
  { apply Nat.ltb_ge. apply (proj2 (uniq_len_le1 _)). intros x y Hx Hy. apply valid_of_in in Hx, Hy.
    destruct Hx as (l1 & I1 & O1), Hy as (l2 & I2 & O2). rewrite (proj2 (Hout l1 I1)) in O1. rewrite (proj2 (Hout l2 I2)) in O2.
    injection O1 as <-. injection O2 as <-. reflexivity. }
  rewrite Hnf, E2, Hfat. cbn [add_fatal_lanes].
  destruct (frame_lanes_valid_iff ly {| fr_start := st; fr_lanes := lanes |} None) as (r & Hr & Hriff).
  { cbn [fr_lanes]. cbn. rewrite <- (map_length fst lanes), Hids. lia. }
  { intros _ x []. }
  assert (Hr0 : r = None) by (apply Hriff; cbn [fr_lanes]; rewrite Hids; exact Hrule).
  subst r. assert (Hv : frame_lanes_valid ly {| fr_start := st; fr_lanes := lanes |} (if Gen.Facts.fatal_lanes_added_after_lane_check then None else None) = Ok None)
    by (destruct Gen.Facts.fatal_lanes_added_after_lane_check; exact Hr).
  rewrite Hv. rewrite Herrs, E1, Hmis, E3. cbn [app]. eexists. reflexivity.
Qed.

(* ---- word steps in stave mode ---------------------------------------------------------------------------------- *)
From FP Require Import Spec.WordLayout Spec.Grammar Spec.GrammarIts Proofs.Bits Proofs.WordFacts Proofs.C11_proofs Proofs.C12_proofs
  Proofs.C12_packet Proofs.C01_rdh Proofs.C01_its Model.RdhChecks Model.Payload Model.Scanner Model.Link.

(* the readout-frame validator of a conforming run: layer known, no lane ever announced fatal; [fr] = the open frame *)
Definition rfv_of (ly : layer) (fr : option frame) : rfv :=
  {| rf_frame := fr; rf_in_frame := match fr with Some _ => true | None => false end; rf_layer := Some ly; rf_fatal_lanes := None |}.

Definition StS (s : cdp_state) (f : fstate) (r : rdh) (ihw tdh : option (list N)) (ly : layer) (fr : option frame) : Prop :=
  cs_fsm s = f /\ cs_rdh s = Some r /\ cs_rfv s = Some (rfv_of ly fr) /\ sw_ihw (cs_words s) = ihw /\ sw_tdh (cs_words s) = tdh.

Definition quiet (m : list vmsg) : Prop := Forall (fun x => match x with VStats _ => True | VErr _ => False end) m.
Lemma quiet_nil : quiet []. Proof. constructor. Qed.
Lemma quiet_app a b : quiet a -> quiet b -> quiet (a ++ b). Proof. intros; apply Forall_app; split; assumption. Qed.

Ltac sts := unfold StS; cbn; repeat split; try assumption; try reflexivity.

Lemma sstep_ihw s f r ihw tdh ly fr w : StS s f r ihw tdh ly fr -> ihw_state f = true -> W_ihw w -> r_stop_bit r = 0 ->
  exists s', cdp_check stave_cfg s w = Ok (s', []) /\ StS s' S_TDH_ByIhw r (Some w) tdh ly fr.
Proof.
  intros (Hf & Hr & Hv & Hi & Ht) Hst [Hw Hok] Hstop.
  assert (Hid : nb 9 w = 224) by (rewrite (nb9_id w Hw); apply Hok).
  assert (Hsan : ihw_sanity w = []) by (apply (c11_ihw w Hw); exact Hok).
  unfold cdp_check. cbn [cs_fsm set_counter]. rewrite Hf.
  assert (Hadv : advance f w = (S_TDH_ByIhw, F_ok P_IHW)).
  { unfold advance, advance_k. rewrite Hid. destruct f; try discriminate; reflexivity. }
  rewrite Hadv. unfold preprocess_ihw, sanity_msgs. rewrite Hsan. cbn [app].
  unfold check_rdh_at_initial_ihw, cur_rdh. cbn [cs_rdh set_words set_fsm set_counter]. rewrite Hr, Hstop.
  cbn [N.eqb negb v_running stave_cfg]. eexists; (split; [reflexivity|]); sts.
Qed.

Lemma sstep_ihw_cont s r ihw tdh ly fr w : StS s S_cIHW r ihw tdh ly fr -> W_ihw w ->
  exists s', cdp_check stave_cfg s w = Ok (s', []) /\ StS s' S_cTDH r (Some w) tdh ly fr.
Proof.
  intros (Hf & Hr & Hv & Hi & Ht) [Hw Hok].
  assert (Hsan : ihw_sanity w = []) by (apply (c11_ihw w Hw); exact Hok).
  unfold cdp_check. cbn [cs_fsm set_counter]. rewrite Hf.
  change (advance S_cIHW w) with (S_cTDH, F_ok P_IHW_cont).
  unfold preprocess_ihw, sanity_msgs. rewrite Hsan. eexists; (split; [reflexivity|]); sts.
Qed.

(* a TDH that is not a continuation opens the readout frame unless one is open *)
Definition open_frame (s : cdp_state) (fr : option frame) : option frame :=
  match fr with Some x => Some x | None => Some {| fr_start := word_pos s; fr_lanes := [] |} end.

Definition opened_by (s : cdp_state) (w : list N) (fr : option frame) : frame :=
  match fr with
  | Some x => x
  | None => {| fr_start := word_pos (set_words s (replace_tdh (cs_words s) w)); fr_lanes := [] |}
  end.

Lemma pre_tdh_open s w ly fr : cs_rfv s = Some (rfv_of ly fr) -> tdh_sanity w = [] -> tdh_continuation w = 0 ->
  exists s1, preprocess_tdh s w = (s1, []) /\ cs_fsm s1 = cs_fsm s /\ cs_rdh s1 = cs_rdh s /\
             cs_words s1 = replace_tdh (cs_words s) w /\ cs_rfv s1 = Some (rfv_of ly (Some (opened_by s w fr))).
Proof.
  intros Hv Hsan Hc. unfold preprocess_tdh, sanity_msgs. rewrite Hsan. cbn [set_words cs_rfv]. rewrite Hv.
  destruct fr as [x|]; cbn [rfv_of rf_in_frame negb andb opened_by].
  - eexists. split; [reflexivity|]. cbn. auto.
  - rewrite Hc. cbn [N.eqb]. eexists. split; [reflexivity|]. cbn. auto.
Qed.

(* the first TDH of a page / a TDH after a completed packet: as in the ITS tier, and the readout frame is open afterwards *)
Lemma sstep_tdh_first s r ihw tdh ly fr w nodata :
  StS s S_TDH_ByIhw r ihw tdh ly fr -> W_tdh w -> (nodata = 0 \/ nodata = 1) ->
  tdh_f_cont w = 0 -> tdh_f_nodata w = nodata -> tdh_f_orbit w = r_orbit r ->
  (r_pages_counter r = 0 -> (tdh_f_internal w = 1 \/ N.testbit (r_trigger_type r) 4 = true) ->
     tdh_f_bc w = rdh_bc r /\ tdh_f_type w = N.land (r_trigger_type r) 4095) ->
  exists s' x, cdp_check stave_cfg s w = Ok (s', []) /\ StS s' (after_tdh nodata) r ihw (Some w) ly (Some x) /\
               (forall y, fr = Some y -> x = y) /\ (fr = None -> fr_lanes x = []).
Proof.
  intros (Hf & Hr & Hv & Hi & Ht) Hw Hnd Hc Hn Ho Hfirst.
  destruct (tdh_word_facts w Hw) as (Hid & Hsan & Hsl & Hcont & Horb & Hbc & Hty & Hint).
  unfold cdp_check. cbn [cs_fsm set_counter]. rewrite Hf.
  assert (Hadv : advance S_TDH_ByIhw w = (after_tdh nodata, F_ok P_TDH)).
  { unfold advance, advance_k, after_tdh. rewrite Hsl, Hn. destruct Hnd as [-> | ->]; reflexivity. }
  rewrite Hadv.
  set (s0 := set_fsm (set_counter s (wrap16 (cs_counter s + 1))) (after_tdh nodata)).
  assert (Hv0 : cs_rfv s0 = Some (rfv_of ly fr)) by exact Hv.
  destruct (pre_tdh_open s0 w ly fr Hv0 Hsan (eq_trans Hcont Hc)) as (s1 & E1 & F1 & R1 & W1 & V1).
  rewrite E1. cbn [app v_running stave_cfg].
  unfold check_tdh_no_continuation, check_tdh_trigger_interval, cur_rdh. cbn [v_period stave_cfg].
  rewrite R1. cbn [cs_rdh s0 set_fsm set_counter]. rewrite Hr.
  rewrite Hcont, Hc, Horb, Ho, !N.eqb_refl. cbn [N.eqb negb app].
  assert (Hrest : (if (r_pages_counter r =? 0) && ((tdh_internal_trigger w =? 1) || rdh_is_pht r)
                   then (if negb (tdh_trigger_bc w =? rdh_bc r) then [werr s1 445 w] else []) ++
                        (if negb (N.land (r_trigger_type r) 4095 =? tdh_trigger_type w) then [werr s1 44 w] else [])
                   else []) = []).
  { destruct (N.eqb_spec (r_pages_counter r) 0) as [Hp|Hp]; [|reflexivity]. cbn [andb].
    destruct ((tdh_internal_trigger w =? 1) || rdh_is_pht r) eqn:Hcond; [|reflexivity].
    assert (Hpre : tdh_f_internal w = 1 \/ N.testbit (r_trigger_type r) 4 = true).
    { apply orb_true_iff in Hcond. destruct Hcond as [Hc1|Hc1]; [left; apply N.eqb_eq in Hc1; rewrite <- Hint; exact Hc1|right].
      unfold rdh_is_pht in Hc1. rewrite pht_bit in Hc1. exact Hc1. }
    destruct (Hfirst Hp Hpre) as [Hb Htt]. rewrite Hbc, Hb, Hty, Htt, !N.eqb_refl. reflexivity. }
  rewrite Hrest. exists s1, (opened_by s0 w fr). split; [reflexivity|]. split.
  - unfold StS. rewrite F1, R1, V1, W1. cbn. repeat split; try assumption.
  - split; [intros y ->; reflexivity|intros ->; reflexivity].
Qed.

Lemma sstep_tdh_after s f r ihw prev ly fr w nodata :
  StS s f r ihw (Some prev) ly fr -> is_choice_state f = true -> W_tdh w -> W_tdh prev -> (nodata = 0 \/ nodata = 1) ->
  tdh_f_cont w = 0 -> tdh_f_nodata w = nodata -> tdh_f_bc prev <= tdh_f_bc w ->
  exists s' x, cdp_check stave_cfg s w = Ok (s', []) /\ StS s' (after_tdh nodata) r ihw (Some w) ly (Some x) /\
               (forall y, fr = Some y -> x = y) /\ (fr = None -> fr_lanes x = []).
Proof.
  intros (Hf & Hr & Hv & Hi & Ht) Hst Hw Hpw Hnd Hc Hn Hle.
  destruct (tdh_word_facts w Hw) as (Hid & Hsan & Hsl & Hcont & Horb & Hbc & Hty & Hint).
  destruct (tdh_word_facts prev Hpw) as (_ & _ & _ & _ & _ & Hbcp & _ & _).
  unfold cdp_check. cbn [cs_fsm set_counter]. rewrite Hf.
  assert (Hadv : advance f w = (after_tdh nodata, F_ok P_TDH_after_done)).
  { unfold advance, advance_k, choice_arm, after_tdh. rewrite Hid, Hsl, Hn.
    destruct f; try discriminate; destruct Hnd as [-> | ->]; reflexivity. }
  rewrite Hadv.
  set (s0 := set_fsm (set_counter s (wrap16 (cs_counter s + 1))) (after_tdh nodata)).
  assert (Hv0 : cs_rfv s0 = Some (rfv_of ly fr)) by exact Hv.
  destruct (pre_tdh_open s0 w ly fr Hv0 Hsan (eq_trans Hcont Hc)) as (s1 & E1 & F1 & R1 & W1 & V1).
  rewrite E1. cbn [app v_running stave_cfg].
  unfold check_tdh_after_done, check_tdh_trigger_interval. cbn [v_period stave_cfg]. rewrite W1.
  cbn [replace_tdh sw_prev_tdh cs_words s0 set_fsm set_counter]. rewrite Ht.
  rewrite Hcont, Hc. cbn [N.eqb negb andb app].
  rewrite Hbc, Hbcp. assert (Hlt : (tdh_f_bc w <? tdh_f_bc prev) = false) by (apply N.ltb_ge; exact Hle). rewrite Hlt.
  rewrite andb_false_r. cbn [app].
  exists s1, (opened_by s0 w fr). split; [reflexivity|]. split.
  - unfold StS. rewrite F1, R1, V1, W1. cbn. repeat split; try assumption.
  - split; [intros y ->; reflexivity|intros ->; reflexivity].
Qed.

Lemma sstep_tdh_cont s r ihw prev ly fr w :
  StS s S_cTDH r ihw (Some prev) ly fr -> W_tdh w -> W_tdh prev ->
  tdh_f_cont w = 1 -> tdh_f_bc w = tdh_f_bc prev -> tdh_f_orbit w = tdh_f_orbit prev -> tdh_f_type w = tdh_f_type prev ->
  exists s', cdp_check stave_cfg s w = Ok (s', []) /\ StS s' S_cDATA_ByNext r ihw (Some w) ly fr.
Proof.
  intros (Hf & Hr & Hv & Hi & Ht) Hw Hpw Hc Hb Ho Hty'.
  destruct (tdh_word_facts w Hw) as (Hid & Hsan & Hsl & Hcont & Horb & Hbc & Hty & Hint).
  destruct (tdh_word_facts prev Hpw) as (_ & _ & _ & _ & Horbp & Hbcp & Htyp & _).
  unfold cdp_check. cbn [cs_fsm set_counter]. rewrite Hf.
  change (advance S_cTDH w) with (S_cDATA_ByNext, F_ok P_TDH_cont).
  unfold preprocess_tdh, sanity_msgs. rewrite Hsan. cbn [set_fsm set_words cs_rfv set_counter]. rewrite Hv.
  assert (Hnoopen : negb (rf_in_frame (rfv_of ly fr)) && (tdh_continuation w =? 0) = false).
  { rewrite Hcont, Hc. cbn [N.eqb]. apply andb_false_r. }
  rewrite Hnoopen. cbn [app v_running stave_cfg].
  unfold check_tdh_continuation. cbn [cs_words set_words set_fsm set_counter replace_tdh sw_prev_tdh]. rewrite Ht.
  rewrite Hcont, Hc, Hbc, Hbcp, Hb, Horb, Horbp, Ho, Hty, Htyp, Hty', !N.eqb_refl. cbn [negb app].
  eexists. split; [reflexivity|]. sts.
Qed.

(* a data word is stored in the open frame *)
Lemma sstep_data s f r ihw tdh ly x w :
  StS s f r (Some ihw) tdh ly (Some x) -> is_data_state f = true -> W_ihw ihw -> W_data (ihw_f_lanes ihw) w ->
  exists s', cdp_check stave_cfg s w = Ok (s', []) /\
             StS s' (after_data f) r (Some ihw) tdh ly (Some {| fr_start := fr_start x; fr_lanes := store_lane (fr_lanes x) (nb 9 w) (take 9 w) |}).
Proof.
  intros (Hf & Hr & Hv & Hi & Ht) Hst [Hiw _] [Hw Hverd].
  assert (Hid9 : nb 9 w = id_of w) by (apply nb9_id; exact Hw).
  assert (Hvalid : valid_data_id (nb 9 w) = true).
  { rewrite Hid9. unfold data_word_verdict in Hverd. destruct (valid_data_id (id_of w)); [reflexivity|discriminate]. }
  pose proof (data_id_facts_all (nb 9 w) (nb_lt w 9 Hw)) as Hfacts. unfold data_id_facts in Hfacts. rewrite Hvalid in Hfacts.
  cbn [implb] in Hfacts. rewrite !andb_true_iff in Hfacts. destruct Hfacts as (((((P1 & P2) & P3) & P4) & Pc) & Pv).
  pose proof (id_facts_all (nb 9 w) (nb_lt w 9 Hw)) as Hidf. unfold id_facts in Hidf. rewrite !andb_true_iff in Hidf.
  destruct Hidf as (((((_ & Hil) & Hol) & _) & _) & _).
  unfold cdp_check. cbn [cs_fsm set_counter]. rewrite Hf.
  assert (Hadv : advance f w = (after_data f, F_ok P_Data)).
  { unfold advance, advance_k, data_arm. destruct f; try discriminate; cbn [after_data]; rewrite ?P1, ?P2, ?P3, ?P4; reflexivity. }
  rewrite Hadv. unfold preprocess_data_word.
  apply negb_true_iff in Pc. rewrite Pc, andb_false_r. rewrite Pv.
  assert (Hcodes : data_word_codes true w (ihw_active_lanes ihw) = []).
  { rewrite (c11_data_valid true w _ Hw Hvalid). rewrite (ihw_active_lanes_spec ihw Hiw). rewrite Hid9. exact Hverd. }
  unfold data_word_codes in Hcodes. rewrite Pv in Hcodes. cbn [app negb] in Hcodes.
  unfold store_data, active_lanes_of. cbn [cs_rfv cs_words set_fsm set_counter]. rewrite Hv, Hi.
  cbn [v_running stave_cfg negb orb rfv_of rf_frame].
  (* a valid identifier is of the inner (1) or outer (2) class *)
  assert (Hcls : (N.shiftr (nb 9 w) 5 =? 1) || (N.shiftr (nb 9 w) 5 =? 2) = true).
  { unfold valid_data_id in Hvalid. destruct (valid_il (nb 9 w)) eqn:E.
    - cbn [implb] in Hil. rewrite !andb_true_iff in Hil. destruct Hil as ((A & _) & _). rewrite A. reflexivity.
    - cbn [orb] in Hvalid. rewrite Hvalid in Hol. cbn [implb] in Hol. rewrite !andb_true_iff in Hol.
      destruct Hol as ((((A & _) & _) & _) & _). rewrite A. apply orb_true_r. }
  rewrite Hcls. cbn [negb].
  destruct (N.shiftr (nb 9 w) 5 =? 1) eqn:E1.
  - destruct (is_lane_active (ib_id_to_lane (nb 9 w)) (ihw_active_lanes ihw)); [|discriminate].
    eexists. split; [reflexivity|]. sts.
  - destruct (N.shiftr (nb 9 w) 5 =? 2) eqn:E2; [|discriminate].
    destruct (is_lane_active (ob_id_to_lane (nb 9 w)) (ihw_active_lanes ihw)); [|discriminate].
    destruct (6 <? ob_id_to_input (nb 9 w)); [discriminate|]. eexists. split; [reflexivity|]. sts.
Qed.

Lemma srun_data : forall d s f r ihw tdh ly x acc,
  StS s f r (Some ihw) tdh ly (Some x) -> is_data_state f = true -> W_ihw ihw -> Forall (W_data (ihw_f_lanes ihw)) d ->
  forall rest, exists s' f', cdp_words stave_cfg s (d ++ rest) acc = cdp_words stave_cfg s' rest acc /\
                             StS s' f' r (Some ihw) tdh ly (Some {| fr_start := fr_start x; fr_lanes := store_all (lane_words d) (fr_lanes x) |}) /\
                             is_data_state f' = true.
Proof.
  induction d as [|w d IH]; intros s f r ihw tdh ly x acc Hs Hf Hi Hd rest.
  - exists s, f. cbn. destruct x. auto.
  - inversion Hd as [|? ? Hw Hd']; subst.
    destruct (sstep_data s f r ihw tdh ly x w Hs Hf Hi Hw) as [s1 [E1 S1]].
    cbn [app cdp_words]. rewrite E1, app_nil_r.
    assert (Hf1 : is_data_state (after_data f) = true) by (destruct f; try discriminate; reflexivity).
    destruct (IH s1 (after_data f) r ihw tdh ly _ acc S1 Hf1 Hi Hd' rest) as [s2 [f2 [E2 [S2 F2]]]].
    exists s2, f2. split; [exact E2|]. split; [|exact F2]. exact S2.
Qed.

(* a TDT that does not close the packet leaves the frame as it is; one that does closes a conforming frame quietly *)
Lemma sstep_tdt0 s f r ihw tdh ly fr w :
  StS s f r ihw tdh ly fr -> is_data_state f = true -> W_tdt w -> tdt_f_done w = 0 ->
  exists s', cdp_check stave_cfg s w = Ok (s', []) /\ StS s' S_cIHW r ihw tdh ly fr.
Proof.
  intros (Hf & Hr & Hv & Hi & Ht) Hst [Hw Hok] Hdone.
  assert (Hid : nb 9 w = 240) by (rewrite (nb9_id w Hw); apply Hok).
  assert (Hsan : tdt_sanity w = []) by (apply (c11_tdt w Hw); exact Hok).
  assert (Hsl : sl_tdt_packet_done w = false) by (rewrite (sl_tdt_packet_done_spec w Hw); unfold tdt_f_done in Hdone; rewrite Hdone; reflexivity).
  assert (Hpd : tdt_packet_done w = false) by (rewrite (tdt_packet_done_spec w Hw); unfold tdt_f_done in Hdone; rewrite Hdone; reflexivity).
  destruct tdt_not_data as (Q1 & Q2 & Q3 & Q4).
  unfold cdp_check. cbn [cs_fsm set_counter]. rewrite Hf.
  assert (Hadv : advance f w = (S_cIHW, F_ok P_TDT)).
  { unfold advance, advance_k, data_arm. rewrite Hid, Hsl. destruct f; try discriminate; rewrite ?Q1, ?Q2, ?Q3, ?Q4; reflexivity. }
  rewrite Hadv. unfold preprocess_tdt, sanity_msgs. rewrite Hsan. cbn [set_fsm set_words cs_rfv set_counter]. rewrite Hv, Hpd.
  eexists. split; [reflexivity|]. sts.
Qed.

Lemma sstep_tdt1 s f r ihw tdh ly st data w :
  StS s f r ihw tdh ly (Some {| fr_start := st; fr_lanes := store_all (lane_words data) [] |}) -> is_data_state f = true ->
  W_tdt w -> tdt_f_done w = 1 -> packet_stave_ok ly data ->
  exists s' m, cdp_check stave_cfg s w = Ok (s', m) /\ quiet m /\ StS s' S_Choice_ByTdtDone r ihw tdh ly None.
Proof.
  intros (Hf & Hr & Hv & Hi & Ht) Hst [Hw Hok] Hdone Hpk.
  assert (Hid : nb 9 w = 240) by (rewrite (nb9_id w Hw); apply Hok).
  assert (Hsan : tdt_sanity w = []) by (apply (c11_tdt w Hw); exact Hok).
  assert (Hsl : sl_tdt_packet_done w = true) by (rewrite (sl_tdt_packet_done_spec w Hw); unfold tdt_f_done in Hdone; rewrite Hdone; reflexivity).
  assert (Hpd : tdt_packet_done w = true) by (rewrite (tdt_packet_done_spec w Hw); unfold tdt_f_done in Hdone; rewrite Hdone; reflexivity).
  destruct tdt_not_data as (Q1 & Q2 & Q3 & Q4).
  unfold cdp_check. cbn [cs_fsm set_counter]. rewrite Hf.
  assert (Hadv : advance f w = (S_Choice_ByTdtDone, F_ok P_TDT)).
  { unfold advance, advance_k, data_arm. rewrite Hid, Hsl. destruct f; try discriminate; rewrite ?Q1, ?Q2, ?Q3, ?Q4; reflexivity. }
  rewrite Hadv. unfold preprocess_tdt, sanity_msgs. rewrite Hsan. cbn [set_fsm set_words cs_rfv set_counter]. rewrite Hv, Hpd.
  set (s1 := set_words (set_fsm (set_counter s (wrap16 (cs_counter s + 1))) S_Choice_ByTdtDone)
                       (replace_tdt (cs_words (set_fsm (set_counter s (wrap16 (cs_counter s + 1))) S_Choice_ByTdtDone)) w)).
  destruct (stave_frame_silent s1 (rfv_of ly (Some {| fr_start := st; fr_lanes := store_all (lane_words data) [] |})) ly st data
              eq_refl eq_refl eq_refl Hpk) as [fl Efl].
  rewrite Efl. cbn [app]. eexists. eexists. split; [reflexivity|]. split; [constructor; [exact Logic.I|constructor]|].
  unfold StS, s1. cbn. repeat split; assumption.
Qed.

Lemma sstep_ddw0 s f r ihw tdh ly fr w :
  StS s f r ihw tdh ly fr -> is_choice_state f = true -> W_ddw0 w -> r_stop_bit r = 1 -> r_pages_counter r <> 0 ->
  exists s', cdp_check stave_cfg s w = Ok (s', []) /\ StS s' S_IHW_ByDdw0 r ihw tdh ly fr.
Proof.
  intros (Hf & Hr & Hv & Hi & Ht) Hst [Hw Hok] Hstop Hpg.
  assert (Hid : nb 9 w = 228) by (rewrite (nb9_id w Hw); apply Hok).
  assert (Hsan : ddw0_sanity w = []) by (apply (c11_ddw0 w Hw); exact Hok).
  unfold cdp_check. cbn [cs_fsm set_counter]. rewrite Hf.
  assert (Hadv : advance f w = (S_IHW_ByDdw0, F_ok P_DDW0)).
  { unfold advance, advance_k, choice_arm. rewrite Hid. destruct f; try discriminate; reflexivity. }
  rewrite Hadv. unfold preprocess_ddw0, sanity_msgs, cur_rdh. rewrite Hsan. cbn [cs_rdh set_fsm set_counter]. rewrite Hr, Hstop.
  apply N.eqb_neq in Hpg. rewrite Hpg. cbn [N.eqb negb app v_running stave_cfg].
  eexists; (split; [reflexivity|]); sts.
Qed.

(* ---- trigger packets and their readout frames over the items of the pages ---- *)
Lemma store_all_app a d acc : store_all (lane_words (a ++ d)) acc = store_all (lane_words d) (store_all (lane_words a) acc).
Proof. unfold store_all, lane_words. rewrite map_app, fold_left_app. reflexivity. Qed.

(* the data words of a trigger packet, collected over its pieces; a completed packet must be stave-conforming *)
Inductive stave_items (ly : layer) : list (list N) -> list pitem -> list (list N) -> Prop :=
| SI_nil acc : stave_items ly acc [] acc
| SI_nodata t r acc' : stave_items ly [] r acc' -> stave_items ly [] (PI_nodata t :: r) acc'
| SI_frame t d e r acc' : packet_stave_ok ly d -> stave_items ly [] r acc' -> stave_items ly [] (PI_frame t d e :: r) acc'
| SI_open t d e r acc' : stave_items ly d r acc' -> stave_items ly [] (PI_open t d e :: r) acc'
| SI_cont acc t d e r acc' : stave_items ly (acc ++ d) r acc' -> stave_items ly acc (PI_cont t d e :: r) acc'
| SI_close acc t d e r acc' : packet_stave_ok ly (acc ++ d) -> stave_items ly [] r acc' -> stave_items ly acc (PI_close t d e :: r) acc'.

(* the open readout frame between items: outside a packet it is closed or empty; inside it holds the lanes collected so far *)
Definition FrOut (fr : option frame) : Prop := match fr with None => True | Some x => fr_lanes x = [] end.
Definition FrIn (acc : list (list N)) (fr : option frame) : Prop := exists x, fr = Some x /\ fr_lanes x = store_all (lane_words acc) [].

Lemma stave_items_nil ly acc acc' : stave_items ly acc [] acc' -> acc' = acc.
Proof. intros H. inversion H. reflexivity. Qed.

Section ItemsS.
  Context (h : hbf_desc) (r : rdh) (ihw : list N) (ly : layer).
  Context (Hihw : W_ihw ihw) (Horb : r_orbit r = h_orbit h) (Hbc : rdh_bc r = h_bc h) (Htrig : r_trigger_type r = h_trigger h).

  Definition entryS (prev opened : option (list N)) (s : cdp_state) (fr : option frame) : Prop :=
    match opened, prev with
    | Some o, _ => StS s S_cTDH r (Some ihw) (Some o) ly fr /\ W_tdh o
    | None, Some p => exists f, is_choice_state f = true /\ StS s f r (Some ihw) (Some p) ly fr /\ W_tdh p
    | None, None => exists t, StS s S_TDH_ByIhw r (Some ihw) t ly fr
    end.
  Definition leaveS (out : option (list N)) (s : cdp_state) (fr : option frame) : Prop :=
    match out with
    | Some t => StS s S_cIHW r (Some ihw) (Some t) ly fr /\ W_tdh t
    | None => exists f p, is_choice_state f = true /\ StS s f r (Some ihw) (Some p) ly fr /\ W_tdh p
    end.

  Lemma sstart_tdh first prev nodata t s fr : (nodata = 0 \/ nodata = 1) ->
    tdh_start_ok h first nodata t -> (forall p, prev = Some p -> tdh_f_bc p <= tdh_f_bc t) ->
    (prev = None -> r_pages_counter r = 0 -> first = true) -> entryS prev None s fr -> FrOut fr ->
    exists s' x, cdp_check stave_cfg s t = Ok (s', []) /\ StS s' (after_tdh nodata) r (Some ihw) (Some t) ly (Some x) /\ fr_lanes x = [].
  Proof.
    intros Hnd Ht Hle Hfirst He Hfo. destruct Ht as (Hw & Hc & Hn & Ho & Hf). unfold entryS in He. destruct prev as [p|].
    - destruct He as (f & Hch & Hs & Hp).
      destruct (sstep_tdh_after s f r (Some ihw) p ly fr t nodata Hs Hch Hw Hp Hnd Hc Hn (Hle p eq_refl)) as (s' & x & E & S & X1 & X2).
      exists s', x. split; [exact E|]. split; [exact S|]. destruct fr as [y|]; [rewrite (X1 y eq_refl); exact Hfo|apply X2; reflexivity].
    - destruct He as (t0 & Hs).
      destruct (sstep_tdh_first s r (Some ihw) t0 ly fr t nodata Hs Hw Hnd Hc Hn) as (s' & x & E & S & X1 & X2).
      + rewrite Horb. exact Ho.
      + intros Hp Hcond. rewrite Hbc, Htrig. apply Hf; [apply Hfirst; auto|]. rewrite <- Htrig. exact Hcond.
      + exists s', x. split; [exact E|]. split; [exact S|]. destruct fr as [y|]; [rewrite (X1 y eq_refl); exact Hfo|apply X2; reflexivity].
  Qed.

  (* data words and the closing TDT of a piece *)
  Lemma spiece_open s f tdh x d e : StS s f r (Some ihw) tdh ly (Some x) -> is_data_state f = true ->
    Forall (W_data (ihw_f_lanes ihw)) d -> tdt_ok_done 0 e ->
    forall acc rest, exists s', cdp_words stave_cfg s ((d ++ [e]) ++ rest) acc = cdp_words stave_cfg s' rest acc /\
      StS s' S_cIHW r (Some ihw) tdh ly (Some {| fr_start := fr_start x; fr_lanes := store_all (lane_words d) (fr_lanes x) |}).
  Proof.
    intros Hs Hf Hd He acc rest. destruct He as [Hw Hdone]. rewrite <- app_assoc.
    destruct (srun_data d s f r ihw tdh ly x acc Hs Hf Hihw Hd ([e] ++ rest)) as [s1 [f1 [E1 [S1 F1]]]].
    rewrite E1. destruct (sstep_tdt0 s1 f1 r (Some ihw) tdh ly _ e S1 F1 Hw Hdone) as [s2 [E2 S2]].
    cbn [app cdp_words]. rewrite E2, app_nil_r. exists s2. auto.
  Qed.

  Lemma spiece_close s f tdh x d e all : StS s f r (Some ihw) tdh ly (Some x) -> is_data_state f = true ->
    Forall (W_data (ihw_f_lanes ihw)) d -> tdt_ok_done 1 e ->
    store_all (lane_words d) (fr_lanes x) = store_all (lane_words all) [] -> packet_stave_ok ly all ->
    forall acc rest, exists s' m, cdp_words stave_cfg s ((d ++ [e]) ++ rest) acc = cdp_words stave_cfg s' rest (acc ++ m) /\ quiet m /\
      StS s' S_Choice_ByTdtDone r (Some ihw) tdh ly None.
  Proof.
    intros Hs Hf Hd He Hall Hpk acc rest. destruct He as [Hw Hdone]. rewrite <- app_assoc.
    destruct (srun_data d s f r ihw tdh ly x acc Hs Hf Hihw Hd ([e] ++ rest)) as [s1 [f1 [E1 [S1 F1]]]].
    rewrite E1. rewrite Hall in S1.
    destruct (sstep_tdt1 s1 f1 r (Some ihw) tdh ly _ all e S1 F1 Hw Hdone Hpk) as [s2 [m [E2 [Q2 S2]]]].
    cbn [app cdp_words]. rewrite E2. exists s2, m. auto.
  Qed.

  Definition frame_in (opened : option (list N)) (acc : list (list N)) (fr : option frame) : Prop :=
    match opened with None => FrOut fr /\ acc = [] | Some _ => FrIn acc fr end.

  Lemma srun_items : forall first prev opened items out,
    items_ok h (ihw_f_lanes ihw) first prev opened items out ->
    forall acc acc' s fr macc rest, stave_items ly acc items acc' ->
      (prev = None -> opened = None -> r_pages_counter r = 0 -> first = true) ->
      entryS prev opened s fr -> frame_in opened acc fr -> items <> [] ->
      exists s' fr' m, cdp_words stave_cfg s (flat_map item_words items ++ rest) macc = cdp_words stave_cfg s' rest (macc ++ m) /\
                       quiet m /\ leaveS out s' fr' /\ frame_in out acc' fr'.
  Proof.
    intros first prev opened items out H.
    induction H as [first prev
                   |first prev t rr out Ht Hle Hr IH
                   |first prev t d e rr out Ht Hle Hd He Hr IH
                   |first prev t d e Ht Hle Hd He
                   |o t d e Ht Hd He
                   |o t d e rr out Ht Hd He Hr IH]; intros acc acc' s fr macc rest Hst Hfirst Hen Hfr Hne.
    - contradiction.
    - (* no-data TDH *)
      destruct Hfr as [Hfo ->]. inversion Hst as [| ? ? ? Hst' | | | |]; subst.
      destruct (sstart_tdh first prev 1 t s fr (or_intror eq_refl) Ht Hle (fun P => Hfirst P eq_refl) Hen Hfo) as (s1 & x & E1 & S1 & X1).
      cbn [flat_map item_words app cdp_words]. rewrite E1, app_nil_r.
      assert (En : entryS (Some t) None s1 (Some x)) by (cbn [entryS]; exists S_Choice_ByNoDataTrue; split; [reflexivity|split; [exact S1|apply Ht]]).
      destruct rr as [|i rr].
      + inversion Hr; subst. apply stave_items_nil in Hst'. subst acc'. exists s1, (Some x), []. rewrite app_nil_r. split; [reflexivity|]. split; [apply quiet_nil|].
        split; [cbn [leaveS]; exists S_Choice_ByNoDataTrue, t; split; [reflexivity|split; [exact S1|apply Ht]]|]. split; [exact X1|reflexivity].
      + apply (IH [] acc' s1 (Some x) macc rest Hst'); [intros X; discriminate|exact En|split; [exact X1|reflexivity]|discriminate].
    - (* a whole trigger packet *)
      destruct Hfr as [Hfo ->]. inversion Hst as [| | ? ? ? ? ? Hpk Hst' | | |]; subst.
      destruct (sstart_tdh first prev 0 t s fr (or_introl eq_refl) Ht Hle (fun P => Hfirst P eq_refl) Hen Hfo) as (s1 & x & E1 & S1 & X1).
      cbn [flat_map item_words]. rewrite <- app_assoc. cbn [app cdp_words]. rewrite E1, app_nil_r.
      destruct (spiece_close s1 _ _ x d e d S1 eq_refl Hd He ltac:(rewrite X1; reflexivity) Hpk macc (flat_map item_words rr ++ rest)) as (s2 & m2 & E2 & Q2 & S2).
      rewrite E2.
      assert (En : entryS (Some t) None s2 None) by (cbn [entryS]; exists S_Choice_ByTdtDone; split; [reflexivity|split; [exact S2|apply Ht]]).
      destruct rr as [|i rr].
      + inversion Hr; subst. apply stave_items_nil in Hst'. subst acc'. exists s2, None, m2. split; [reflexivity|]. split; [exact Q2|].
        split; [cbn [leaveS]; exists S_Choice_ByTdtDone, t; split; [reflexivity|split; [exact S2|apply Ht]]|]. split; [exact Logic.I|reflexivity].
      + destruct (IH [] acc' s2 None (macc ++ m2) rest Hst' ltac:(intros X; discriminate) En ltac:(split; [exact Logic.I|reflexivity]) ltac:(discriminate))
          as (s3 & fr3 & m3 & E3 & Q3 & L3 & F3).
        exists s3, fr3, (m2 ++ m3). rewrite app_assoc. split; [exact E3|]. split; [apply quiet_app; assumption|]. split; assumption.
    - (* a packet left open at the end of the page *)
      destruct Hfr as [Hfo ->]. inversion Hst as [| | | ? ? ? ? ? Hst' | |]; subst. apply stave_items_nil in Hst'. subst acc'.
      destruct (sstart_tdh first prev 0 t s fr (or_introl eq_refl) Ht Hle (fun P => Hfirst P eq_refl) Hen Hfo) as (s1 & x & E1 & S1 & X1).
      cbn [flat_map item_words app]. rewrite app_nil_r. cbn [app cdp_words]. rewrite E1, app_nil_r.
      destruct (spiece_open s1 _ _ x d e S1 eq_refl Hd He macc rest) as (s2 & E2 & S2).
      rewrite E2. exists s2, (Some {| fr_start := fr_start x; fr_lanes := store_all (lane_words d) (fr_lanes x) |}), [].
      rewrite app_nil_r. split; [reflexivity|]. split; [apply quiet_nil|]. split; [split; [exact S2|apply Ht]|].
      cbn [frame_in]. eexists. split; [reflexivity|]. cbn [fr_lanes]. rewrite X1. reflexivity.
    - (* a middle piece *)
      destruct Hen as [Hs Ho]. destruct Ht as (Hw & Hc & Hn & Hb & Hob & Hty). destruct Hfr as (x & -> & Hx).
      inversion Hst as [| | | | ? ? ? ? ? ? Hst' |]; subst. apply stave_items_nil in Hst'. subst acc'.
      destruct (sstep_tdh_cont s r (Some ihw) o ly (Some x) t Hs Hw Ho Hc Hb Hob Hty) as [s1 [E1 S1]].
      cbn [flat_map item_words app]. rewrite app_nil_r. cbn [app cdp_words]. rewrite E1, app_nil_r.
      destruct (spiece_open s1 _ _ x d e S1 eq_refl Hd He macc rest) as (s2 & E2 & S2).
      rewrite E2. exists s2, (Some {| fr_start := fr_start x; fr_lanes := store_all (lane_words d) (fr_lanes x) |}), [].
      rewrite app_nil_r. split; [reflexivity|]. split; [apply quiet_nil|]. split; [split; [exact S2|exact Hw]|].
      cbn [frame_in]. eexists. split; [reflexivity|]. cbn [fr_lanes]. rewrite Hx, store_all_app. reflexivity.
    - (* the last piece, possibly followed by further packets *)
      destruct Hen as [Hs Ho]. destruct Ht as (Hw & Hc & Hn & Hb & Hob & Hty). destruct Hfr as (x & -> & Hx).
      inversion Hst as [| | | | | ? ? ? ? ? ? Hpk Hst']; subst.
      destruct (sstep_tdh_cont s r (Some ihw) o ly (Some x) t Hs Hw Ho Hc Hb Hob Hty) as [s1 [E1 S1]].
      cbn [flat_map item_words]. rewrite <- app_assoc. cbn [app cdp_words]. rewrite E1, app_nil_r.
      destruct (spiece_close s1 _ _ x d e (acc ++ d) S1 eq_refl Hd He ltac:(rewrite Hx, store_all_app; reflexivity) Hpk macc (flat_map item_words rr ++ rest))
        as (s2 & m2 & E2 & Q2 & S2).
      rewrite E2.
      assert (En : entryS (Some t) None s2 None) by (cbn [entryS]; exists S_Choice_ByTdtDone; split; [reflexivity|split; [exact S2|exact Hw]]).
      destruct rr as [|i rr].
      + inversion Hr; subst. apply stave_items_nil in Hst'. subst acc'. exists s2, None, m2. split; [reflexivity|]. split; [exact Q2|].
        split; [cbn [leaveS]; exists S_Choice_ByTdtDone, t; split; [reflexivity|split; [exact S2|exact Hw]]|]. split; [exact Logic.I|reflexivity].
      + destruct (IH [] acc' s2 None (macc ++ m2) rest Hst' ltac:(intros X; discriminate) En ltac:(split; [exact Logic.I|reflexivity]) ltac:(discriminate))
          as (s3 & fr3 & m3 & E3 & Q3 & L3 & F3).
        exists s3, fr3, (m2 ++ m3). rewrite app_assoc. split; [exact E3|]. split; [apply quiet_app; assumption|]. split; assumption.
  Qed.
End ItemsS.

(* ---- pages in stave mode ---- *)
Definition mk_rfv (fr : option frame) (lyo : option layer) : rfv :=
  {| rf_frame := fr; rf_in_frame := match fr with Some _ => true | None => false end; rf_layer := lyo; rf_fatal_lanes := None |}.

Definition PEntryS (ly : layer) (opened : option (list N)) (acc : list (list N)) (s : cdp_state) : Prop :=
  exists fr lyo, cs_rfv s = Some (mk_rfv fr lyo) /\ (lyo = None \/ lyo = Some ly) /\ frame_in opened acc fr /\
    match opened with
    | None => ihw_state (cs_fsm s) = true
    | Some o => cs_fsm s = S_cIHW /\ sw_tdh (cs_words s) = Some o /\ W_tdh o
    end.
Definition PExitS (ly : layer) (out : option (list N)) (acc : list (list N)) (s : cdp_state) : Prop :=
  exists fr, cs_rfv s = Some (mk_rfv fr (Some ly)) /\ frame_in out acc fr /\
    match out with
    | None => is_choice_state (cs_fsm s) = true
    | Some o => cs_fsm s = S_cIHW /\ sw_tdh (cs_words s) = Some o /\ W_tdh o
    end.
Lemma pexits_entry ly out acc s : PExitS ly out acc s -> PEntryS ly out acc s.
Proof.
  intros (fr & H1 & H2 & H3). exists fr, (Some ly). split; [exact H1|]. split; [right; reflexivity|]. split; [exact H2|].
  destruct out; [exact H3|]. destruct (cs_fsm s); try discriminate; reflexivity.
Qed.

Lemma set_rdh_stave s r pos fr lyo ly : cs_rfv s = Some (mk_rfv fr lyo) -> (lyo = None \/ lyo = Some ly) ->
  layer_of_feeid (r_fee_id r) = Ok ly ->
  exists s1, set_current_rdh s r pos = Ok s1 /\ cs_fsm s1 = cs_fsm s /\ cs_rdh s1 = Some r /\ cs_rfv s1 = Some (rfv_of ly fr) /\ cs_words s1 = cs_words s.
Proof.
  intros H Hl Hly. unfold set_current_rdh. rewrite H. cbn [mk_rfv rf_layer].
  destruct Hl as [-> | ->].
  - rewrite Hly. eexists. split; [reflexivity|]. cbn. auto.
  - eexists. split; [reflexivity|]. cbn. auto.
Qed.

Lemma srun_data_page ld h k pg ip ly first opened out acc acc' s pos :
  (l_format ld = 0 \/ l_format ld = 2) -> h_bc h < 4096 -> layer_of_feeid (l_fee ld) = Ok ly ->
  W_ihw (ip_ihw ip) -> ip_items ip <> [] -> (ip_pad ip <= 15)%nat ->
  items_ok h (ihw_f_lanes (ip_ihw ip)) first None opened (ip_items ip) out -> stave_items ly acc (ip_items ip) acc' ->
  pg_payload pg = layout (l_format ld) (page_words ip) (ip_pad ip) ->
  (k = 0 -> first = true) -> PEntryS ly opened acc s ->
  exists s' m, do_payload_checks stave_cfg s (render_rdh ld h k 0 pg) (pg_payload pg) pos = Ok (s', m) /\ quiet m /\ PExitS ly out acc' s'.
Proof.
  intros Hfmt Hbc Hly Hihw Hne Hpad Hitems Hst Hpl Hk (fr & lyo & Hrfv & Hlyo & Hfin & Hen).
  set (r := render_rdh ld h k 0 pg).
  destruct (set_rdh_stave s r pos fr lyo ly Hrfv Hlyo Hly) as (s1 & E1 & F1 & R1 & V1 & W1).
  destruct (ip_items ip) as [|i items] eqn:Eit; [contradiction|].
  destruct (items_head_tdh _ _ _ _ _ _ _ _ Hitems) as [Htdh [tl Etl]].
  assert (Hgw : Forall gw (page_words ip)).
  { unfold page_words. rewrite Eit. constructor; [apply gw_ihw; exact Hihw|]. eapply items_gw. exact Hitems. }
  assert (Hwords : words_of (pg_payload pg) = Some (page_words ip)).
  { rewrite Hpl. apply (layout_words _ _ _ (item_tdh i) (tl ++ flat_map item_words items)); auto.
    unfold page_words. rewrite Eit. cbn [flat_map hd]. rewrite Etl. reflexivity. }
  rewrite (c12_packet_words _ _ _ _ _ s1 _ E1 Hwords).
  unfold page_words. rewrite Eit.
  assert (Horb : r_orbit r = h_orbit h) by reflexivity.
  assert (Hb : rdh_bc r = h_bc h) by (apply rdh_bc_rendered; exact Hbc).
  assert (Htr : r_trigger_type r = h_trigger h) by reflexivity.
  assert (Hstop : r_stop_bit r = 0) by reflexivity.
  assert (Hpc : r_pages_counter r = k) by reflexivity.
  destruct opened as [o|].
  - destruct Hen as (Hf & Ht & Ho).
    assert (S1 : StS s1 S_cIHW r (sw_ihw (cs_words s1)) (Some o) ly fr).
    { unfold StS. rewrite F1, W1. repeat split; auto. }
    destruct (sstep_ihw_cont s1 r _ _ ly fr (ip_ihw ip) S1 Hihw) as [s2 [E2 S2]].
    cbn [cdp_words]. rewrite E2. cbn [app].
    destruct (srun_items h r (ip_ihw ip) ly Hihw Horb Hb Htr first None (Some o) (i :: items) out Hitems acc acc' s2 fr [] [] Hst
                ltac:(intros _ X; discriminate) (conj S2 Ho) Hfin ltac:(discriminate)) as (s3 & fr3 & m3 & E3 & Q3 & L3 & F3).
    rewrite app_nil_r in E3. rewrite E3. cbn [cdp_words app]. exists s3, m3. split; [reflexivity|]. split; [exact Q3|].
    unfold leaveS in L3. exists fr3. destruct out as [t|].
    + destruct L3 as [(A & B & C & D & E) Wt]. split; [exact C|]. split; [exact F3|]. split; [exact A|]. split; [exact E|exact Wt].
    + destruct L3 as (f & p & Hc & (A & B & C & D & E) & Wp). split; [exact C|]. split; [exact F3|]. rewrite A. exact Hc.
  - assert (S1 : StS s1 (cs_fsm s) r (sw_ihw (cs_words s1)) (sw_tdh (cs_words s1)) ly fr).
    { unfold StS. repeat split; auto. }
    destruct (sstep_ihw s1 _ r _ _ ly fr (ip_ihw ip) S1 Hen Hihw Hstop) as [s2 [E2 S2]].
    cbn [cdp_words]. rewrite E2. cbn [app].
    destruct (srun_items h r (ip_ihw ip) ly Hihw Horb Hb Htr first None None (i :: items) out Hitems acc acc' s2 fr [] [] Hst
                ltac:(intros _ _ X; apply Hk; rewrite <- Hpc; exact X) (ex_intro (fun t => StS s2 S_TDH_ByIhw r (Some (ip_ihw ip)) t ly fr) _ S2) Hfin ltac:(discriminate)) as (s3 & fr3 & m3 & E3 & Q3 & L3 & F3).
    rewrite app_nil_r in E3. rewrite E3. cbn [cdp_words app]. exists s3, m3. split; [reflexivity|]. split; [exact Q3|].
    unfold leaveS in L3. exists fr3. destruct out as [t|].
    + destruct L3 as [(A & B & C & D & E) Wt]. split; [exact C|]. split; [exact F3|]. split; [exact A|]. split; [exact E|exact Wt].
    + destruct L3 as (f & p & Hc & (A & B & C & D & E) & Wp). split; [exact C|]. split; [exact F3|]. rewrite A. exact Hc.
Qed.

Lemma srun_stop_page ld h k pg w pad ly s pos :
  (l_format ld = 0 \/ l_format ld = 2) -> layer_of_feeid (l_fee ld) = Ok ly -> W_ddw0 w -> (pad <= 15)%nat ->
  pg_payload pg = layout (l_format ld) [w] pad -> k <> 0 -> PExitS ly None [] s ->
  exists s', do_payload_checks stave_cfg s (render_rdh ld h k 1 pg) (pg_payload pg) pos = Ok (s', []) /\ PEntryS ly None [] s'.
Proof.
  intros Hfmt Hly Hw Hpad Hpl Hk (fr & Hrfv & Hfin & Hch).
  set (r := render_rdh ld h k 1 pg).
  destruct (set_rdh_stave s r pos fr (Some ly) ly Hrfv (or_intror eq_refl) Hly) as (s1 & E1 & F1 & R1 & V1 & W1).
  assert (Hwords : words_of (pg_payload pg) = Some [w]) by (rewrite Hpl; apply layout_stop_words; auto).
  rewrite (c12_packet_words _ _ _ _ _ s1 _ E1 Hwords).
  assert (S1 : StS s1 (cs_fsm s) r (sw_ihw (cs_words s1)) (sw_tdh (cs_words s1)) ly fr) by (unfold StS; repeat split; auto).
  destruct (sstep_ddw0 s1 _ r _ _ ly fr w S1 Hch Hw eq_refl Hk) as [s2 [E2 (A & B & C & D & E)]].
  cbn [cdp_words]. rewrite E2. cbn [app cdp_words]. exists s2. split; [reflexivity|].
  exists fr, (Some ly). split; [exact C|]. split; [right; reflexivity|]. split; [exact Hfin|]. rewrite A. reflexivity.
Qed.

(* ---- packets, heartbeat frames, the link in stave mode ---- *)
Inductive stave_pages (ly : layer) : list (list N) -> list its_page -> Prop :=
| SP_nil : stave_pages ly [] []
| SP_page acc p acc' r : stave_items ly acc (ip_items p) acc' -> stave_pages ly acc' r -> stave_pages ly acc (p :: r).

Definition wf_link_stave (ld : link_desc) (ihs : list its_hbf) (ly : layer) : Prop :=
  wf_link_its ld ihs /\ layer_of_feeid (l_fee ld) = Ok ly /\ Forall (fun ih => stave_pages ly [] (ih_pages ih)) ihs.

Section StaveRun.
  Context (ld : link_desc) (Hwf : wf_link_rdh ld = true) (Hsys : l_system ld = Gen.Facts.its_system_id)
          (Hfmt : l_format ld = 0 \/ l_format ld = 2) (ly : layer) (Hly : layer_of_feeid (l_fee ld) = Ok ly).
  Let layf (p : its_page) : list N := layout (l_format ld) (page_words p) (ip_pad p).

  Lemma stave_step s r payload off ss rs :
    rdh_sanity (lk_sanity s) r = (ss, []) -> running_check (lk_running s) r = (rs, []) -> payload <> [] ->
    link_step stave_cfg s {| c_rdh := r; c_payload := payload; c_off := off |} =
    match do_payload_checks stave_cfg (lk_cdp s) r payload off with
    | Ok (cs, m) => Ok ({| lk_sanity := ss; lk_running := rs; lk_cdp := cs |}, m)
    | Panic p => Panic p
    end.
  Proof.
    intros H10 H11 Hne. unfold link_step. cbn [c_rdh c_payload c_off]. rewrite H10.
    cbn [stave_cfg v_running v_target]. rewrite H11. destruct payload; [contradiction|]. cbn [app]. reflexivity.
  Qed.

  Lemma stave_data_page h k pg ip first opened out acc acc' s off :
    wf_hbf h = true -> latch_ok ld (lk_sanity s) -> PEntryS ly opened acc (lk_cdp s) -> RInv ld h k (lk_running s) -> k + 1 < 65536 ->
    W_ihw (ip_ihw ip) -> ip_items ip <> [] -> (ip_pad ip <= 15)%nat ->
    items_ok h (ihw_f_lanes (ip_ihw ip)) first None opened (ip_items ip) out -> stave_items ly acc (ip_items ip) acc' ->
    pg_payload pg = layf ip -> (k = 0 -> first = true) ->
    exists s' m, link_step stave_cfg s {| c_rdh := render_rdh ld h k 0 pg; c_payload := pg_payload pg; c_off := off |} = Ok (s', m) /\ quiet m /\
                 latch_ok ld (lk_sanity s') /\ PExitS ly out acc' (lk_cdp s') /\ RInv ld h (k + 1) (lk_running s').
  Proof.
    intros Hh Hl Hp Hr Hk Hihw Hne Hpad Hitems Hst Hpl Hfirst.
    destruct (sane_rendered ld Hwf (lk_sanity s) h k 0 pg Hl Hh ltac:(lia)) as [S1 S2].
    destruct (rdh_sanity (lk_sanity s) (render_rdh ld h k 0 pg)) as [ss t10] eqn:E10. cbn [fst snd] in S1, S2. subst t10.
    assert (Hpne : pg_payload pg <> []).
    { rewrite Hpl. unfold layf, page_words. apply layout_nonempty. destruct Hihw as [[L _] _]. exact L. }
    assert (Hrender : render_rdh ld h k 0 pg = render_rdh ld h k 0 pg) by reflexivity.
    destruct (srun_data_page ld h k pg ip ly first opened out acc acc' (lk_cdp s) off Hfmt (hbf_bc_small ld Hsys Hfmt h Hh) ltac:(cbn; exact Hly)
                Hihw Hne Hpad Hitems Hst Hpl Hfirst Hp) as (cs & m & Ecs & Qm & Pcs).
    destruct (running_data_page ld h k pg (lk_running s) Hr Hk) as [R1 R2].
    destruct (running_check (lk_running s) (render_rdh ld h k 0 pg)) as [rs t11] eqn:E11. cbn [fst snd] in R1, R2. subst t11.
    rewrite (stave_step s _ _ off ss rs E10 E11 Hpne), Ecs.
    eexists. eexists. split; [reflexivity|]. cbn. split; [exact Qm|]. split; [exact S2|]. split; [exact Pcs|exact R2].
  Qed.

  Lemma stave_stop_page h k pg w pad s off :
    wf_hbf h = true -> latch_ok ld (lk_sanity s) -> PExitS ly None [] (lk_cdp s) -> RInv ld h k (lk_running s) -> k <> 0 ->
    W_ddw0 w -> (pad <= 15)%nat -> pg_payload pg = layout (l_format ld) [w] pad ->
    exists s', link_step stave_cfg s {| c_rdh := render_rdh ld h k 1 pg; c_payload := pg_payload pg; c_off := off |} = Ok (s', []) /\
               latch_ok ld (lk_sanity s') /\ PEntryS ly None [] (lk_cdp s') /\ Between ld (Some h) (lk_running s').
  Proof.
    intros Hh Hl Hp Hr Hk Hw Hpad Hpl.
    destruct (sane_rendered ld Hwf (lk_sanity s) h k 1 pg Hl Hh ltac:(lia)) as [S1 S2].
    destruct (rdh_sanity (lk_sanity s) (render_rdh ld h k 1 pg)) as [ss t10] eqn:E10. cbn [fst snd] in S1, S2. subst t10.
    assert (Hpne : pg_payload pg <> []).
    { rewrite Hpl. apply layout_nonempty. destruct Hw as [[L _] _]. exact L. }
    destruct (srun_stop_page ld h k pg w pad ly (lk_cdp s) off Hfmt ltac:(cbn; exact Hly) Hw Hpad Hpl Hk Hp) as [cs [Ecs Pcs]].
    destruct (running_stop_page ld h k pg (lk_running s) Hr Hk) as [R1 R2].
    destruct (running_check (lk_running s) (render_rdh ld h k 1 pg)) as [rs t11] eqn:E11. cbn [fst snd] in R1, R2. subst t11.
    rewrite (stave_step s _ _ off ss rs E10 E11 Hpne), Ecs.
    eexists. split; [reflexivity|]. cbn. split; [exact S2|]. split; [exact Pcs|exact R2].
  Qed.

  Lemma stave_run_pages h : wf_hbf h = true -> forall first opened ips, pages_ok h first opened ips -> ips <> [] ->
    forall acc, stave_pages ly acc ips ->
    forall pages k s ps macc, map strip ps = render_pages ld h k pages -> map pg_payload pages = map layf ips ->
      latch_ok ld (lk_sanity s) -> PEntryS ly opened acc (lk_cdp s) -> RInv ld h k (lk_running s) ->
      k + N.of_nat (length pages) < 65536 -> (k = 0 -> first = true) ->
      forall rest, exists s' m, link_run stave_cfg s (ps ++ rest) macc = link_run stave_cfg s' rest (macc ++ m) /\ quiet m /\
                                latch_ok ld (lk_sanity s') /\ PExitS ly None [] (lk_cdp s') /\
                                RInv ld h (k + N.of_nat (length pages)) (lk_running s').
  Proof.
    intros Hh first opened ips Hpo.
    induction Hpo as [first|first opened p r out Hihw Hne Hpad Hitems Hrest IH]; intros Hnn acc Hsp pages k s ps macc Hm Hpl Hl Hp Hr Hk Hfirst rest.
    - contradiction.
    - inversion Hsp as [|? ? acc' ? Hsi Hsp']; subst.
      destruct pages as [|pg pages]; [discriminate Hpl|]. cbn [map] in Hpl. injection Hpl as Hpl1 Hpl2.
      destruct ps as [|q ps]; [discriminate Hm|]. cbn [map render_pages] in Hm. injection Hm as Hq1 Hq2 Hps.
      destruct q as [qr qp off]. cbn [c_rdh c_payload] in Hq1, Hq2. subst qr qp.
      destruct (stave_data_page h k pg p first opened out acc acc' s off Hh Hl Hp Hr ltac:(cbn [length] in Hk; lia)
                  Hihw Hne Hpad Hitems Hsi Hpl1 Hfirst) as (s1 & m1 & E1 & Q1 & L1 & P1 & R1).
      cbn [app link_run]. rewrite E1.
      destruct r as [|p2 r].
      + destruct pages; [|discriminate Hpl2]. destruct ps; [|discriminate Hps].
        inversion Hrest; subst. inversion Hsp'; subst. exists s1, m1. cbn [app length]. split; [reflexivity|]. split; [exact Q1|].
        split; [exact L1|]. split; [exact P1|]. replace (k + N.of_nat 1) with (k + 1) by lia. exact R1.
      + destruct (IH ltac:(discriminate) acc' Hsp' pages (k + 1) s1 ps (macc ++ m1) Hps Hpl2 L1 (pexits_entry _ _ _ _ P1) R1
                    ltac:(cbn [length] in Hk; lia) ltac:(intros X; lia) rest) as (s2 & m2 & E2 & Q2 & L2 & P2 & R2).
        exists s2, (m1 ++ m2). rewrite app_assoc. split; [exact E2|]. split; [apply quiet_app; assumption|]. split; [exact L2|]. split; [exact P2|].
        replace (k + N.of_nat (length (pg :: pages))) with (k + 1 + N.of_nat (length pages)) by (cbn [length]; lia). exact R2.
  Qed.

  Lemma stave_run_hbf h ih ps s macc prev : wf_hbf h = true -> its_hbf_ok (l_format ld) h ih -> stave_pages ly [] (ih_pages ih) ->
    map strip ps = render_hbf ld h -> latch_ok ld (lk_sanity s) -> PEntryS ly None [] (lk_cdp s) ->
    Between ld prev (lk_running s) -> (forall p, prev = Some p -> h_orbit p <> h_orbit h) ->
    forall rest, exists s' m, link_run stave_cfg s (ps ++ rest) macc = link_run stave_cfg s' rest (macc ++ m) /\ quiet m /\
                              latch_ok ld (lk_sanity s') /\ PEntryS ly None [] (lk_cdp s') /\ Between ld (Some h) (lk_running s').
  Proof.
    intros Hh (Hpo & Hd & Hspad & Hpls & Hstop) Hsp Hm Hl Hp Hb Ho rest. unfold render_hbf in Hm.
    assert (Hsplit : exists ps1 p2, ps = ps1 ++ [p2] /\ map strip ps1 = render_pages ld h 0 (h_pages h) /\
                                    strip p2 = (render_rdh ld h (N.of_nat (length (h_pages h))) 1 (h_stop h), pg_payload (h_stop h))).
    { destruct (exists_last (l := ps)) as [ps1 [p2 E]]; [intros ->; destruct (render_pages ld h 0 (h_pages h)); discriminate|].
      subst ps. rewrite map_app in Hm. apply app_inj_tail in Hm. destruct Hm as [H1 H2]. exists ps1, p2. auto. }
    destruct Hsplit as [ps1 [p2 [-> [H1 H2]]]].
    pose proof Hh as Hh'. unfold wf_hbf in Hh'. repeat (apply andb_true_iff in Hh'; destruct Hh' as [Hh' ?]).
    match goal with H : (N.of_nat (length (h_pages h)) <? 65535) = true |- _ => apply N.ltb_lt in H; rename H into Hn end.
    match goal with H : negb ?x = true |- _ => lazymatch x with context [h_pages] => rename H into Hne end end.
    assert (Hipsne : ih_pages ih <> []).
    { intros E. rewrite E in Hpls. destruct (h_pages h); [discriminate Hne|discriminate Hpls]. }
    rewrite <- app_assoc.
    destruct (stave_run_pages h Hh true None (ih_pages ih) Hpo Hipsne [] Hsp (h_pages h) 0 s ps1 macc H1 Hpls Hl Hp
                (between_inv ld prev _ h Hb Ho) ltac:(lia) ltac:(reflexivity) ([p2] ++ rest)) as (s1 & m1 & E1 & Q1 & L1 & P1 & R1).
    rewrite E1. destruct p2 as [r pl off]. unfold strip in H2. cbn [c_rdh c_payload] in H2. injection H2 as -> ->.
    assert (Hk : 0 + N.of_nat (length (h_pages h)) <> 0) by (destruct (h_pages h); [discriminate Hne|cbn [length]; lia]).
    destruct (stave_stop_page h _ (h_stop h) (ih_ddw0 ih) (ih_stop_pad ih) s1 off Hh L1 P1 R1 Hk Hd Hspad Hstop) as (s2 & E2 & L2 & P2 & R2).
    cbn [app link_run]. rewrite N.add_0_l in E2. rewrite E2, app_nil_r. exists s2, m1. auto.
  Qed.

  Lemma stave_run_hbfs : forall hbfs ihs, Forall2 (its_hbf_ok (l_format ld)) hbfs ihs ->
    Forall (fun ih => stave_pages ly [] (ih_pages ih)) ihs ->
    forall ps s macc prev, forallb wf_hbf hbfs = true ->
    orbits_differ (match prev with Some p => p :: hbfs | None => hbfs end) = true ->
    map strip ps = flat_map (render_hbf ld) hbfs -> latch_ok ld (lk_sanity s) -> PEntryS ly None [] (lk_cdp s) ->
    Between ld prev (lk_running s) ->
    exists s' m, link_run stave_cfg s ps macc = Ok (s', macc ++ m) /\ quiet m.
  Proof.
    induction 1 as [|h ih hbfs ihs Hok Hrest IH]; intros Hsps ps s macc prev Hw Ho Hm Hl Hp Hb.
    - destruct ps; [|discriminate]. exists s, []. rewrite app_nil_r. split; [reflexivity|apply quiet_nil].
    - inversion Hsps as [|? ? Hsp Hsps']; subst.
      cbn [forallb] in Hw. apply andb_true_iff in Hw. destruct Hw as [Hh Hw]. cbn [flat_map] in Hm.
      assert (Hsplit : exists ps1 ps2, ps = ps1 ++ ps2 /\ map strip ps1 = render_hbf ld h /\ map strip ps2 = flat_map (render_hbf ld) hbfs).
      { exists (firstn (length (render_hbf ld h)) ps), (skipn (length (render_hbf ld h)) ps). split; [symmetry; apply firstn_skipn|].
        rewrite <- firstn_map, <- skipn_map, Hm. split; [apply firstn_app_exact|apply skipn_app_exact]. }
      destruct Hsplit as [ps1 [ps2 [-> [H1 H2]]]].
      assert (Hoh : forall p, prev = Some p -> h_orbit p <> h_orbit h).
      { intros p ->. cbn in Ho. apply andb_true_iff in Ho. destruct Ho as [Ho _]. apply negb_true_iff in Ho. apply N.eqb_neq. exact Ho. }
      destruct (stave_run_hbf h ih ps1 s macc prev Hh Hok Hsp H1 Hl Hp Hb Hoh ps2) as (s1 & m1 & E1 & Q1 & L1 & P1 & B1). rewrite E1.
      destruct (IH Hsps' ps2 s1 (macc ++ m1) (Some h) Hw) as (s2 & m2 & E2 & Q2); auto.
      { destruct prev as [p|]; cbn in Ho |- *; [apply andb_true_iff in Ho; destruct Ho as [_ Ho]; exact Ho|exact Ho]. }
      exists s2, (m1 ++ m2). rewrite app_assoc. split; [exact E2|apply quiet_app; assumption].
  Qed.
End StaveRun.

(* the stave tier of C01: every link of the word-level grammar whose trigger packets are stave-conforming is accepted by
   `check all its-stave` with nothing but ALPIDE statistics messages *)
Theorem c01_stave_link ld ihs ly ps : wf_link_stave ld ihs ly -> map strip ps = render_link ld ->
  exists m, run_validator stave_cfg ps = Ok m /\ quiet m.
Proof.
  intros ((Hwf & Hsys & Hfmt & Hall) & Hly & Hsp) Hm. unfold run_validator.
  pose proof (wf_parts ld Hwf) as (_ & _ & _ & _ & _ & _ & _ & _ & Hh & Ho).
  destruct (stave_run_hbfs ld Hwf Hsys Hfmt ly Hly (l_hbfs ld) ihs Hall Hsp ps (link_init stave_cfg) [] None Hh Ho Hm) as (s' & m & E & Q).
  - unfold latch_ok, link_init, stave_cfg, sanity_init. cbn. split; [left; reflexivity|right; rewrite Hsys; reflexivity].
  - exists None, None. cbn. split; [reflexivity|]. split; [left; reflexivity|]. split; [split; [exact Logic.I|reflexivity]|reflexivity].
  - reflexivity.
  - rewrite E. exists m. split; [reflexivity|exact Q].
Qed.

(* ---- non-vacuity: an inner-barrel link; one trigger packet on one page, one continued over two pages ---- *)
Module ExampleS.
  Import C01_its.Example.
  Definition lane (l bc : N) : list N := [160 + l; bc; 195; 69; 7; 176; 0; 0; 0; 32 + l].   (* chip l, one region, one short hit, trailer, idle *)
  Definition lane_items (l bc : N) : list item := [I_chip l bc [B_region 3; B_short 5 7] 0; I_pad; I_pad; I_pad].
  Definition ihw3 : list N := [7; 0; 0; 0; 0; 0; 0; 0; 0; 224].     (* lanes 0, 1, 2 *)
  Definition pageA (o : N) : its_page :=
    {| ip_ihw := ihw3; ip_items := [PI_nodata (tdh NODATA 5 o); PI_frame (tdh 0 7 o) [lane 0 17; lane 2 17; lane 1 17] (tdt 1); PI_open (tdh 0 9 o) [lane 1 200; lane 0 200] (tdt 0)];
       ip_pad := 3 |}.
  Definition pageB (o : N) : its_page := {| ip_ihw := ihw3; ip_items := [PI_close (tdh CONT 9 o) [lane 2 200] (tdt 1)]; ip_pad := 0 |}.
  Definition ihS (o : N) : its_hbf := {| ih_pages := [pageA o; pageB o]; ih_ddw0 := ddw0; ih_stop_pad := 6 |}.
  Definition hbS (o : N) : hbf_desc :=
    {| h_orbit := o; h_bc := 5; h_trigger := 27139; h_detfield := 0; h_pages := map pgd (ih_pages (ihS o));
       h_stop := {| pg_counter := 0; pg_par := 0; pg_payload := layout 2 [ddw0] 6 |} |}.
  Definition ldS : link_desc :=
    {| l_link := 3; l_fee := 42; l_version := 7; l_system := 32; l_format := 2; l_cru := 24; l_dw := 0; l_hbfs := [hbS 10] |}.

  Lemma hbf_okS : its_hbf_ok 2 (hbS 10) (ihS 10).
  Proof.
    unfold its_hbf_ok. split; [|split; [|split; [|split]]].
    - unfold ihS, ih_pages. repeat (econstructor; cbn [ip_ihw ip_items ip_pad pageA pageB]); wsolve.
    - wsolve.
    - cbn. repeat constructor.
    - reflexivity.
    - reflexivity.
  Qed.

  Lemma lane_confS bc data l : In l [32; 33; 34] -> bc < 256 ->
    lane_bytes (lane_words data) l = encode_lane (lane_items (l - 32) bc) -> lane_conf L_Inner bc (lane_words data) l.
  Proof.
    intros Hl Hbc Hb. exists (lane_items (l - 32) bc). split.
    { cbn [lane_items forallb item_wf bitem_wf]. apply N.ltb_lt in Hbc. rewrite Hbc.
      destruct Hl as [<-|[<-|[<-|[]]]]; reflexivity. }
    split; [exact Hb|].
    destruct Hl as [<-|[<-|[<-|[]]]]; cbn; repeat split; try discriminate; intros c [<-|[]]; reflexivity.
  Qed.

  Lemma packet1 : packet_stave_ok L_Inner [lane 0 17; lane 2 17; lane 1 17].
  Proof.
    split; [discriminate|]. split; [vm_compute; reflexivity|]. exists 17. split.
    - split; [reflexivity|]. intros _. exists [0; 1; 2]. split; [left; reflexivity|reflexivity].
    - repeat constructor; apply lane_confS; try reflexivity; cbn; tauto.
  Qed.
  Lemma packet2 : packet_stave_ok L_Inner ([lane 1 200; lane 0 200] ++ [lane 2 200]).
  Proof.
    split; [discriminate|]. split; [vm_compute; reflexivity|]. exists 200. split.
    - split; [reflexivity|]. intros _. exists [0; 1; 2]. split; [left; reflexivity|reflexivity].
    - repeat constructor; apply lane_confS; try reflexivity; cbn; tauto.
  Qed.

  Lemma example_stave : wf_link_stave ldS [ihS 10] L_Inner /\ length (render_link ldS) = 3%nat.
  Proof.
    split; [|reflexivity]. split; [|split; [reflexivity|]].
    - unfold wf_link_its. split; [vm_compute; reflexivity|]. split; [reflexivity|]. split; [right; reflexivity|].
      constructor; [exact hbf_okS|constructor].
    - constructor; [|constructor]. cbn [ihS ih_pages].
      eapply SP_page; [cbn [pageA ip_items]; apply SI_nodata; apply SI_frame; [exact packet1|]; apply SI_open; apply SI_nil|].
      eapply SP_page; [cbn [pageB ip_items]; apply SI_close; [exact packet2|apply SI_nil]|apply SP_nil].
  Qed.
End ExampleS.
