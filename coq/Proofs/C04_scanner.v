(* C04, the scanner on ARBITRARY bytes: the reader loop ends by itself after at most length/64 + 2 rounds, for every input and every
   configuration (file / pipe, any filter, payloads skipped or read) -- its fuel, which is that number, is never exhausted.  Each
   round that goes on consumes at least the 64 bytes of an RDH; an RDH whose offset to the next lies outside 64..=64+window ends the
   reading with a fatal message.  Hence also: at most length/64 + 1 packets are handed on. *)
From Coq Require Import List NArith Bool Arith Lia.
Import ListNotations.
From FP Require Import Model.Base Model.Rdh Model.Scanner Proofs.C12_proofs.
Open Scope nat_scope.

Definition rem (st : sstate) : nat := length (s_in st).

Lemma rem_set_mem st m : rem (set_mem st m) = rem st. Proof. reflexivity. Qed.
Lemma rem_emit st o : rem (emit st o) = rem st. Proof. reflexivity. Qed.
Lemma rem_collect st r : rem (collect_seen st r) = rem st.
Proof. unfold collect_seen. destruct (_ =? _)%N; destruct (mem_N (r_link_id r) _); destruct (mem_N (r_fee_id r) _); reflexivity. Qed.
Lemma rem_count st : rem (count_filtered st) = rem st.
Proof. unfold count_filtered. destruct (_ =? _)%N; reflexivity. Qed.
Lemma rem_add_payload st n : rem (add_payload st n) = rem st.
Proof. unfold add_payload. destruct (_ =? _)%N; reflexivity. Qed.

Lemma read_exact_some n st st1 b : read_exact n st = (st1, Some b) -> rem st1 + n = rem st.
Proof.
  unfold read_exact. destruct (Nat.leb_spec n (length (s_in st))) as [L|G]; [|discriminate].
  intros H. injection H as <- _. unfold rem. cbn [s_in set_in]. rewrite drop_length. fold (rem st). unfold rem. lia.
Qed.
Lemma read_exact_le n st st1 o : read_exact n st = (st1, o) -> rem st1 <= rem st.
Proof.
  unfold read_exact. destruct (Nat.leb n (length (s_in st))); intros H; injection H as <- _; unfold rem; cbn [s_in set_in length]; [rewrite drop_length|]; lia.
Qed.
Lemma seek_rel_le src k st st1 ok : seek_rel src k st = (st1, ok) -> rem st1 <= rem st.
Proof.
  unfold seek_rel. destruct src; [|destruct (Nat.leb k (length (s_in st)))]; intros H; injection H as <- _; unfold rem; cbn [s_in set_in length];
    rewrite ?drop_length; lia.
Qed.
Lemma seek_next_le c st off st1 ok : seek_next c st off = (st1, ok) -> rem st1 <= rem st.
Proof. unfold seek_next. intros H. apply seek_rel_le in H. rewrite rem_set_mem in H. exact H. Qed.

(* the filter loop: never out of fuel when 64 * fuel exceeds what is left; on success at least one more RDH was consumed *)
Lemma filter_loop_fuel c t : forall fuel st st1 res, filter_loop fuel c t st = (st1, res) -> rem st < 64 * fuel ->
  res <> SErr E_fuel /\ rem st1 <= rem st /\ (forall r, res = SOk r -> rem st1 + 64 <= rem st).
Proof.
  induction fuel as [|f IH]; intros st st1 res H Hf; [lia|]. cbn [filter_loop] in H.
  destruct (read_exact 64 st) as [sa [b|]] eqn:R.
  - pose proof (read_exact_some _ _ _ _ R) as L.
    destruct (negb (offset_ok (decode_rdh b))).
    + injection H as <- <-. rewrite rem_emit. split; [discriminate|]. split; [lia|]. intros r X; discriminate.
    + destruct (matches t (decode_rdh b)).
      * injection H as <- <-. rewrite rem_count, rem_collect. split; [discriminate|]. split; [lia|]. intros r _. lia.
      * destruct (seek_next c (collect_seen sa (decode_rdh b)) _) as [sb ok] eqn:S. pose proof (seek_next_le _ _ _ _ _ S) as L2.
        rewrite rem_collect in L2. destruct ok.
        -- destruct (IH sb st1 res H ltac:(lia)) as (A & B & C). split; [exact A|]. split; [lia|]. intros r X. specialize (C r X). lia.
        -- injection H as <- <-. split; [discriminate|]. split; [lia|]. intros r X; discriminate.
  - pose proof (read_exact_le _ _ _ _ R) as L. injection H as <- <-. split; [discriminate|]. split; [lia|]. intros r X; discriminate.
Qed.

Lemma load_rdh_cru_fuel fuel c st st1 res : load_rdh_cru fuel c st = (st1, res) -> rem st < 64 * (fuel + 1) ->
  res <> SErr E_fuel /\ rem st1 <= rem st /\ (forall r, res = SOk r -> rem st1 + 64 <= rem st).
Proof.
  unfold load_rdh_cru. intros H Hf.
  destruct (read_exact 64 st) as [sa [b|]] eqn:R.
  2:{ pose proof (read_exact_le _ _ _ _ R). injection H as <- <-. split; [discriminate|]. split; [lia|]. intros r X; discriminate. }
  pose proof (read_exact_some _ _ _ _ R) as L.
  set (r0 := decode_rdh b) in *.
  set (sb := if (s_mem sa =? 0)%N then emit sa _ else sa) in *.
  assert (Lb : rem sb = rem sa) by (unfold sb; destruct (s_mem sa =? 0)%N; reflexivity).
  destruct (negb (offset_ok r0)).
  { injection H as <- <-. rewrite rem_emit, rem_collect. split; [discriminate|]. split; [lia|]. intros r X; discriminate. }
  destruct (sc_filter c) as [t|].
  - destruct (matches t r0).
    + injection H as <- <-. rewrite rem_add_payload, rem_count, rem_collect. split; [discriminate|]. split; [lia|]. intros r1 _. lia.
    + destruct (seek_next c (collect_seen sb r0) _) as [sc ok] eqn:S. pose proof (seek_next_le _ _ _ _ _ S) as L2. rewrite rem_collect in L2.
      destruct ok.
      * destruct (filter_loop fuel c t sc) as [sd rd] eqn:F.
        destruct (filter_loop_fuel c t fuel sc sd rd F ltac:(lia)) as (A & B & C).
        destruct rd as [r'|e]; injection H as <- <-.
        -- rewrite rem_add_payload. split; [discriminate|]. split; [lia|]. intros r _. specialize (C r' eq_refl). lia.
        -- split; [intros X; apply A; exact X|]. split; [lia|]. intros r X; discriminate.
      * injection H as <- <-. split; [discriminate|]. split; [lia|]. intros r X; discriminate.
  - injection H as <- <-. rewrite rem_add_payload, rem_collect. split; [discriminate|]. split; [lia|]. intros r1 _. lia.
Qed.

Lemma finish_cdp_le c st r off st1 res : finish_cdp c st r off = (st1, res) -> rem st1 <= rem st /\ res <> SErr E_fuel.
Proof.
  unfold finish_cdp. destruct (sc_skip c).
  - destruct (seek_next c st _) as [sa ok] eqn:S. pose proof (seek_next_le _ _ _ _ _ S) as L0. destruct ok; intros H; injection H as <- <-;
      rewrite ?rem_emit; split; try lia; discriminate.
  - destruct (read_exact _ (set_mem st _)) as [sa [p|]] eqn:R; pose proof (read_exact_le _ _ _ _ R) as L; rewrite rem_set_mem in L;
      intros H; injection H as <- <-; rewrite ?rem_emit; split; try lia; discriminate.
Qed.

Lemma load_cdp_fuel oa fuel c st st1 res : load_cdp oa fuel c st = (st1, res) -> rem st < 64 * (fuel + 1) ->
  res <> SErr E_fuel /\ (forall p, res = SOk p -> rem st1 + 64 <= rem st).
Proof.
  unfold load_cdp. intros H Hf. destruct (load_rdh_cru fuel c st) as [sa [r|e]] eqn:L.
  - destruct (load_rdh_cru_fuel _ _ _ _ _ L Hf) as (A & B & C). specialize (C r eq_refl).
    destruct (finish_cdp_le _ _ _ _ _ _ H) as [D E]. split; [exact E|]. intros p _. lia.
  - destruct (load_rdh_cru_fuel _ _ _ _ _ L Hf) as (A & B & C). injection H as <- <-. split; [intros X; apply A; injection X as ->; reflexivity|]. intros p X; discriminate.
Qed.

(* the reader loop *)
Lemma scan_flat_fuel oa c : forall fuel st, rem st < 64 * fuel ->
  snd (scan_flat oa fuel c st) <> End_fuel /\ length (snd (fst (scan_flat oa fuel c st))) * 64 <= rem st.
Proof.
  induction fuel as [|f IH]; intros st Hf; [lia|]. cbn [scan_flat].
  destruct (load_cdp oa f c st) as [st1 [p|e]] eqn:L.
  - destruct (load_cdp_fuel _ _ _ _ _ _ L ltac:(lia)) as [A B]. specialize (B p eq_refl).
    destruct (IH st1 ltac:(lia)) as [C D]. destruct (scan_flat oa f c st1) as [[st2 ps] e] eqn:S. cbn [fst snd] in *.
    split; [exact C|]. cbn [length]. lia.
  - destruct (load_cdp_fuel _ _ _ _ _ _ L ltac:(lia)) as [A _]. destruct e; cbn [fst snd length]; try (split; [discriminate|lia]).
    exfalso. apply A. reflexivity.
Qed.

Lemma scan_fuel_enough input : length input < 64 * scan_fuel input.
Proof. unfold scan_fuel. pose proof (Nat.mul_succ_div_gt (length input) 64 ltac:(lia)). lia. Qed.

(* EVERY input, every configuration: the scan ends by itself (normally, or with the batch-dropping input error), never by running out
   of its fuel of length/64 + 2 rounds; and it hands on at most length/64 packets *)
Theorem c04_scan_terminates oa keep c input :
  so_end (scan oa keep c input) <> End_fuel.
Proof.
  unfold scan. destruct (scan_flat_fuel oa c (scan_fuel input) (sinit input) (scan_fuel_enough input)) as [A _].
  destruct (scan_flat oa (scan_fuel input) c (sinit input)) as [[st ps] e]. cbn [so_end snd] in *. exact A.
Qed.
Theorem c04_scan_packet_bound oa c input :
  length (snd (fst (scan_flat oa (scan_fuel input) c (sinit input)))) * 64 <= length input.
Proof. exact (proj2 (scan_flat_fuel oa c (scan_fuel input) (sinit input) (scan_fuel_enough input))). Qed.
