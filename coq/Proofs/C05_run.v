(* C05 for one whole `check` run: the sender streams of the run itself (main thread, analysis thread, one validator per dispatch id)
   satisfy what the collector theorem asks of them -- in particular two error messages with the same leading offset come from the
   same sender, because every message of a validator lies inside one of its own packets (C07) and the packets of a well-framed
   input do not overlap (C03) -- so the result of the run is the same for EVERY arrival order at the statistics channel. *)
From Coq Require Import List NArith ZArith Bool Lia ZifyBool ZifyN ZifyNat Arith Sorting.Sorted Permutation.
From FP Require Import Model.Base Model.Rdh Model.RdhChecks Model.Payload Model.Alpide Model.Scanner Model.CdpRunning Model.Link
  Model.Collector Model.System Spec.RdhRules Spec.Framing Spec.GroundTruth
  Proofs.Interleave Proofs.C03_proofs Proofs.C05_proofs Proofs.C06_proofs Proofs.C07_proofs Proofs.C07_run Proofs.C14_proofs Proofs.C04_system.
From FP Require Gen.Facts.
Import ListNotations.
Open Scope N_scope.
Ltac Zify.zify_post_hook ::= Z.div_mod_to_equations.

(* ------------------------------------------------------------------ the run with the arrival order as an argument *)
Definition vstream_of (r : result (list vmsg)) : list cstat := match r with Ok ms => map vmsg_to_cstat ms | Panic _ => [] end.

(* what each thread sends to the statistics channel, in its own order *)
Definition sender_streams (c : run_cfg) (input : list N) : list (list cstat) :=
  let out := scan_impl (rc_scan c) input in
  main_stream (nth 0 input 0) (so_stats out) :: analysis_stream (so_batches out) ::
  map (fun idr => vstream_of (snd idr)) (run_dispatch (rc_check c) (concat (so_batches out))).

(* Controller + StatsCollector + report, from the arrival sequence on *)
Definition finish (ff : bool) (c : run_cfg) (a : list cstat) : run_result :=
  let s0 := collect_all a in
  let s1 := add_custom s0 (custom_errors (rc_counts c) s0) in
  let s2 := finalize Gen.Facts.error_sort_when_muted (rc_mute c) s1 in
  let flag := (0 <? k_total s2) || (ff && match k_fatal s2 with Some _ => true | None => false end) in
  R_done s2 (displayed {| d_mute := rc_mute c; d_cap := rc_cap c; d_filter := rc_filter c |} s2)
         (exit_code (rc_exit c) Init_ok flag).

(* one whole run in which the statistics channel delivers the messages in the order `a` *)
Definition run_check_sched (ff : bool) (c : run_cfg) (input : list N) (a : list cstat) : run_result :=
  if Nat.ltb (length input) 8 then R_too_short
  else if negb (recognised input) then R_unrecognised
  else match gather (run_dispatch (rc_check c) (concat (so_batches (scan_impl (rc_scan c) input)))) with
       | Panic p => R_panic p
       | Ok _ => finish ff c a
       end.

Lemma gather_ok : forall per_id v, gather per_id = Ok v -> v = concat (map (fun idr => vstream_of (snd idr)) per_id).
Proof.
  induction per_id as [|[id r] l IH]; intros v H; cbn in H; [injection H as <-; reflexivity|]. fold (gather l) in H.
  destruct (gather l) as [x|q] eqn:E; [|discriminate]. destruct r as [ms|q]; [|discriminate]. injection H as <-.
  cbn [map concat snd vstream_of]. rewrite (IH x eq_refl). reflexivity.
Qed.

(* the model's own run is the run under one particular arrival order: the streams one after the other *)
Lemma run_check_is_sched ff c input : run_check ff c input = run_check_sched ff c input (concat (sender_streams c input)).
Proof.
  unfold run_check, run_check_sched. destruct (Nat.ltb _ _); [reflexivity|]. destruct (negb _); [reflexivity|]. cbv zeta.
  fold (gather (run_dispatch (rc_check c) (concat (so_batches (scan_impl (rc_scan c) input))))).
  destruct (gather _) as [v|q] eqn:E; [|reflexivity].
  unfold finish, sender_streams, stats_arrival. cbv zeta. cbn [concat]. rewrite (gather_ok _ _ E), <- app_assoc. reflexivity.
Qed.

(* concatenation is an interleaving *)
Lemma interleave_concat {A} : forall ss : list (list A), Interleave ss (concat ss).
Proof.
  intros ss. remember (length (concat ss)) as n eqn:Hn. revert ss Hn.
  induction n as [|n IH]; intros ss Hn.
  - assert (E : concat ss = []) by (destruct (concat ss); [reflexivity|discriminate]). rewrite E. constructor.
    clear -E. induction ss as [|s ss IHs]; [constructor|]. cbn in E. apply app_eq_nil in E. destruct E as [-> E]. constructor; [reflexivity|apply IHs, E].
  - (* the first non-empty stream gives its head *)
    assert (X : exists i x s', nth_error ss i = Some (x :: s') /\ concat ss = x :: concat (replace_nth i s' ss)).
    { clear IH. induction ss as [|s ss IHs]; [discriminate|]. destruct s as [|x s'].
      - cbn [concat app] in Hn. destruct (IHs Hn) as (i & x & s' & E1 & E2). exists (S i), x, s'. split; [exact E1|]. cbn [concat replace_nth app]. exact E2.
      - exists O, x, s'. split; reflexivity. }
    destruct X as (i & x & s' & E1 & E2). rewrite E2. apply (IL_cons ss i x s' _ E1). apply IH. rewrite E2 in Hn. cbn in Hn. lia.
Qed.

(* ------------------------------------------------------------------ the collector under two arrival orders, field by field *)
Lemma c05_states ss a1 a2 : streams_ok ss -> Interleave ss a1 -> Interleave ss a2 ->
  let s1 := collect_all a1 in let s2 := collect_all a2 in
  k_counters s1 = k_counters s2 /\ k_links s1 = k_links s2 /\ k_fees s1 = k_fees s2 /\ k_layer_staves s1 = k_layer_staves s2 /\
  g_once s1 = g_once s2 /\ sort_msgs (k_errors s1) = sort_msgs (k_errors s2) /\ k_fatal s1 = None /\ k_fatal s2 = None /\
  k_custom s1 = k_custom s2 /\ k_total s1 = k_total s2 /\ g_rest s1 = g_rest s2.
Proof.
  intros [Hl Hf Hs Ho Hk Hn] I1 I2. cbv zeta.
  pose proof (links_eq a1 a2 (interleave_filter_eq is_link ss a1 a2 I1 I2 Hl)) as E1.
  pose proof (fees_eq a1 a2 (interleave_filter_eq is_fee ss a1 a2 I1 I2 Hf)) as E2.
  pose proof (ls_eq a1 a2 (interleave_filter_eq is_ls ss a1 a2 I1 I2 Hs)) as E3.
  pose proof (once_eq a1 a2 (interleave_filter_eq is_once ss a1 a2 I1 I2 Ho)) as E4.
  assert (Hp : Permutation a1 a2).
  { eapply Permutation_trans; [apply interleave_perm; exact I1|apply Permutation_sym, interleave_perm; exact I2]. }
  pose proof (counters_eq a1 a2 Hp) as E5.
  pose proof (rest_const a1) as R1. pose proof (rest_const a2) as R2.
  pose proof (interleave_nofatal ss a1 I1 Hn) as N1. pose proof (interleave_nofatal ss a2 I2 Hn) as N2.
  destruct (errors_fold a1 cinit eq_refl N1) as [X1 F1]. destruct (errors_fold a2 cinit eq_refl N2) as [X2 F2].
  destruct (total_custom_fold a1 cinit eq_refl N1) as [T1 C1]. destruct (total_custom_fold a2 cinit eq_refl N2) as [T2 C2].
  fold (collect_all a1) in X1, F1, T1, C1. fold (collect_all a2) in X2, F2, T2, C2. cbn [k_errors k_total k_custom cinit app] in *.
  assert (ES : sort_msgs (k_errors (collect_all a1)) = sort_msgs (k_errors (collect_all a2))).
  { rewrite X1, X2. apply stable_sort_det. intros k. rewrite !selk_msgs.
    rewrite (interleave_filter_eq (err_at k) ss a1 a2 I1 I2 (Hk k)). reflexivity. }
  assert (ET : k_total (collect_all a1) = k_total (collect_all a2)).
  { rewrite T1, T2. f_equal. f_equal. apply Permutation_length.
    clear - Hp. induction Hp as [|x l l' _ IH|x y l|l l' l'' _ IH1 _ IH2]; cbn [flat_map].
    - constructor.
    - apply Permutation_app_head, IH.
    - rewrite !app_assoc. apply Permutation_app_tail, Permutation_app_comm.
    - eapply Permutation_trans; eassumption. }
  repeat split; try assumption; congruence.
Qed.

Lemma finish_eq ff c a1 a2 ss : Gen.Facts.error_sort_when_muted = true -> streams_ok ss -> Interleave ss a1 -> Interleave ss a2 ->
  finish ff c a1 = finish ff c a2.
Proof.
  intros Hsm Hok I1 I2. destruct (c05_states ss a1 a2 Hok I1 I2) as (E1 & E2 & E3 & E4 & E5 & E6 & F1 & F2 & E7 & E8 & E9).
  unfold finish. cbv zeta.
  assert (EC : custom_errors (rc_counts c) (collect_all a1) = custom_errors (rc_counts c) (collect_all a2)).
  { unfold custom_errors, counter. rewrite E1. reflexivity. }
  assert (EF : finalize Gen.Facts.error_sort_when_muted (rc_mute c) (add_custom (collect_all a1) (custom_errors (rc_counts c) (collect_all a1))) =
               finalize Gen.Facts.error_sort_when_muted (rc_mute c) (add_custom (collect_all a2) (custom_errors (rc_counts c) (collect_all a2)))).
  { rewrite Hsm, EC. unfold g_once in E5. injection E5 as V1 V2 V3 V4 V5. unfold g_rest in E9. injection E9 as U1 U2 U3.
    pose proof (rest_const a1) as R1. unfold g_rest in R1. injection R1 as _ _ R1. cbn in R1.
    unfold finalize, add_custom. cbn [k_finalized upd_errs k_counters k_links k_fees k_layer_staves k_version k_format k_sysid k_run_trigger
      k_set_twice k_errors k_fatal k_custom k_total].
    rewrite <- U3, R1. replace (negb (rc_mute c) || true) with true by (destruct (rc_mute c); reflexivity).
    rewrite E1, E2, E3, E4, V1, V2, V3, V4, V5, E6, F1, F2, E7, E8. reflexivity. }
  rewrite EF. reflexivity.
Qed.

(* ------------------------------------------------------------------ the packets of a well-framed input do not overlap *)
Definition before (a b : cdp) : Prop := c_off a + 64 + N.of_nat (length (c_payload a)) <= c_off b.
Definition obefore (a b : N * packet) : Prop := fst a + p_size (snd a) <= fst b.

Lemma with_offsets_bounds : forall pkts off op, In op (with_offsets off pkts) ->
  off <= fst op /\ fst op + p_size (snd op) <= off + total_size pkts.
Proof.
  induction pkts as [|p r IH]; intros off op H; [destruct H|]. cbn [with_offsets] in H.
  unfold total_size. cbn [fold_right]. fold (total_size r). destruct H as [<-|H].
  - cbn [fst snd]. lia.
  - destruct (IH _ _ H) as [H1 H2]. unfold p_size in *. lia.
Qed.

Lemma with_offsets_sorted : forall pkts off, StronglySorted obefore (with_offsets off pkts).
Proof.
  induction pkts as [|p r IH]; intros off; cbn [with_offsets]; constructor; [apply IH|].
  rewrite Forall_forall. intros op H. destruct (with_offsets_bounds _ _ _ H) as [H1 _]. unfold obefore. cbn [fst snd]. exact H1.
Qed.

Lemma sorted_filter {A} (R : A -> A -> Prop) (f : A -> bool) l : StronglySorted R l -> StronglySorted R (filter f l).
Proof.
  induction 1 as [|a l Hs IH Hf]; [constructor|]. cbn [filter]. destruct (f a); [|exact IH].
  constructor; [exact IH|]. rewrite Forall_forall in *. intros x Hx. apply filter_In in Hx. apply Hf, Hx.
Qed.

Lemma sorted_map {A B} (R : A -> A -> Prop) (R' : B -> B -> Prop) (g : A -> B) l :
  (forall a b, R a b -> R' (g a) (g b)) -> StronglySorted R l -> StronglySorted R' (map g l).
Proof.
  intros HR. induction 1 as [|a l Hs IH Hf]; [constructor|]. cbn [map]. constructor; [exact IH|].
  rewrite Forall_forall in *. intros y Hy. apply in_map_iff in Hy. destruct Hy as (x & <- & Hx). apply HR, Hf, Hx.
Qed.

Lemma cdps_sorted sc pkts : StronglySorted before (map (mk_cdp sc) (selected sc 0 pkts)).
Proof.
  apply (sorted_map obefore); [|apply sorted_filter, with_offsets_sorted].
  intros a b H. unfold before, obefore, mk_cdp, p_size in *. cbn [c_off c_payload]. destruct (sc_skip sc); cbn [length]; lia.
Qed.

Lemma sorted_owner : forall l, StronglySorted before l -> forall p q x, In p l -> In q l -> inside_pkt p x -> inside_pkt q x -> p = q.
Proof.
  induction 1 as [|a l Hs IH Hf]; intros p q x Hp Hq Ip Iq; [destruct Hp|]. rewrite Forall_forall in Hf.
  destruct Hp as [<-|Hp]; destruct Hq as [<-|Hq]; [reflexivity| | |exact (IH p q x Hp Hq Ip Iq)].
  - exfalso. specialize (Hf q Hq). unfold before, inside_pkt in *. lia.
  - exfalso. specialize (Hf p Hp). unfold before, inside_pkt in *. lia.
Qed.

Lemma total_size_sum pkts : total_size pkts = 64 * N.of_nat (length pkts) + pay_all pkts.
Proof.
  unfold pay_all. induction pkts as [|p r IH]; [reflexivity|]. unfold total_size in *. cbn [fold_right map length]. rewrite sumN_cons, IH.
  unfold p_size. lia.
Qed.

(* ------------------------------------------------------------------ what each kind of sender puts on the channel *)
Definition main_kind (x : cstat) : bool :=
  match x with CS_version _ | CS_link _ | CS_fee _ | CS_run_trigger _ | CS_format _ | CS_sysid _ | CS_seen _ | CS_filtered _ | CS_payload _ => true | _ => false end.
Definition analysis_kind (x : cstat) : bool := match x with CS_trigger _ | CS_layer_stave _ _ | CS_hbfs _ => true | _ => false end.
Definition validator_kind (x : cstat) : bool := match x with CS_error _ | CS_alpide _ => true | _ => false end.

Lemma main_stream_kind v o tl : il_plain o = true -> (forall y, In (IS_sysid y) o -> known_sysid y = true) ->
  (forall i, In i tl -> match i with IS_seen _ | IS_filtered _ | IS_payload _ => True | _ => False end) ->
  forall x, In x (main_stream v (o ++ tl)) -> main_kind x = true.
Proof.
  intros Hp Hk Ht x Hx. unfold main_stream in Hx. destruct Hx as [<-|Hx]; [reflexivity|].
  apply in_map_iff in Hx. destruct Hx as (i & <- & Hi). apply in_app_or in Hi. destruct Hi as [Hi|Hi].
  - unfold il_plain in Hp. rewrite forallb_forall in Hp. specialize (Hp i Hi).
    destruct i; try discriminate; cbn [forward]; try reflexivity. rewrite (Hk s Hi). reflexivity.
  - specialize (Ht i Hi). destruct i; try destruct Ht; reflexivity.
Qed.

Lemma analysis_stream_kind batches : forall x, In x (analysis_stream batches) -> analysis_kind x = true.
Proof.
  intros y Hy. unfold analysis_stream in Hy. apply in_flat_map in Hy. destruct Hy as (b & _ & Hy).
  unfold analysis_batch in Hy. apply in_app_or in Hy. destruct Hy as [Hy|[<-|[]]]; [|reflexivity].
  apply in_flat_map in Hy. destruct Hy as (p & _ & Hy). destruct Hy as [<-|Hy]; [reflexivity|].
  destruct (match concat batches with [] => false | _ :: _ => _ end); [destruct Hy as [<-|[]]; reflexivity|destruct Hy].
Qed.

Lemma vstream_kind r : forall x, In x (vstream_of r) -> validator_kind x = true.
Proof.
  intros x Hx. destruct r as [ms|q]; [|destruct Hx]. cbn in Hx. apply in_map_iff in Hx. destruct Hx as (m & <- & _). destruct m; reflexivity.
Qed.

Lemma vstream_err r m : In (CS_error m) (vstream_of r) -> exists ms e, r = Ok ms /\ In (VErr e) ms /\ m_off m = e_off e.
Proof.
  destruct r as [ms|q]; [|intros []]. cbn. intros H. apply in_map_iff in H. destruct H as (v & E & Hv).
  destruct v as [e|f]; [|discriminate]. cbn in E. injection E as <-. exists ms, e. repeat split. exact Hv.
Qed.

(* ------------------------------------------------------------------ the streams of a run on a well-framed input *)
Definition find_owner (k : N) (l : list cdp) : option cdp :=
  find (fun p => (c_off p <=? k) && (k <? c_off p + 64 + N.of_nat (length (c_payload p)))) l.

Lemma find_owner_some k l p : find_owner k l = Some p -> In p l /\ inside_pkt p k.
Proof. intros H. apply find_some in H. destruct H as [H1 H2]. split; [exact H1|]. unfold inside_pkt. lia. Qed.
Lemma find_owner_none k l : find_owner k l = None -> forall p, In p l -> ~ inside_pkt p k.
Proof. intros H p Hp [I1 I2]. pose proof (find_none _ _ H p Hp) as X. cbn in X. lia. Qed.

Lemma nth_error_map_inv {A B} (f : A -> B) l j y : nth_error (map f l) j = Some y -> exists x, nth_error l j = Some x /\ y = f x.
Proof.
  revert j. induction l as [|a l IH]; intros [|j] H; cbn in H; try discriminate.
  - injection H as <-. exists a. split; reflexivity.
  - apply IH, H.
Qed.

Lemma nodup_nth_error {A} (l : list A) i j x : NoDup l -> nth_error l i = Some x -> nth_error l j = Some x -> i = j.
Proof.
  intros Hn Hi Hj. rewrite NoDup_nth_error in Hn. apply Hn; [apply nth_error_Some; congruence|congruence].
Qed.

Lemma In_nth_error_or (l : list N) (x : N) : (exists i, nth_error l i = Some x) \/ ~ In x l.
Proof. destruct (in_dec N.eq_dec x l) as [H|H]; [left; apply In_nth_error, H|right; exact H]. Qed.

Section Run.
Context (vc : vcfg) (sc : scfg) (pkts : list packet) (version : N) (o : list instat) (tl : list instat).
Let cdps := map (mk_cdp sc) (selected sc 0 pkts).
Context (Hwf : Forall wf_pkt pkts).
Context (Hsize : total_size pkts < 9223372036854775808).
Context (Hlay : sc_skip sc = true \/ forall p, In p pkts -> layout_rp (hdr p) (p_payload p)).
Context (Hplain : il_plain o = true).
Context (Hknown : forall y, In (IS_sysid y) o -> known_sysid y = true).
Context (Htl : forall i, In i tl -> match i with IS_seen _ | IS_filtered _ | IS_payload _ => True | _ => False end).

Lemma cdps_from p : In p cdps -> exists op, In op (with_offsets 0 pkts) /\ p = mk_cdp sc op.
Proof.
  intros H. apply in_map_iff in H. destruct H as (op & <- & H). apply filter_In in H. exists op. split; [apply H|reflexivity].
Qed.

Lemma with_offsets_in : forall l off op, In op (with_offsets off l) -> In (snd op) l.
Proof. induction l as [|p r IH]; intros off op H; [destruct H|]. destruct H as [<-|H]; [left; reflexivity|right; exact (IH _ _ H)]. Qed.

Lemma cdps_small : Forall small cdps.
Proof.
  rewrite Forall_forall. intros p Hp. destruct (cdps_from p Hp) as (op & Hop & ->).
  destruct (with_offsets_bounds _ _ _ Hop) as [_ B]. pose proof (with_offsets_in _ _ _ Hop) as Hin.
  rewrite Forall_forall in Hwf. destruct (Hwf _ Hin) as (_ & _ & _ & _ & Hl).
  unfold small, mk_cdp. cbn [c_payload c_off]. unfold p_size in B. split; [destruct (sc_skip sc); cbn [length]; lia|lia].
Qed.

Lemma cdps_layout : Forall layout_ok cdps.
Proof.
  rewrite Forall_forall. intros p Hp. destruct (cdps_from p Hp) as (op & Hop & ->).
  pose proof (with_offsets_in _ _ _ Hop) as Hin. unfold layout_ok, mk_cdp. cbn [c_rdh c_payload].
  destruct (sc_skip sc) eqn:Esk; [exact I|]. destruct Hlay as [X|X]; [discriminate X|exact (X _ Hin)].
Qed.

Lemma sel_sub id : forall q, In q (sel vc id cdps) -> In q cdps /\ disp_id vc q = id.
Proof. intros q H. unfold sel in H. apply filter_In in H. destruct H as [H1 H2]. split; [exact H1|lia]. Qed.

Lemma Forall_sub {A} (P : A -> Prop) l l' : Forall P l -> (forall x, In x l' -> In x l) -> Forall P l'.
Proof. rewrite !Forall_forall. intros H S x Hx. apply H, S, Hx. Qed.

(* an error message of the validator of `id` lies inside a packet that is dispatched to `id` *)
Lemma validator_err_owner id m : In (CS_error m) (vstream_of (run_validator vc (sel vc id cdps))) ->
  exists q, In q cdps /\ disp_id vc q = id /\ start_of q (m_off m).
Proof.
  intros H. destruct (vstream_err _ _ H) as (ms & e & Er & He & ->).
  assert (L : Forall layout_ok (sel vc id cdps)) by (apply (Forall_sub _ cdps); [exact cdps_layout|intros x Hx; apply (sel_sub id), Hx]).
  assert (S : Forall small (sel vc id cdps)) by (apply (Forall_sub _ cdps); [exact cdps_small|intros x Hx; apply (sel_sub id), Hx]).
  destruct (c07_validator_starts vc _ ms L S Er e He) as (q & Hq & Iq). destruct (sel_sub id q Hq) as [Q1 Q2].
  exists q. split; [exact Q1|split; [exact Q2|exact Iq]].
Qed.

Let ss : list (list cstat) :=
  main_stream version (o ++ tl) :: analysis_stream (chunk CAP cdps) ::
  map (fun idr => vstream_of (snd idr)) (run_dispatch vc cdps).

Lemma ss_shape : exists procs, NoDup procs /\
  ss = main_stream version (o ++ tl) :: analysis_stream (chunk CAP cdps) ::
       map (fun id => vstream_of (run_validator vc (sel vc id cdps))) procs.
Proof.
  destruct (c06_isolated vc cdps) as (procs & Hn & _ & E). exists procs. split; [exact Hn|].
  unfold ss. rewrite E, map_map. reflexivity.
Qed.

(* a statistic that only the main thread / only the analysis thread produces *)
Lemma only_main (P : cstat -> bool) : (forall x, analysis_kind x = true -> P x = false) -> (forall x, validator_kind x = true -> P x = false) ->
  only_in P ss 0.
Proof.
  intros HA HV j s Hj Hne y Hy. destruct j as [|[|j]]; [congruence| |].
  - cbn in Hj. injection Hj as <-. apply HA, analysis_stream_kind with (batches := chunk CAP cdps), Hy.
  - cbn in Hj. apply nth_error_map_inv in Hj. destruct Hj as (idr & _ & ->). apply HV, (vstream_kind (snd idr)), Hy.
Qed.
Lemma only_analysis (P : cstat -> bool) : (forall x, main_kind x = true -> P x = false) -> (forall x, validator_kind x = true -> P x = false) ->
  only_in P ss 1.
Proof.
  intros HM HV j s Hj Hne y Hy. destruct j as [|[|j]]; [|congruence|].
  - cbn in Hj. injection Hj as <-. apply HM, (main_stream_kind version o tl Hplain Hknown Htl), Hy.
  - cbn in Hj. apply nth_error_map_inv in Hj. destruct Hj as (idr & _ & ->). apply HV, (vstream_kind (snd idr)), Hy.
Qed.

Lemma run_streams_ok : streams_ok ss.
Proof.
  constructor.
  - exists 0%nat. apply only_main; intros x Hx; destruct x; try discriminate; reflexivity.
  - exists 0%nat. apply only_main; intros x Hx; destruct x; try discriminate; reflexivity.
  - exists 1%nat. apply only_analysis; intros x Hx; destruct x; try discriminate; reflexivity.
  - exists 0%nat. apply only_main; intros x Hx; destruct x; try discriminate; reflexivity.
  - (* two error messages with the same leading offset come from the same sender *)
    intros k. destruct ss_shape as (procs & Hn & Ess).
    assert (Hno : forall (s : list cstat), (forall x, In x s -> main_kind x = true) \/ (forall x, In x s -> analysis_kind x = true) ->
                  forall y, In y s -> err_at k y = false).
    { intros s [H|H] y Hy; specialize (H y Hy); destruct y; try discriminate; reflexivity. }
    assert (Hval : forall id y, In y (vstream_of (run_validator vc (sel vc id cdps))) -> err_at k y = true ->
                   exists q, In q cdps /\ disp_id vc q = id /\ inside_pkt q k).
    { intros id y Hy Hk. destruct y; try discriminate. cbn in Hk. apply N.eqb_eq in Hk. subst k.
      destruct (validator_err_owner id m Hy) as (q & Q1 & Q2 & Q3). exists q. split; [exact Q1|split; [exact Q2|apply start_inside, Q3]]. }
    destruct (find_owner k cdps) as [p|] eqn:Ef.
    + destruct (find_owner_some _ _ _ Ef) as [Hp Ip].
      (* the stream of the validator that owns p, if it exists; any index otherwise *)
      destruct (In_nth_error_or procs (disp_id vc p)) as [[i Hi]|Hni].
      * exists (S (S i)). intros j s Hj Hne y Hy. rewrite Ess in Hj. destruct j as [|[|j]].
        -- cbn in Hj. injection Hj as <-. apply (Hno _ (or_introl (main_stream_kind version o tl Hplain Hknown Htl)) y Hy).
        -- cbn in Hj. injection Hj as <-. apply (Hno _ (or_intror (analysis_stream_kind _)) y Hy).
        -- cbn in Hj. apply nth_error_map_inv in Hj. destruct Hj as (id & Hid & ->).
           destruct (err_at k y) eqn:Ek; [|reflexivity]. exfalso.
           destruct (Hval id y Hy Ek) as (q & Hq & Dq & Iq).
           pose proof (sorted_owner _ (cdps_sorted sc pkts) p q k Hp Hq Ip Iq) as <-.
           rewrite Dq in Hi. apply Hne. f_equal. f_equal. exact (nodup_nth_error procs j i id Hn Hid Hi).
      * exists 0%nat. intros j s Hj Hne y Hy. rewrite Ess in Hj. destruct j as [|[|j]]; [congruence| |].
        -- cbn in Hj. injection Hj as <-. apply (Hno _ (or_intror (analysis_stream_kind _)) y Hy).
        -- cbn in Hj. apply nth_error_map_inv in Hj. destruct Hj as (id & Hid & ->).
           destruct (err_at k y) eqn:Ek; [|reflexivity]. exfalso.
           destruct (Hval id y Hy Ek) as (q & Hq & Dq & Iq).
           pose proof (sorted_owner _ (cdps_sorted sc pkts) p q k Hp Hq Ip Iq) as <-.
           apply Hni. rewrite Dq. apply nth_error_In with (n := j). exact Hid.
    + exists 0%nat. intros j s Hj Hne y Hy. rewrite Ess in Hj. destruct j as [|[|j]]; [congruence| |].
      * cbn in Hj. injection Hj as <-. apply (Hno _ (or_intror (analysis_stream_kind _)) y Hy).
      * cbn in Hj. apply nth_error_map_inv in Hj. destruct Hj as (id & Hid & ->).
        destruct (err_at k y) eqn:Ek; [|reflexivity]. exfalso.
        destruct (Hval id y Hy Ek) as (q & Hq & _ & Iq). exact (find_owner_none _ _ Ef q Hq Iq).
  - intros s Hs m Hm. destruct ss_shape as (procs & _ & Ess). rewrite Ess in Hs. destruct Hs as [<-|[<-|Hs]].
    + pose proof (main_stream_kind version o tl Hplain Hknown Htl _ Hm) as X. discriminate.
    + pose proof (analysis_stream_kind _ _ Hm) as X. discriminate.
    + apply in_map_iff in Hs. destruct Hs as (id & <- & _). pose proof (vstream_kind _ _ Hm) as X. discriminate.
Qed.
End Run.

Lemma serialize_length pkts : Forall wf_pkt pkts -> N.of_nat (length (serialize pkts)) = total_size pkts.
Proof.
  unfold serialize. induction 1 as [|p r Hp _ IH]; [reflexivity|]. cbn [map concat]. rewrite app_length, Nat2N.inj_add, IH.
  unfold total_size. cbn [fold_right]. destruct Hp as ((Hl & _) & _). unfold p_size, p_bytes. rewrite app_length, Hl. lia.
Qed.

(* ------------------------------------------------------------------ the theorems for one whole run *)
Section Whole.
Context (c : run_cfg) (pkts : list packet).
Context (Hoff : Gen.Facts.cdp_offset_sampled_after = true).
Context (Hwf : Forall wf_pkt pkts).
Context (Hn : N.of_nat (length pkts) < U32_MAX).
Context (Hpay : pay_all pkts < U32_MAX).
Context (Hlay : sc_skip (rc_scan c) = true \/ forall p, In p pkts -> layout_rp (hdr p) (p_payload p)).
Context (Hknown : forall p r, pkts = p :: r -> known_sysid (r_system_id (hdr p)) = true).

Let input := serialize pkts.
Let cdps := map (mk_cdp (rc_scan c)) (selected (rc_scan c) 0 pkts).

Lemma whole_size : total_size pkts < 9223372036854775808.
Proof. clear - Hn Hpay. rewrite total_size_sum. unfold U32_MAX in *. lia. Qed.

Lemma whole_streams : exists o tl,
  sender_streams c input =
    main_stream (nth 0 input 0) (o ++ tl) :: analysis_stream (chunk CAP cdps) ::
    map (fun idr => vstream_of (snd idr)) (run_dispatch (rc_check c) cdps) /\
  il_plain o = true /\ (forall y, In (IS_sysid y) o -> known_sysid y = true) /\
  (forall i, In i tl -> match i with IS_seen _ | IS_filtered _ | IS_payload _ => True | _ => False end) /\
  concat (so_batches (scan_impl (rc_scan c) input)) = cdps.
Proof.
  clear Hlay. unfold sender_streams, scan_impl. cbv zeta.
  destruct (c03_scan_exact_when _ Gen.Facts.batch_kept_on_invalid_input Hoff (rc_scan c) pkts Hwf) as (B1 & B2 & _).
  destruct (c14_scan_stats_when _ Gen.Facts.batch_kept_on_invalid_input Hoff (rc_scan c) pkts Hwf Hn Hpay) as (o & Eo & _ & _ & Hpl & Hfi).
  exists o, [IS_seen (N.of_nat (length pkts));
             IS_filtered (match sc_filter (rc_scan c) with Some _ => N.of_nat (length (filter (pmatch (rc_scan c)) pkts)) | None => 0 end);
             IS_payload (pay_all (filter (pmatch (rc_scan c)) pkts))].
  fold input. fold input in B1, B2, Eo. rewrite B2, B1, Eo. fold cdps. split; [reflexivity|]. split; [exact Hpl|]. split; [|split; [|reflexivity]].
  - intros y Hy. assert (Hin : In (IS_sysid y) (il_first o)) by (unfold il_first; apply filter_In; split; [exact Hy|reflexivity]).
    rewrite Hfi in Hin. destruct pkts as [|p r] eqn:Ep; [destruct Hin|]. cbn in Hin. destruct Hin as [E|[E|[E|[]]]]; try discriminate.
    injection E as <-. exact (Hknown p r eq_refl).
  - intros i [<-|[<-|[<-|[]]]]; exact I.
Qed.

Lemma whole_streams_ok : streams_ok (sender_streams c input).
Proof.
  destruct whole_streams as (o & tl & E & Hpl & Hk & Htl & _). rewrite E.
  exact (run_streams_ok (rc_check c) (rc_scan c) pkts (nth 0 input 0) o tl Hwf whole_size Hlay Hpl Hk Htl).
Qed.

(* C05, whole run: whatever order the statistics channel delivers the messages of the threads in, the run ends with the same
   collector state, the same displayed messages and the same exit status as the model's own run *)
Theorem c05_whole_run ff a : Gen.Facts.error_sort_when_muted = true ->
  Interleave (sender_streams c input) a -> run_check_sched ff c input a = run_check ff c input.
Proof.
  intros Hsm Ha. rewrite run_check_is_sched. unfold run_check_sched.
  destruct (Nat.ltb _ _); [reflexivity|]. destruct (negb _); [reflexivity|]. destruct (gather _); [|reflexivity].
  exact (finish_eq ff c a _ _ Hsm whole_streams_ok Ha (interleave_concat _)).
Qed.

Lemma in_sort_msgs z : forall l acc, In z (fold_left (fun acc m => insert_msg m acc) l acc) -> In z acc \/ In z l.
Proof.
  induction l as [|m l IH]; intros acc H; cbn [fold_left] in H; [left; exact H|].
  destruct (IH _ H) as [H1|H1]; [|right; right; exact H1]. destruct (insert_In m z acc H1) as [->|H2]; [right; left; reflexivity|left; exact H2].
Qed.

Lemma finalize_errors_in sm mute s0 ce m : k_finalized s0 = false ->
  In m (k_errors (finalize sm mute (add_custom s0 ce))) -> In m (k_errors s0).
Proof.
  intros Hf. unfold finalize, add_custom. cbn [k_finalized upd_errs]. rewrite Hf. cbn [k_errors upd_errs].
  destruct (negb mute || sm); [|exact (fun H => H)].
  unfold sort_msgs. intros H. destruct (in_sort_msgs m _ _ H) as [[]|Hx]. exact Hx.
Qed.

(* C07, whole run: every error message the run ends with is located at the start of the RDH or of an 80-bit word of a packet of the
   input that passed the filter -- in particular inside the input *)
Theorem c07_whole_run ff s shown e : run_check ff c input = R_done s shown e ->
  forall m, In m (k_errors s) ->
  exists q, In q cdps /\ start_of q (m_off m) /\ m_off m < N.of_nat (length input).
Proof.
  intros H m Hm. rewrite run_check_is_sched in H. unfold run_check_sched in H.
  destruct (Nat.ltb _ _); [discriminate|]. destruct (negb _); [discriminate|]. destruct (gather _); [|discriminate].
  unfold finish in H. cbv zeta in H. injection H as <- _ _.
  set (arr := concat (sender_streams c input)) in *.
  pose proof whole_streams_ok as Hok. pose proof (interleave_concat (sender_streams c input)) as Ia. fold arr in Ia.
  pose proof (interleave_nofatal _ arr Ia (so_nofatal _ Hok)) as Nf.
  destruct (errors_fold arr cinit eq_refl Nf) as [X _]. fold (collect_all arr) in X. cbn [k_errors cinit app] in X.
  assert (Hin : In m (flat_map msg_of arr)).
  { rewrite <- X. pose proof (rest_const arr) as R. unfold g_rest in R. injection R as _ _ R. cbn [k_finalized cinit] in R.
    exact (finalize_errors_in _ _ _ _ m R Hm). }
  apply in_flat_map in Hin. destruct Hin as (x & Hx & Hmx). destruct x; cbn in Hmx; try contradiction. destruct Hmx as [->|[]].
  unfold arr in Hx. apply in_concat in Hx. destruct Hx as (st & Hst & Hx).
  destruct whole_streams as (o & tl & E & Hpl & Hk & Htl & _). rewrite E in Hst.
  destruct (c06_isolated (rc_check c) cdps) as (procs & _ & _ & Ed). rewrite Ed, map_map in Hst. cbn [snd] in Hst.
  destruct Hst as [<-|[<-|Hst]].
  - pose proof (main_stream_kind _ o tl Hpl Hk Htl _ Hx) as K. discriminate.
  - pose proof (analysis_stream_kind _ _ Hx) as K. discriminate.
  - apply in_map_iff in Hst. destruct Hst as (id & <- & _).
    destruct (validator_err_owner (rc_check c) (rc_scan c) pkts 0 o Hwf whole_size Hlay Hk id m Hx) as (q & Q1 & _ & Q3).
    exists q. split; [exact Q1|]. split; [exact Q3|].
    pose proof (start_inside _ _ Q3) as [_ I2].
    apply in_map_iff in Q1. destruct Q1 as (op & <- & Hop). apply filter_In in Hop. destruct Hop as [Hop _].
    destruct (with_offsets_bounds _ _ _ Hop) as [_ B].
    pose proof (serialize_length pkts Hwf) as L. fold input in L.
    rewrite L. unfold mk_cdp in I2. cbn [c_off c_payload] in I2. unfold p_size in B. destruct (sc_skip (rc_scan c)); cbn [length] in I2; lia.
Qed.
End Whole.

(* ------------------------------------------------------------------ the layout proviso cannot be dropped (finding F18) *)
(* an executable interleaving: the schedule names the stream that delivers next *)
Fixpoint run_sched {A} (sched : list nat) (ss : list (list A)) : option (list A) :=
  match sched with
  | [] => if forallb (fun s => match s with [] => true | _ => false end) ss then Some [] else None
  | i :: r => match nth_error ss i with
              | Some (x :: s') => option_map (cons x) (run_sched r (replace_nth i s' ss))
              | _ => None
              end
  end.

Lemma run_sched_sound {A} : forall sched (ss : list (list A)) a, run_sched sched ss = Some a -> Interleave ss a.
Proof.
  induction sched as [|i r IH]; intros ss a H; cbn [run_sched] in H.
  - destruct (forallb _ ss) eqn:E; [|discriminate]. injection H as <-. constructor.
    rewrite forallb_forall in E. rewrite Forall_forall. intros s Hs. specialize (E s Hs). destruct s; [reflexivity|discriminate].
  - destruct (nth_error ss i) as [[|x s']|] eqn:E; try discriminate.
    destruct (run_sched r (replace_nth i s' ss)) as [a'|] eqn:E2; [|discriminate]. injection H as <-.
    exact (IL_cons ss i x s' a' E (IH _ _ E2)).
Qed.

(* link 0: the header says data format 0 (16-byte slots) but the 32-byte payload is laid out in 10-byte words; its third word is
   reported at 64 + 2*16 = 96, which is where the next packet -- link 1, faulty RDH -- starts *)
Definition f18_hdr (link prio fmt size : N) : list N :=
  [7;64;42;80;prio;32;0;0; size;0;size;0;link;0;24;0] ++ repeat 0 8 ++ [fmt;0;0;0;0;0;0;0; 3;106;0;0;0;0;0;0] ++ repeat 0 24.
Definition f18_word (b : N) : list N := repeat b 9 ++ [61].
Definition f18_pkts : list packet :=
  [ {| p_hdr := f18_hdr 0 0 0 96; p_payload := f18_word 18 ++ f18_word 35 ++ f18_word 52 ++ [1;2] |};
    {| p_hdr := f18_hdr 1 1 2 64; p_payload := [] |} ].
Definition f18_cfg : run_cfg :=
  {| rc_scan := {| sc_filter := None; sc_skip := false; sc_src := Src_file |};
     rc_check := {| v_running := false; v_target := T_its; v_period := None; v_custom_version := None; v_chip_count := None; v_chip_orders := None |};
     rc_mute := false; rc_cap := 0; rc_filter := None; rc_exit := None; rc_counts := {| cc_cdps := None; cc_pht := None |} |}.
Definition f18_sched (order : list nat) : list nat :=
  flat_map (fun i => repeat i (length (nth i (sender_streams f18_cfg (serialize f18_pkts)) []))) order.

Lemma c05_layout_proviso_needed :
  Forall wf_pkt f18_pkts /\
  (forall p r, f18_pkts = p :: r -> known_sysid (r_system_id (hdr p)) = true) /\
  ~ (forall p, In p f18_pkts -> layout_rp (hdr p) (p_payload p)) /\
  exists a1 a2, Interleave (sender_streams f18_cfg (serialize f18_pkts)) a1 /\
                Interleave (sender_streams f18_cfg (serialize f18_pkts)) a2 /\
                (exists s1 s2 sh1 sh2, run_check_sched true f18_cfg (serialize f18_pkts) a1 = R_done s1 sh1 0 /\
                                       run_check_sched true f18_cfg (serialize f18_pkts) a2 = R_done s2 sh2 0 /\
                                       map (fun m => (m_off m, m_body m)) sh1 <> map (fun m => (m_off m, m_body m)) sh2 /\
                                       map m_off sh1 = map m_off sh2).
Proof.
  split; [repeat constructor; apply wf_pktb_sound; vm_compute; reflexivity|].
  split; [intros p r E; injection E as <- _; vm_compute; reflexivity|].
  split.
  { intros H. specialize (H _ (or_introl eq_refl)). vm_compute in H. discriminate. }
  destruct (run_sched (f18_sched [0;1;2;3]%nat) (sender_streams f18_cfg (serialize f18_pkts))) as [a1|] eqn:E1; [|vm_compute in E1; discriminate].
  destruct (run_sched (f18_sched [0;1;3;2]%nat) (sender_streams f18_cfg (serialize f18_pkts))) as [a2|] eqn:E2; [|vm_compute in E2; discriminate].
  exists a1, a2. split; [exact (run_sched_sound _ _ _ E1)|]. split; [exact (run_sched_sound _ _ _ E2)|].
  vm_compute in E1. vm_compute in E2. injection E1 as <-. injection E2 as <-.
  eexists. eexists. eexists. eexists. split; [vm_compute; reflexivity|]. split; [vm_compute; reflexivity|].
  split; [vm_compute; discriminate|vm_compute; reflexivity].
Qed.
