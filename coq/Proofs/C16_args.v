(* C16: invalid option combinations are exactly the ones the start-up validation rejects. *)
From Coq Require Import List NArith Bool Lia.
Import ListNotations.
From FP Require Import Model.Base Model.CdpRunning Model.Args.
Open Scope N_scope.

(* the documented contract (README, `fastpasta --help`, the property text): what makes a combination invalid *)
Definition invalid_combination (a : args) : Prop :=
  (* `check sanity` has no stave level *)
  a_check a = Some (CK_sanity, T_stave) \/
  (* a trigger period belongs to `check all its-stave` only *)
  (a_period a <> None /\ a_check a <> Some (CK_all, T_stave)) \/
  (* the any-errors exit code cannot be 0 *)
  a_exit a = Some 0 \/
  (* the statistics file to compare with must exist and be named *.json or *.toml *)
  (exists f, a_istats a = Some f /\ f <> SF_ext EXT_json /\ f <> SF_ext EXT_toml).

Lemma list_eqb_eq a : forall b, list_eqb a b = true <-> a = b.
Proof.
  induction a as [|x a IH]; intros [|y b]; cbn [list_eqb]; split; intros H; try reflexivity; try discriminate.
  - apply andb_prop in H. destruct H as [H1 H2]. apply N.eqb_eq in H1. apply IH in H2. congruence.
  - injection H as -> ->. rewrite N.eqb_refl. apply IH. reflexivity.
Qed.

(* the same contract as a boolean *)
Definition is_sanity_stave (ck : option (check_kind * target)) : bool := match ck with Some (CK_sanity, T_stave) => true | _ => false end.
Definition is_all_stave (ck : option (check_kind * target)) : bool := match ck with Some (CK_all, T_stave) => true | _ => false end.
Definition bad_stats (f : option sfile) : bool :=
  match f with
  | None => false
  | Some SF_missing | Some SF_no_ext => true
  | Some (SF_ext e) => negb (list_eqb e EXT_json) && negb (list_eqb e EXT_toml)
  end.
Definition invalid_b (a : args) : bool :=
  is_sanity_stave (a_check a) || ((match a_period a with Some _ => true | None => false end) && negb (is_all_stave (a_check a))) ||
  (match a_exit a with Some v => v =? 0 | None => false end) || bad_stats (a_istats a).

Lemma validate_is_not_invalid a : validate_args a = negb (invalid_b a).
Proof.
  unfold validate_args, invalid_b. destruct a as [ck per ex ist]. cbn [a_check a_period a_exit a_istats].
  set (z := match ex with Some v => v =? 0 | None => false end).
  assert (Hs : (match ist with None => true | Some SF_missing => false | Some SF_no_ext => false
                             | Some (SF_ext e) => negb (negb (list_eqb e EXT_json) && negb (list_eqb e EXT_toml)) end) = negb (bad_stats ist)).
  { destruct ist as [[| |e]|]; reflexivity. }
  rewrite Hs. destruct (bad_stats ist), z; destruct ck as [[[] []]|]; destruct per; reflexivity.
Qed.

Lemma invalid_b_iff a : invalid_b a = true <-> invalid_combination a.
Proof.
  unfold invalid_b, invalid_combination. destruct a as [ck per ex ist]. cbn [a_check a_period a_exit a_istats].
  rewrite !orb_true_iff, andb_true_iff, negb_true_iff. split.
  - intros [[[H|[H1 H2]]|H]|H].
    + left. destruct ck as [[[] []]|]; try discriminate. reflexivity.
    + right. left. split; [destruct per; [discriminate|discriminate]|]. intros ->. discriminate.
    + right. right. left. destruct ex as [v|]; [|discriminate]. apply N.eqb_eq in H. subst. reflexivity.
    + right. right. right. destruct ist as [f|]; [|discriminate]. exists f. split; [reflexivity|].
      destruct f as [| |e]; [split; discriminate|split; discriminate|]. cbn in H. apply andb_prop in H. destruct H as [H1 H2].
      apply negb_true_iff in H1. apply negb_true_iff in H2.
      split; intros X; injection X as ->; [rewrite (proj2 (list_eqb_eq _ _) eq_refl) in H1|rewrite (proj2 (list_eqb_eq _ _) eq_refl) in H2]; discriminate.
  - intros [H|[[H1 H2]|[H|(f & Hf & N1 & N2)]]].
    + left. left. left. rewrite H. reflexivity.
    + left. left. right. split; [destruct per; [reflexivity|congruence]|]. destruct ck as [[[] []]|]; try reflexivity. congruence.
    + left. right. rewrite H. reflexivity.
    + right. rewrite Hf. destruct f as [| |e]; try reflexivity. cbn.
      destruct (list_eqb e EXT_json) eqn:E1; [apply list_eqb_eq in E1; subst; congruence|].
      destruct (list_eqb e EXT_toml) eqn:E2; [apply list_eqb_eq in E2; subst; congruence|]. reflexivity.
Qed.

Theorem c16_args a : validate_args a = false <-> invalid_combination a.
Proof. rewrite validate_is_not_invalid, negb_false_iff. apply invalid_b_iff. Qed.
