(* C02 carried from the validator to the end of the run: every finding of a unit's validator is in the final report of the whole run,
   at its offset and with its code, and an any-errors exit code that is configured is returned. *)
From Coq Require Import List NArith ZArith Bool Lia.
From FP Require Import Model.Base Model.Rdh Model.RdhChecks Model.Payload Model.Alpide Model.Scanner Model.CdpRunning Model.Link
  Model.Collector Model.System Spec.RdhRules Spec.Framing Spec.GroundTruth
  Proofs.C03_proofs Proofs.C05_proofs Proofs.C06_proofs Proofs.C07_run Proofs.C14_proofs Proofs.C05_run Proofs.C06_run
  Proofs.C16_proofs Proofs.C16_reportless Proofs.C16_run Proofs.C02_proofs.
From FP Require Gen.Facts.
Import ListNotations.
Open Scope N_scope.

Lemma insert_In_conv m z : forall l, z = m \/ In z l -> In z (insert_msg m l).
Proof.
  induction l as [|w l IH]; cbn [insert_msg]; intros H.
  - destruct H as [->|[]]. left. reflexivity.
  - destruct (m_off m <? m_off w).
    + destruct H as [->|H]; [left; reflexivity|right; exact H].
    + destruct H as [->|[->|H]]; [right; apply IH; left; reflexivity|left; reflexivity|right; apply IH; right; exact H].
Qed.
Lemma sort_In_conv z : forall l acc, In z acc \/ In z l -> In z (fold_left (fun acc m => insert_msg m acc) l acc).
Proof.
  induction l as [|m l IH]; intros acc H; cbn [fold_left]; [destruct H as [H|[]]; exact H|].
  apply IH. destruct H as [H|[->|H]]; [left; apply insert_In_conv; right; exact H|left; apply insert_In_conv; left; reflexivity|right; exact H].
Qed.

(* the collector's record of a validator's error message *)
Definition stored (e : err) : emsg :=
  {| m_off := e_off e; m_codes := (if e_code e =? 0 then [] else [e_code e]); m_body := e_code e; m_fee := None |}.

Section Whole.
Context (c : run_cfg) (pkts : list packet).
Context (Hoff : Gen.Facts.cdp_offset_sampled_after = true).
Context (Hsort : Gen.Facts.error_sort_when_muted = true).
Context (Hwf : Forall wf_pkt pkts).
Context (Hn : N.of_nat (length pkts) < U32_MAX).
Context (Hpay : pay_all pkts < U32_MAX).
Context (Hlay : sc_skip (rc_scan c) = true \/ forall p, In p pkts -> layout_rp (hdr p) (p_payload p)).
Context (Hknown : forall p r, pkts = p :: r -> known_sysid (r_system_id (hdr p)) = true).

Let cdps := map (mk_cdp (rc_scan c)) (selected (rc_scan c) 0 pkts).

Theorem c02_reported ff s shown ex id ms e : run_check ff c (serialize pkts) = R_done s shown ex ->
  sel (rc_check c) id cdps <> [] -> run_validator (rc_check c) (sel (rc_check c) id cdps) = Ok ms -> In (VErr e) ms ->
  In (stored e) (k_errors s) /\ 0 < k_total s /\ (forall n, rc_exit c = Some n -> n <> 0 -> ex = n).
Proof.
  intros H Hs Hr He.
  pose proof (c06_whole_run c pkts Hoff Hsort Hwf Hn Hpay Hlay Hknown ff s shown ex id ms H Hs Hr) as W.
  assert (Hin : In (stored e) (sort_msgs (errs_of ms))).
  { unfold sort_msgs. apply sort_In_conv. right. unfold errs_of. apply in_flat_map. exists (vmsg_to_cstat (VErr e)).
    split; [apply in_map, He|left; reflexivity]. }
  fold cdps in W. rewrite <- W in Hin. apply filter_In in Hin. destruct Hin as [Hin _].
  split; [exact Hin|].
  destruct (check_done_shape _ _ _ _ _ _ H) as (_ & _ & T & _).
  assert (Hpos : 0 < k_total s).
  { rewrite T. destruct (k_errors s) as [|x l]; [destruct Hin|]. cbn [length]. lia. }
  split; [exact Hpos|]. intros n Hn1 Hn0. apply (proj1 (check_exit_iff ff c _ s shown ex n H Hn1 Hn0)). left. exact Hpos.
Qed.
End Whole.

(* the detection theorems speak of `has_err off code` in a validator's report: carried to the end of the run *)
Section EndToEnd.
Context (c : run_cfg) (pkts : list packet).
Context (Hoff : Gen.Facts.cdp_offset_sampled_after = true).
Context (Hsort : Gen.Facts.error_sort_when_muted = true).
Context (Hwf : Forall wf_pkt pkts).
Context (Hn : N.of_nat (length pkts) < U32_MAX).
Context (Hpay : pay_all pkts < U32_MAX).
Context (Hlay : sc_skip (rc_scan c) = true \/ forall p, In p pkts -> layout_rp (hdr p) (p_payload p)).
Context (Hknown : forall p r, pkts = p :: r -> known_sysid (r_system_id (hdr p)) = true).

Theorem c02_end_to_end ff s shown ex id ms off code : run_check ff c (serialize pkts) = R_done s shown ex ->
  sel (rc_check c) id (map (mk_cdp (rc_scan c)) (selected (rc_scan c) 0 pkts)) <> [] ->
  run_validator (rc_check c) (sel (rc_check c) id (map (mk_cdp (rc_scan c)) (selected (rc_scan c) 0 pkts))) = Ok ms ->
  has_err off code ms ->
  (exists m, In m (k_errors s) /\ m_off m = off /\ m_body m = code) /\ 0 < k_total s /\ (forall n, rc_exit c = Some n -> n <> 0 -> ex = n).
Proof.
  intros H Hs Hr (v & Hv & He). destruct v as [e|f]; [|destruct He]. cbn in He. destruct He as [E1 E2].
  destruct (c02_reported c pkts Hoff Hsort Hwf Hn Hpay Hlay Hknown ff s shown ex id ms e H Hs Hr Hv) as (A & B & C).
  split; [|split; [exact B|exact C]]. exists (stored e). split; [exact A|]. split; [exact E1|exact E2].
Qed.
End EndToEnd.
