(* C09: the implementation's state machine simulates the documented diagram. *)
From Coq Require Import List NArith Bool Lia.
From FP Require Import Model.Base Model.ItsWords Model.ItsFsm Spec.Diagram Spec.DiagramAbs Proofs.Bits Proofs.WordFacts.
From FP Require Gen.Facts.
Import ListNotations.
Open Scope N_scope.

Definition dstate_eqb (a b : dstate) : bool :=
  match a, b with
  | D_IHW, D_IHW | D_TDH, D_TDH | D_Data, D_Data | D_AfterNoData, D_AfterNoData
  | D_AfterTdtDone, D_AfterTdtDone | D_cIHW, D_cIHW | D_cTDH, D_cTDH | D_cData, D_cData => true
  | _, _ => false
  end.
Lemma dstate_eqb_eq a b : dstate_eqb a b = true -> a = b.
Proof. destruct a, b; (reflexivity || discriminate). Qed.

Definition dword_eqb (a b : dword) : bool :=
  match a, b with
  | DW_IHW, DW_IHW | DW_IHW_cont, DW_IHW_cont | DW_TDH, DW_TDH | DW_TDH_cont, DW_TDH_cont
  | DW_TDH_after_done, DW_TDH_after_done | DW_TDT, DW_TDT | DW_CDW, DW_CDW | DW_Data, DW_Data
  | DW_DDW0, DW_DDW0 => true
  | _, _ => false
  end.
Definition dverdict_eqb (a b : dverdict) : bool :=
  match a, b with
  | V_as x, V_as y => dword_eqb x y
  | V_unrecognised x, V_unrecognised y => x =? y
  | _, _ => false
  end.
Lemma dverdict_eqb_eq a b : dverdict_eqb a b = true -> a = b.
Proof.
  destruct a as [x|x], b as [y|y]; cbn; try discriminate.
  - destruct x, y; (reflexivity || discriminate).
  - intros H. apply N.eqb_eq in H. congruence.
Qed.

(* one cell of the product table *)
Definition sim_cell (s : fstate) (id : N) (nd pd : bool) : bool :=
  let '(s', r) := advance_k s id nd pd in
  let '(d', v) := dstep (abs s) id nd pd in
  dstate_eqb (abs s') d' && dverdict_eqb (refine_res r) v.

Definition sim_check : bool :=
  forallb (fun s => forallb (fun id => sim_cell s id false false && sim_cell s id false true &&
                                       sim_cell s id true false && sim_cell s id true true) all_bytes)
          all_fstates.

Lemma sim_check_true : sim_check = true.
Proof. vm_compute. reflexivity. Qed.

Lemma all_fstates_complete s : In s all_fstates.
Proof. destruct s; cbn; tauto. Qed.

Lemma sim_step s id nd pd : id < 256 ->
  abs (fst (advance_k s id nd pd)) = fst (dstep (abs s) id nd pd) /\
  refine_res (snd (advance_k s id nd pd)) = snd (dstep (abs s) id nd pd).
Proof.
  intros Hid. pose proof sim_check_true as H. unfold sim_check in H.
  rewrite forallb_forall in H. specialize (H s (all_fstates_complete s)).
  rewrite forallb_forall in H. specialize (H id (all_bytes_complete id Hid)).
  rewrite !andb_true_iff in H. destruct H as (((H00&H01)&H10)&H11).
  assert (Hc : sim_cell s id nd pd = true) by (destruct nd, pd; assumption).
  unfold sim_cell in Hc.
  destruct (advance_k s id nd pd) as [s' r]. destruct (dstep (abs s) id nd pd) as [d' v].
  apply andb_true_iff in Hc. destruct Hc as [Ha Hb]. cbn [fst snd].
  split; [apply dstate_eqb_eq, Ha | apply dverdict_eqb_eq, Hb].
Qed.

(* the three bits of a word the machine reads *)
Definition wkey (w : list N) : N * bool * bool := (nb 9 w, sl_tdh_no_data w, sl_tdt_packet_done w).

Lemma fsm_run_app s ws w :
  fsm_run s (ws ++ [w]) =
  let '(st, rs) := fsm_run s ws in let '(st', r) := advance st w in (st', rs ++ [r]).
Proof. unfold fsm_run. rewrite fold_left_app. reflexivity. Qed.

Lemma drun_app d ws w :
  drun d (ws ++ [w]) =
  let '(st, rs) := drun d ws in let '(id, nd, pd) := w in
  let '(st', r) := dstep st id nd pd in (st', rs ++ [r]).
Proof. unfold drun. rewrite fold_left_app. reflexivity. Qed.

(* lockstep for every finite sequence of words *)
Lemma sim_run ws : Forall word_ok ws ->
  abs (fst (fsm_run S_InitialIHW ws)) = fst (drun D_IHW (map wkey ws)) /\
  map refine_res (snd (fsm_run S_InitialIHW ws)) = snd (drun D_IHW (map wkey ws)).
Proof.
  induction ws as [|w ws IH] using rev_ind; intros Hok.
  - cbn. split; reflexivity.
  - apply Forall_app in Hok. destruct Hok as [Hws Hw]. inversion Hw as [|? ? Hw1 _]; subst.
    specialize (IH Hws). destruct IH as [IH1 IH2].
    rewrite fsm_run_app, map_app. cbn [map]. rewrite drun_app.
    destruct (fsm_run S_InitialIHW ws) as [st rs]. destruct (drun D_IHW (map wkey ws)) as [d vs].
    cbn [fst snd] in IH1, IH2. unfold wkey. unfold advance.
    assert (Hid : nb 9 w < 256) by (apply nb_lt; assumption).
    pose proof (sim_step st (nb 9 w) (sl_tdh_no_data w) (sl_tdt_packet_done w) Hid) as [Hs1 Hs2].
    rewrite IH1 in Hs1, Hs2.
    destruct (advance_k st (nb 9 w) (sl_tdh_no_data w) (sl_tdt_packet_done w)) as [st' r].
    destruct (dstep d (nb 9 w) (sl_tdh_no_data w) (sl_tdt_packet_done w)) as [d' v].
    cbn [fst snd] in *. split; [assumption|].
    rewrite map_app. cbn [map]. congruence.
Qed.

(* consequences spelled out per kind of state *)
Lemma legal_step s id nd pd : id < 256 -> legal (abs s) (kind_of id nd pd) = true ->
  exists c, dclass (abs s) (kind_of id nd pd) = Some c /\
            refine_res (snd (advance_k s id nd pd)) = V_as c /\
            dnext (abs s) (kind_of id nd pd) = Some (abs (fst (advance_k s id nd pd))).
Proof.
  intros Hid Hl. destruct (sim_step s id nd pd Hid) as [H1 H2].
  unfold legal in Hl. unfold dstep in H1, H2.
  destruct (dnext (abs s) (kind_of id nd pd)) as [d'|] eqn:Hn; [|discriminate].
  destruct (dclass (abs s) (kind_of id nd pd)) as [c|] eqn:Hc.
  - exists c. cbn [fst snd] in H1, H2. repeat split; congruence.
  - exfalso. destruct (abs s), (kind_of id nd pd); cbn in Hn, Hc; congruence.
Qed.

Definition is_ihw_word (v : dverdict) := v = V_as DW_IHW \/ v = V_as DW_IHW_cont.
Definition is_tdh_word (v : dverdict) := v = V_as DW_TDH \/ v = V_as DW_TDH_cont.

Lemma illegal_step s id nd pd : id < 256 -> legal (abs s) (kind_of id nd pd) = false ->
  let v := refine_res (snd (advance_k s id nd pd)) in
  match expected (abs s) with
  | X_IHW => is_ihw_word v /\ id <> IHW_ID
  | X_TDH => is_tdh_word v /\ id <> TDH_ID
  | X_choice_tdh_ddw0_ihw => v = V_unrecognised 990 \/ v = V_unrecognised 992
  | X_choice_data_tdt_cdw => v = V_unrecognised 991
  end.
Proof.
  intros Hid Hl. destruct (sim_step s id nd pd Hid) as [_ H2]. cbn zeta. rewrite H2.
  unfold legal in Hl. unfold dstep.
  destruct (dnext (abs s) (kind_of id nd pd)) as [d'|] eqn:Hn; [discriminate|].
  assert (Hid_ihw : abs s = D_IHW \/ abs s = D_cIHW -> id <> IHW_ID).
  { intros Hd He. subst id. unfold kind_of in Hn. change (IHW_ID =? IHW_ID) with true in Hn.
    destruct Hd as [Hd|Hd]; rewrite Hd in Hn; discriminate. }
  assert (Hid_tdh : abs s = D_TDH \/ abs s = D_cTDH -> id <> TDH_ID).
  { intros Hd He. subst id. unfold kind_of in Hn. change (TDH_ID =? IHW_ID) with false in Hn.
    change (TDH_ID =? TDH_ID) with true in Hn.
    destruct Hd as [Hd|Hd]; rewrite Hd in Hn; discriminate. }
  destruct (abs s); cbn [expected snd]; unfold is_ihw_word, is_tdh_word; auto.
Qed.

(* every step of the model uses a transition declared in the sm! block (regenerated) *)
Definition base_id (s : fstate) : N :=
  match s with
  | S_InitialIHW | S_IHW_ByDdw0 => 0
  | S_TDH_ByIhw => 1
  | S_DATA_ByNoDataFalse | S_DATA_ByWasData => 2
  | S_Choice_ByNoDataTrue | S_Choice_ByTdtDone => 5
  | S_cIHW => 6 | S_cTDH => 7
  | S_cDATA_ByNext | S_cDATA_ByWasData => 8
  end.
Definition pair_in (a b : N) (t : list (list N)) : bool :=
  existsb (fun p => match p with [x; y] => (x =? a) && (y =? b) | _ => false end) t.
Definition table_cell (s : fstate) (id : N) (nd pd : bool) : bool :=
  pair_in (base_id s) (base_id (fst (advance_k s id nd pd))) Gen.Facts.sm_transitions.
Definition table_check : bool :=
  forallb (fun s => forallb (fun id => table_cell s id false false && table_cell s id false true &&
                                       table_cell s id true false && table_cell s id true true) all_bytes)
          all_fstates.
Lemma table_check_true : table_check = true.
Proof. vm_compute. reflexivity. Qed.

Lemma table_wf s id nd pd : id < 256 ->
  pair_in (base_id s) (base_id (fst (advance_k s id nd pd))) Gen.Facts.sm_transitions = true.
Proof.
  intros Hid. pose proof table_check_true as H. unfold table_check in H.
  rewrite forallb_forall in H. specialize (H s (all_fstates_complete s)).
  rewrite forallb_forall in H. specialize (H id (all_bytes_complete id Hid)).
  rewrite !andb_true_iff in H. destruct H as (((H00&H01)&H10)&H11).
  destruct nd, pd; assumption.
Qed.
