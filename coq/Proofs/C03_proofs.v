(* C03: on a well-framed input the scanner visits exactly the chained packets. *)
From Coq Require Import List NArith ZArith Bool Lia ZifyBool ZifyN ZifyNat Arith.
From FP Require Import Model.Base Model.Rdh Model.Scanner Spec.RdhRules Spec.Framing Proofs.RdhFacts Proofs.C12_proofs.
From FP Require Gen.Facts.
Import ListNotations.
Open Scope N_scope.
Ltac Zify.zify_post_hook ::= Z.div_mod_to_equations.

(* ------------------------------------------------------------------ state projections *)
Lemma collect_seen_in st r : s_in (collect_seen st r) = s_in st /\ s_mem (collect_seen st r) = s_mem st.
Proof.
  unfold collect_seen.
  destruct (wrap32 (s_seen st + 1) =? U32_MAX); destruct (mem_N (r_link_id r) (s_links st));
    destruct (mem_N (r_fee_id r) (s_fees st)); split; reflexivity.
Qed.
Lemma count_filtered_in st : s_in (count_filtered st) = s_in st /\ s_mem (count_filtered st) = s_mem st.
Proof. unfold count_filtered. destruct (wrap32 (s_filt st + 1) =? U32_MAX); split; reflexivity. Qed.
Lemma add_payload_in st n : s_in (add_payload st n) = s_in st /\ s_mem (add_payload st n) = s_mem st.
Proof. unfold add_payload. destruct (wrap32 (s_pay st + n) =? U32_MAX); split; reflexivity. Qed.

(* ------------------------------------------------------------------ the statistics part of the state *)
Definition sview := (N * N * N * list N * list N * list instat)%type.
Definition view (st : sstate) : sview := (s_seen st, s_filt st, s_pay st, s_links st, s_fees st, s_out st).
Definition with_view (v : sview) : sstate :=
  let '(a, b, c, d, e, f) := v in
  {| s_in := []; s_mem := 0; s_seen := a; s_filt := b; s_pay := c; s_links := d; s_fees := e; s_out := f |}.
Definition v_seen (v : sview) (r : rdh) : sview := view (collect_seen (with_view v) r).
Definition v_filt (v : sview) : sview := view (count_filtered (with_view v)).
Definition v_pay (v : sview) (n : N) : sview := view (add_payload (with_view v) n).
Definition v_emit (v : sview) (o : list instat) : sview := view (emit (with_view v) o).

Lemma view_set_in st l : view (set_in st l) = view st.  Proof. reflexivity. Qed.
Lemma view_set_mem st m : view (set_mem st m) = view st.  Proof. reflexivity. Qed.
Lemma view_emit st o : view (emit st o) = v_emit (view st) o.  Proof. reflexivity. Qed.
Lemma view_seen st r : view (collect_seen st r) = v_seen (view st) r.
Proof.
  unfold v_seen, view, collect_seen, with_view. cbn [s_seen s_filt s_pay s_links s_fees s_out s_in s_mem].
  destruct (wrap32 (s_seen st + 1) =? U32_MAX); destruct (mem_N (r_link_id r) (s_links st));
    destruct (mem_N (r_fee_id r) (s_fees st)); reflexivity.
Qed.
Lemma view_filt st : view (count_filtered st) = v_filt (view st).
Proof.
  unfold v_filt, view, count_filtered, with_view. cbn [s_seen s_filt s_pay s_links s_fees s_out s_in s_mem].
  destruct (wrap32 (s_filt st + 1) =? U32_MAX); reflexivity.
Qed.
Lemma view_pay st n : view (add_payload st n) = v_pay (view st) n.
Proof.
  unfold v_pay, view, add_payload, with_view. cbn [s_seen s_filt s_pay s_links s_fees s_out s_in s_mem].
  destruct (wrap32 (s_pay st + n) =? U32_MAX); reflexivity.
Qed.

(* ------------------------------------------------------------------ one well-framed packet *)
Definition matches_opt (f : option ftarget) (r : rdh) : bool :=
  match f with None => true | Some t => matches t r end.
Definition pmatch (c : scfg) (p : packet) : bool := matches_opt (sc_filter c) (decode_rdh (p_hdr p)).
Definition mk_cdp (c : scfg) (op : N * packet) : cdp :=
  {| c_rdh := decode_rdh (p_hdr (snd op));
     c_payload := if sc_skip c then [] else p_payload (snd op);
     c_off := fst op |}.

Lemma wf_hdr_ok p : wf_pkt p -> rdh_bytes_ok (p_hdr p).
Proof. intros [H _]. exact H. Qed.

Lemma wf_offset p : wf_pkt p -> r_offset_new_packet (decode_rdh (p_hdr p)) = p_size p.
Proof. intros H. rewrite (f_offset _ (wf_hdr_ok p H)). apply H. Qed.
Lemma wf_memsize p : wf_pkt p -> r_memory_size (decode_rdh (p_hdr p)) = p_size p.
Proof. intros H. rewrite (f_memsize _ (wf_hdr_ok p H)). apply H. Qed.

Lemma offset_ok_window r :
  offset_ok r = (64 <=? r_offset_new_packet r) && (r_offset_new_packet r <=? 10064).
Proof. reflexivity. Qed.

Lemma wf_offset_ok p : wf_pkt p -> offset_ok (decode_rdh (p_hdr p)) = true.
Proof.
  intros H. rewrite offset_ok_window, (wf_offset p H). unfold p_size.
  destruct H as (_ & _ & _ & _ & Hl). lia.
Qed.

Lemma wf_payload_size p : wf_pkt p ->
  N.to_nat (rdh_payload_size (decode_rdh (p_hdr p))) = length (p_payload p).
Proof.
  intros H. unfold rdh_payload_size, sub16. rewrite (wf_memsize p H). unfold p_size.
  destruct H as (_ & _ & _ & _ & Hl). lia.
Qed.

Lemma wf_seek_len p : wf_pkt p -> N.to_nat (p_size p - 64) = length (p_payload p).
Proof. intros _. unfold p_size. lia. Qed.

Lemma read_exact_app n st a tl : length a = n -> s_in st = a ++ tl ->
  read_exact n st = (set_in st tl, Some a).
Proof.
  intros Hn Hin. subst n. unfold read_exact. rewrite Hin.
  assert (Hle : Nat.leb (length a) (length (a ++ tl)) = true).
  { apply Nat.leb_le. rewrite app_length. lia. }
  rewrite Hle, drop_app_exact, take_app_exact. reflexivity.
Qed.

Lemma read_hdr st p tl : wf_pkt p -> s_in st = p_bytes p ++ tl ->
  read_exact 64 st = (set_in st (p_payload p ++ tl), Some (p_hdr p)).
Proof.
  intros H Hin. unfold p_bytes in Hin. rewrite <- app_assoc in Hin.
  apply read_exact_app; [apply H | exact Hin].
Qed.

Lemma read_eof st : s_in st = [] -> read_exact 64 st = (set_in st [], None).
Proof. intros H. unfold read_exact. rewrite H. reflexivity. Qed.

Lemma seek_payload src st p tl : wf_pkt p -> s_in st = p_payload p ++ tl ->
  seek_rel src (N.to_nat (p_size p - 64)) st = (set_in st tl, true).
Proof.
  intros H Hin. rewrite (wf_seek_len p H). unfold seek_rel. rewrite Hin.
  rewrite drop_app_exact.
  destruct src; [reflexivity|].
  assert (Hle : Nat.leb (length (p_payload p)) (length (p_payload p ++ tl)) = true).
  { apply Nat.leb_le. rewrite app_length. lia. }
  rewrite Hle. reflexivity.
Qed.

Lemma read_payload st p tl : wf_pkt p -> s_in st = p_payload p ++ tl ->
  read_exact (length (p_payload p)) st = (set_in st tl, Some (p_payload p)).
Proof. intros _ Hin. apply read_exact_app; [reflexivity | exact Hin]. Qed.

(* ------------------------------------------------------------------ what may follow the last complete packet *)
(* The input is a list of complete well-framed packets followed by a tail: nothing, fewer than
   64 bytes (a cut header), or a complete header with only the first j bytes of its payload. *)
Inductive tail := TL_none | TL_hdr (b : list N) | TL_cut (p : packet) (j : nat).
Definition tail_bytes (t : tail) : list N :=
  match t with TL_none => [] | TL_hdr b => b | TL_cut p j => p_hdr p ++ firstn j (p_payload p) end.
Definition tail_ok (t : tail) : Prop :=
  match t with
  | TL_none => True
  | TL_hdr b => (length b < 64)%nat
  | TL_cut p j => wf_pkt p /\ (j < length (p_payload p))%nat
  end.
Definition need (t : tail) : nat := match t with TL_cut _ _ => 2%nat | _ => 1%nat end.

(* what the scanner state looks like when it stands at the start of a packet list *)
Definition at_pkts (st : sstate) (off : N) (pkts : list packet) (t : tail) : Prop :=
  s_in st = serialize pkts ++ tail_bytes t /\ s_mem st = off.

Lemma serialize_cons p r : serialize (p :: r) = p_bytes p ++ serialize r.
Proof. reflexivity. Qed.

(* first matching packet of a list, with the packets skipped before it *)
Fixpoint split_match (c : scfg) (off : N) (pkts : list packet) : option (N * packet * list packet) :=
  match pkts with
  | [] => None
  | p :: r => if pmatch c p then Some (off, p, r) else split_match c (off + p_size p) r
  end.

Lemma read_short st : (length (s_in st) < 64)%nat -> read_exact 64 st = (set_in st [], None).
Proof.
  intros H. unfold read_exact.
  assert (E : Nat.leb 64 (length (s_in st)) = false) by (apply Nat.leb_gt; exact H). rewrite E. reflexivity.
Qed.

Lemma read_cut_hdr st p j : wf_pkt p -> s_in st = p_hdr p ++ firstn j (p_payload p) ->
  read_exact 64 st = (set_in st (firstn j (p_payload p)), Some (p_hdr p)).
Proof. intros H Hin. apply read_exact_app; [apply H | exact Hin]. Qed.

Lemma drop_all : forall n (l : list N), (length l <= n)%nat -> drop n l = [].
Proof. induction n as [|n IHn]; intros [|x l] Hle; cbn in *; try reflexivity; try lia. apply IHn. lia. Qed.

Lemma seek_cut src st p j : (j < length (p_payload p))%nat -> s_in st = firstn j (p_payload p) ->
  seek_rel src (N.to_nat (p_size p - 64)) st =
  (set_in st [], match src with Src_file => true | Src_pipe => false end).
Proof.
  intros Hj Hin.
  assert (Hl : length (s_in st) = j) by (rewrite Hin, firstn_length; lia).
  assert (Hn : N.to_nat (p_size p - 64) = length (p_payload p)) by (unfold p_size; lia).
  rewrite Hn. unfold seek_rel. destruct src.
  - rewrite drop_all by lia. reflexivity.
  - assert (E : Nat.leb (length (p_payload p)) (length (s_in st)) = false) by (apply Nat.leb_gt; lia).
    rewrite E. reflexivity.
Qed.

Lemma read_cut_payload st p j : (j < length (p_payload p))%nat -> s_in st = firstn j (p_payload p) ->
  read_exact (length (p_payload p)) st = (set_in st [], None).
Proof.
  intros Hj Hin. unfold read_exact.
  assert (Hl : length (s_in st) = j) by (rewrite Hin, firstn_length; lia).
  assert (E : Nat.leb (length (p_payload p)) (length (s_in st)) = false) by (apply Nat.leb_gt; lia).
  rewrite E. reflexivity.
Qed.

(* ---- what the statistics become, packet by packet ---- *)
Definition v_first (off : N) (v : sview) (r : rdh) : sview :=
  if off =? 0 then v_emit v [IS_trig (r_trigger_type r); IS_fmt (rdh_data_format r); IS_sysid (r_system_id r)] else v.
Definition v_hit (c : scfg) (v : sview) : sview := match sc_filter c with Some _ => v_filt v | None => v end.
(* one visited header, without the payload-size accumulation of a returned packet *)
Definition v_pkt0 (c : scfg) (off : N) (v : sview) (p : packet) : sview :=
  let r := decode_rdh (p_hdr p) in
  let v2 := v_seen (v_first off v r) r in
  if pmatch c p then v_hit c v2 else v2.
(* through the first matching packet (inclusive) or the end of the list *)
Fixpoint v_until (c : scfg) (off : N) (v : sview) (pkts : list packet) : sview :=
  match pkts with
  | [] => v
  | p :: r => if pmatch c p then v_pkt0 c off v p else v_until c (off + p_size p) (v_pkt0 c off v p) r
  end.
Definition v_pkt (c : scfg) (off : N) (v : sview) (p : packet) : sview :=
  if pmatch c p then v_pay (v_pkt0 c off v p) (rdh_payload_size (decode_rdh (p_hdr p))) else v_pkt0 c off v p.
Fixpoint v_pkts (c : scfg) (off : N) (v : sview) (pkts : list packet) : sview :=
  match pkts with
  | [] => v
  | p :: r => v_pkts c (off + p_size p) (v_pkt c off v p) r
  end.

(* ---- the filter loop standing at the tail ---- *)
Inductive tail_res := TR_eof | TR_match (p : packet) (j : nat) | TR_invalid_input.
Definition tail_loop (c : scfg) (t : tail) : tail_res :=
  match t with
  | TL_cut p j => if pmatch c p then TR_match p j
                  else match sc_src c with Src_file => TR_eof | Src_pipe => TR_invalid_input end
  | _ => TR_eof
  end.

Lemma filter_loop_tail c ft : sc_filter c = Some ft -> forall t fuel st off,
  tail_ok t -> (need t <= fuel)%nat -> s_in st = tail_bytes t -> s_mem st = off ->
  match tail_loop c t with
  | TR_eof => exists st', filter_loop fuel c ft st = (st', SErr E_eof) /\ s_in st' = [] /\ (t = TL_none -> view st' = view st)
  | TR_match p j => exists st', filter_loop fuel c ft st = (st', SOk (decode_rdh (p_hdr p))) /\
                                s_in st' = firstn j (p_payload p) /\ s_mem st' = off
  | TR_invalid_input => exists st', filter_loop fuel c ft st = (st', SErr E_invalid_input) /\ s_in st' = []
  end.
Proof.
  intros Hf t fuel st off Hok Hfuel Hin Hmem.
  destruct t as [|b|p j]; cbn [tail_loop tail_bytes need tail_ok] in *.
  - destruct fuel as [|f]; [lia|]. cbn [filter_loop]. rewrite (read_eof st Hin). eexists; split; [reflexivity|]. split; [reflexivity|intros _; reflexivity].
  - destruct fuel as [|f]; [lia|]. cbn [filter_loop].
    rewrite (read_short st) by (rewrite Hin; exact Hok). eexists; split; [reflexivity|]. split; [reflexivity|discriminate].
  - destruct Hok as [Hp Hj]. destruct fuel as [|[|f]]; [lia|lia|]. cbn [filter_loop].
    rewrite (read_cut_hdr st p j Hp Hin). rewrite (wf_offset_ok p Hp). cbn [negb].
    unfold pmatch. rewrite Hf. cbn [matches_opt].
    set (st1 := set_in st (firstn j (p_payload p))).
    destruct (collect_seen_in st1 (decode_rdh (p_hdr p))) as [Hi2 Hm2].
    destruct (matches ft (decode_rdh (p_hdr p))) eqn:Hm.
    + destruct (count_filtered_in (collect_seen st1 (decode_rdh (p_hdr p)))) as [Hi3 Hm3].
      eexists; split; [reflexivity|]. rewrite Hi3, Hi2, Hm3, Hm2. split; [reflexivity|exact Hmem].
    + unfold seek_next. rewrite (wf_offset p Hp).
      set (st2 := set_mem (collect_seen st1 (decode_rdh (p_hdr p))) _).
      assert (Hin2 : s_in st2 = firstn j (p_payload p)) by (subst st2; cbn; exact Hi2).
      rewrite (seek_cut (sc_src c) st2 p j Hj Hin2).
      destruct (sc_src c).
      * rewrite (read_eof (set_in st2 []) eq_refl). eexists; split; [reflexivity|]. split; [reflexivity|discriminate].
      * eexists; split; reflexivity.
Qed.

(* ------------------------------------------------------------------ the filter loop *)
Definition tail_off (off : N) (pkts : list packet) : N := off + total_size pkts.

Lemma v_pkt0_loop c t off v p : sc_filter c = Some t -> 0 < off ->
  v_pkt0 c off v p = (let v2 := v_seen v (decode_rdh (p_hdr p)) in if matches t (decode_rdh (p_hdr p)) then v_filt v2 else v2).
Proof.
  intros Hf Ho. unfold v_pkt0, v_first, v_hit, pmatch. rewrite Hf. cbn [matches_opt].
  assert (E : off =? 0 = false) by (apply N.eqb_neq; lia). rewrite E. reflexivity.
Qed.

Lemma filter_loop_spec c t : sc_filter c = Some t -> forall pkts tl fuel st off,
  Forall wf_pkt pkts -> tail_ok tl -> (length pkts + need tl <= fuel)%nat -> at_pkts st off pkts tl -> 0 < off ->
  match split_match c off pkts with
  | Some (off', p, rest) =>
      exists st', filter_loop fuel c t st = (st', SOk (decode_rdh (p_hdr p))) /\
                  s_in st' = p_payload p ++ serialize rest ++ tail_bytes tl /\ s_mem st' = off' /\
                  view st' = v_until c off (view st) pkts
  | None =>
      match tail_loop c tl with
      | TR_eof => exists st', filter_loop fuel c t st = (st', SErr E_eof) /\ s_in st' = [] /\
                              (tl = TL_none -> view st' = v_until c off (view st) pkts)
      | TR_match p j => exists st', filter_loop fuel c t st = (st', SOk (decode_rdh (p_hdr p))) /\
                                    s_in st' = firstn j (p_payload p) /\ s_mem st' = tail_off off pkts
      | TR_invalid_input => exists st', filter_loop fuel c t st = (st', SErr E_invalid_input) /\ s_in st' = []
      end
  end.
Proof.
  intros Hf. induction pkts as [|p r IH]; intros tl fuel st off Hwf Hok Hfuel [Hin Hmem] Hpos.
  - cbn [split_match]. cbn [serialize concat map app] in Hin.
    pose proof (filter_loop_tail c t Hf tl fuel st off Hok ltac:(cbn in Hfuel; lia) Hin Hmem) as H.
    unfold tail_off, total_size. cbn [fold_right v_until]. rewrite N.add_0_r. exact H.
  - destruct fuel as [|f]; [cbn in Hfuel; lia|].
    pose proof (Forall_inv Hwf) as Hp; pose proof (Forall_inv_tail Hwf) as Hr.
    cbn [split_match filter_loop v_until]. rewrite serialize_cons, <- app_assoc in Hin.
    rewrite (read_hdr st p (serialize r ++ tail_bytes tl) Hp Hin). rewrite (wf_offset_ok p Hp). cbn [negb].
    rewrite (v_pkt0_loop c t off (view st) p Hf Hpos). cbn zeta.
    assert (Hpm : pmatch c p = matches t (decode_rdh (p_hdr p))) by (unfold pmatch; rewrite Hf; reflexivity).
    rewrite !Hpm.
    set (st1 := set_in st (p_payload p ++ serialize r ++ tail_bytes tl)).
    destruct (collect_seen_in st1 (decode_rdh (p_hdr p))) as [Hi2 Hm2].
    assert (Hv2 : view (collect_seen st1 (decode_rdh (p_hdr p))) = v_seen (view st) (decode_rdh (p_hdr p)))
      by (rewrite view_seen; reflexivity).
    destruct (matches t (decode_rdh (p_hdr p))) eqn:Hm.
    + destruct (count_filtered_in (collect_seen st1 (decode_rdh (p_hdr p)))) as [Hi3 Hm3].
      eexists; split; [reflexivity|]. rewrite Hi3, Hi2, Hm3, Hm2. split; [reflexivity|]. split; [exact Hmem|].
      rewrite view_filt, Hv2. reflexivity.
    + unfold seek_next. rewrite (wf_offset p Hp).
      set (st2 := set_mem (collect_seen st1 (decode_rdh (p_hdr p))) _).
      assert (Hin2 : s_in st2 = p_payload p ++ serialize r ++ tail_bytes tl) by (subst st2; cbn; exact Hi2).
      rewrite (seek_payload (sc_src c) st2 p (serialize r ++ tail_bytes tl) Hp Hin2).
      assert (Hto : tail_off off (p :: r) = tail_off (off + p_size p) r).
      { unfold tail_off, total_size. cbn [fold_right]. lia. }
      rewrite Hto.
      assert (Hat : at_pkts (set_in st2 (serialize r ++ tail_bytes tl)) (off + p_size p) r tl).
      { split; [reflexivity|]. subst st2. cbn. rewrite Hm2. subst st1. cbn. rewrite Hmem. reflexivity. }
      pose proof (IH tl f (set_in st2 (serialize r ++ tail_bytes tl)) (off + p_size p) Hr Hok
                    ltac:(cbn in Hfuel; lia) Hat ltac:(unfold p_size; lia)) as IH'.
      assert (Hv3 : view (set_in st2 (serialize r ++ tail_bytes tl)) = v_seen (view st) (decode_rdh (p_hdr p))) by exact Hv2.
      rewrite Hv3 in IH'. exact IH'.
Qed.

(* ------------------------------------------------------------------ load_cdp on a packet list *)
Lemma split_match_some c : forall pkts off off' q rest,
  split_match c off pkts = Some (off', q, rest) ->
  exists skipped, pkts = skipped ++ q :: rest /\ off' = off + total_size skipped /\
                  forallb (fun p => negb (pmatch c p)) skipped = true /\ pmatch c q = true.
Proof.
  induction pkts as [|p r IH]; intros off off' q rest H; cbn [split_match] in H; [discriminate|].
  destruct (pmatch c p) eqn:Hm.
  - injection H as <- <- <-. exists []. cbn. repeat split; [lia | exact Hm].
  - destruct (IH _ _ _ _ H) as (sk & -> & -> & Hs & Hq). exists (p :: sk).
    split; [reflexivity|]. split; [unfold total_size; cbn [fold_right]; lia|].
    split; [cbn [forallb]; rewrite Hm, Hs; reflexivity | exact Hq].
Qed.

Lemma split_match_none c : forall pkts off, split_match c off pkts = None ->
  forallb (fun p => negb (pmatch c p)) pkts = true.
Proof.
  induction pkts as [|p r IH]; intros off H; [reflexivity|]. cbn [split_match] in H.
  destruct (pmatch c p) eqn:Hm; [discriminate|]. cbn [forallb]. rewrite Hm. exact (IH _ H).
Qed.

Lemma split_match_wf c pkts off off' q rest :
  Forall wf_pkt pkts -> split_match c off pkts = Some (off', q, rest) -> wf_pkt q /\ Forall wf_pkt rest.
Proof.
  intros Hwf H. destruct (split_match_some c pkts off off' q rest H) as (sk & -> & _).
  apply Forall_app in Hwf. destruct Hwf as [_ Hwf]. split; [exact (Forall_inv Hwf) | exact (Forall_inv_tail Hwf)].
Qed.

Lemma split_match_length c pkts off off' q rest :
  split_match c off pkts = Some (off', q, rest) -> (length rest < length pkts)%nat.
Proof.
  intros H. destruct (split_match_some c pkts off off' q rest H) as (sk & -> & _).
  rewrite app_length. cbn. lia.
Qed.

(* outcome of load_rdh_cru standing at the tail (it applies the filter itself first) *)
Lemma load_rdh_cru_tail c tl fuel st off :
  tail_ok tl -> (need tl <= S fuel)%nat -> s_in st = tail_bytes tl -> s_mem st = off ->
  match tail_loop c tl with
  | TR_eof => exists st', load_rdh_cru fuel c st = (st', SErr E_eof) /\ s_in st' = [] /\ (tl = TL_none -> view st' = view st)
  | TR_match p j => exists st', load_rdh_cru fuel c st = (st', SOk (decode_rdh (p_hdr p))) /\
                                s_in st' = firstn j (p_payload p) /\ s_mem st' = off
  | TR_invalid_input => exists st', load_rdh_cru fuel c st = (st', SErr E_invalid_input) /\ s_in st' = []
  end.
Proof.
  intros Hok Hfuel Hin Hmem. unfold load_rdh_cru.
  destruct tl as [|b|p j]; cbn [tail_loop tail_bytes need tail_ok] in *.
  - rewrite (read_eof st Hin). eexists; split; [reflexivity|]. split; [reflexivity|intros _; reflexivity].
  - rewrite (read_short st) by (rewrite Hin; exact Hok). eexists; split; [reflexivity|]. split; [reflexivity|discriminate].
  - destruct Hok as [Hp Hj].
    rewrite (read_cut_hdr st p j Hp Hin).
    set (st1 := set_in st (firstn j (p_payload p))).
    set (st2 := if s_mem st1 =? 0 then emit st1 _ else st1).
    assert (H2 : s_in st2 = firstn j (p_payload p) /\ s_mem st2 = off).
    { subst st2. destruct (s_mem st1 =? 0); split; try reflexivity; exact Hmem. }
    destruct H2 as [Hi2 Hm2].
    destruct (collect_seen_in st2 (decode_rdh (p_hdr p))) as [Hi3 Hm3].
    rewrite (wf_offset_ok p Hp). cbn [negb]. unfold pmatch.
    destruct (sc_filter c) as [t|] eqn:Hf; cbn [matches_opt].
    + destruct (matches t (decode_rdh (p_hdr p))) eqn:Hm.
      * destruct (count_filtered_in (collect_seen st2 (decode_rdh (p_hdr p)))) as [Hi4 Hm4].
        set (s4 := count_filtered _) in *.
        destruct (add_payload_in s4 (rdh_payload_size (decode_rdh (p_hdr p)))) as [Hi5 Hm5].
        eexists; split; [reflexivity|]. rewrite Hi5, Hi4, Hi3, Hm5, Hm4, Hm3. split; assumption.
      * unfold seek_next. rewrite (wf_offset p Hp).
        set (s3 := set_mem (collect_seen st2 (decode_rdh (p_hdr p))) _).
        assert (HiS : s_in s3 = firstn j (p_payload p)) by (subst s3; cbn; rewrite Hi3; exact Hi2).
        rewrite (seek_cut (sc_src c) s3 p j Hj HiS).
        destruct (sc_src c).
        -- destruct fuel as [|f]; [lia|]. cbn [filter_loop].
           rewrite (read_eof (set_in s3 []) eq_refl). eexists; split; [reflexivity|]. split; [reflexivity|discriminate].
        -- eexists; split; reflexivity.
    + destruct (add_payload_in (collect_seen st2 (decode_rdh (p_hdr p))) (rdh_payload_size (decode_rdh (p_hdr p)))) as [Hi5 Hm5].
      eexists; split; [reflexivity|]. rewrite Hi5, Hi3, Hm5, Hm3. split; assumption.
Qed.

Lemma load_rdh_cru_spec c pkts tl fuel st off :
  Forall wf_pkt pkts -> tail_ok tl -> (length pkts + need tl <= S fuel)%nat -> at_pkts st off pkts tl ->
  match split_match c off pkts with
  | Some (off', q, rest) =>
      exists st', load_rdh_cru fuel c st = (st', SOk (decode_rdh (p_hdr q))) /\
                  s_in st' = p_payload q ++ serialize rest ++ tail_bytes tl /\ s_mem st' = off' /\
                  view st' = v_pay (v_until c off (view st) pkts) (rdh_payload_size (decode_rdh (p_hdr q)))
  | None =>
      match tail_loop c tl with
      | TR_eof => exists st', load_rdh_cru fuel c st = (st', SErr E_eof) /\ s_in st' = [] /\
                              (tl = TL_none -> view st' = v_until c off (view st) pkts)
      | TR_match p j => exists st', load_rdh_cru fuel c st = (st', SOk (decode_rdh (p_hdr p))) /\
                                    s_in st' = firstn j (p_payload p) /\ s_mem st' = tail_off off pkts
      | TR_invalid_input => exists st', load_rdh_cru fuel c st = (st', SErr E_invalid_input) /\ s_in st' = []
      end
  end.
Proof.
  intros Hwf Hok Hfuel [Hin Hmem].
  destruct pkts as [|p r].
  - cbn [split_match]. cbn [serialize concat map app] in Hin.
    pose proof (load_rdh_cru_tail c tl fuel st off Hok ltac:(cbn in Hfuel; lia) Hin Hmem) as H.
    unfold tail_off, total_size. cbn [fold_right v_until]. rewrite N.add_0_r. exact H.
  - unfold load_rdh_cru.
    pose proof (Forall_inv Hwf) as Hp; pose proof (Forall_inv_tail Hwf) as Hr.
    rewrite serialize_cons, <- app_assoc in Hin.
    rewrite (read_hdr st p (serialize r ++ tail_bytes tl) Hp Hin).
    set (st1 := set_in st (p_payload p ++ serialize r ++ tail_bytes tl)).
    set (r0 := decode_rdh (p_hdr p)).
    set (st2 := if s_mem st1 =? 0 then emit st1 _ else st1).
    assert (H2 : s_in st2 = p_payload p ++ serialize r ++ tail_bytes tl /\ s_mem st2 = off /\ view st2 = v_first off (view st) r0).
    { subst st2. unfold v_first. change (s_mem st1) with (s_mem st). rewrite Hmem.
      destruct (off =? 0); repeat split; try reflexivity; exact Hmem. }
    destruct H2 as (Hi2 & Hm2 & Hv2).
    destruct (collect_seen_in st2 r0) as [Hi3 Hm3].
    assert (Hv3 : view (collect_seen st2 r0) = v_seen (v_first off (view st) r0) r0) by (rewrite view_seen, Hv2; reflexivity).
    subst r0. rewrite (wf_offset_ok p Hp). cbn [negb].
    cbn [split_match v_until]. unfold v_pkt0. cbn zeta. unfold v_hit.
    assert (Hpm : pmatch c p = matches_opt (sc_filter c) (decode_rdh (p_hdr p))) by reflexivity.
    rewrite !Hpm.
    destruct (sc_filter c) as [t|] eqn:Hf; cbn [matches_opt].
    + destruct (matches t (decode_rdh (p_hdr p))) eqn:Hm.
      * destruct (count_filtered_in (collect_seen st2 (decode_rdh (p_hdr p)))) as [Hi4 Hm4].
        set (s4 := count_filtered _) in *.
        destruct (add_payload_in s4 (rdh_payload_size (decode_rdh (p_hdr p)))) as [Hi5 Hm5].
        eexists; split; [reflexivity|]. rewrite Hi5, Hi4, Hi3, Hm5, Hm4, Hm3. split; [assumption|]. split; [assumption|].
        rewrite view_pay. subst s4. rewrite view_filt, Hv3. reflexivity.
      * unfold seek_next. rewrite (wf_offset p Hp).
        set (s3 := set_mem (collect_seen st2 (decode_rdh (p_hdr p))) _).
        assert (HiS : s_in s3 = p_payload p ++ serialize r ++ tail_bytes tl) by (subst s3; cbn; rewrite Hi3; exact Hi2).
        rewrite (seek_payload (sc_src c) s3 p (serialize r ++ tail_bytes tl) Hp HiS).
        assert (Hat : at_pkts (set_in s3 (serialize r ++ tail_bytes tl)) (off + p_size p) r tl).
        { split; [reflexivity|]. subst s3. cbn. rewrite Hm3, Hm2. reflexivity. }
        pose proof (filter_loop_spec c t Hf r tl fuel (set_in s3 (serialize r ++ tail_bytes tl)) (off + p_size p) Hr Hok
                      ltac:(cbn in Hfuel; lia) Hat ltac:(unfold p_size; lia)) as HL.
        assert (Hv4 : view (set_in s3 (serialize r ++ tail_bytes tl)) = v_seen (v_first off (view st) (decode_rdh (p_hdr p))) (decode_rdh (p_hdr p))) by exact Hv3.
        rewrite Hv4 in HL.
        assert (Hto : tail_off off (p :: r) = tail_off (off + p_size p) r).
        { unfold tail_off, total_size. cbn [fold_right]. lia. }
        rewrite Hto.
        destruct (split_match c (off + p_size p) r) as [[[off' q] rest]|].
        -- destruct HL as (st' & HL & HiL & HmL & HvL). rewrite HL.
           destruct (add_payload_in st' (rdh_payload_size (decode_rdh (p_hdr q)))) as [Hi5 Hm5].
           eexists; split; [reflexivity|]. rewrite Hi5, Hm5. split; [assumption|]. split; [assumption|].
           rewrite view_pay, HvL. reflexivity.
        -- destruct (tail_loop c tl) as [|q j|].
           ++ destruct HL as (st' & HL & HiL & HvL). rewrite HL. eexists; split; [reflexivity|]. split; [exact HiL|exact HvL].
           ++ destruct HL as (st' & HL & HiL & HmL). rewrite HL.
              destruct (add_payload_in st' (rdh_payload_size (decode_rdh (p_hdr q)))) as [Hi5 Hm5].
              eexists; split; [reflexivity|]. rewrite Hi5, Hm5. split; assumption.
           ++ destruct HL as (st' & HL & HiL). rewrite HL. eexists; split; [reflexivity|exact HiL].
    + destruct (add_payload_in (collect_seen st2 (decode_rdh (p_hdr p))) (rdh_payload_size (decode_rdh (p_hdr p)))) as [Hi5 Hm5].
      eexists; split; [reflexivity|]. rewrite Hi5, Hi3, Hm5, Hm3. split; [assumption|]. split; [assumption|].
      rewrite view_pay, Hv3. reflexivity.
Qed.

Lemma finish_cdp_spec c st q rest tl off : wf_pkt q ->
  s_in st = p_payload q ++ serialize rest ++ tail_bytes tl -> s_mem st = off ->
  exists st', finish_cdp c st (decode_rdh (p_hdr q)) off = (st', SOk (mk_cdp c (off, q))) /\
              at_pkts st' (off + p_size q) rest tl /\ view st' = view st.
Proof.
  intros Hq Hi Hm. unfold finish_cdp, mk_cdp. cbn [fst snd].
  destruct (sc_skip c).
  - unfold seek_next. rewrite (wf_offset q Hq).
    set (sB := set_mem st _).
    assert (HiB : s_in sB = p_payload q ++ serialize rest ++ tail_bytes tl) by (subst sB; exact Hi).
    rewrite (seek_payload (sc_src c) sB q _ Hq HiB).
    eexists; split; [reflexivity|]. split; [split; [reflexivity|]; subst sB; cbn; rewrite Hm; reflexivity|reflexivity].
  - rewrite (wf_offset q Hq), (wf_payload_size q Hq).
    set (sB := set_mem st _).
    assert (HiB : s_in sB = p_payload q ++ serialize rest ++ tail_bytes tl) by (subst sB; exact Hi).
    rewrite (read_payload sB q _ Hq HiB).
    eexists; split; [reflexivity|]. split; [split; [reflexivity|]; subst sB; cbn; rewrite Hm; reflexivity|reflexivity].
Qed.

(* the packet whose payload is cut: its header is still handed on, with an empty payload;
   an [E100] (payload read) or, on a pipe with skipped payloads, [E101] message is emitted,
   labelled with the offset just past the packet *)
Definition cut_cdp (off : N) (p : packet) : cdp := {| c_rdh := decode_rdh (p_hdr p); c_payload := []; c_off := off |}.

Lemma finish_cdp_cut c st p j off : wf_pkt p -> (j < length (p_payload p))%nat ->
  s_in st = firstn j (p_payload p) -> s_mem st = off ->
  exists st', finish_cdp c st (decode_rdh (p_hdr p)) off = (st', SOk (cut_cdp off p)) /\ s_in st' = [].
Proof.
  intros Hp Hj Hi Hm. unfold finish_cdp, cut_cdp.
  destruct (sc_skip c).
  - unfold seek_next. rewrite (wf_offset p Hp).
    set (sB := set_mem st _).
    assert (HiB : s_in sB = firstn j (p_payload p)) by (subst sB; exact Hi).
    rewrite (seek_cut (sc_src c) sB p j Hj HiB).
    destruct (sc_src c); eexists; split; reflexivity.
  - rewrite (wf_offset p Hp), (wf_payload_size p Hp).
    set (sB := set_mem st _).
    assert (HiB : s_in sB = firstn j (p_payload p)) by (subst sB; exact Hi).
    rewrite (read_cut_payload sB p j Hj HiB). eexists; split; reflexivity.
Qed.

(* one load_cdp *)
Inductive load_res := LR_cdp (off : N) (q : packet) (rest : list packet) | LR_cut (off : N) (p : packet) | LR_eof | LR_invalid_input.
Definition load_outcome (c : scfg) (off : N) (pkts : list packet) (tl : tail) : load_res :=
  match split_match c off pkts with
  | Some (off', q, rest) => LR_cdp off' q rest
  | None => match tail_loop c tl with
            | TR_eof => LR_eof
            | TR_match p _ => LR_cut (tail_off off pkts) p
            | TR_invalid_input => LR_invalid_input
            end
  end.

Lemma load_cdp_spec c pkts tl fuel st off :
  Forall wf_pkt pkts -> tail_ok tl -> (length pkts + need tl <= S fuel)%nat -> at_pkts st off pkts tl ->
  match load_outcome c off pkts tl with
  | LR_cdp off' q rest => exists st', load_cdp true fuel c st = (st', SOk (mk_cdp c (off', q))) /\
                                      at_pkts st' (off' + p_size q) rest tl /\
                                      view st' = v_pay (v_until c off (view st) pkts) (rdh_payload_size (decode_rdh (p_hdr q)))
  | LR_cut off' p => exists st', load_cdp true fuel c st = (st', SOk (cut_cdp off' p)) /\ s_in st' = []
  | LR_eof => exists st', load_cdp true fuel c st = (st', SErr E_eof) /\ s_in st' = [] /\
                          (tl = TL_none -> view st' = v_until c off (view st) pkts)
  | LR_invalid_input => exists st', load_cdp true fuel c st = (st', SErr E_invalid_input) /\ s_in st' = []
  end.
Proof.
  intros Hwf Hok Hfuel Hat. unfold load_cdp, load_outcome.
  pose proof (load_rdh_cru_spec c pkts tl fuel st off Hwf Hok Hfuel Hat) as HL.
  destruct (split_match c off pkts) as [[[off' q] rest]|] eqn:Hs.
  - destruct HL as (st1 & HL & Hi & Hm & Hv). rewrite HL.
    destruct (split_match_wf c pkts off off' q rest Hwf Hs) as [Hq _].
    rewrite Hm. destruct (finish_cdp_spec c st1 q rest tl off' Hq Hi Hm) as (st2 & E & A & V).
    exists st2. split; [exact E|]. split; [exact A|]. rewrite V. exact Hv.
  - destruct tl as [|b|p j]; cbn [tail_loop] in *.
    + destruct HL as (st1 & HL & Hi & Hv). rewrite HL. eexists; split; [reflexivity|]. split; [exact Hi|exact Hv].
    + destruct HL as (st1 & HL & Hi & Hv). rewrite HL. eexists; split; [reflexivity|]. split; [exact Hi|exact Hv].
    + destruct (pmatch c p) eqn:Hpm.
      * destruct HL as (st1 & HL & Hi & Hm). rewrite HL, Hm.
        destruct Hok as [Hp Hj]. apply finish_cdp_cut with (j := j); assumption.
      * destruct (sc_src c).
        -- destruct HL as (st1 & HL & Hi & Hv). rewrite HL. eexists; split; [reflexivity|]. split; [exact Hi|exact Hv].
        -- destruct HL as (st1 & HL & Hi). rewrite HL. eexists; split; [reflexivity|exact Hi].
Qed.

Lemma v_pkts_split c : forall pkts off v off' q rest, split_match c off pkts = Some (off', q, rest) ->
  v_pkts c off v pkts = v_pkts c (off' + p_size q) (v_pay (v_until c off v pkts) (rdh_payload_size (decode_rdh (p_hdr q)))) rest.
Proof.
  induction pkts as [|p r IH]; intros off v off' q rest H; cbn [split_match] in H; [discriminate|].
  cbn [v_pkts v_until]. unfold v_pkt. destruct (pmatch c p) eqn:Hm.
  - injection H as <- <- <-. reflexivity.
  - apply IH, H.
Qed.
Lemma v_pkts_none c : forall pkts off v, split_match c off pkts = None -> v_pkts c off v pkts = v_until c off v pkts.
Proof.
  induction pkts as [|p r IH]; intros off v H; cbn [split_match] in H; [reflexivity|].
  cbn [v_pkts v_until]. unfold v_pkt. destruct (pmatch c p) eqn:Hm; [discriminate|]. apply IH, H.
Qed.

(* ------------------------------------------------------------------ the whole scan *)
(* the packets the filter selects, with their true offsets *)
Definition selected (c : scfg) (off : N) (pkts : list packet) : list (N * packet) :=
  filter (fun op => pmatch c (snd op)) (with_offsets off pkts).

Lemma selected_split c : forall pkts off,
  selected c off pkts =
  match split_match c off pkts with
  | None => []
  | Some (off', q, rest) => (off', q) :: selected c (off' + p_size q) rest
  end.
Proof.
  induction pkts as [|p r IH]; intros off; [reflexivity|].
  unfold selected. cbn [with_offsets filter split_match snd].
  destruct (pmatch c p); [reflexivity|]. apply IH.
Qed.

(* what the tail contributes to the scan: an extra CDP for a matching cut packet, and how reading ends *)
Definition tail_cdps (c : scfg) (off : N) (tl : tail) : list cdp :=
  match tail_loop c tl with TR_match p _ => [cut_cdp off p] | _ => [] end.
Definition tail_end (c : scfg) (tl : tail) : scan_end :=
  match tail_loop c tl with TR_invalid_input => End_batch_dropped | _ => End_normal end.

Lemma tail_off_split c pkts off off' q rest :
  split_match c off pkts = Some (off', q, rest) -> tail_off (off' + p_size q) rest = tail_off off pkts.
Proof.
  intros H. destruct (split_match_some c pkts off off' q rest H) as (sk & -> & -> & _).
  unfold tail_off, total_size. rewrite fold_right_app. cbn [fold_right].
  assert (G : forall (l : list packet) (a : N), fold_right (fun p a => p_size p + a) a l = fold_right (fun p a => p_size p + a) 0 l + a).
  { induction l as [|x l IHl]; intros a; cbn [fold_right]; [lia|]. rewrite IHl. lia. }
  rewrite (G sk (p_size q + _)). lia.
Qed.

Lemma scan_flat_spec c : forall n pkts tl fuel st off,
  (length pkts <= n)%nat -> Forall wf_pkt pkts -> tail_ok tl -> (length pkts + need tl < fuel)%nat ->
  at_pkts st off pkts tl ->
  exists st', scan_flat true fuel c st =
              (st', map (mk_cdp c) (selected c off pkts) ++ tail_cdps c (tail_off off pkts) tl, tail_end c tl) /\
              (tl = TL_none -> view st' = v_pkts c off (view st) pkts).
Proof.
  induction n as [|n IH]; intros pkts tl fuel st off Hn Hwf Hok Hfuel Hat.
  - destruct pkts; [|cbn in Hn; lia].
    destruct fuel as [|f]; [lia|]. cbn [scan_flat].
    pose proof (load_cdp_spec c [] tl f st off Hwf Hok ltac:(cbn in *; lia) Hat) as HL.
    unfold load_outcome in HL. cbn [split_match] in HL.
    unfold tail_cdps, tail_end. cbn [selected with_offsets filter map app v_pkts].
    destruct (tail_loop c tl) as [|p j|] eqn:Ht.
    + destruct HL as (st' & HL & _ & Hv). rewrite HL. eexists; split; [reflexivity|]. intros E. rewrite (Hv E). reflexivity.
    + destruct HL as (st1 & HL & Hi). rewrite HL.
      (* after the cut packet the input is exhausted: one more load sees EOF *)
      destruct f as [|f']; [destruct tl; cbn in *; try discriminate; lia|].
      cbn [scan_flat]. unfold load_cdp, load_rdh_cru. rewrite (read_eof st1 Hi). eexists; split; [reflexivity|].
      intros E. subst tl. discriminate.
    + destruct HL as (st' & HL & _). rewrite HL. eexists; split; [reflexivity|]. intros E. subst tl. discriminate.
  - destruct fuel as [|f]; [lia|]. cbn [scan_flat].
    pose proof (load_cdp_spec c pkts tl f st off Hwf Hok ltac:(lia) Hat) as HL.
    unfold load_outcome in HL. rewrite selected_split.
    destruct (split_match c off pkts) as [[[off' q] rest]|] eqn:Hs.
    + destruct HL as (st1 & HL & Hat1 & Hv1). rewrite HL.
      destruct (split_match_wf c pkts off off' q rest Hwf Hs) as [_ Hrest].
      pose proof (split_match_length c pkts off off' q rest Hs) as Hlen.
      destruct (IH rest tl f st1 (off' + p_size q) ltac:(lia) Hrest Hok ltac:(lia) Hat1) as (st2 & H2 & Hv2).
      rewrite H2. rewrite (tail_off_split c pkts off off' q rest Hs). eexists; split; [reflexivity|].
      intros E. rewrite (Hv2 E), Hv1. symmetry. apply v_pkts_split, Hs.
    + unfold tail_cdps, tail_end. cbn [map app].
      destruct (tail_loop c tl) as [|p j|] eqn:Ht.
      * destruct HL as (st' & HL & _ & Hv). rewrite HL. eexists; split; [reflexivity|]. intros E. rewrite (Hv E). symmetry. apply v_pkts_none, Hs.
      * destruct HL as (st1 & HL & Hi). rewrite HL.
        destruct f as [|f']; [destruct tl; cbn in *; try discriminate; lia|].
        cbn [scan_flat]. unfold load_cdp, load_rdh_cru. rewrite (read_eof st1 Hi). eexists; split; [reflexivity|].
        intros E. subst tl. discriminate.
      * destruct HL as (st' & HL & _). rewrite HL. eexists; split; [reflexivity|]. intros E. subst tl. discriminate.
Qed.

(* ------------------------------------------------------------------ batches *)
Lemma chunk_fuel_concat {A} n (Hn : (0 < n)%nat) : forall fuel (l : list A), (length l <= fuel)%nat ->
  concat (chunk_fuel fuel n l) = l.
Proof.
  induction fuel as [|f IH]; intros l Hl.
  - destruct l; [reflexivity|cbn in Hl; lia].
  - cbn [chunk_fuel]. destruct l as [|x l']; [reflexivity|].
    cbn [concat]. rewrite IH; [apply firstn_skipn|].
    rewrite skipn_length. cbn [length] in *. lia.
Qed.
Lemma chunk_concat {A} n (l : list A) : (0 < n)%nat -> concat (chunk n l) = l.
Proof. intros Hn. apply chunk_fuel_concat; [exact Hn|lia]. Qed.

Lemma chunk_fuel_sizes {A} n (Hn : (0 < n)%nat) : forall fuel (l : list A), (length l <= fuel)%nat ->
  Forall (fun b => b <> [] /\ (length b <= n)%nat) (chunk_fuel fuel n l).
Proof.
  induction fuel as [|f IH]; intros l Hl; [constructor|].
  cbn [chunk_fuel]. destruct l as [|x l']; [constructor|].
  constructor.
  - split; [destruct n; [lia|discriminate]|]. rewrite firstn_length. lia.
  - apply IH. rewrite skipn_length. cbn [length] in *. lia.
Qed.

(* every batch but the last is full *)
Lemma chunk_fuel_full {A} n (Hn : (0 < n)%nat) : forall fuel (l : list A) i, (length l <= fuel)%nat ->
  (S i < length (chunk_fuel fuel n l))%nat -> length (nth i (chunk_fuel fuel n l) []) = n.
Proof.
  induction fuel as [|f IH]; intros l i Hl Hi; [cbn in Hi; lia|].
  cbn [chunk_fuel] in *. destruct l as [|x l']; [cbn in Hi; lia|].
  cbn [length] in Hi.
  assert (Hne : chunk_fuel f n (skipn n (x :: l')) <> []) by (intros E; rewrite E in Hi; cbn in Hi; lia).
  assert (Hlen : (n <= length (x :: l'))%nat).
  { destruct (Nat.le_gt_cases n (length (x :: l'))) as [H|H]; [exact H|].
    exfalso. apply Hne. rewrite skipn_all2 by lia. destruct f; reflexivity. }
  destruct i as [|i]; cbn [nth].
  - rewrite firstn_length. lia.
  - apply IH; [rewrite skipn_length; cbn [length] in *; lia | lia].
Qed.

Lemma CAP_pos : (0 < CAP)%nat.
Proof. vm_compute. lia. Qed.

Lemma serialize_length pkts : Forall wf_pkt pkts -> (64 * length pkts <= length (serialize pkts))%nat.
Proof.
  induction 1 as [|p r Hp _ IH]; [cbn; lia|].
  rewrite serialize_cons, app_length. unfold p_bytes. rewrite app_length.
  destruct Hp as ((Hl & _) & _). cbn [length]. lia.
Qed.

Lemma scan_fuel_enough pkts : Forall wf_pkt pkts -> (length pkts + 1 < scan_fuel (serialize pkts))%nat.
Proof.
  intros H. pose proof (serialize_length pkts H) as HL. unfold scan_fuel.
  assert (length pkts <= length (serialize pkts) / 64)%nat.
  { apply Nat.div_le_lower_bound; lia. }
  lia.
Qed.

(* the theorem, for a scanner that samples the packet offset after load_rdh_cru *)
Lemma c03_scan_exact_when (b k : bool) : b = true -> forall c pkts, Forall wf_pkt pkts ->
  so_batches (scan b k c (serialize pkts)) = chunk CAP (map (mk_cdp c) (selected c 0 pkts)) /\
  concat (so_batches (scan b k c (serialize pkts))) = map (mk_cdp c) (selected c 0 pkts) /\
  so_end (scan b k c (serialize pkts)) = End_normal.
Proof.
  intros -> c pkts Hwf. unfold scan.
  destruct (scan_flat_spec c (length pkts) pkts TL_none (scan_fuel (serialize pkts)) (sinit (serialize pkts)) 0
              (le_n _) Hwf I (scan_fuel_enough pkts Hwf)
              (conj (eq_sym (app_nil_r _)) eq_refl)) as (st' & H & _).
  rewrite H. unfold tail_cdps, tail_end. cbn [tail_loop]. rewrite app_nil_r. cbn [so_batches so_end batches_of].
  split; [reflexivity|]. split; [apply chunk_concat, CAP_pos | reflexivity].
Qed.

Lemma c03_batch_shape c pkts : Forall wf_pkt pkts ->
  let bs := chunk CAP (map (mk_cdp c) (selected c 0 pkts)) in
  Forall (fun b => b <> [] /\ (length b <= CAP)%nat) bs /\
  forall i, (S i < length bs)%nat -> length (nth i bs []) = CAP.
Proof.
  intros _. cbn zeta. split.
  - apply chunk_fuel_sizes; [apply CAP_pos|lia].
  - intros i Hi. apply chunk_fuel_full; [apply CAP_pos|lia|exact Hi].
Qed.

(* with the offset sampled before the filter loop (defect F1) the statement is false *)
Definition f1_hdr (link : N) : list N :=
  [7;64;42;80;0;32;0;0; 64;0;64;0;link;0;24;0] ++ repeat 0 8 ++ [2;0;0;0;0;0;0;0; 3;106;0;0;0;0;0;0] ++ repeat 0 24.
Definition f1_pkts : list packet := [ {| p_hdr := f1_hdr 0; p_payload := [] |}; {| p_hdr := f1_hdr 1; p_payload := [] |} ].
Definition f1_cfg : scfg := {| sc_filter := Some (F_link 1); sc_skip := true; sc_src := Src_file |}.

Definition wf_pktb (p : packet) : bool :=
  Nat.eqb (length (p_hdr p)) 64 && forallb byte_okb (p_hdr p) && forallb byte_okb (p_payload p) &&
  (h_offset_next (p_hdr p) =? p_size p) && (h_memory_size (p_hdr p) =? p_size p) &&
  (N.of_nat (length (p_payload p)) <=? 10000).
Lemma forallb_byte_ok l : forallb byte_okb l = true -> Forall byte_ok l.
Proof.
  intros H. apply Forall_forall. intros x Hx.
  pose proof (proj1 (forallb_forall _ _) H x Hx) as Hb. unfold byte_okb in Hb. unfold byte_ok. lia.
Qed.
Lemma wf_pktb_sound p : wf_pktb p = true -> wf_pkt p.
Proof.
  unfold wf_pktb. rewrite !andb_true_iff. intros (((((H1 & H2) & H3) & H4) & H5) & H6).
  split; [split; [apply Nat.eqb_eq, H1 | apply forallb_byte_ok, H2]|].
  split; [apply forallb_byte_ok, H3|]. repeat split; lia.
Qed.

Lemma f1_wf : Forall wf_pkt f1_pkts.
Proof. repeat constructor; apply wf_pktb_sound; vm_compute; reflexivity. Qed.

Lemma c03_refuted_when_offset_sampled_before :
  Forall wf_pkt f1_pkts /\
  concat (so_batches (scan false true f1_cfg (serialize f1_pkts))) <> map (mk_cdp f1_cfg) (selected f1_cfg 0 f1_pkts) /\
  map c_off (concat (so_batches (scan false true f1_cfg (serialize f1_pkts)))) = [0] /\
  map fst (selected f1_cfg 0 f1_pkts) = [64].
Proof.
  split; [exact f1_wf|]. split; [|split; vm_compute; reflexivity].
  intros E. apply (f_equal (map c_off)) in E. vm_compute in E. discriminate.
Qed.

(* the header fields handed on are those an independent decoding of the 64 bytes gives *)
Lemma c03_fields b : rdh_bytes_ok b ->
  let r := decode_rdh b in
  r_header_id r = h_header_id b /\ r_header_size r = h_header_size b /\ r_fee_id r = h_fee_id b /\
  r_priority_bit r = h_priority b /\ r_system_id r = h_system_id b /\
  r_offset_new_packet r = h_offset_next b /\ r_memory_size r = h_memory_size b /\
  r_link_id r = h_link_id b /\ r_packet_counter r = h_packet_counter b /\
  rdh_cru_id r = h_cru_id b /\ rdh_dw r = h_dw b /\ rdh_bc r = h_bc b /\ r_orbit r = h_orbit b /\
  rdh_data_format r = h_data_format b /\ r_trigger_type r = h_trigger_type b /\
  r_pages_counter r = h_pages_counter b /\ r_stop_bit r = h_stop_bit b /\
  r_detector_field r = h_detector_field b /\ r_par_bit r = h_par_bit b.
Proof.
  intros H. cbn zeta.
  repeat split; [apply f_header_id | apply f_header_size | apply f_fee_id | apply f_priority | apply f_system_id
                | apply f_offset | apply f_memsize | apply f_link | apply f_pktcnt | apply f_cru_id | apply f_dw
                | apply f_bc | apply f_orbit | apply f_data_format | apply f_trigger | apply f_pages | apply f_stop
                | apply f_detfield | apply f_parbit]; exact H.
Qed.
