(* Invariant of the protocol LTS and its preservation (C17). *)
From Coq Require Import List Arith Bool Lia.
From FP Require Import Model.Protocol.
Import ListNotations.
Ltac got H := inversion H; subst; clear H.

Record goodf (f : pfacts) : Prop := {
  gf_drops : pf_main_drops_recv f = true;
  gf_clears : pf_join_clears f = true;
  gf_dcap : 1 <= pf_dcap f;
  gf_vcap : 1 <= pf_vcap_min f }.

Definition mode_ok (s : state) : Prop :=
  match c_mode (s_cfg s) with
  | Mcheck | Mview => s_w s = W_absent /\ s_a s <> A_absent
  | Mwrite => s_a s = A_absent /\ s_w s <> W_absent /\ s_mrecv s = false
  | Mnone => s_a s = A_absent /\ s_w s = W_absent
  end.
Definition vs_ok (s : state) : Prop :=
  Forall (fun v => 1 <= v_cap v) (s_vs s) /\ (s_a s = A_absent -> s_vs s = []).
Definition alive_ok (s : state) : Prop :=
  match s_a s with
  | A_join => s_alive s = false
  | A_done => s_alive s = false /\ all_done (s_vs s) = true
  | _ => True
  end.
Definition main_ok (s : state) : Prop :=
  match s_m s with
  | M_droprecv => True
  | M_forward => s_mrecv s = false
  | M_joinC => s_mrecv s = false /\ reader_done s = true /\ s_iq s = []
  | M_joinS => s_mrecv s = false /\ reader_done s = true /\ s_iq s = [] /\ consumer_alive s = false
  | M_exit => s_mrecv s = false /\ reader_done s = true /\ s_iq s = [] /\ consumer_alive s = false
              /\ s_c s = C_done
  end.
Definition ctrl_ok (s : state) : Prop :=
  match s_c s with C_recv => True | _ => s_sq s = [] /\ stats_senders0 s = true end.

Definition Inv (s : state) : Prop := mode_ok s /\ vs_ok s /\ alive_ok s /\ main_ok s /\ ctrl_ok s.

Lemma inv_init c input : Inv (init c input).
Proof.
  unfold Inv, mode_ok, vs_ok, alive_ok, main_ok, ctrl_ok, init; cbn.
  destruct (c_mode c); cbn; repeat split; auto; try discriminate.
Qed.

Lemma all_done_upd i g vs : all_done vs = true -> (forall v, v_done v = true -> v_done (g v) = true) ->
  all_done (upd i g vs) = true.
Proof.
  revert i; induction vs as [|x vs IH]; intros [|i] H G; cbn in *; auto;
    apply andb_true_iff in H; destruct H as [H1 H2]; apply andb_true_iff; split; auto.
Qed.
Lemma all_done_nth vs : forall i v, all_done vs = true -> nth_error vs i = Some v -> v_done v = true.
Proof.
  induction vs as [|x vs IH]; intros [|i] v H N; cbn in *; try discriminate;
    apply andb_true_iff in H; destruct H as [H1 H2].
  - got N. assumption.
  - eapply IH; eauto.
Qed.
Lemma Forall_upd (P : vst -> Prop) g vs i : Forall P vs -> (forall v, P v -> P (g v)) -> Forall P (upd i g vs).
Proof.
  revert i; induction vs as [|x vs IH]; intros [|i] H G; cbn; auto; inversion H; subst; constructor; auto.
Qed.
Lemma upd_nil_iff i g vs : upd i g vs = [] <-> vs = [].
Proof. destruct vs, i; cbn; split; intros; try discriminate; auto. Qed.

Ltac unf_inv := unfold Inv, mode_ok, vs_ok, alive_ok, main_ok, ctrl_ok, consumer_alive, stats_senders0,
   main_holds_stats, analysis_alive, reader_done, push_sq, push_iq, do_flush in *.
Ltac rwh := repeat match goal with
  | H : ?t = _ |- context [?t] => rewrite H
  | H : ?t = _, I : context [?t] |- _ => lazymatch type of I with t = _ => fail | _ => rewrite H in I end end.

Lemma inv_reader f s s' : Inv s -> step_reader f s = Some s' -> Inv s'.
Proof.
  intros I H. unfold step_reader in H.
  destruct (s_r s) eqn:Hr.
  - destruct ((pf_reader_polls f && s_stop s) || s_lstop s); got H; unf_inv; cbn; rwh.
    all: destruct (s_m s); intuition congruence.
  - destruct (s_input s) as [|b rest]; got H; unf_inv; cbn; rwh.
    all: destruct (s_m s); intuition congruence.
  - destruct (receivers0 s); [got H|destruct (length (s_dq s) <? pf_dcap f); got H]; unf_inv; cbn; rwh.
    all: destruct (s_m s); intuition congruence.
  - discriminate.
Qed.

Ltac fin_inv := unf_inv; cbn in *; rwh; cbn in *; rewrite ?orb_true_r, ?orb_false_r, ?andb_true_r, ?andb_false_r in *; intuition (try congruence; try discriminate; auto).

Lemma inv_main f s s' : goodf f -> Inv s -> step_main f s = Some s' -> Inv s'.
Proof.
  intros G I H. unfold step_main in H.
  destruct (s_m s) eqn:Hm.
  - rewrite (gf_drops f G) in H. got H. destruct (s_c s) eqn:Hc; destruct (c_mode (s_cfg s)) eqn:Hmode; fin_inv.
  - destruct (s_iq s) as [|k rest] eqn:Hi; [unfold reader_done in H; destruct (s_r s) eqn:Hr; try discriminate|]; got H;
      destruct (s_c s) eqn:Hc; destruct (c_mode (s_cfg s)) eqn:Hmode; fin_inv.
  - unfold consumer_alive in H; destruct (s_a s) eqn:Ha; destruct (s_w s) eqn:Hw; cbn in H; try discriminate; got H; destruct (s_c s) eqn:Hc; destruct (c_mode (s_cfg s)) eqn:Hmode; fin_inv.
  - destruct (s_c s) eqn:Hc; got H; destruct (c_mode (s_cfg s)) eqn:Hmode; fin_inv.
  - discriminate.
Qed.

Lemma all_done_app vs v : all_done (vs ++ [v]) = all_done vs && v_done v.
Proof. unfold all_done. rewrite forallb_app. cbn. rewrite andb_true_r. reflexivity. Qed.
Lemma all_done_false_nth vs i v : nth_error vs i = Some v -> v_done v = false -> all_done vs = false.
Proof.
  intros N D. destruct (all_done vs) eqn:E; [|reflexivity].
  rewrite (all_done_nth _ _ _ E N) in D. discriminate.
Qed.

Lemma inv_analysis f i c s s' : goodf f -> Inv s -> step_analysis f i c s = Some s' -> Inv s'.
Proof.
  intros G I H. unfold step_analysis in H.
  destruct (s_a s) as [| | |b|l| | |] eqn:Ha; try discriminate.
  - destruct (pf_analysis_polls f && s_stop s); got H;
      destruct (s_c s) eqn:Hc; destruct (s_m s) eqn:Hm; destruct (c_mode (s_cfg s)) eqn:Hmode; fin_inv.
  - destruct (s_dq s) as [|b rest] eqn:Hd; [destruct (reader_done s)|]; got H;
      destruct (s_c s) eqn:Hc; destruct (s_m s) eqn:Hm; destruct (c_mode (s_cfg s)) eqn:Hmode; fin_inv.
  - got H. destruct (s_c s) eqn:Hc; destruct (s_m s) eqn:Hm; destruct (c_mode (s_cfg s)) eqn:Hmode; fin_inv.
  - destruct l as [|k l].
    { got H. destruct (s_c s) eqn:Hc; destruct (s_m s) eqn:Hm; destruct (c_mode (s_cfg s)) eqn:Hmode; fin_inv. }
    destruct (c_mode (s_cfg s)) eqn:Hmode.
    2:{ destruct (s_open s); [|destruct (pf_view_err_handled f)]; got H;
        destruct (s_c s) eqn:Hc; destruct (s_m s) eqn:Hm; fin_inv. }
    all: destruct (nth_error (s_vs s) i) as [v|] eqn:Hn;
      [ destruct (v_done v) eqn:Hvd; [|destruct (length (v_q v) <? v_cap v)]; got H
      | destruct ((i =? length (s_vs s)) && (pf_vcap_min f <=? c)) eqn:Hcond; got H ];
      destruct (s_c s) eqn:Hc; destruct (s_m s) eqn:Hm; unf_inv; cbn in *; rwh; cbn in *;
      repeat match goal with H : _ /\ _ |- _ => destruct H end; repeat split;
      try congruence; try discriminate; auto;
      try (apply Forall_upd; [assumption|intros v0 Hv0; exact Hv0]);
      try (intros E; apply upd_nil_iff in E; auto);
      try (apply Forall_app; split; [assumption|constructor; [|constructor]; cbn;
           apply andb_true_iff in Hcond; destruct Hcond as [_ Hle]; apply Nat.leb_le in Hle;
           pose proof (gf_vcap f G); lia]);
      try (intros E; apply app_eq_nil in E; destruct E; discriminate).
  - rewrite (gf_clears f G) in H. got H.
    destruct (s_c s) eqn:Hc; destruct (s_m s) eqn:Hm; destruct (c_mode (s_cfg s)) eqn:Hmode; fin_inv.
  - destruct (all_done (s_vs s)) eqn:Had; got H.
    destruct (s_c s) eqn:Hc; destruct (s_m s) eqn:Hm; destruct (c_mode (s_cfg s)) eqn:Hmode; fin_inv.
Qed.

Lemma inv_valid i s s' : Inv s -> step_valid i s = Some s' -> Inv s'.
Proof.
  intros I H. unfold step_valid in H.
  destruct (nth_error (s_vs s) i) as [v|] eqn:Hn; [|discriminate].
  destruct (v_done v) eqn:Hvd; [discriminate|].
  pose proof (all_done_false_nth _ _ _ Hn Hvd) as Hnd.
  destruct (v_q v) as [|k q] eqn:Hq; [destruct (s_alive s) eqn:Hal|]; got H;
    destruct (s_c s) eqn:Hc; destruct (s_m s) eqn:Hm; destruct (s_a s) eqn:Ha;
    unf_inv; cbn in *; rwh; cbn in *;
    repeat match goal with H : _ /\ _ |- _ => destruct H end;
    rewrite ?andb_false_r in *; try discriminate;
    destruct (c_mode (s_cfg s)); repeat match goal with H : _ /\ _ |- _ => destruct H end; repeat split;
    try congruence; try discriminate; auto;
    try (apply Forall_upd; [assumption|intros v0 Hv0; exact Hv0]);
    try (match goal with H4 : _ = _ -> s_vs s = [] |- _ => rewrite (H4 eq_refl) in Hn; destruct i; discriminate end);
    try (intros E; apply upd_nil_iff in E; auto).
Qed.

Lemma inv_writer f fl s s' : Inv s -> step_writer f fl s = Some s' -> Inv s'.
Proof.
  intros I H. unfold step_writer in H.
  destruct (s_w s) as [| |b|b| |] eqn:Hw; try discriminate.
  - destruct (s_dq s) as [|b rest] eqn:Hd; [destruct (reader_done s)|]; got H;
      destruct (s_c s) eqn:Hc; destruct (s_m s) eqn:Hm; destruct (c_mode (s_cfg s)) eqn:Hmode; fin_inv.
  - destruct (pf_writer_polls f && s_stop s); got H;
      destruct (s_c s) eqn:Hc; destruct (s_m s) eqn:Hm; destruct (c_mode (s_cfg s)) eqn:Hmode; fin_inv.
  - destruct fl; [destruct (w_flush_ok s); [|destruct (pf_writer_err_handled f)]|]; got H;
      destruct (s_c s) eqn:Hc; destruct (s_m s) eqn:Hm; destruct (c_mode (s_cfg s)) eqn:Hmode; fin_inv.
  - destruct (w_flush_ok s); [|destruct (pf_writer_err_handled f)]; got H;
      destruct (s_c s) eqn:Hc; destruct (s_m s) eqn:Hm; destruct (c_mode (s_cfg s)) eqn:Hmode; fin_inv.
Qed.

Lemma inv_ctrl f s s' : Inv s -> step_ctrl f s = Some s' -> Inv s'.
Proof.
  intros I H. unfold step_ctrl in H.
  destruct (s_c s) eqn:Hc; try discriminate.
  - destruct (s_sq s) as [|k rest] eqn:Hq.
    + destruct (stats_senders0 s) eqn:Hs0; got H. destruct (s_m s) eqn:Hm; destruct (c_mode (s_cfg s)) eqn:Hmode; fin_inv.
    + destruct k; [|destruct (s_fatal s); [|destruct ((0 <? c_cap (s_cfg s)) && (S (s_errs s) =? c_cap (s_cfg s)))]
                   |destruct (s_fatal s)]; got H;
        destruct (s_m s) eqn:Hm; destruct (c_mode (s_cfg s)) eqn:Hmode; fin_inv.
  - destruct (c_stats_stdout (s_cfg s) && negb (s_open s) && negb (pf_stats_stdout_handled f)); got H;
      destruct (s_m s) eqn:Hm; destruct (c_mode (s_cfg s)) eqn:Hmode; fin_inv.
Qed.

Theorem inv_step f l s s' : goodf f -> Inv s -> step f l s = Some s' -> Inv s'.
Proof.
  intros G I. unfold step. destruct (s_panic s); [discriminate|]. destruct (s_hardexit s); [discriminate|].
  destruct l.
  - destruct (1 <=? s_sigs s); [discriminate|].
    destruct (s_stop s && negb (pf_handler_own_counter f)); intros H; got H;
    destruct (s_c s) eqn:Hc; destruct (s_m s) eqn:Hm; destruct (c_mode (s_cfg s)) eqn:Hmode; fin_inv.
  - destruct (s_open s); [|discriminate]. intros H; got H.
    destruct (s_c s) eqn:Hc; destruct (s_m s) eqn:Hm; destruct (c_mode (s_cfg s)) eqn:Hmode; fin_inv.
  - apply inv_reader; assumption.
  - apply inv_main; assumption.
  - apply inv_analysis; assumption.
  - apply inv_valid; assumption.
  - apply inv_writer; assumption.
  - apply inv_ctrl; assumption.
Qed.

Theorem inv_run f ls : forall s s', goodf f -> Inv s -> run f ls s = Some s' -> Inv s'.
Proof.
  induction ls as [|l ls IH]; intros s s' G I H; cbn in H.
  - got H. assumption.
  - destruct (step f l s) as [s1|] eqn:E; [|discriminate].
    apply (IH s1 s' G); [eapply inv_step; eauto|assumption].
Qed.
