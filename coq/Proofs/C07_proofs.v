(* C07: reported offsets and quoted bytes are truthful -- validator level. *)
From Coq Require Import List NArith ZArith Bool Lia ZifyBool ZifyN ZifyNat Arith.
From FP Require Import Model.Base Model.ItsWords Model.ItsFsm Model.Rdh Model.RdhChecks Model.Payload Model.Alpide
  Model.Scanner Model.CdpRunning Model.Link Proofs.C12_proofs.
From FP Require Gen.Facts.
Import ListNotations.
Open Scope N_scope.
Ltac Zify.zify_post_hook ::= Z.div_mod_to_equations.

(* the offset at which the open readout frame started, if any *)
Definition frame_start (s : cdp_state) : option N :=
  match cs_rfv s with
  | Some rf => match rf_frame rf with Some fr => Some (fr_start fr) | None => None end
  | None => None
  end.

(* what a message emitted while word `w` at position `pos` is examined may look like:
   it quotes exactly w and is located at pos; or it quotes nothing and is located at pos or at
   the start of the readout frame that was open; or it is a statistics record *)
Definition msg_ok (pos : N) (w : list N) (start : option N) (m : vmsg) : Prop :=
  match m with
  | VStats _ => True
  | VErr e => match e_word e with
              | Some q => q = w /\ e_off e = pos
              | None => e_off e = pos \/ Some (e_off e) = start
              end
  end.

Lemma werr_ok s code w start : msg_ok (word_pos s) w start (werr s code w).
Proof. cbn. split; reflexivity. Qed.
Lemma werr_noword_ok s code w start : msg_ok (word_pos s) w start (werr_noword s code).
Proof. cbn. left. reflexivity. Qed.

(* tracker part of the state: what word_pos depends on *)
Definition same_tracker (a b : cdp_state) : Prop :=
  cs_payload_pos a = cs_payload_pos b /\ cs_counter a = cs_counter b /\ cs_pad a = cs_pad b.
Lemma same_tracker_pos a b : same_tracker a b -> word_pos a = word_pos b.
Proof. intros (H1 & H2 & H3). unfold word_pos. rewrite H1, H2, H3. reflexivity. Qed.
Lemma same_tracker_refl a : same_tracker a a.  Proof. repeat split. Qed.
Lemma same_tracker_trans a b c : same_tracker a b -> same_tracker b c -> same_tracker a c.
Proof. intros (A1 & A2 & A3) (B1 & B2 & B3). repeat split; congruence. Qed.

Ltac tr := repeat split; reflexivity.

Lemma Forall_app_intro {A} (P : A -> Prop) l1 l2 : Forall P l1 -> Forall P l2 -> Forall P (l1 ++ l2).
Proof. intros; apply Forall_app; split; assumption. Qed.

Lemma sanity_msgs_ok s code tags w start : Forall (msg_ok (word_pos s) w start) (sanity_msgs s code tags w).
Proof. unfold sanity_msgs. destruct tags; repeat constructor. Qed.

Ltac ifs := repeat match goal with |- context [if ?b then _ else _] => destruct b end.

Lemma check_tdh_no_continuation_ok s w start : Forall (msg_ok (word_pos s) w start) (check_tdh_no_continuation s w).
Proof. unfold check_tdh_no_continuation. ifs; cbn [app]; repeat constructor. Qed.
Lemma check_tdh_after_done_ok s w start : Forall (msg_ok (word_pos s) w start) (check_tdh_after_done s w).
Proof. unfold check_tdh_after_done. destruct (sw_prev_tdh (cs_words s)); ifs; repeat constructor. Qed.
Lemma check_tdh_continuation_ok s w start : Forall (msg_ok (word_pos s) w start) (check_tdh_continuation s w).
Proof. unfold check_tdh_continuation. destruct (sw_prev_tdh (cs_words s)); ifs; cbn [app]; repeat constructor. Qed.
Lemma check_tdh_trigger_interval_ok c s w start : Forall (msg_ok (word_pos s) w start) (check_tdh_trigger_interval c s).
Proof.
  unfold check_tdh_trigger_interval.
  destruct (v_period c); destruct (sw_prev_int_tdh (cs_words s)); destruct (sw_tdh (cs_words s)); ifs; repeat constructor; left; reflexivity.
Qed.
Lemma check_rdh_at_initial_ihw_ok s w start : Forall (msg_ok (word_pos s) w start) (check_rdh_at_initial_ihw s w).
Proof. unfold check_rdh_at_initial_ihw. ifs; repeat constructor. Qed.

Definition frame_step (pos : N) (a b : option N) : Prop := b = a \/ b = Some pos \/ b = None.

Lemma preprocess_tdh_ok s w s2 m : preprocess_tdh s w = (s2, m) ->
  same_tracker s s2 /\ Forall (msg_ok (word_pos s) w (frame_start s)) m /\
  frame_step (word_pos s) (frame_start s) (frame_start s2).
Proof.
  unfold preprocess_tdh. intros H. injection H as <- <-.
  change (cs_rfv (set_words s (replace_tdh (cs_words s) w))) with (cs_rfv s).
  change (word_pos (set_words s (replace_tdh (cs_words s) w))) with (word_pos s).
  unfold frame_step, frame_start.
  destruct (cs_rfv s) as [rf|] eqn:Hrf.
  - destruct (negb (rf_in_frame rf) && (tdh_continuation w =? 0)).
    + split; [tr|]. split; [apply sanity_msgs_ok|]. cbn. right. left. reflexivity.
    + split; [tr|]. split; [apply sanity_msgs_ok|]. cbn. rewrite Hrf. left. reflexivity.
  - split; [tr|]. split; [apply sanity_msgs_ok|]. cbn. rewrite Hrf. left. reflexivity.
Qed.

Lemma preprocess_ihw_ok s w s2 m : preprocess_ihw s w = (s2, m) ->
  same_tracker s s2 /\ Forall (msg_ok (word_pos s) w (frame_start s)) m /\ frame_start s2 = frame_start s.
Proof. unfold preprocess_ihw. intros H. injection H as <- <-. split; [tr|]. split; [apply sanity_msgs_ok|reflexivity]. Qed.

Lemma preprocess_ddw0_ok c s w s2 m : preprocess_ddw0 c s w = (s2, m) ->
  same_tracker s s2 /\ Forall (msg_ok (word_pos s) w (frame_start s)) m /\ frame_start s2 = frame_start s.
Proof.
  unfold preprocess_ddw0. intros H. injection H as <- <-. split; [tr|]. split; [|reflexivity].
  apply Forall_app_intro; [apply sanity_msgs_ok|]. ifs; cbn [app]; repeat constructor.
Qed.

Lemma frame_msg_ok pos w st code : msg_ok pos w (Some st) (VErr (mk_err st code None)).
Proof. cbn. right. reflexivity. Qed.
Lemma frame_msg_t_ok pos w st code t : msg_ok pos w (Some st) (VErr (mk_err_t st code t)).
Proof. cbn. right. reflexivity. Qed.
Lemma Forall_one {A} (P : A -> Prop) x : P x -> Forall P [x].
Proof. intros; constructor; [assumption|constructor]. Qed.

Lemma process_readout_frame_ok c s rf w s2 m : cs_rfv s = Some rf -> process_readout_frame c s rf = Ok (s2, m) ->
  same_tracker s s2 /\ Forall (msg_ok (word_pos s) w (frame_start s)) m /\ frame_start s2 = None.
Proof.
  intros Hrf. unfold process_readout_frame, frame_start. rewrite Hrf.
  destruct (rf_frame rf) as [fr|] eqn:Hfr.
  - destruct (fr_lanes fr) as [|l ls] eqn:Hl.
    + intros H. injection H as <- <-. split; [tr|]. split; [|reflexivity].
      apply Forall_one, frame_msg_ok.
    + destruct (check_frame _ _ _ fr) as [res|p]; [|discriminate].
      destruct (frame_lanes_valid _ fr _) as [lv|p]; [|discriminate].
      intros H. injection H as <- <-. split; [tr|]. split; [|reflexivity].
      apply Forall_app_intro; [destruct lv; [apply Forall_one, frame_msg_t_ok|constructor]|].
      constructor; [exact I|].
      destruct (fres_lane_errs res); destruct (fres_bc_mismatch res); try constructor; try apply Forall_one; try apply frame_msg_t_ok; constructor.
  - intros H. injection H as <- <-. split; [tr|]. split; [|reflexivity]. apply Forall_one, werr_noword_ok.
Qed.

Lemma preprocess_tdt_ok c s w s2 m : preprocess_tdt c s w = Ok (s2, m) ->
  same_tracker s s2 /\ Forall (msg_ok (word_pos s) w (frame_start s)) m /\
  frame_step (word_pos s) (frame_start s) (frame_start s2).
Proof.
  unfold preprocess_tdt.
  set (s1 := set_words s (replace_tdt (cs_words s) w)).
  assert (T1 : same_tracker s s1) by tr.
  assert (F1 : frame_start s1 = frame_start s) by reflexivity.
  assert (P1 : word_pos s1 = word_pos s) by reflexivity.
  destruct (cs_rfv s1) as [rf|] eqn:Hrf.
  - destruct (tdt_packet_done w).
    + destruct (process_readout_frame c s1 rf) as [[s3 m3]|p] eqn:Hp; [|discriminate].
      intros H. injection H as <- <-.
      destruct (process_readout_frame_ok c s1 rf w s3 m3 Hrf Hp) as (T & M & F).
      split; [exact (same_tracker_trans _ _ _ T1 T)|]. split.
      * apply Forall_app_intro; [apply sanity_msgs_ok|]. rewrite <- P1, <- F1. exact M.
      * right. right. exact F.
    + intros H. injection H as <- <-. split; [exact T1|]. split; [apply sanity_msgs_ok|left; exact F1].
  - intros H. injection H as <- <-. split; [exact T1|]. split; [apply sanity_msgs_ok|left; exact F1].
Qed.

Lemma store_data_ok s w s2 : store_data s w = Ok s2 -> same_tracker s s2 /\ frame_start s2 = frame_start s.
Proof.
  unfold store_data, frame_start. destruct (cs_rfv s) as [rf|] eqn:Hrf.
  - destruct (rf_frame rf) as [fr|] eqn:Hfr.
    + intros H. injection H as <-. split; [tr|]. cbn. reflexivity.
    + destruct Gen.Facts.data_word_without_frame_is_ignored; [|discriminate]. intros H. injection H as <-. split; [tr|]. rewrite Hrf, Hfr. reflexivity.
  - intros H. injection H as <-. split; [tr|]. rewrite Hrf. reflexivity.
Qed.

Lemma preprocess_data_word_ok c s w s2 m : preprocess_data_word c s w = Ok (s2, m) ->
  same_tracker s s2 /\ Forall (msg_ok (word_pos s) w (frame_start s)) m /\ frame_start s2 = frame_start s.
Proof.
  unfold preprocess_data_word.
  destruct (cs_start_of_data s && (nb 9 w =? Gen.Facts.cdw_id)).
  - destruct (negb (v_running c)).
    + intros H. injection H as <- <-. split; [tr|]. split; [constructor|reflexivity].
    + intros H. injection H as <- <-. split; [tr|]. split; [|reflexivity].
      destruct (sw_cdw (cs_words s)); ifs; repeat constructor.
  - destruct (negb (v_running c) || negb ((N.shiftr (nb 9 w) 5 =? 1) || (N.shiftr (nb 9 w) 5 =? 2))).
    + intros H. injection H as <- <-. split; [tr|]. split; [ifs; repeat constructor|reflexivity].
    + destruct (store_data s w) as [s1|p] eqn:Hs; [|discriminate].
      intros H. injection H as <- <-. destruct (store_data_ok s w s1 Hs) as [T F].
      split; [destruct T as (A & B & C); repeat split; assumption|]. split; [|exact F].
      apply Forall_app_intro; ifs; cbn [app]; repeat constructor.
Qed.

(* ---- one word ---- *)
Lemma cdp_check_ok c s0 w s' ms : cdp_check c s0 w = Ok (s', ms) ->
  let s := set_counter s0 (wrap16 (cs_counter s0 + 1)) in
  same_tracker s s' /\
  Forall (msg_ok (word_pos s) w (frame_start s0)) ms /\
  frame_step (word_pos s) (frame_start s0) (frame_start s').
Proof.
  unfold cdp_check. cbn zeta.
  set (s := set_counter s0 (wrap16 (cs_counter s0 + 1))).
  destruct (advance (cs_fsm s) w) as [f' r].
  set (sf := set_fsm s f').
  assert (Tf : same_tracker s sf) by tr.
  assert (Pf : word_pos sf = word_pos s) by reflexivity.
  assert (Ff : frame_start sf = frame_start s0) by reflexivity.
  assert (FS : forall x, frame_step (word_pos sf) (frame_start sf) x -> frame_step (word_pos s) (frame_start s0) x)
    by (intros x; rewrite Pf, Ff; exact (fun h => h)).
  assert (EQ : forall x, frame_start x = frame_start sf -> frame_step (word_pos s) (frame_start s0) (frame_start x))
    by (intros x E; left; rewrite E; exact Ff).
  destruct r as [p|a]; [destruct p|destruct a].
  - (* IHW *)
    destruct (preprocess_ihw sf w) as [s1 m] eqn:E. intros H. injection H as <- <-.
    destruct (preprocess_ihw_ok sf w s1 m E) as (T & M & F). rewrite Pf, Ff in M.
    split; [exact (same_tracker_trans _ _ _ Tf T)|]. split; [|apply EQ, F].
    apply Forall_app_intro; [exact M|]. destruct (v_running c); [|constructor].
    rewrite <- Pf, (same_tracker_pos _ _ T). apply check_rdh_at_initial_ihw_ok.
  - (* IHW continuation *)
    destruct (preprocess_ihw sf w) as [s1 m] eqn:E. intros H. injection H as <- <-.
    destruct (preprocess_ihw_ok sf w s1 m E) as (T & M & F). rewrite Pf, Ff in M.
    split; [exact (same_tracker_trans _ _ _ Tf T)|]. split; [exact M|apply EQ, F].
  - (* TDH *)
    destruct (preprocess_tdh sf w) as [s1 m] eqn:E. intros H. injection H as <- <-.
    destruct (preprocess_tdh_ok sf w s1 m E) as (T & M & F). rewrite Pf, Ff in M.
    split; [exact (same_tracker_trans _ _ _ Tf T)|]. split; [|apply FS, F].
    apply Forall_app_intro; [exact M|]. destruct (v_running c); [|constructor].
    rewrite <- Pf, (same_tracker_pos _ _ T).
    apply Forall_app_intro; [apply check_tdh_no_continuation_ok|apply check_tdh_trigger_interval_ok].
  - (* TDH continuation *)
    destruct (preprocess_tdh sf w) as [s1 m] eqn:E. intros H. injection H as <- <-.
    destruct (preprocess_tdh_ok sf w s1 m E) as (T & M & F). rewrite Pf, Ff in M.
    split; [exact (same_tracker_trans _ _ _ Tf T)|]. split; [|apply FS, F].
    apply Forall_app_intro; [exact M|]. destruct (v_running c); [|constructor].
    rewrite <- Pf, (same_tracker_pos _ _ T). apply check_tdh_continuation_ok.
  - (* TDH after packet done *)
    destruct (preprocess_tdh sf w) as [s1 m] eqn:E. intros H. injection H as <- <-.
    destruct (preprocess_tdh_ok sf w s1 m E) as (T & M & F). rewrite Pf, Ff in M.
    split; [exact (same_tracker_trans _ _ _ Tf T)|]. split; [|apply FS, F].
    apply Forall_app_intro; [exact M|]. destruct (v_running c); [|constructor].
    rewrite <- Pf, (same_tracker_pos _ _ T).
    apply Forall_app_intro; [apply check_tdh_after_done_ok|apply check_tdh_trigger_interval_ok].
  - (* TDT *)
    intros H. destruct (preprocess_tdt_ok c sf w s' ms H) as (T & M & F). rewrite Pf, Ff in M.
    split; [exact (same_tracker_trans _ _ _ Tf T)|]. split; [exact M|apply FS, F].
  - (* CDW *)
    intros H. destruct (preprocess_data_word_ok c sf w s' ms H) as (T & M & F). rewrite Pf, Ff in M.
    split; [exact (same_tracker_trans _ _ _ Tf T)|]. split; [exact M|apply EQ, F].
  - (* data word *)
    intros H. destruct (preprocess_data_word_ok c sf w s' ms H) as (T & M & F). rewrite Pf, Ff in M.
    split; [exact (same_tracker_trans _ _ _ Tf T)|]. split; [exact M|apply EQ, F].
  - (* DDW0 *)
    destruct (preprocess_ddw0 c sf w) as [s1 m] eqn:E. intros H. injection H as <- <-.
    destruct (preprocess_ddw0_ok c sf w s1 m E) as (T & M & F). rewrite Pf, Ff in M.
    split; [exact (same_tracker_trans _ _ _ Tf T)|]. split; [exact M|apply EQ, F].
  - (* E990 *)
    destruct (preprocess_tdh sf w) as [s1 m] eqn:E. intros H. injection H as <- <-.
    destruct (preprocess_tdh_ok sf w s1 m E) as (T & M & F). rewrite Pf, Ff in M.
    split; [exact (same_tracker_trans _ _ _ Tf T)|]. split; [|apply FS, F].
    constructor; [rewrite <- Pf; apply werr_ok|exact M].
  - (* E991 *)
    destruct (preprocess_data_word c sf w) as [[s1 m]|p] eqn:E; [|discriminate]. intros H. injection H as <- <-.
    destruct (preprocess_data_word_ok c sf w s1 m E) as (T & M & F). rewrite Pf, Ff in M.
    split; [exact (same_tracker_trans _ _ _ Tf T)|]. split; [|apply EQ, F].
    constructor; [rewrite <- Pf; apply werr_ok|exact M].
  - (* E992 *)
    destruct (preprocess_ddw0 c sf w) as [s1 m] eqn:E. intros H. injection H as <- <-.
    destruct (preprocess_ddw0_ok c sf w s1 m E) as (T & M & F). rewrite Pf, Ff in M.
    split; [exact (same_tracker_trans _ _ _ Tf T)|]. split; [|apply EQ, F].
    constructor; [rewrite <- Pf; apply werr_ok|exact M].
Qed.

(* ---- all words of a packet ---- *)
Definition msg_okQ (Q : N -> Prop) (pos : N) (w : list N) (m : vmsg) : Prop :=
  match m with
  | VStats _ => True
  | VErr e => match e_word e with
              | Some q => q = w /\ e_off e = pos
              | None => e_off e = pos \/ Q (e_off e)
              end
  end.

Lemma msg_ok_Q (Q : N -> Prop) pos w start m : (forall x, start = Some x -> Q x) -> msg_ok pos w start m -> msg_okQ Q pos w m.
Proof.
  intros HQ. destruct m as [e|f]; cbn; [|trivial]. destruct (e_word e); [trivial|].
  intros [H|H]; [left; exact H|right; apply HQ; symmetry; exact H].
Qed.

Definition wpos (base slot : N) (i : nat) : N := base + N.of_nat i * slot.

Lemma word_pos_at s k : cs_counter s = N.of_nat (S k) -> N.of_nat (S k) < 65536 ->
  cs_payload_pos s + N.of_nat k * (10 + cs_pad s) < 18446744073709551616 ->
  word_pos s = wpos (cs_payload_pos s) (10 + cs_pad s) k.
Proof.
  intros Hc Hk Hb. unfold word_pos, wpos. rewrite Hc.
  assert (E1 : wrap16 (N.of_nat (S k) + 65535) = N.of_nat k) by (unfold wrap16; lia).
  rewrite E1. unfold wrap64 in *.
  assert (E2 : N.of_nat k mod 18446744073709551616 = N.of_nat k) by (apply N.mod_small; lia).
  rewrite E2.
  assert (E3 : (N.of_nat k * (10 + cs_pad s)) mod 18446744073709551616 = N.of_nat k * (10 + cs_pad s)) by (apply N.mod_small; lia).
  rewrite E3. rewrite N.mod_small by lia. lia.
Qed.

Lemma cdp_words_ok c (Q : N -> Prop) : forall ws s acc s' ms k,
  cdp_words c s ws acc = Ok (s', ms) ->
  cs_counter s = N.of_nat k -> N.of_nat (k + length ws) < 65536 ->
  cs_payload_pos s + N.of_nat (k + length ws) * (10 + cs_pad s) < 18446744073709551616 ->
  (forall x, frame_start s = Some x -> Q x) ->
  (forall j, (j < length ws)%nat -> Q (wpos (cs_payload_pos s) (10 + cs_pad s) (k + j))) ->
  (exists tl, ms = acc ++ tl /\
     Forall (fun m => exists j, (j < length ws)%nat /\
                                msg_okQ Q (wpos (cs_payload_pos s) (10 + cs_pad s) (k + j)) (nth j ws []) m) tl) /\
  (forall x, frame_start s' = Some x -> Q x).
Proof.
  induction ws as [|w ws IH]; intros s acc s' ms k H Hc Hk Hb HQ HW; cbn [cdp_words] in H.
  - injection H as <- <-. split; [exists []; split; [symmetry; apply app_nil_r|constructor]|exact HQ].
  - destruct (cdp_check c s w) as [[s1 m]|p] eqn:E; [|discriminate].
    destruct (cdp_check_ok c s w s1 m E) as (T & M & F). cbn zeta in *.
    set (sc := set_counter s (wrap16 (cs_counter s + 1))) in *.
    assert (Hsc : cs_counter sc = N.of_nat (S k)) by (subst sc; cbn; rewrite Hc; unfold wrap16; cbn [length] in Hk; lia).
    assert (Hpp : cs_payload_pos sc = cs_payload_pos s /\ cs_pad sc = cs_pad s) by (split; reflexivity).
    destruct Hpp as [Hpp Hpad].
    assert (Hpos : word_pos sc = wpos (cs_payload_pos s) (10 + cs_pad s) k).
    { rewrite <- Hpp, <- Hpad. apply word_pos_at; [exact Hsc|cbn [length] in Hk; lia|]. rewrite Hpp, Hpad. cbn [length] in Hb. nia. }
    destruct T as (T1 & T2 & T3). rewrite Hpp in T1. rewrite Hpad in T3. rewrite Hsc in T2.
    assert (HQ1 : forall x, frame_start s1 = Some x -> Q x).
    { intros x Hx. destruct F as [F|[F|F]]; rewrite F in Hx.
      - apply HQ, Hx.
      - injection Hx as <-. rewrite Hpos. replace k with (k + 0)%nat by lia. apply HW. cbn; lia.
      - discriminate. }
    specialize (IH s1 (acc ++ m) s' ms (S k) H (eq_sym T2) ltac:(cbn [length] in Hk; lia)).
    rewrite <- T1, <- T3 in IH.
    specialize (IH ltac:(cbn [length] in Hb; replace (S k + length ws)%nat with (k + S (length ws))%nat by lia; exact Hb) HQ1).
    destruct IH as ((tl & -> & Htl) & HQ').
    { intros j Hj. replace (S k + j)%nat with (k + S j)%nat by lia. apply HW. cbn; lia. }
    split; [|exact HQ'].
    exists (m ++ tl). split; [rewrite app_assoc; reflexivity|].
    apply Forall_app_intro.
    + eapply Forall_impl; [|exact M]. intros x Hx. exists 0%nat. split; [cbn; lia|].
      cbn [nth]. rewrite Nat.add_0_r, <- Hpos. eapply msg_ok_Q; [exact HQ|exact Hx].
    + eapply Forall_impl; [|exact Htl]. intros x (j & Hj & Hx). exists (S j). split; [cbn; lia|].
      cbn [nth]. replace (k + S j)%nat with (S k + j)%nat by lia. exact Hx.
Qed.

(* ---- the words handed to the checker are the bytes of the payload at their slot ---- *)
Lemma take_take : forall n m (l : list N), (n <= m)%nat -> take n (take m l) = take n l.
Proof.
  induction n as [|n IH]; intros m l H; [reflexivity|].
  destruct m as [|m]; [lia|]. destruct l as [|x l]; [reflexivity|]. cbn [take]. rewrite IH by lia. reflexivity.
Qed.
Lemma take_nil n : take n ([] : list N) = [].  Proof. destruct n; reflexivity. Qed.
Lemma drop_nil' n : drop n ([] : list N) = [].  Proof. destruct n; reflexivity. Qed.
Lemma drop_take : forall a m (l : list N), drop a (take m l) = take (m - a) (drop a l).
Proof.
  induction a as [|a IH]; intros m l; [rewrite Nat.sub_0_r; reflexivity|].
  destruct m as [|m]; [cbn [take Nat.sub]; rewrite drop_nil'; reflexivity|].
  destruct l as [|x l]; [cbn [take drop]; rewrite take_nil; reflexivity|]. cbn [take drop Nat.sub]. apply IH.
Qed.
Lemma map_nth_default {A B} (f : A -> B) l i da db : (i < length l)%nat -> nth i (map f l) db = f (nth i l da).
Proof.
  revert i; induction l as [|x l IH]; intros i H; cbn in *; [lia|]. destruct i; [reflexivity|]. apply IH. lia.
Qed.

Lemma words_of_nth p ws j : words_of p = Some ws -> (j < length ws)%nat ->
  nth j ws [] = take 10 (drop (j * slot_of p) p) /\ (j * slot_of p + 10 <= length p)%nat.
Proof.
  unfold words_of, slot_of, preprocess.
  destruct (Nat.ltb 15 (ff_run p)); [discriminate|].
  destruct (detect_fmt0 p).
  - intros H Hj. injection H as <-. rewrite map_length in Hj.
    rewrite (map_nth_default (take 10) _ j [] []) by exact Hj.
    destruct (c12_chunk_at 16 p j ltac:(lia) Hj) as [E L]. rewrite E. split; [apply take_take; lia|lia].
  - destruct (Nat.ltb 9 (ff_run p)).
    + intros H Hj. injection H as <-. rewrite map_length in Hj.
      rewrite (map_nth_default (take 10) _ j [] []) by exact Hj.
      destruct (c12_chunk_at 10 (take (length p - ff_run p) p) j ltac:(lia) Hj) as [E L]. rewrite E.
      assert (Hl : (length (take (length p - ff_run p) p) <= length p)%nat).
      { clear. generalize (length p - ff_run p)%nat. intros n. revert p. induction n; intros [|x p]; cbn; try lia. specialize (IHn p). lia. }
      assert (Hl2 : length (take (length p - ff_run p) p) = (length p - ff_run p)%nat) by (apply take_length; lia).
      rewrite drop_take, take_take by lia. rewrite take_take by lia. split; [reflexivity|lia].
    + intros H Hj. injection H as <-. rewrite map_length in Hj.
      rewrite (map_nth_default (take 10) _ j [] []) by exact Hj.
      destruct (c12_chunk_at 10 p j ltac:(lia) Hj) as [E L]. rewrite E. split; [apply take_take; lia|lia].
Qed.

(* ---- a whole packet through do_payload_checks ---- *)
Definition pad_of (r : rdh) : N := if rdh_data_format r =? 0 then 6 else 0.

Lemma set_current_rdh_ok s r pos s1 : set_current_rdh s r pos = Ok s1 ->
  cs_payload_pos s1 = wrap64 (pos + 64) /\ cs_counter s1 = 0 /\ cs_pad s1 = pad_of r /\ frame_start s1 = frame_start s.
Proof.
  unfold set_current_rdh, frame_start, pad_of. destruct (cs_rfv s) as [rf|] eqn:Hrf.
  - destruct (rf_layer rf).
    + intros H. injection H as <-. cbn. rewrite ?Hrf. repeat split.
    + destruct (layer_of_feeid (r_fee_id r)); [|discriminate]. intros H. injection H as <-. cbn. repeat split.
  - intros H. injection H as <-. cbn. rewrite ?Hrf. repeat split.
Qed.

Lemma c07_packet c (Q : N -> Prop) s r payload pos s' ms ws :
  do_payload_checks c s r payload pos = Ok (s', ms) ->
  words_of payload = Some ws ->
  N.of_nat (length ws) < 65535 -> pos + 64 + N.of_nat (length ws) * 16 < 18446744073709551616 ->
  (forall x, frame_start s = Some x -> Q x) ->
  (forall j, (j < length ws)%nat -> Q (wpos (pos + 64) (10 + pad_of r) j)) ->
  Forall (fun m => exists j, (j < length ws)%nat /\ msg_okQ Q (wpos (pos + 64) (10 + pad_of r) j) (nth j ws []) m) ms /\
  (forall x, frame_start s' = Some x -> Q x).
Proof.
  intros H Hw Hn Hb HQ HW. unfold do_payload_checks in H.
  destruct (set_current_rdh s r pos) as [s1|p] eqn:Hs; [|discriminate].
  destruct (set_current_rdh_ok s r pos s1 Hs) as (P1 & P2 & P3 & P4).
  unfold words_of in Hw. destruct (preprocess payload) as [ff|slot cs]; [discriminate|].
  assert (Hw' : map (take 10) cs = ws) by congruence. clear Hw. rewrite Hw' in H.
  assert (Hpp : cs_payload_pos s1 = pos + 64) by (rewrite P1; unfold wrap64; apply N.mod_small; lia).
  assert (Hpad : pad_of r <= 6) by (unfold pad_of; destruct (rdh_data_format r =? 0); lia).
  destruct (cdp_words_ok c Q ws s1 [] s' ms 0 H P2 ltac:(cbn; lia)) as ((tl & E & Htl) & HQ').
  - rewrite Hpp, P3. cbn [Nat.add]. nia.
  - rewrite P4. exact HQ.
  - intros j Hj. rewrite Hpp, P3. cbn [Nat.add]. apply HW, Hj.
  - cbn [app] in E. subst tl. rewrite Hpp, P3 in Htl. split; [exact Htl|exact HQ'].
Qed.

(* RDH-level messages of a packet are located at the packet's offset; everything else a link
   reports for the packet comes from do_payload_checks *)
Lemma link_step_msgs c s p s' ms : link_step c s p = Ok (s', ms) ->
  exists mr mp, ms = mr ++ mp /\
    (forall m, In m mr -> exists code tags, (code = 10 \/ code = 11) /\ m = rdh_err (c_off p) code tags) /\
    (mp = [] \/ exists cs, do_payload_checks c (lk_cdp s) (c_rdh p) (c_payload p) (c_off p) = Ok (cs, mp)).
Proof.
  unfold link_step.
  destruct (rdh_sanity (lk_sanity s) (c_rdh p)) as [ss t10].
  set (m10 := match t10 with [] => [] | _ => [rdh_err (c_off p) 10 t10] end).
  assert (H10 : forall m, In m m10 -> exists code tags, (code = 10 \/ code = 11) /\ m = rdh_err (c_off p) code tags).
  { subst m10. destruct t10; [intros m []|]. intros m [<-|[]]. exists 10, (r :: t10). split; [left; reflexivity|reflexivity]. }
  set (rm := if v_running c then let '(rs, t11) := running_check (lk_running s) (c_rdh p) in
                                 (rs, match t11 with [] => [] | _ => [rdh_err (c_off p) 11 t11] end)
             else (lk_running s, [])).
  assert (H11 : forall m, In m (snd rm) -> exists code tags, (code = 10 \/ code = 11) /\ m = rdh_err (c_off p) code tags).
  { subst rm. destruct (v_running c); [|intros m []].
    destruct (running_check (lk_running s) (c_rdh p)) as [rs t11]. cbn [snd].
    destruct t11; [intros m []|]. intros m [<-|[]]. exists 11, (r :: t11). split; [right; reflexivity|reflexivity]. }
  destruct rm as [rs m11] eqn:Erm. cbn [snd] in H11.
  assert (HR : forall m, In m (m10 ++ m11) -> exists code tags, (code = 10 \/ code = 11) /\ m = rdh_err (c_off p) code tags).
  { intros m Hin. apply in_app_or in Hin. destruct Hin; [apply H10|apply H11]; assumption. }
  destruct (v_target c).
  - intros H. injection H as _ <-. exists (m10 ++ m11), []. split; [rewrite app_nil_r; reflexivity|]. split; [exact HR|left; reflexivity].
  - destruct (c_payload p) eqn:Hp.
    + intros H. injection H as _ <-. exists (m10 ++ m11), []. split; [rewrite app_nil_r; reflexivity|]. split; [exact HR|left; reflexivity].
    + rewrite <- Hp. destruct (do_payload_checks c (lk_cdp s) (c_rdh p) (c_payload p) (c_off p)) as [[cs m]|site] eqn:E; [|discriminate].
      intros H. injection H as _ <-. exists (m10 ++ m11), m. split; [rewrite app_assoc; reflexivity|]. split; [exact HR|right; exists cs; reflexivity].
  - destruct (c_payload p) eqn:Hp.
    + intros H. injection H as _ <-. exists (m10 ++ m11), []. split; [rewrite app_nil_r; reflexivity|]. split; [exact HR|left; reflexivity].
    + rewrite <- Hp. destruct (do_payload_checks c (lk_cdp s) (c_rdh p) (c_payload p) (c_off p)) as [[cs m]|site] eqn:E; [|discriminate].
      intros H. injection H as _ <-. exists (m10 ++ m11), m. split; [rewrite app_assoc; reflexivity|]. split; [exact HR|right; exists cs; reflexivity].
Qed.
