(* C19 composed with the scanner: what the views show for a whole well-framed input. *)
From Coq Require Import List NArith Bool Lia.
Import ListNotations.
From FP Require Import Model.Base Model.Rdh Model.Payload Model.Alpide Model.Scanner Model.Views Spec.Framing
  Proofs.C03_proofs Proofs.C19_proofs.
From FP Require Gen.Facts.
Open Scope N_scope.

Lemma flat_map_concat {A B} (f : A -> list B) (ls : list (list A)) : flat_map (fun b => flat_map f b) ls = flat_map f (concat ls).
Proof. induction ls as [|b r IH]; [reflexivity|]. cbn [flat_map concat]. rewrite IH, flat_map_app. reflexivity. Qed.

Lemma view_rdh_batches (bs : list (list cdp)) : flat_map view_rdh bs = view_rdh (concat bs).
Proof.
  unfold view_rdh. induction bs as [|b r IH]; [reflexivity|]. cbn [flat_map concat]. rewrite IH, map_app. reflexivity.
Qed.

(* `view rdh`: the batches are shown one after the other; for a well-framed input that is one row per selected packet of the chain, in
   order, with its true offset and the decoded header fields *)
Theorem c19_view_rdh_whole (b k : bool) : b = true -> forall c pkts, Forall wf_pkt pkts ->
  flat_map view_rdh (so_batches (scan b k c (serialize pkts))) = map (fun op => rdh_view_row (mk_cdp c op)) (selected c 0 pkts).
Proof.
  intros Hb c pkts Hwf. destruct (c03_scan_exact_when b k Hb c pkts Hwf) as (_ & Hc & _).
  rewrite view_rdh_batches, Hc. unfold view_rdh. rewrite map_map. reflexivity.
Qed.

(* the offsets shown are the chained byte offsets: each row's packet lies inside the input *)
Lemma with_offsets_inside : forall pkts off op, In op (with_offsets off pkts) ->
  off <= fst op /\ fst op + p_size (snd op) <= off + total_size pkts.
Proof.
  induction pkts as [|p r IH]; intros off op H; [destruct H|]. cbn [with_offsets] in H.
  unfold total_size. cbn [fold_right]. fold (total_size r). destruct H as [<-|H].
  - cbn [fst snd]. lia.
  - destruct (IH _ _ H) as [H1 H2]. unfold p_size in *. lia.
Qed.

Theorem c19_view_rdh_offsets c pkts op : In op (selected c 0 pkts) ->
  fst op + p_size (snd op) <= total_size pkts /\ c_off (mk_cdp c op) = fst op.
Proof.
  intros Hop. unfold selected in Hop. apply filter_In in Hop. destruct Hop as [Hop _]. split; [|reflexivity].
  destruct (with_offsets_inside _ _ _ Hop) as [_ H]. lia.
Qed.

(* the readout-frame views of a whole well-framed input whose packets can all be shown (FEE id of a real layer, payload without an
   over-long 0xFF run): batch after batch, i.e. per selected packet of the chain one RDH row and then the rows of its words, each at
   offset + 64 + index * slot of ITS OWN data format; no batch ends the run early *)
Lemma Forall_concat_in {A} (P : A -> Prop) (bs : list (list A)) : Forall P (concat bs) -> forall b, In b bs -> Forall P b.
Proof.
  intros H b Hb. rewrite Forall_forall in *. intros x Hx. apply H. apply in_concat. exists b. split; assumption.
Qed.

Lemma flat_map_ext_in' {A B} (f g : A -> list B) l : (forall x, In x l -> f x = g x) -> flat_map f l = flat_map g l.
Proof. induction l as [|x l IH]; intros H; [reflexivity|]. cbn [flat_map]. rewrite (H x (or_introl eq_refl)), IH; [reflexivity|]. intros y Hy. apply H. right. exact Hy. Qed.

Theorem c19_view_frames_whole (b k v : bool) : b = true -> v = true -> v = Gen.Facts.view_word_offsets_use_own_rdh_format ->
  forall dv c pkts, Forall wf_pkt pkts -> Forall viewable (map (mk_cdp c) (selected c 0 pkts)) ->
  let batches := so_batches (scan b k c (serialize pkts)) in
  flat_map (fun bt => fst (view_frames dv bt)) batches =
    flat_map (fun q => frdh_of q :: word_rows dv (rdh_data_format (c_rdh q)) (c_off q) 0 (chunks_of q)) (map (mk_cdp c) (selected c 0 pkts)) /\
  Forall (fun bt => snd (view_frames dv bt) = VE_done) batches.
Proof.
  intros Hb Hv Hg dv c pkts Hwf Hview. cbv zeta. destruct (c03_scan_exact_when b k Hb c pkts Hwf) as (_ & Hc & _).
  rewrite <- Hc in Hview |- *. set (bs := so_batches (scan b k c (serialize pkts))) in *.
  pose proof (Forall_concat_in viewable bs Hview) as Hb'.
  split.
  - rewrite <- flat_map_concat. apply flat_map_ext_in'. intros bt Hbt.
    rewrite (c19_frames_rows_when v Hv Hg dv bt (Hb' bt Hbt)). reflexivity.
  - rewrite Forall_forall. intros bt Hbt. rewrite (c19_frames_rows_when v Hv Hg dv bt (Hb' bt Hbt)). reflexivity.
Qed.
