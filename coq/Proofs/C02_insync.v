(* C02, faults inside a conforming stream (the `in sync` composition of C01 and C02).

   The detection theorems of Proofs/C02_proofs.v hold for EVERY validator state, given the position of the protocol state machine.
   This file supplies the other half: the state the validator is really in at a position of a CONFORMING stream (the grammar of
   Spec/GrammarIts.v), together with the tracker values that fix the reported offset.  Composed:  whatever word stands at a data /
   TDT position of an otherwise conforming page -- any page of any heartbeat frame, after any number of conforming trigger packets
   and data words, followed by anything -- is judged in a data state, at offset  packet + 64 + index * slot,  and its messages are
   never retracted; so a TDT-identified word that breaks a TDT rule draws [E50] there, an identifier that is neither a data word
   nor a TDT draws [E991] there, ... *)
From Coq Require Import List NArith ZArith Bool Lia ZifyBool ZifyN Arith.
From FP Require Import Model.Base Model.ItsWords Model.ItsFsm Model.Rdh Model.RdhChecks Model.Payload Model.Alpide
  Model.CdpRunning Model.Scanner Model.Link Spec.WordLayout Spec.Grammar Spec.GrammarIts
  Proofs.Bits Proofs.WordFacts Proofs.C11_proofs Proofs.C12_proofs Proofs.C12_packet Proofs.C01_rdh Proofs.C01_its Proofs.C01_its_cdw
  Proofs.C02_proofs.
From FP Require Proofs.C07_proofs Proofs.C04_stave Proofs.C02_total.
From FP Require Gen.Facts.
Import ListNotations.
Open Scope N_scope.

(* ---- the items of a page, up to a chosen one ---- *)
Section SplitItems.
  Context (running : bool) (h : hbf_desc) (r : rdh) (ihw : list N).
  Context (Hihw : W_ihw ihw) (Horb : r_orbit r = h_orbit h) (Hbc : rdh_bc r = h_bc h) (Htrig : r_trigger_type r = h_trigger h).
  Notation cfg := (its_cfg running).
  Notation lanes := (ihw_f_lanes ihw).

  (* the conforming items before item [i] are accepted silently and leave the validator where the grammar says item [i] starts *)
  Lemma run_items_split : forall items1 first prev opened i items2 out s acc,
    items_ok h lanes first prev opened (items1 ++ i :: items2) out ->
    (prev = None -> opened = None -> r_pages_counter r = 0 -> first = true) -> entry r ihw prev opened s ->
    exists s' first' prev' opened',
      cdp_words cfg s (flat_map item_words items1) acc = Ok (s', acc) /\
      items_ok h lanes first' prev' opened' (i :: items2) out /\
      (prev' = None -> opened' = None -> r_pages_counter r = 0 -> first' = true) /\ entry r ihw prev' opened' s'.
  Proof.
    induction items1 as [|a items1 IH]; intros first prev opened i items2 out s acc Hok Hfirst Hen.
    - exists s, first, prev, opened. cbn. auto.
    - cbn [app] in Hok.
      assert (Hnn : items1 ++ i :: items2 <> []) by (destruct items1; discriminate).
      inversion Hok as [f0 p0
                       |f0 p0 t rr o0 Ht Hle Hr
                       |f0 p0 t d e rr o0 Ht Hle Hd He Hr
                       |f0 p0 t d e Ht Hle Hd He
                       |o t d e Ht Hd He
                       |o t d e rr o0 Ht Hd He Hr]; subst.
      + (* no-data TDH *)
        destruct (start_tdh running h r ihw Horb Hbc Htrig first prev 1 t s (or_intror eq_refl) Ht Hle (fun P => Hfirst P eq_refl) Hen) as [s1 [E1 S1]].
        assert (En : entry r ihw (Some t) None s1) by (cbn [entry]; exists S_Choice_ByNoDataTrue; split; [reflexivity|split; [exact S1|apply Ht]]).
        destruct (IH false (Some t) None i items2 out s1 acc Hr ltac:(intros X; discriminate) En) as (s2 & f2 & p2 & o2 & E2 & R2).
        exists s2, f2, p2, o2. split; [|exact R2].
        cbn [flat_map item_words app cdp_words]. rewrite E1, app_nil_r. exact E2.
      + (* a whole trigger packet *)
        destruct (start_tdh running h r ihw Horb Hbc Htrig first prev 0 t s (or_introl eq_refl) Ht Hle (fun P => Hfirst P eq_refl) Hen) as [s1 [E1 S1]].
        destruct (piece_tail running r ihw Hihw s1 _ _ d e 1 S1 eq_refl Hd (or_intror eq_refl) He acc (flat_map item_words items1)) as [s2 [E2 S2]].
        assert (En : entry r ihw (Some t) None s2) by (cbn [entry]; exists S_Choice_ByTdtDone; split; [reflexivity|split; [exact S2|apply Ht]]).
        destruct (IH false (Some t) None i items2 out s2 acc Hr ltac:(intros X; discriminate) En) as (s3 & f3 & p3 & o3 & E3 & R3).
        exists s3, f3, p3, o3. split; [|exact R3].
        cbn [flat_map item_words app cdp_words]. rewrite E1, app_nil_r, E2. exact E3.
      + exfalso. apply Hnn. symmetry. assumption.
      + exfalso. apply Hnn. symmetry. assumption.
      + (* the last piece of a continued packet *)
        destruct Hen as [Hs Ho]. destruct Ht as (Hw & Hc & Hn & Hb & Hob & Hty).
        destruct (step_tdh_cont running s r (Some ihw) o t Hs Hw Ho Hc Hb Hob Hty) as [s1 [E1 S1]].
        destruct (piece_tail running r ihw Hihw s1 _ _ d e 1 S1 eq_refl Hd (or_intror eq_refl) He acc (flat_map item_words items1)) as [s2 [E2 S2]].
        assert (En : entry r ihw (Some t) None s2) by (cbn [entry]; exists S_Choice_ByTdtDone; split; [reflexivity|split; [exact S2|exact Hw]]).
        destruct (IH false (Some t) None i items2 out s2 acc Hr ltac:(intros X; discriminate) En) as (s3 & f3 & p3 & o3 & E3 & R3).
        exists s3, f3, p3, o3. split; [|exact R3].
        cbn [flat_map item_words app cdp_words]. rewrite E1, app_nil_r, E2. exact E3.
  Qed.

  (* inside item [i]: after its TDH and any number of its data words the validator is in a data state *)
  Definition item_data (i : pitem) : option (list N * list (list N) * list N) :=
    match i with PI_nodata _ => None | PI_frame t d e | PI_open t d e | PI_cont t d e | PI_close t d e => Some (t, d, e) end.

  Lemma item_prefix_state first prev opened i items2 out s acc t e d1 d2 :
    items_ok h lanes first prev opened (i :: items2) out ->
    (prev = None -> opened = None -> r_pages_counter r = 0 -> first = true) -> entry r ihw prev opened s ->
    item_data i = Some (t, d1 ++ d2, e) ->
    exists sk f, cdp_words cfg s (t :: d1) acc = Ok (sk, acc) /\ St sk f r (Some ihw) (Some t) /\ is_data_state f = true /\
                 Forall (W_data lanes) (d1 ++ d2) /\ W_tdt e.
  Proof.
    intros Hok Hfirst Hen Hi.
    assert (Hrun : forall s1 f1, St s1 f1 r (Some ihw) (Some t) -> is_data_state f1 = true -> Forall (W_data lanes) (d1 ++ d2) ->
              exists sk f, cdp_words cfg s1 d1 acc = Ok (sk, acc) /\ St sk f r (Some ihw) (Some t) /\ is_data_state f = true).
    { intros s1 f1 S1 F1 Hd. apply Forall_app in Hd. destruct Hd as [Hd1 _].
      destruct (run_data running d1 s1 f1 r ihw (Some t) acc S1 F1 Hihw Hd1 []) as (sk & f & E & Sk & Fk).
      rewrite app_nil_r in E. cbn [cdp_words] in E. exists sk, f. auto. }
    inversion Hok as [f0 p0
                     |f0 p0 t0 rr o0 Ht Hle Hr
                     |f0 p0 t0 d0 e0 rr o0 Ht Hle Hd He Hr
                     |f0 p0 t0 d0 e0 Ht Hle Hd He
                     |o t0 d0 e0 Ht Hd He
                     |o t0 d0 e0 rr o0 Ht Hd He Hr]; subst; cbn [item_data] in Hi; try discriminate; injection Hi as -> -> ->.
    - destruct (start_tdh running h r ihw Horb Hbc Htrig first prev 0 t s (or_introl eq_refl) Ht Hle (fun P => Hfirst P eq_refl) Hen) as [s1 [E1 S1]].
      destruct (Hrun s1 _ S1 eq_refl Hd) as (sk & f & E & Sk & Fk). exists sk, f. cbn [cdp_words]. rewrite E1, app_nil_r.
      split; [exact E|]. split; [exact Sk|]. split; [exact Fk|]. split; [exact Hd|apply He].
    - destruct (start_tdh running h r ihw Horb Hbc Htrig first prev 0 t s (or_introl eq_refl) Ht Hle (fun P => Hfirst P eq_refl) Hen) as [s1 [E1 S1]].
      destruct (Hrun s1 _ S1 eq_refl Hd) as (sk & f & E & Sk & Fk). exists sk, f. cbn [cdp_words]. rewrite E1, app_nil_r.
      split; [exact E|]. split; [exact Sk|]. split; [exact Fk|]. split; [exact Hd|apply He].
    - destruct Hen as [Hs Ho]. destruct Ht as (Hw & Hc & Hn & Hb & Hob & Hty).
      destruct (step_tdh_cont running s r (Some ihw) o t Hs Hw Ho Hc Hb Hob Hty) as [s1 [E1 S1]].
      destruct (Hrun s1 _ S1 eq_refl Hd) as (sk & f & E & Sk & Fk). exists sk, f. cbn [cdp_words]. rewrite E1, app_nil_r.
      split; [exact E|]. split; [exact Sk|]. split; [exact Fk|]. split; [exact Hd|apply He].
    - destruct Hen as [Hs Ho]. destruct Ht as (Hw & Hc & Hn & Hb & Hob & Hty).
      destruct (step_tdh_cont running s r (Some ihw) o t Hs Hw Ho Hc Hb Hob Hty) as [s1 [E1 S1]].
      destruct (Hrun s1 _ S1 eq_refl Hd) as (sk & f & E & Sk & Fk). exists sk, f. cbn [cdp_words]. rewrite E1, app_nil_r.
      split; [exact E|]. split; [exact Sk|]. split; [exact Fk|]. split; [exact Hd|apply He].
  Qed.

  (* both together: the words of a page's items up to a data / TDT position *)
  Lemma items_prefix_state items1 first prev opened i items2 out s acc t e d1 d2 :
    items_ok h lanes first prev opened (items1 ++ i :: items2) out ->
    (prev = None -> opened = None -> r_pages_counter r = 0 -> first = true) -> entry r ihw prev opened s ->
    item_data i = Some (t, d1 ++ d2, e) ->
    exists sk f, cdp_words cfg s (flat_map item_words items1 ++ t :: d1) acc = Ok (sk, acc) /\
                 St sk f r (Some ihw) (Some t) /\ is_data_state f = true /\ Forall (W_data lanes) (d1 ++ d2) /\ W_tdt e.
  Proof.
    intros Hok Hfirst Hen Hi.
    destruct (run_items_split items1 first prev opened i items2 out s acc Hok Hfirst Hen) as (s1 & f1 & p1 & o1 & E1 & Hok1 & Hf1 & En1).
    destruct (item_prefix_state f1 p1 o1 i items2 out s1 acc t e d1 d2 Hok1 Hf1 En1 Hi) as (sk & f & E2 & R).
    exists sk, f. split; [|exact R]. rewrite cdp_words_app, E1. exact E2.
  Qed.
End SplitItems.

(* ---- generic facts about a run of words: tracker, messages never retracted ---- *)
Lemma cdp_words_tracker c : forall ws s acc s' out k, cdp_words c s ws acc = Ok (s', out) ->
  cs_counter s = N.of_nat k -> N.of_nat (k + length ws) < 65536 ->
  cs_counter s' = N.of_nat (k + length ws) /\ cs_payload_pos s' = cs_payload_pos s /\ cs_pad s' = cs_pad s.
Proof.
  induction ws as [|w ws IH]; intros s acc s' out k H Hc Hk; cbn [cdp_words] in H.
  - injection H as <- <-. cbn [length]. rewrite Nat.add_0_r. auto.
  - destruct (cdp_check c s w) as [[s1 m]|p] eqn:E; [|discriminate].
    destruct (C07_proofs.cdp_check_ok c s w s1 m E) as ((T1 & T2 & T3) & _). cbn [cs_payload_pos cs_counter cs_pad set_counter] in T1, T2, T3.
    assert (Hc1 : cs_counter s1 = N.of_nat (S k)) by (rewrite <- T2, Hc; unfold wrap16; cbn [length] in Hk; lia).
    destruct (IH s1 (acc ++ m) s' out (S k) H Hc1 ltac:(cbn [length] in Hk; lia)) as (A & B & C).
    split; [rewrite A; f_equal; cbn [length]; lia|]. split; congruence.
Qed.

Lemma cdp_words_extends c : forall ws s acc s' out, cdp_words c s ws acc = Ok (s', out) -> exists tl, out = acc ++ tl.
Proof.
  induction ws as [|w ws IH]; intros s acc s' out H; cbn [cdp_words] in H.
  - injection H as <- <-. exists []. symmetry. apply app_nil_r.
  - destruct (cdp_check c s w) as [[s1 m]|p]; [|discriminate]. destruct (IH _ _ _ _ H) as [tl ->]. exists (m ++ tl). apply app_assoc_reverse.
Qed.

Lemma pos_of_at s n : cs_counter s = N.of_nat n -> N.of_nat (S n) < 65536 ->
  cs_payload_pos s + N.of_nat n * (10 + cs_pad s) < 18446744073709551616 ->
  pos_of s = C07_proofs.wpos (cs_payload_pos s) (10 + cs_pad s) n.
Proof.
  intros Hc Hn Hb. unfold pos_of.
  apply (C07_proofs.word_pos_at (set_counter s (wrap16 (cs_counter s + 1))) n); cbn [cs_counter cs_payload_pos cs_pad set_counter]; [|exact Hn|exact Hb].
  rewrite Hc. unfold wrap16. lia.
Qed.

(* ---- a data page that conforms up to a data / TDT position, and holds ANY words from there on ---- *)
Section FaultyPage.
  Context (HS : C04_stave.sites_handled).

  Lemma prefix_shape h lanes first prev opened items1 i items2 out t e d1 d2 :
    items_ok h lanes first prev opened (items1 ++ i :: items2) out -> item_data i = Some (t, d1 ++ d2, e) ->
    (exists second tl, flat_map item_words items1 ++ t :: d1 = second :: tl /\ W_tdh second) /\
    Forall gw (flat_map item_words items1 ++ t :: d1).
  Proof.
    intros Hok Hi.
    assert (Hwi : item_words i = t :: (d1 ++ d2) ++ [e] /\ item_tdh i = t).
    { destruct i; cbn [item_data] in Hi; try discriminate; injection Hi as -> -> ->; split; reflexivity. }
    destruct Hwi as [Hwi Hti].
    split.
    - destruct items1 as [|a items1].
      + cbn [app] in Hok. destruct (items_head_tdh _ _ _ _ _ _ _ _ Hok) as [Ht _]. rewrite Hti in Ht.
        exists t, d1. split; [reflexivity|exact Ht].
      + cbn [app] in Hok. destruct (items_head_tdh _ _ _ _ _ _ _ _ Hok) as [Ht [tl Etl]].
        exists (item_tdh a), (tl ++ flat_map item_words items1 ++ t :: d1). split; [|exact Ht].
        cbn [flat_map]. rewrite Etl. cbn [app]. rewrite <- app_assoc. reflexivity.
    - pose proof (items_gw _ _ _ _ _ _ _ Hok) as Hg. rewrite flat_map_app in Hg. apply Forall_app in Hg. destruct Hg as [G1 G2].
      apply Forall_app. split; [exact G1|]. cbn [flat_map] in G2. apply Forall_app in G2. destruct G2 as [G2 _].
      rewrite Hwi in G2. inversion G2 as [|? ? Gt Gr]; subst. constructor; [exact Gt|].
      apply Forall_app in Gr. destruct Gr as [Gr _]. apply Forall_app in Gr. apply Gr.
  Qed.

  Lemma insync_data_page running ld h k pg ihw items1 i items2 first opened out t e d1 d2 w rest pad s pos :
    (l_format ld = 0 \/ l_format ld = 2) -> h_bc h < 4096 -> W_ihw ihw ->
    items_ok h (ihw_f_lanes ihw) first None opened (items1 ++ i :: items2) out -> item_data i = Some (t, d1 ++ d2, e) ->
    Forall gw (w :: rest) -> (pad <= 15)%nat ->
    pg_payload pg = layout (l_format ld) ((ihw :: flat_map item_words items1 ++ t :: d1) ++ w :: rest) pad ->
    (k = 0 -> first = true) -> PEntry opened s ->
    N.of_nat (S (length (flat_map item_words items1 ++ t :: d1))) < 65535 ->
    pos + 64 + N.of_nat (S (length (flat_map item_words items1 ++ t :: d1))) * 16 < 18446744073709551616 ->
    exists sk f s' tl,
      do_payload_checks (its_cfg running) s (render_rdh ld h k 0 pg) (pg_payload pg) pos = Ok (s', word_msgs (its_cfg running) sk w ++ tl) /\
      St sk f (render_rdh ld h k 0 pg) (Some ihw) (Some t) /\ is_data_state f = true /\
      pos_of sk = C07_proofs.wpos (pos + 64) (10 + C07_proofs.pad_of (render_rdh ld h k 0 pg)) (S (length (flat_map item_words items1 ++ t :: d1))).
  Proof.
    intros Hfmt Hbc Hihw Hitems Hi Hgw Hpad Hpl Hk [Hrfv Hen] Hlen Hbound.
    set (r := render_rdh ld h k 0 pg). set (pre := flat_map item_words items1 ++ t :: d1) in *.
    destruct (set_rdh_its s r pos Hrfv) as (s1 & E1 & F1 & R1 & V1 & W1).
    destruct (C07_proofs.set_current_rdh_ok s r pos s1 E1) as (P1 & C1 & D1 & _).
    destruct (prefix_shape _ _ _ _ _ _ _ _ _ _ _ _ _ Hitems Hi) as [(second & tl0 & Eshape & Hsec) Hgpre]. fold pre in Eshape, Hgpre.
    assert (Hwords : words_of (pg_payload pg) = Some ((ihw :: pre) ++ w :: rest)).
    { rewrite Hpl. apply (layout_words _ _ _ second (tl0 ++ w :: rest)); auto.
      - cbn [app]. constructor; [apply gw_ihw; exact Hihw|]. apply Forall_app. split; assumption.
      - cbn [app hd]. rewrite Eshape. reflexivity. }
    rewrite (c12_packet_words _ _ _ _ _ s1 _ E1 Hwords).
    assert (Horb : r_orbit r = h_orbit h) by reflexivity.
    assert (Hb : rdh_bc r = h_bc h) by (apply rdh_bc_rendered; exact Hbc).
    assert (Htr : r_trigger_type r = h_trigger h) by reflexivity.
    assert (Hstop : r_stop_bit r = 0) by reflexivity.
    assert (Hpc : r_pages_counter r = k) by reflexivity.
    (* the conforming part: IHW, the items before, the TDH and data words of the item *)
    assert (Hpre : exists sk f, cdp_words (its_cfg running) s1 (ihw :: pre) [] = Ok (sk, []) /\ St sk f r (Some ihw) (Some t) /\ is_data_state f = true).
    { destruct opened as [o|].
      - destruct Hen as (Hf & Ht & Ho).
        assert (S1 : St s1 S_cIHW r (sw_ihw (cs_words s1)) (Some o)) by (unfold St; rewrite F1, W1; repeat split; auto).
        destruct (step_ihw_cont running s1 r _ _ ihw S1 Hihw) as [s2 [E2 S2]].
        destruct (items_prefix_state running h r ihw Hihw Horb Hb Htr items1 first None (Some o) i items2 out s2 [] t e d1 d2 Hitems
                    ltac:(intros _ X; discriminate) (conj S2 Ho) Hi) as (sk & f & E3 & Sk & Fk & _).
        exists sk, f. cbn [cdp_words]. rewrite E2. cbn [app]. auto.
      - assert (S1 : St s1 (cs_fsm s) r (sw_ihw (cs_words s1)) (sw_tdh (cs_words s1))) by (unfold St; repeat split; auto).
        destruct (step_ihw running s1 _ r _ _ ihw S1 Hen Hihw Hstop) as [s2 [E2 S2]].
        destruct (items_prefix_state running h r ihw Hihw Horb Hb Htr items1 first None None i items2 out s2 [] t e d1 d2 Hitems
                    ltac:(intros _ _ X; apply Hk; rewrite <- Hpc; exact X) (ex_intro _ _ S2) Hi) as (sk & f & E3 & Sk & Fk & _).
        exists sk, f. cbn [cdp_words]. rewrite E2. cbn [app]. auto. }
    destruct Hpre as (sk & f & Epre & Sk & Fk).
    destruct (cdp_words_tracker _ _ _ _ _ _ 0%nat Epre C1 ltac:(cbn [length Nat.add]; lia)) as (Tc & Tp & Td). cbn [Nat.add length] in Tc.
    rewrite cdp_words_app, Epre.
    destruct (C04_stave.cdp_words_ok HS (its_cfg running) (w :: rest) sk []) as [[s' ms] Ew]. rewrite Ew.
    cbn [cdp_words] in Ew. destruct (cdp_check (its_cfg running) sk w) as [[s3 m]|p] eqn:Ec; [|discriminate].
    destruct (cdp_words_extends _ _ _ _ _ _ Ew) as [tl ->]. cbn [app].
    exists sk, f, s', tl. split; [|split; [exact Sk|split; [exact Fk|]]].
    - unfold word_msgs. rewrite Ec. reflexivity.
    - assert (Hw64 : wrap64 (pos + 64) = pos + 64) by (unfold wrap64; apply N.mod_small; lia).
      rewrite (pos_of_at sk (S (length pre)) Tc); rewrite ?Tp, ?Td, ?P1, ?D1, ?Hw64; [reflexivity|lia|].
      unfold C07_proofs.pad_of. destruct (rdh_data_format r =? 0); lia.
  Qed.
End FaultyPage.

(* ---- the packet of such a page in the run of a link ---- *)
Section FaultyLink.
  Context (HS : C04_stave.sites_handled).
  Context (ld : link_desc) (Hwf : wf_link_rdh ld = true) (Hsys : l_system ld = Gen.Facts.its_system_id)
          (Hfmt : l_format ld = 0 \/ l_format ld = 2).
  Let layf (p : its_page) : list N := layout (l_format ld) (page_words p) (ip_pad p).

  Lemma insync_link_step running h k pg ihw items1 i items2 first opened out t e d1 d2 w rest pad s off :
    wf_hbf h = true -> latch_ok ld (lk_sanity s) -> PEntry opened (lk_cdp s) ->
    (running = true -> RInv ld h k (lk_running s)) -> k + 1 < 65536 -> W_ihw ihw ->
    items_ok h (ihw_f_lanes ihw) first None opened (items1 ++ i :: items2) out -> item_data i = Some (t, d1 ++ d2, e) ->
    Forall gw (w :: rest) -> (pad <= 15)%nat ->
    pg_payload pg = layout (l_format ld) ((ihw :: flat_map item_words items1 ++ t :: d1) ++ w :: rest) pad ->
    (k = 0 -> first = true) ->
    N.of_nat (S (length (flat_map item_words items1 ++ t :: d1))) < 65535 ->
    off + 64 + N.of_nat (S (length (flat_map item_words items1 ++ t :: d1))) * 16 < 18446744073709551616 ->
    exists sk f s' tl,
      link_step (its_cfg running) s {| c_rdh := render_rdh ld h k 0 pg; c_payload := pg_payload pg; c_off := off |} =
        Ok (s', word_msgs (its_cfg running) sk w ++ tl) /\
      St sk f (render_rdh ld h k 0 pg) (Some ihw) (Some t) /\ is_data_state f = true /\
      pos_of sk = C07_proofs.wpos (off + 64) (10 + C07_proofs.pad_of (render_rdh ld h k 0 pg)) (S (length (flat_map item_words items1 ++ t :: d1))).
  Proof.
    intros Hh Hl Hp Hr Hk Hihw Hitems Hi Hgw Hpad Hpl Hfirst Hlen Hbound.
    destruct (sane_rendered ld Hwf (lk_sanity s) h k 0 pg Hl Hh ltac:(lia)) as [S1 S2].
    destruct (rdh_sanity (lk_sanity s) (render_rdh ld h k 0 pg)) as [ss t10] eqn:E10. cbn [fst snd] in S1, S2. subst t10.
    assert (Hpne : pg_payload pg <> []).
    { rewrite Hpl. cbn [app]. apply layout_nonempty. destruct Hihw as [[L _] _]. exact L. }
    destruct (insync_data_page HS running ld h k pg ihw items1 i items2 first opened out t e d1 d2 w rest pad (lk_cdp s) off
                Hfmt (hbf_bc_small ld Hsys Hfmt h Hh) Hihw Hitems Hi Hgw Hpad Hpl Hfirst Hp Hlen Hbound) as (sk & f & cs & tl & Ecs & Sk & Fk & Pk).
    exists sk, f.
    destruct running.
    - destruct (running_data_page ld h k pg (lk_running s) (Hr eq_refl) Hk) as [R1 R2].
      destruct (running_check (lk_running s) (render_rdh ld h k 0 pg)) as [rs t11] eqn:E11. cbn [fst snd] in R1, R2. subst t11.
      rewrite (its_step true s _ _ off ss rs E10 E11 Hpne), Ecs. eexists. exists tl. auto.
    - rewrite (its_step false s _ _ off ss (lk_running s) E10 eq_refl Hpne), Ecs. eexists. exists tl. auto.
  Qed.

  (* the conforming pages of a heartbeat frame before a chosen page *)
  Lemma its_run_pages_split running h : wf_hbf h = true -> forall ips1 first opened ip ips2, pages_ok h first opened (ips1 ++ ip :: ips2) ->
    forall pages1 k s ps acc, map strip ps = render_pages ld h k pages1 -> map pg_payload pages1 = map layf ips1 ->
      latch_ok ld (lk_sanity s) -> PEntry opened (lk_cdp s) -> (running = true -> RInv ld h k (lk_running s)) ->
      k + N.of_nat (length pages1) < 65536 -> (k = 0 -> first = true) ->
      forall rest, exists s' first' opened', link_run (its_cfg running) s (ps ++ rest) acc = link_run (its_cfg running) s' rest acc /\
                              latch_ok ld (lk_sanity s') /\ PEntry opened' (lk_cdp s') /\
                              (running = true -> RInv ld h (k + N.of_nat (length pages1)) (lk_running s')) /\
                              pages_ok h first' opened' (ip :: ips2) /\ (k + N.of_nat (length pages1) = 0 -> first' = true).
  Proof.
    intros Hh. induction ips1 as [|p ips1 IH]; intros first opened ip ips2 Hpo pages1 k s ps acc Hm Hpl Hl Hp Hr Hk Hfirst rest.
    - destruct pages1; [|discriminate Hpl]. destruct ps; [|discriminate Hm]. cbn [app length N.of_nat].
      exists s, first, opened. rewrite N.add_0_r. cbn [app] in Hpo. auto 10.
    - cbn [app] in Hpo. inversion Hpo as [|f0 o0 p0 r0 out Hihw Hne Hpad Hitems Hrest]; subst.
      destruct pages1 as [|pg pages1]; [discriminate Hpl|]. cbn [map] in Hpl. injection Hpl as Hpl1 Hpl2.
      destruct ps as [|q ps]; [discriminate Hm|]. cbn [map render_pages] in Hm. injection Hm as Hq1 Hq2 Hps.
      destruct q as [qr qp off]. cbn [c_rdh c_payload] in Hq1, Hq2. subst qr qp.
      destruct (its_data_page ld Hwf Hsys Hfmt running h k pg p first opened out s off Hh Hl Hp Hr ltac:(cbn [length] in Hk; lia)
                  Hihw Hne Hpad Hitems Hpl1 Hfirst) as [s1 [E1 [L1 [P1 R1]]]].
      cbn [app link_run]. rewrite E1, app_nil_r.
      destruct (IH false out ip ips2 Hrest pages1 (k + 1) s1 ps acc Hps Hpl2 L1 (pexit_entry _ _ P1) R1
                  ltac:(cbn [length] in Hk; lia) ltac:(intros X; lia) rest) as (s2 & f2 & o2 & E2 & L2 & P2 & R2 & Q2 & F2).
      exists s2, f2, o2. split; [exact E2|]. split; [exact L2|]. split; [exact P2|].
      replace (k + N.of_nat (length (pg :: pages1))) with (k + 1 + N.of_nat (length pages1)) by (cbn [length]; lia).
      split; [exact R2|]. split; [exact Q2|]. intros X. lia.
  Qed.

  (* complete conforming heartbeat frames, keeping the invariants for what follows *)
  Lemma its_run_hbfs_then running : forall hbfs ihs, Forall2 (its_hbf_ok (l_format ld)) hbfs ihs ->
    forall ps s acc prev hnext, forallb wf_hbf hbfs = true ->
    orbits_differ (match prev with Some p => p :: hbfs ++ [hnext] | None => hbfs ++ [hnext] end) = true ->
    map strip ps = flat_map (render_hbf ld) hbfs -> latch_ok ld (lk_sanity s) -> PEntry None (lk_cdp s) ->
    (running = true -> Between ld prev (lk_running s)) ->
    forall rest, exists s' prev', link_run (its_cfg running) s (ps ++ rest) acc = link_run (its_cfg running) s' rest acc /\
      latch_ok ld (lk_sanity s') /\ PEntry None (lk_cdp s') /\ (running = true -> Between ld prev' (lk_running s')) /\
      (forall p, prev' = Some p -> h_orbit p <> h_orbit hnext).
  Proof.
    induction 1 as [|h ih hbfs ihs Hok Hrest IH]; intros ps s acc prev hnext Hw Ho Hm Hl Hp Hb rest.
    - destruct ps; [|discriminate]. exists s, prev. cbn [app]. split; [reflexivity|]. split; [exact Hl|]. split; [exact Hp|]. split; [exact Hb|].
      intros p ->. cbn in Ho. apply andb_true_iff in Ho. destruct Ho as [Ho _]. apply negb_true_iff in Ho. apply N.eqb_neq. exact Ho.
    - cbn [forallb] in Hw. apply andb_true_iff in Hw. destruct Hw as [Hh Hw]. cbn [flat_map] in Hm.
      assert (Hsp : exists ps1 ps2, ps = ps1 ++ ps2 /\ map strip ps1 = render_hbf ld h /\ map strip ps2 = flat_map (render_hbf ld) hbfs).
      { exists (firstn (length (render_hbf ld h)) ps), (skipn (length (render_hbf ld h)) ps). split; [symmetry; apply firstn_skipn|].
        rewrite <- firstn_map, <- skipn_map, Hm. split; [apply firstn_app_exact|apply skipn_app_exact]. }
      destruct Hsp as [ps1 [ps2 [-> [H1 H2]]]].
      assert (Hoh : forall p, prev = Some p -> h_orbit p <> h_orbit h).
      { intros p ->. cbn in Ho. apply andb_true_iff in Ho. destruct Ho as [Ho _]. apply negb_true_iff in Ho. apply N.eqb_neq. exact Ho. }
      rewrite <- app_assoc.
      destruct (its_run_hbf ld Hwf Hsys Hfmt running h ih ps1 s acc prev Hh Hok H1 Hl Hp Hb Hoh (ps2 ++ rest)) as [s1 [E1 [L1 [P1 B1]]]]. rewrite E1.
      apply (IH ps2 s1 acc (Some h) hnext Hw); auto.
      destruct prev as [p|]; cbn [app] in Ho |- *.
      + cbn in Ho. apply andb_true_iff in Ho. destruct Ho as [_ Ho]. exact Ho.
      + exact Ho.
  Qed.
End FaultyLink.

(* ---- position of the state machine at a data / TDT position, for ANY word ---- *)
Definition data_pat_id (id : N) : bool :=
  in_pat Gen.Facts.fsm_data_pat_data_by_wasdata id || in_pat Gen.Facts.fsm_data_pat_data_by_nodatafalse id ||
  in_pat Gen.Facts.fsm_data_pat_c_data_by_wasdata id || in_pat Gen.Facts.fsm_data_pat_c_data_by_next id.

Lemma adv_tdt_in_data f w : is_data_state f = true -> nb 9 w = Gen.Facts.tdt_id -> snd (advance f w) = F_ok P_TDT.
Proof.
  intros Hf Hid. destruct tdt_not_data as (Q1 & Q2 & Q3 & Q4). unfold advance, advance_k, data_arm. rewrite Hid.
  change Gen.Facts.tdt_id with 240. rewrite ?Q1, ?Q2, ?Q3, ?Q4.
  destruct f; try discriminate; rewrite ?Q1, ?Q2, ?Q3, ?Q4; cbn [N.eqb Pos.eqb]; destruct (sl_tdt_packet_done w); reflexivity.
Qed.

Lemma adv_unknown_in_data f w : is_data_state f = true -> data_pat_id (nb 9 w) = false ->
  nb 9 w <> Gen.Facts.tdt_id -> nb 9 w <> Gen.Facts.cdw_id -> snd (advance f w) = F_amb A_DW_or_TDT_CDW.
Proof.
  intros Hf Hp Ht Hc. unfold data_pat_id in Hp. rewrite !orb_false_iff in Hp. destruct Hp as (((P1 & P2) & P3) & P4).
  apply N.eqb_neq in Ht, Hc. unfold advance, advance_k, data_arm.
  destruct f; try discriminate; rewrite ?P1, ?P2, ?P3, ?P4, Ht, Hc; reflexivity.
Qed.

Lemma orbits_differ_prefix a : forall b c, orbits_differ (a ++ b :: c) = true -> orbits_differ (a ++ [b]) = true.
Proof.
  induction a as [|x a IH]; intros b c H; [reflexivity|].
  destruct a as [|y a].
  - cbn [app] in *. cbn [orbits_differ] in *. apply andb_true_iff in H. destruct H as [H _]. rewrite H. reflexivity.
  - cbn [app] in *. cbn [orbits_differ] in H |- *. apply andb_true_iff in H. destruct H as [H1 H2]. rewrite H1. cbn [andb].
    apply (IH b c). exact H2.
Qed.

(* ---- the theorem: a link that conforms up to a data / TDT position of some page, ANY words from there on, ANY packets after ---- *)
Section InSync.
  Context (HS : C04_stave.sites_handled).
  Context (ld : link_desc) (Hwf : wf_link_rdh ld = true) (Hsys : l_system ld = Gen.Facts.its_system_id)
          (Hfmt : l_format ld = 0 \/ l_format ld = 2).
  Let layf (p : its_page) : list N := layout (l_format ld) (page_words p) (ip_pad p).

  Theorem c02_insync_link running hbfs1 ihs1 h hbfs2 pgs1 pg pgs2 ips1 ihw items1 i items2 pad0 ips2 t e d1 d2 w rest pad ps1 p ps2 :
    l_hbfs ld = hbfs1 ++ h :: hbfs2 -> Forall2 (its_hbf_ok (l_format ld)) hbfs1 ihs1 ->
    h_pages h = pgs1 ++ pg :: pgs2 ->
    pages_ok h true None (ips1 ++ {| ip_ihw := ihw; ip_items := items1 ++ i :: items2; ip_pad := pad0 |} :: ips2) ->
    map pg_payload pgs1 = map layf ips1 ->
    item_data i = Some (t, d1 ++ d2, e) -> Forall gw (w :: rest) -> (pad <= 15)%nat ->
    pg_payload pg = layout (l_format ld) ((ihw :: flat_map item_words items1 ++ t :: d1) ++ w :: rest) pad ->
    map strip ps1 = flat_map (render_hbf ld) hbfs1 ++ render_pages ld h 0 pgs1 ->
    strip p = (render_rdh ld h (N.of_nat (length pgs1)) 0 pg, pg_payload pg) ->
    N.of_nat (S (length (flat_map item_words items1 ++ t :: d1))) < 65535 ->
    c_off p + 64 + N.of_nat (S (length (flat_map item_words items1 ++ t :: d1))) * 16 < 18446744073709551616 ->
    exists sk f,
      St sk f (c_rdh p) (Some ihw) (Some t) /\ is_data_state f = true /\
      pos_of sk = C07_proofs.wpos (c_off p + 64) (10 + C07_proofs.pad_of (c_rdh p)) (S (length (flat_map item_words items1 ++ t :: d1))) /\
      exists out more, run_validator (its_cfg running) (ps1 ++ p :: ps2) = Ok out /\ out = word_msgs (its_cfg running) sk w ++ more.
  Proof.
    intros Hl Hall Hpages Hpo Hpl1 Hi Hgw Hpad Hpl Hm1 Hp Hlen Hbound.
    pose proof (wf_parts ld Hwf) as (_ & _ & _ & _ & _ & _ & _ & _ & Hh & Ho). rewrite Hl in Hh, Ho.
    rewrite forallb_app in Hh. apply andb_true_iff in Hh. destruct Hh as [Hh1 Hh2]. cbn [forallb] in Hh2.
    apply andb_true_iff in Hh2. destruct Hh2 as [Hh _].
    apply orbits_differ_prefix in Ho.
    (* split the packets before p *)
    assert (Hsp : exists psA psB, ps1 = psA ++ psB /\ map strip psA = flat_map (render_hbf ld) hbfs1 /\ map strip psB = render_pages ld h 0 pgs1).
    { exists (firstn (length (flat_map (render_hbf ld) hbfs1)) ps1), (skipn (length (flat_map (render_hbf ld) hbfs1)) ps1).
      split; [symmetry; apply firstn_skipn|]. rewrite <- firstn_map, <- skipn_map, Hm1. split; [apply firstn_app_exact|apply skipn_app_exact]. }
    destruct Hsp as (psA & psB & -> & HA & HB).
    (* the complete heartbeat frames *)
    destruct (its_run_hbfs_then ld Hwf Hsys Hfmt running hbfs1 ihs1 Hall psA (link_init (its_cfg running)) [] None h Hh1 Ho HA) with (rest := psB ++ p :: ps2)
      as (s1 & prev' & E1 & L1 & P1 & B1 & O1).
    { unfold latch_ok, link_init, its_cfg, sanity_init. cbn. split; [left; reflexivity|right; rewrite Hsys; reflexivity]. }
    { split; reflexivity. }
    { intros _. reflexivity. }
    (* the pages of h before pg *)
    pose proof Hh as Hh'. unfold wf_hbf in Hh'. repeat (apply andb_true_iff in Hh'; destruct Hh' as [Hh' ?]).
    match goal with H : (N.of_nat (length (h_pages h)) <? 65535) = true |- _ => apply N.ltb_lt in H; rename H into Hn end.
    rewrite Hpages, app_length in Hn. cbn [length] in Hn.
    destruct (its_run_pages_split ld Hwf Hsys Hfmt running h Hh ips1 true None _ ips2 Hpo pgs1 0 s1 psB [] HB Hpl1 L1 P1
                (fun X => between_inv ld prev' _ h (B1 X) O1) ltac:(lia) ltac:(reflexivity) (p :: ps2)) as (s2 & f2 & o2 & E2 & L2 & P2 & R2 & Q2 & F2).
    rewrite N.add_0_l in R2, F2.
    inversion Q2 as [|f0 o0 p0 r0 out Hihw Hne Hpad0 Hitems Hrest]; subst. cbn [ip_ihw ip_items ip_pad] in *.
    destruct p as [pr pp poff]. unfold strip in Hp. cbn [c_rdh c_payload c_off] in *. injection Hp as -> ->.
    destruct (insync_link_step HS ld Hwf Hsys Hfmt running h (N.of_nat (length pgs1)) pg ihw items1 i items2 f2 o2 out t e d1 d2 w rest pad s2 poff
                Hh L2 P2 R2 ltac:(lia) Hihw Hitems Hi Hgw Hpad Hpl F2 Hlen Hbound) as (sk & f & s3 & tl & E3 & Sk & Fk & Pk).
    exists sk, f. split; [exact Sk|]. split; [exact Fk|]. split; [exact Pk|].
    destruct (C04_proofs.c04_no_panic_without_stave (its_cfg running) ((psA ++ psB) ++ {| c_rdh := render_rdh ld h (N.of_nat (length pgs1)) 0 pg; c_payload := pg_payload pg; c_off := poff |} :: ps2)
                ltac:(discriminate)) as [out' Eout].
    exists out'. unfold run_validator in Eout |- *. rewrite <- app_assoc in Eout |- *. rewrite E1, E2 in Eout |- *.
    cbn [link_run] in Eout |- *. rewrite E3 in Eout |- *.
    destruct (link_run (its_cfg running) s3 ps2 ([] ++ word_msgs (its_cfg running) sk w ++ tl)) as [[sf o]|site] eqn:Er; [|discriminate].
    injection Eout as <-. destruct (link_run_keeps _ _ _ _ _ _ Er) as [more Em]. exists (tl ++ more). split; [reflexivity|].
    rewrite Em. cbn [app]. rewrite app_assoc. reflexivity.
  Qed.
End InSync.

(* ---- non-vacuity: the example link of C01_its.v with the closing TDT of the continued packet (third page of the second heartbeat
   frame) replaced by a TDT-identified word with a reserved bit set, followed by two arbitrary words ---- *)
Module ExampleF.
  Import C01_its.Example.
  Definition badtdt : list N := [1; 0; 0; 0; 0; 0; 0; 0; 1; 240].
  Definition junk : list N := [7; 7; 7; 7; 7; 7; 7; 7; 7; 7].
  Definition pgF : page_desc :=
    {| pg_counter := 0; pg_par := 0; pg_payload := layout 2 ((ihw :: flat_map item_words [] ++ tdh CONT 9 11 :: []) ++ badtdt :: [junk; junk]) 4 |}.
  Definition hbF : hbf_desc :=
    {| h_orbit := 11; h_bc := 5; h_trigger := 27139; h_detfield := 0; h_pages := [pgd (page0 11); pgd (page1 11); pgF];
       h_stop := {| pg_counter := 0; pg_par := 0; pg_payload := layout 2 [ddw0] 6 |} |}.
  Definition ldF : link_desc :=
    {| l_link := 3; l_fee := 20522; l_version := 7; l_system := 32; l_format := 2; l_cru := 24; l_dw := 0; l_hbfs := [hb 10; hbF] |}.
  Fixpoint place (l : list (rdh * list N)) (off : N) : list cdp :=
    match l with
    | [] => []
    | (r, pl) :: rest => {| c_rdh := r; c_payload := pl; c_off := off |} :: place rest (off + 64 + N.of_nat (length pl))
    end.
  Definition ps1 : list cdp := place (flat_map (render_hbf ldF) [hb 10] ++ render_pages ldF hbF 0 [pgd (page0 11); pgd (page1 11)]) 0.
  Definition pF : cdp := {| c_rdh := render_rdh ldF hbF 2 0 pgF; c_payload := pg_payload pgF; c_off := 4096 |}.

  Lemma pages_okF : pages_ok hbF true None ([page0 11; page1 11] ++
    {| ip_ihw := ihw; ip_items := [] ++ PI_close (tdh CONT 9 11) ([] ++ []) (tdt 1) :: [PI_nodata (tdh NODATA 200 11)]; ip_pad := 15 |} :: []).
  Proof. cbn [app]. repeat (econstructor; cbn [ip_ihw ip_items ip_pad page0 page1 page2]); wsolve. Qed.

  Lemma example_insync (HS : C04_stave.sites_handled) running ps2 : exists sk f,
    St sk f (c_rdh pF) (Some ihw) (Some (tdh CONT 9 11)) /\ is_data_state f = true /\ pos_of sk = 4096 + 64 + 20 /\
    exists out more, run_validator (its_cfg running) (ps1 ++ pF :: ps2) = Ok out /\ out = word_msgs (its_cfg running) sk badtdt ++ more.
  Proof.
    assert (Hwf : wf_link_rdh ldF = true) by (vm_compute; reflexivity).
    assert (H1 : Forall2 (its_hbf_ok (l_format ldF)) [hb 10] [ih 10]) by (constructor; [exact hbf_ok10|constructor]).
    assert (H2 : Forall gw [badtdt; junk; junk]) by (repeat constructor; vm_compute; intuition discriminate).
    assert (H3 : map strip ps1 = flat_map (render_hbf ldF) [hb 10] ++ render_pages ldF hbF 0 [pgd (page0 11); pgd (page1 11)]) by (vm_compute; reflexivity).
    pose proof (c02_insync_link HS ldF Hwf eq_refl (or_intror eq_refl) running
                [hb 10] [ih 10] hbF [] [pgd (page0 11); pgd (page1 11)] pgF [] [page0 11; page1 11] ihw [] (PI_close (tdh CONT 9 11) ([] ++ []) (tdt 1))
                [PI_nodata (tdh NODATA 200 11)] 15%nat [] (tdh CONT 9 11) (tdt 1) [] [] badtdt [junk; junk] 4%nat ps1 pF ps2
                eq_refl H1 eq_refl pages_okF eq_refl eq_refl H2 ltac:(lia) eq_refl H3 eq_refl ltac:(vm_compute; reflexivity) ltac:(vm_compute; reflexivity))
      as (sk & f & A & B & C & D).
    exists sk, f. split; [exact A|]. split; [exact B|]. split; [|exact D]. rewrite C. vm_compute. reflexivity.
  Qed.
End ExampleF.

(* ---- what the word at that position draws, by fault class ---- *)
Section InSyncFaults.
  Context (HS : C04_stave.sites_handled).

  Lemma word_msgs_of c s w s1 m : cdp_check c s w = Ok (s1, m) -> word_msgs c s w = m.
  Proof. intros E. unfold word_msgs. rewrite E. reflexivity. Qed.

  (* a TDT-identified word that breaks a TDT rule (reserved bits): [E50] at the word *)
  Lemma insync_tdt_fault c sk f r ihw t w more : St sk f r ihw t -> is_data_state f = true ->
    nb 9 w = Gen.Facts.tdt_id -> tdt_sanity w <> [] -> has_err (pos_of sk) 50 (word_msgs c sk w ++ more).
  Proof.
    intros (Hf & _) Hd Hid Hne. apply has_err_app. left.
    destruct (C02_total.c02_tdt_sanity_total HS c sk w) as (s1 & m & E & He); [rewrite Hf; apply adv_tdt_in_data; assumption|exact Hne|].
    rewrite (word_msgs_of _ _ _ _ _ E). exact He.
  Qed.

  (* an identifier that is no data word of any barrel, no TDT and no CDW: [E991] at the word *)
  Lemma insync_unknown_id c sk f r ihw t w more : St sk f r ihw t -> is_data_state f = true ->
    data_pat_id (nb 9 w) = false -> nb 9 w <> Gen.Facts.tdt_id -> nb 9 w <> Gen.Facts.cdw_id ->
    has_err (pos_of sk) 991 (word_msgs c sk w ++ more).
  Proof.
    intros (Hf & _) Hd Hp Ht Hc. apply has_err_app. left.
    destruct (C02_total.c02_unrecognised_total HS c sk w A_DW_or_TDT_CDW) as (s1 & m & E & He); [rewrite Hf; apply adv_unknown_in_data; assumption|].
    rewrite (word_msgs_of _ _ _ _ _ E). exact He.
  Qed.
End InSyncFaults.
