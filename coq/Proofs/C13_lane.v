(* C13, part 1: the byte-wise lane decoder (LaneAlpideFrameAnalyzer::decode) applied to the output of the independent encoder
   Spec/AlpideEnc.v recovers exactly the skeleton of the lane -- for every hit content. *)
From Coq Require Import List NArith Bool Lia.
Import ListNotations.
Require Import FP.Model.Base FP.Model.Alpide FP.Spec.AlpideEnc FP.Proofs.Bits.
Open Scope N_scope.

(* ---- byte classes (complete enumeration of the 256 byte values) ---- *)
Definition cls (b : N) : N :=
  match aword_of_byte b with
  | AW_DataShort => 1 | AW_DataLong => 2 | AW_RegionHeader => 3 | AW_ChipHeader => 4 | AW_ChipEmptyFrame => 5 | AW_ChipTrailer => 6
  | AW_BusyOn => 7 | AW_BusyOff => 8 | AW_ApeWarn => 9 | AW_ApePadding => 10 | AW_ApeFatal => 11 | AW_Unknown => 12
  end.
Definition cls_spec (b : N) : N :=
  if b =? 0 then 2 (* decoded as DataLong when it is not skipped as padding *)
  else if b <? 64 then 2 else if b <? 128 then 1 else if b <? 160 then 12 else if b <? 176 then 4 else if b <? 192 then 6
  else if b <? 224 then 3 else if b <? 240 then 5 else if b =? 240 then 7 else if b =? 241 then 8 else if b =? 242 then 9
  else if b =? 243 then 12 else if b <? 253 then 11 else if b <? 255 then 9 else 12.
Lemma cls_table : forall b, b < 256 -> cls b = cls_spec b.
Proof.
  intros b Hb. apply N.eqb_eq. revert b Hb. apply byte_forall. vm_compute. reflexivity.
Qed.
Lemma low4_table : forall b, b < 256 -> N.land b 15 = b mod 16.
Proof.
  intros b Hb. apply N.eqb_eq. revert b Hb. apply (byte_forall (fun b => N.land b 15 =? b mod 16)). vm_compute. reflexivity.
Qed.

Ltac cls_solve H :=
  unfold cls in H; destruct (aword_of_byte _); try reflexivity; exfalso; revert H; unfold cls_spec;
  repeat match goal with |- context [?a =? ?b] => destruct (N.eqb_spec a b); try lia
                    | |- context [?a <? ?b] => destruct (N.ltb_spec a b); try lia end; discriminate.

Lemma aw_short a : a < 64 -> aword_of_byte (64 + a) = AW_DataShort.
Proof. intros H. pose proof (cls_table (64 + a) ltac:(lia)) as E. cls_solve E. Qed.
Lemma aw_long a : a < 64 -> aword_of_byte a = AW_DataLong.
Proof. intros H. pose proof (cls_table a ltac:(lia)) as E. cls_solve E. Qed.
Lemma aw_region r : r < 32 -> aword_of_byte (192 + r) = AW_RegionHeader.
Proof. intros H. pose proof (cls_table (192 + r) ltac:(lia)) as E. cls_solve E. Qed.
Lemma aw_header i : i < 16 -> aword_of_byte (160 + i) = AW_ChipHeader.
Proof. intros H. pose proof (cls_table (160 + i) ltac:(lia)) as E. cls_solve E. Qed.
Lemma aw_empty i : i < 16 -> aword_of_byte (224 + i) = AW_ChipEmptyFrame.
Proof. intros H. pose proof (cls_table (224 + i) ltac:(lia)) as E. cls_solve E. Qed.
Lemma aw_trailer t : t < 16 -> aword_of_byte (176 + t) = AW_ChipTrailer.
Proof. intros H. pose proof (cls_table (176 + t) ltac:(lia)) as E. cls_solve E. Qed.
Lemma aw_fatal f : fatal_ok f = true -> aword_of_byte f = AW_ApeFatal.
Proof.
  unfold fatal_ok. intros H. apply andb_true_iff in H. destruct H as [H1 H2]. apply N.leb_le in H1, H2.
  pose proof (cls_table f ltac:(lia)) as E. cls_solve E.
Qed.
Lemma aw_fill f : fill_ok f = true ->
  aword_of_byte f = AW_BusyOn \/ aword_of_byte f = AW_BusyOff \/ aword_of_byte f = AW_ApeWarn \/ aword_of_byte f = AW_Unknown.
Proof.
  unfold fill_ok. intros H. assert (Hr : (240 <= f <= 243) \/ (253 <= f <= 255)).
  { apply orb_true_iff in H. destruct H as [H|H]; apply andb_true_iff in H; destruct H as [H1 H2]; apply N.leb_le in H1, H2; lia. }
  pose proof (cls_table f ltac:(lia)) as E. unfold cls in E.
  destruct (aword_of_byte f); auto; exfalso; revert E; unfold cls_spec;
  repeat match goal with |- context [?a =? ?b] => destruct (N.eqb_spec a b); try lia
                    | |- context [?a <? ?b] => destruct (N.ltb_spec a b); try lia end; discriminate.
Qed.
Lemma low4_header i : i < 16 -> N.land (160 + i) 15 = i.
Proof. intros H. rewrite low4_table by lia. replace (160 + i) with (i + 10 * 16) by lia. rewrite N.mod_add by lia. apply N.mod_small. lia. Qed.
Lemma low4_empty i : i < 16 -> N.land (224 + i) 15 = i.
Proof. intros H. rewrite low4_table by lia. replace (224 + i) with (i + 14 * 16) by lia. rewrite N.mod_add by lia. apply N.mod_small. lia. Qed.

(* ---- what the decoder keeps of a lane ---- *)
Record labs := { la_chips : list (N * N); la_dup : bool; la_fatal : bool; la_flags : rflags }.
Definition abs_of (s : lane_st) : labs :=
  {| la_chips := ls_chips s; la_dup := ls_bc_already_set s; la_fatal := ls_fatal s; la_flags := ls_flags s |}.
Definition abs_init : labs := {| la_chips := []; la_dup := false; la_fatal := false; la_flags := rflags_zero |}.

Definition add_chip (id bc : N) (a : labs) : labs :=
  if has_chip id (la_chips a)
  then {| la_chips := la_chips a; la_dup := true; la_fatal := la_fatal a; la_flags := la_flags a |}
  else {| la_chips := la_chips a ++ [(id, bc)]; la_dup := la_dup a; la_fatal := la_fatal a; la_flags := la_flags a |}.
Definition skel_step (a : labs) (k : skel) : labs :=
  match k with
  | S_none => a
  | S_fatal => {| la_chips := la_chips a; la_dup := la_dup a; la_fatal := true; la_flags := la_flags a |}
  | S_empty id bc => add_chip id bc a
  | S_chip id bc f tr =>
      let a1 := add_chip id bc a in
      {| la_chips := la_chips a1; la_dup := la_dup a1; la_fatal := la_fatal a1 || f; la_flags := rflags_log (la_flags a1) (176 + tr) |}
  end.
Definition lane_summary (items : list item) : labs := fold_left skel_step (skeleton items) abs_init.

(* decoder positions: between chips / inside a chip, at a word boundary *)
Definition at_word (hs : bool) (s : lane_st) : Prop :=
  ls_skip s = 0 /\ ls_next_is_bc s = false /\ ls_header_seen s = hs /\ ls_unreachable s = false.

(* one byte that starts a word, when it is not skipped as padding *)
Lemma decode_word s b : ls_skip s = 0 -> ls_next_is_bc s = false -> (ls_header_seen s = true \/ b <> 0) ->
  lane_decode s b =
  match aword_of_byte b with
  | AW_DataShort => upd_lane s (ls_header_seen s) (ls_last_chip s) 1 (ls_chips s) false (ls_fatal s) (ls_bc_already_set s) (ls_flags s) (ls_unreachable s)
  | AW_DataLong => upd_lane s (ls_header_seen s) (ls_last_chip s) 2 (ls_chips s) false (ls_fatal s) (ls_bc_already_set s) (ls_flags s) (ls_unreachable s)
  | AW_RegionHeader => upd_lane s true (ls_last_chip s) 0 (ls_chips s) false (ls_fatal s) (ls_bc_already_set s) (ls_flags s) (ls_unreachable s)
  | AW_ChipHeader => upd_lane s true (N.land b 15) 0 (ls_chips s) true (ls_fatal s) (ls_bc_already_set s) (ls_flags s) (ls_unreachable s)
  | AW_ChipEmptyFrame => upd_lane s false (N.land b 15) 0 (ls_chips s) true (ls_fatal s) (ls_bc_already_set s) (ls_flags s) (ls_unreachable s)
  | AW_ChipTrailer => upd_lane s false (ls_last_chip s) 0 (ls_chips s) false (ls_fatal s) (ls_bc_already_set s) (rflags_log (ls_flags s) b) (ls_unreachable s)
  | AW_BusyOn | AW_BusyOff | AW_ApeWarn | AW_Unknown => s
  | AW_ApePadding => upd_lane s (ls_header_seen s) (ls_last_chip s) 0 (ls_chips s) false (ls_fatal s) (ls_bc_already_set s) (ls_flags s) true
  | AW_ApeFatal => upd_lane s (ls_header_seen s) (ls_last_chip s) 0 (ls_chips s) false true (ls_bc_already_set s) (ls_flags s) (ls_unreachable s)
  end.
Proof.
  destruct s as [hs lc sk ch nbc ft bs fl ur]. cbn [ls_skip ls_next_is_bc ls_header_seen ls_last_chip ls_chips ls_fatal ls_bc_already_set ls_flags ls_unreachable].
  intros -> -> Hp. unfold lane_decode. cbn [N.ltb N.compare].
  assert (Hpad : negb hs && (b =? 0) = false).
  { destruct Hp as [->|Hb]; [reflexivity|]. destruct (N.eqb_spec b 0); [contradiction|]. apply andb_false_r. }
  rewrite Hpad. reflexivity.
Qed.

Lemma decode_skip s b : 0 < ls_skip s ->
  lane_decode s b = upd_lane s (ls_header_seen s) (ls_last_chip s) (ls_skip s - 1) (ls_chips s) (ls_next_is_bc s) (ls_fatal s)
                             (ls_bc_already_set s) (ls_flags s) (ls_unreachable s).
Proof.
  destruct s as [hs lc sk ch nbc ft bs fl ur]. cbn [ls_skip ls_next_is_bc ls_header_seen ls_last_chip ls_chips ls_fatal ls_bc_already_set ls_flags ls_unreachable].
  intros H. unfold lane_decode. apply N.ltb_lt in H. rewrite H. reflexivity.
Qed.

Lemma decode_bc s b : ls_skip s = 0 -> ls_next_is_bc s = true ->
  lane_decode s b =
  if has_chip (ls_last_chip s) (ls_chips s)
  then upd_lane s (ls_header_seen s) (ls_last_chip s) 0 (ls_chips s) false (ls_fatal s) true (ls_flags s) (ls_unreachable s)
  else upd_lane s (ls_header_seen s) (ls_last_chip s) 0 (ls_chips s ++ [(ls_last_chip s, b)]) false (ls_fatal s) (ls_bc_already_set s) (ls_flags s) (ls_unreachable s).
Proof.
  destruct s as [hs lc sk ch nbc ft bs fl ur]. cbn [ls_skip ls_next_is_bc ls_header_seen ls_last_chip ls_chips ls_fatal ls_bc_already_set ls_flags ls_unreachable].
  intros -> ->. unfold lane_decode. cbn [N.ltb N.compare]. reflexivity.
Qed.

(* ---- inside a chip ---- *)
Lemma bitem_step x s : bitem_wf x = true -> at_word true s ->
  let s' := fold_left lane_decode (encode_b x) s in
  at_word true s' /\ ls_chips s' = ls_chips s /\ ls_bc_already_set s' = ls_bc_already_set s /\ ls_flags s' = ls_flags s /\
  ls_fatal s' = ls_fatal s || (match x with B_fatal _ => true | _ => false end).
Proof.
  intros Hwf [Hsk [Hnb [Hhs Hur]]]. destruct s as [hs lc sk ch nbc ft bs fl ur].
  cbn [ls_skip ls_next_is_bc ls_header_seen ls_last_chip ls_chips ls_fatal ls_bc_already_set ls_flags ls_unreachable] in *. subst.
  destruct x as [r|a b|a b c|f|f]; cbn [encode_b fold_left bitem_wf] in *.
  - apply N.ltb_lt in Hwf. rewrite (decode_word _ (192 + r)) by (try reflexivity; left; reflexivity). rewrite (aw_region r Hwf). cbn. rewrite orb_false_r. repeat split.
  - apply andb_true_iff in Hwf. destruct Hwf as [Ha _]. apply N.ltb_lt in Ha.
    rewrite (decode_word _ (64 + a)) by (try reflexivity; left; reflexivity). rewrite (aw_short a Ha). cbn [upd_lane ls_header_seen ls_last_chip ls_chips ls_fatal ls_bc_already_set ls_flags ls_unreachable].
    rewrite (decode_skip _ b) by (cbn [ls_skip upd_lane]; lia). cbn. rewrite orb_false_r. repeat split.
  - apply andb_true_iff in Hwf. destruct Hwf as [Hwf _]. apply andb_true_iff in Hwf. destruct Hwf as [Ha _]. apply N.ltb_lt in Ha.
    rewrite (decode_word _ a) by (try reflexivity; left; reflexivity). rewrite (aw_long a Ha). cbn [upd_lane ls_header_seen ls_last_chip ls_chips ls_fatal ls_bc_already_set ls_flags ls_unreachable].
    rewrite (decode_skip _ b) by (cbn [ls_skip upd_lane]; lia). cbn [upd_lane ls_skip ls_header_seen ls_last_chip ls_chips ls_fatal ls_bc_already_set ls_flags ls_unreachable ls_next_is_bc].
    rewrite (decode_skip _ c) by (cbn [ls_skip upd_lane]; lia). cbn. rewrite orb_false_r. repeat split.
  - rewrite decode_word by (try reflexivity; left; reflexivity). destruct (aw_fill f Hwf) as [E|[E|[E|E]]]; rewrite E; cbn; rewrite orb_false_r; repeat split.
  - rewrite decode_word by (try reflexivity; left; reflexivity). rewrite (aw_fatal f Hwf). cbn. rewrite orb_true_r. repeat split.
Qed.

Lemma body_steps body : forallb bitem_wf body = true -> forall s, at_word true s ->
  let s' := fold_left lane_decode (flat_map encode_b body) s in
  at_word true s' /\ ls_chips s' = ls_chips s /\ ls_bc_already_set s' = ls_bc_already_set s /\ ls_flags s' = ls_flags s /\
  ls_fatal s' = ls_fatal s || body_fatal body.
Proof.
  induction body as [|x body IH]; intros Hwf s Hs.
  - cbn. rewrite orb_false_r. auto.
  - cbn [forallb] in Hwf. apply andb_true_iff in Hwf. destruct Hwf as [Hx Hb].
    cbn [flat_map]. rewrite fold_left_app.
    destruct (bitem_step x s Hx Hs) as [H1 [H2 [H3 [H4 H5]]]].
    destruct (IH Hb _ H1) as [G1 [G2 [G3 [G4 G5]]]].
    cbn zeta. repeat split; try apply G1; try congruence.
    rewrite G5, H5. unfold body_fatal. cbn [existsb]. rewrite orb_assoc. reflexivity.
Qed.

(* ---- between chips ---- *)
Lemma item_step x s : item_wf x = true -> at_word false s ->
  let s' := fold_left lane_decode (encode_item x) s in
  at_word false s' /\ abs_of s' = skel_step (abs_of s) (skel_of x).
Proof.
  intros Hwf Hs. pose proof Hs as [Hsk [Hnb [Hhs Hur]]]. destruct x as [|f|f|id bc|id bc body tr]; cbn [encode_item skel_of item_wf] in *.
  - (* padding *) cbn [fold_left]. destruct s as [hs lc sk ch nbc ft bs fl ur]. cbn in Hsk, Hnb, Hhs, Hur. subst. cbn. auto.
  - cbn [fold_left]. rewrite decode_word by (auto; right; unfold fill_ok in Hwf; intros ->; discriminate).
    destruct (aw_fill f Hwf) as [E|[E|[E|E]]]; rewrite E; auto.
  - cbn [fold_left]. rewrite decode_word by (auto; right; unfold fatal_ok in Hwf; intros ->; discriminate).
    rewrite (aw_fatal f Hwf). destruct s as [hs lc sk ch nbc ft bs fl ur]. cbn in Hsk, Hnb, Hhs, Hur. subst. cbn. repeat split.
  - apply andb_true_iff in Hwf. destruct Hwf as [Hid _]. apply N.ltb_lt in Hid. cbn [fold_left].
    rewrite (decode_word _ (224 + id)) by (auto; right; lia). rewrite (aw_empty id Hid), (low4_empty id Hid).
    destruct s as [hs lc sk ch nbc ft bs fl ur]. cbn in Hsk, Hnb, Hhs, Hur. subst.
    rewrite (decode_bc _ bc) by reflexivity. cbn [upd_lane ls_header_seen ls_last_chip ls_chips ls_fatal ls_bc_already_set ls_flags ls_unreachable].
    unfold abs_of, skel_step, add_chip. cbn [la_chips ls_chips ls_bc_already_set ls_fatal ls_flags].
    destruct (has_chip id ch); cbn; repeat split.
  - apply andb_true_iff in Hwf. destruct Hwf as [Hwf Htr]. apply andb_true_iff in Hwf. destruct Hwf as [Hwf Hbody].
    apply andb_true_iff in Hwf. destruct Hwf as [Hid _]. apply N.ltb_lt in Hid, Htr.
    cbn [app fold_left]. rewrite (decode_word _ (160 + id)) by (auto; right; lia). rewrite (aw_header id Hid), (low4_header id Hid).
    destruct s as [hs lc sk ch nbc ft bs fl ur]. cbn in Hsk, Hnb, Hhs, Hur. subst.
    rewrite (decode_bc _ bc) by reflexivity. cbn [upd_lane ls_header_seen ls_last_chip ls_chips ls_fatal ls_bc_already_set ls_flags ls_unreachable].
    rewrite fold_left_app.
    set (s1 := if has_chip id ch then _ else _).
    assert (Hs1 : at_word true s1) by (unfold s1; destruct (has_chip id ch); cbn; repeat split).
    destruct (body_steps body Hbody s1 Hs1) as [[G1 [G2 [G3 G4]]] [G5 [G6 [G7 G8]]]].
    set (s2 := fold_left lane_decode (flat_map encode_b body) s1) in *.
    cbn [fold_left]. rewrite (decode_word _ (176 + tr)) by auto. rewrite (aw_trailer tr Htr).
    cbn [upd_lane at_word ls_skip ls_next_is_bc ls_header_seen ls_unreachable]. split; [repeat split; assumption|].
    unfold abs_of, skel_step, add_chip. cbn [la_chips la_dup la_fatal la_flags ls_chips ls_bc_already_set ls_fatal ls_flags upd_lane].
    rewrite G5, G6, G7, G8. unfold s1. destruct (has_chip id ch); cbn; reflexivity.
Qed.

Lemma items_steps items : forallb item_wf items = true -> forall s, at_word false s ->
  let s' := fold_left lane_decode (encode_lane items) s in
  at_word false s' /\ abs_of s' = fold_left skel_step (map skel_of items) (abs_of s).
Proof.
  induction items as [|x items IH]; intros Hwf s Hs.
  - cbn. auto.
  - cbn [forallb] in Hwf. apply andb_true_iff in Hwf. destruct Hwf as [Hx Hi].
    unfold encode_lane. cbn [flat_map map fold_left]. rewrite fold_left_app.
    destruct (item_step x s Hx Hs) as [H1 H2]. destruct (IH Hi _ H1) as [G1 G2].
    cbn zeta. split; [exact G1|]. unfold encode_lane in G2. rewrite G2, H2. reflexivity.
Qed.

Lemma skel_none_fold l a : fold_left skel_step l a = fold_left skel_step (filter (fun s => match s with S_none => false | _ => true end) l) a.
Proof.
  revert a. induction l as [|k l IH]; intros a; [reflexivity|]. cbn [filter fold_left].
  destruct k; cbn [fold_left skel_step]; apply IH.
Qed.

(* the decoder recovers the skeleton, whatever the hits, regions, idle bytes and filler words are *)
Theorem lane_decode_encode items : forallb item_wf items = true ->
  at_word false (lane_run (encode_lane items)) /\ abs_of (lane_run (encode_lane items)) = lane_summary items.
Proof.
  intros Hwf. unfold lane_run, lane_summary, skeleton.
  destruct (items_steps items Hwf lane_init) as [H1 H2]; [cbn; repeat split|].
  split; [exact H1|]. rewrite H2. rewrite skel_none_fold. reflexivity.
Qed.

Corollary lane_hits_irrelevant i1 i2 : forallb item_wf i1 = true -> forallb item_wf i2 = true -> skeleton i1 = skeleton i2 ->
  abs_of (lane_run (encode_lane i1)) = abs_of (lane_run (encode_lane i2)) /\
  ls_unreachable (lane_run (encode_lane i1)) = false /\ ls_unreachable (lane_run (encode_lane i2)) = false.
Proof.
  intros W1 W2 Hs. destruct (lane_decode_encode i1 W1) as [[_ [_ [_ U1]]] A1]. destruct (lane_decode_encode i2 W2) as [[_ [_ [_ U2]]] A2].
  repeat split; try assumption. rewrite A1, A2. unfold lane_summary. rewrite Hs. reflexivity.
Qed.

(* trailing idle bytes (the zero padding of the last data word) change nothing *)
Lemma lane_trailing_padding items n : forallb item_wf items = true ->
  abs_of (lane_run (encode_lane items ++ repeat 0 n)) = lane_summary items.
Proof.
  intros Hwf. assert (E : encode_lane items ++ repeat 0 n = encode_lane (items ++ repeat I_pad n)).
  { unfold encode_lane. rewrite flat_map_app. f_equal. induction n as [|n IH]; [reflexivity|]. cbn. rewrite IH. reflexivity. }
  assert (Wp : forall k, forallb item_wf (repeat I_pad k) = true) by (induction k as [|k IHk]; [reflexivity|exact IHk]).
  assert (Sp : forall k, filter (fun s => match s with S_none => false | _ => true end) (map skel_of (repeat I_pad k)) = []) by (induction k as [|k IHk]; [reflexivity|exact IHk]).
  rewrite E. destruct (lane_decode_encode (items ++ repeat I_pad n)) as [_ A].
  { rewrite forallb_app, Hwf. apply Wp. }
  rewrite A. unfold lane_summary, skeleton. rewrite map_app, filter_app.
  rewrite Sp, app_nil_r. reflexivity.
Qed.

(* the lane checks look at nothing but the kept part of the decoder state *)
Lemma lane_checks_abs ly ln cc co s1 s2 : abs_of s1 = abs_of s2 -> lane_checks ly ln cc co s1 = lane_checks ly ln cc co s2.
Proof.
  unfold abs_of. intros H. injection H as H1 H2 H3 H4. unfold lane_checks. rewrite H1, H2, H3. reflexivity.
Qed.
