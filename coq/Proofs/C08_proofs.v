(* C08: filtered output is exact, lossless and partitions the input. *)
From Coq Require Import List NArith ZArith Bool Lia ZifyBool ZifyN ZifyNat Arith.
From FP Require Import Model.Base Model.Rdh Model.Scanner Model.Writer Spec.RdhRules Spec.Framing
  Proofs.RdhFacts Proofs.C12_proofs Proofs.C03_proofs.
From FP Require Gen.Facts.
Import ListNotations.
Open Scope N_scope.
Ltac Zify.zify_post_hook ::= Z.div_mod_to_equations.

(* ------------------------------------------------------------------ 512-bit round trip *)
Lemma to_le_le bs : Forall byte_ok bs -> to_le (length bs) (le bs) = bs.
Proof.
  induction 1 as [|b r Hb _ IH]; [reflexivity|].
  cbn [length to_le le]. unfold byte_ok in Hb.
  replace ((b + 256 * le r) mod 256) with b by lia.
  replace ((b + 256 * le r) / 256) with (le r) by lia.
  rewrite IH. reflexivity.
Qed.

Lemma le16_le a b : le16 a b = le [a; b].  Proof. unfold le16; cbn [le]; lia. Qed.
Lemma le32_le a b c d : le32 a b c d = le [a; b; c; d].  Proof. unfold le32; cbn [le]; lia. Qed.
Lemma le64_le a b c d e f g h : le64 a b c d e f g h = le [a; b; c; d; e; f; g; h].
Proof. unfold le64; cbn [le]; lia. Qed.
Lemma to_le_1 x : byte_ok x -> to_le 1 x = [x].
Proof. unfold byte_ok. intros H. cbn [to_le]. f_equal. lia. Qed.

Lemma c08_roundtrip b : rdh_bytes_ok b -> encode_rdh (decode_rdh b) = b.
Proof.
  intros [Hl Hf].
  do 64 (destruct b as [|? b]; [discriminate Hl|]). destruct b; [|discriminate Hl]. clear Hl.
  repeat match goal with H : Forall byte_ok (_ :: _) |- _ =>
           let Hh := fresh "Hb" in pose proof (Forall_inv H) as Hh; apply Forall_inv_tail in H end.
  unfold encode_rdh, decode_rdh. cbn [nb nth r_header_id r_header_size r_fee_id r_priority_bit r_system_id r_rdh0_reserved0
    r_offset_new_packet r_memory_size r_link_id r_packet_counter r_cruid_dw r_bc_reserved0 r_orbit r_dataformat_reserved0
    r_trigger_type r_pages_counter r_stop_bit r_rdh2_reserved0 r_reserved1 r_detector_field r_par_bit r_rdh3_reserved0 r_reserved2].
  rewrite !le16_le, !le32_le, !le64_le.
  repeat match goal with
         | |- context [to_le 1 ?x] => rewrite (to_le_1 x) by assumption
         end.
  repeat match goal with
         | |- context [to_le ?k (le ?l)] =>
             change k with (length l); rewrite (to_le_le l) by (repeat constructor; assumption)
         end.
  reflexivity.
Qed.

(* ------------------------------------------------------------------ the writer *)
Lemma w_push_inv max w batch :
  w_out (w_push max w batch) ++ concat (map cdp_bytes (w_buf (w_push max w batch))) =
  (w_out w ++ concat (map cdp_bytes (w_buf w))) ++ concat (map cdp_bytes batch).
Proof.
  unfold w_push. destruct (max <=? _); cbn [w_flush w_buf w_out];
    rewrite ?map_app, ?concat_app, ?app_nil_l, ?app_assoc; reflexivity.
Qed.

Lemma write_fold_inv max batches : forall w,
  let w' := fold_left (w_push max) batches w in
  w_out w' ++ concat (map cdp_bytes (w_buf w')) =
  (w_out w ++ concat (map cdp_bytes (w_buf w))) ++ concat (map cdp_bytes (concat batches)).
Proof.
  induction batches as [|b bs IH]; intros w; cbn [fold_left concat map].
  - cbn. rewrite app_nil_r. reflexivity.
  - cbn zeta in IH. rewrite IH, w_push_inv, map_app, concat_app, app_assoc. reflexivity.
Qed.

(* whatever the flush threshold, the bytes written are the packets pushed, in order *)
Lemma write_all_spec max batches : write_all max batches = concat (map cdp_bytes (concat batches)).
Proof.
  unfold write_all. cbn [w_flush w_out].
  pose proof (write_fold_inv max batches w_init) as H. cbn zeta in H. rewrite H. reflexivity.
Qed.

(* ------------------------------------------------------------------ exactness *)
Lemma cdp_bytes_mk c op : sc_skip c = false -> wf_pkt (snd op) -> cdp_bytes (mk_cdp c op) = p_bytes (snd op).
Proof.
  intros Hs Hw. unfold cdp_bytes, mk_cdp. cbn [c_rdh c_payload]. rewrite Hs.
  rewrite (c08_roundtrip _ (wf_hdr_ok _ Hw)). reflexivity.
Qed.

Lemma selected_snd c : forall pkts off, map snd (selected c off pkts) = filter (pmatch c) pkts.
Proof.
  induction pkts as [|p r IH]; intros off; [reflexivity|].
  unfold selected. cbn [with_offsets filter snd]. destruct (pmatch c p); cbn [map snd]; [f_equal|]; apply IH.
Qed.

Lemma selected_wf c pkts off : Forall wf_pkt pkts -> Forall (fun op => wf_pkt (snd op)) (selected c off pkts).
Proof.
  intros H. apply Forall_forall. intros op Hin.
  assert (In (snd op) (filter (pmatch c) pkts)) as Hi by (rewrite <- (selected_snd c pkts off); apply in_map; exact Hin).
  apply filter_In in Hi. exact (proj1 (Forall_forall _ _) H _ (proj1 Hi)).
Qed.

Lemma c08_exact_when (b k : bool) : b = true -> forall max c pkts, sc_skip c = false -> Forall wf_pkt pkts ->
  write_all max (so_batches (scan b k c (serialize pkts))) = serialize (filter (pmatch c) pkts).
Proof.
  intros Hb max c pkts Hs Hwf. rewrite write_all_spec.
  destruct (c03_scan_exact_when b k Hb c pkts Hwf) as (_ & Hc & _). rewrite Hc.
  unfold serialize. rewrite <- (selected_snd c pkts 0), !map_map. f_equal.
  apply map_ext_in. intros op Hin. apply cdp_bytes_mk; [exact Hs|].
  exact (proj1 (Forall_forall _ _) (selected_wf c pkts 0 Hwf) op Hin).
Qed.

Lemma c08_wellframed c pkts : Forall wf_pkt pkts -> Forall wf_pkt (filter (pmatch c) pkts).
Proof.
  intros H. apply Forall_forall. intros p Hin. apply filter_In in Hin.
  exact (proj1 (Forall_forall _ _) H _ (proj1 Hin)).
Qed.

Lemma filter_idem {A} (f : A -> bool) l : filter f (filter f l) = filter f l.
Proof.
  induction l as [|x l IH]; [reflexivity|]. cbn [filter]. destruct (f x) eqn:E; [cbn [filter]; rewrite E, IH|]; auto.
Qed.

(* ------------------------------------------------------------------ partition *)
Fixpoint count_occ_b {A} (f : A -> bool) (l : list A) : nat :=
  match l with [] => O | x :: r => (if f x then 1 else 0) + count_occ_b f r end.
Lemma filter_length_count {A} (f : A -> bool) l : length (filter f l) = count_occ_b f l.
Proof. induction l as [|x l IH]; [reflexivity|]. cbn. destruct (f x); cbn; rewrite IH; reflexivity. Qed.

(* over the distinct keys, the per-key selections have as many elements as the list *)
Lemma sum_indicator_nodup (k : N) : forall ks, NoDup ks ->
  list_sum (map (fun v => if v =? k then 1%nat else 0%nat) ks) = if existsb (N.eqb k) ks then 1%nat else 0%nat.
Proof.
  induction ks as [|v ks IH]; intros Hnd; [reflexivity|].
  inversion Hnd as [|? ? Hnin Hnd']; subst. unfold list_sum. cbn [map fold_right existsb]. fold (list_sum (map (fun v0 => if v0 =? k then 1%nat else 0%nat) ks)).
  rewrite (IH Hnd'). destruct (N.eqb_spec v k) as [->|Hne].
  - rewrite N.eqb_refl. cbn [orb].
    destruct (existsb (N.eqb k) ks) eqn:E; [|reflexivity].
    apply existsb_exists in E. destruct E as (x & Hx & Hxe). apply N.eqb_eq in Hxe. subst x. contradiction.
  - destruct (N.eqb_spec k v) as [E|_]; [congruence|]. reflexivity.
Qed.

Lemma partition_count {A} (key : A -> N) (l : list A) : forall ks, NoDup ks ->
  (forall x, In x l -> In (key x) ks) ->
  list_sum (map (fun v => length (filter (fun x => key x =? v) l)) ks) = length l.
Proof.
  induction l as [|x l IH]; intros ks Hnd Hin.
  - cbn [filter length]. clear Hnd Hin. induction ks as [|a ks IHk]; [reflexivity|]. unfold list_sum in *. cbn [map fold_right]. rewrite IHk. reflexivity.
  - assert (Hl : forall y, In y l -> In (key y) ks) by (intros y Hy; apply Hin; right; exact Hy).
    specialize (IH ks Hnd Hl).
    transitivity (list_sum (map (fun v => Nat.add (if N.eqb v (key x) then 1%nat else 0%nat) (length (filter (fun y => N.eqb (key y) v) l))) ks)).
    { f_equal. apply map_ext. intros v. cbn [filter]. rewrite (N.eqb_sym v). destruct (key x =? v); reflexivity. }
    assert (Hsplit : forall (f g : N -> nat) ks', list_sum (map (fun v => f v + g v)%nat ks') =
                                                  (list_sum (map f ks') + list_sum (map g ks'))%nat).
    { intros f g ks'. induction ks' as [|a ks' IHk]; [reflexivity|]. unfold list_sum in *. cbn [map fold_right]. rewrite IHk. lia. }
    rewrite Hsplit, IH, (sum_indicator_nodup (key x) ks Hnd).
    assert (E : existsb (N.eqb (key x)) ks = true).
    { apply existsb_exists. exists (key x). split; [apply Hin; left; reflexivity|apply N.eqb_refl]. }
    rewrite E. reflexivity.
Qed.
