(* C16 (and C04) for the modes that print no report -- the three views and filtered writing: the exit status follows what the
   collector holds at the end, exactly as in the check modes; the only way such a run aborts is the frame views' layer-7 site. *)
From Coq Require Import List NArith Bool Lia.
Import ListNotations.
From FP Require Import Model.Base Model.Rdh Model.Alpide Model.Scanner Model.Collector Model.Views Model.System Model.SystemView
  Proofs.C04_views.
Open Scope N_scope.

Definition collected_trouble (ff : bool) (s : cstate) : Prop := 0 < k_total s \/ (ff = true /\ k_fatal s <> None).

Lemma rl_done_shape ff c m input s sh e : run_reportless ff c m input = R_done s sh e ->
  e = exit_code (rc_exit c) Init_ok ((0 <? k_total s) || (ff && match k_fatal s with Some _ => true | None => false end)).
Proof.
  unfold run_reportless. destruct (Nat.ltb _ _); [discriminate|]. destruct (negb _); [discriminate|]. cbv zeta.
  destruct (match m with RL_view_frames dv => _ | _ => VE_done end); try discriminate; intros H; injection H as <- _ <-; reflexivity.
Qed.

(* exit status N exactly when an error was counted or (the repaired flag) a fatal error is held *)
Theorem rl_exit_iff ff c m input s sh e n : run_reportless ff c m input = R_done s sh e -> rc_exit c = Some n -> n <> 0 ->
  (e = n <-> collected_trouble ff s) /\ (e = 0 <-> ~ collected_trouble ff s).
Proof.
  intros H Hn Hn0. rewrite (rl_done_shape _ _ _ _ _ _ _ H), Hn. unfold exit_code, collected_trouble.
  destruct (N.ltb_spec 0 (k_total s)) as [L|G]; cbn [orb].
  - split; split; intros X; try reflexivity; [left; exact L|congruence|exfalso; apply X; left; exact L].
  - destruct ff; cbn [andb]; [destruct (k_fatal s) as [f|]|].
    + split; split; intros X; try reflexivity; [right; split; [reflexivity|discriminate]|congruence|exfalso; apply X; right; split; [reflexivity|discriminate]].
    + split; split; intros X; try reflexivity; [congruence|destruct X as [X|[_ X]]; [lia|congruence]|intros [Y|[_ Y]]; [lia|congruence]].
    + split; split; intros X; try reflexivity; [congruence|destruct X as [X|[Y _]]; [lia|discriminate]|intros [Y|[Y _]]; [lia|discriminate]].
Qed.
Theorem rl_exit_without_option ff c m input s sh e : run_reportless ff c m input = R_done s sh e -> rc_exit c = None -> e = 0.
Proof. intros H Hn. rewrite (rl_done_shape _ _ _ _ _ _ _ H), Hn. reflexivity. Qed.

Lemma first_end_panic dv : forall batches s, first_end dv batches = VE_panic s ->
  s = SITE_view_stave_from_feeid /\ exists q, In q (concat batches) /\ 6 < layer_from_feeid (r_fee_id (c_rdh q)).
Proof.
  induction batches as [|b r IH]; intros s H; cbn [first_end] in H; [discriminate|].
  destruct (view_frames dv b) as [rows e] eqn:V. cbn [snd] in H. destruct e as [|off|p].
  - destruct (IH s H) as [A [q [Hq G]]]. split; [exact A|]. exists q. split; [cbn [concat]; apply in_or_app; right; exact Hq|exact G].
  - discriminate.
  - injection H as <-. destruct (c04_view_frames_panic dv b rows p V) as [A [q [Hq G]]]. split; [exact A|]. exists q.
    split; [cbn [concat]; apply in_or_app; left; exact Hq|exact G].
Qed.

(* no crash in the RDH view and in filtered writing; in the frame views only at the layer-7 site *)
Theorem rl_panic ff c m input p : run_reportless ff c m input = R_panic p ->
  (exists dv, m = RL_view_frames dv) /\ p = SITE_view_stave_from_feeid /\
  exists q, In q (concat (so_batches (scan_impl (rc_scan c) input))) /\ 6 < layer_from_feeid (r_fee_id (c_rdh q)).
Proof.
  unfold run_reportless. destruct (Nat.ltb _ _); [discriminate|]. destruct (negb _); [discriminate|]. cbv zeta.
  destruct m as [|dv|]; try discriminate.
  destruct (first_end dv (so_batches (scan_impl (rc_scan c) input))) as [|off|s] eqn:E; try discriminate.
  intros H. injection H as <-. destruct (first_end_panic dv _ _ E) as [A B]. split; [exists dv; reflexivity|]. split; [exact A|exact B].
Qed.
