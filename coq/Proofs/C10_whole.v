(* C10 for one whole `check sanity` run (no target): in the final report an RDH of the input carries an [E10] at its offset exactly
   when it violates a documented sanity condition relative to the header id of the first RDH of ITS LINK. *)
From Coq Require Import List NArith ZArith Bool Lia Sorting.Sorted.
From FP Require Import Model.Base Model.Rdh Model.RdhChecks Model.Payload Model.Alpide Model.Scanner Model.CdpRunning Model.Link
  Model.Collector Model.System Spec.RdhRules Spec.Framing Spec.GroundTruth
  Proofs.RdhFacts Proofs.C03_proofs Proofs.C05_proofs Proofs.C06_proofs Proofs.C07_run Proofs.C14_proofs Proofs.C05_run Proofs.C06_run
  Proofs.C02_run Proofs.C10_proofs Proofs.C10_run.
From FP Require Gen.Facts.
Import ListNotations.
Open Scope N_scope.

Definition hp_of (op : N * packet) : hpkt := {| hp_bytes := p_hdr (snd op); hp_payload := []; hp_off := fst op |}.

Lemma filter_map_comm {A B} (f : B -> bool) (g : A -> B) l : filter f (map g l) = map g (filter (fun x => f (g x)) l).
Proof. induction l as [|x l IH]; [reflexivity|]. cbn [map filter]. destruct (f (g x)); cbn [map]; rewrite IH; reflexivity. Qed.

Lemma sorted_fst_nodup : forall l, StronglySorted obefore l -> NoDup (map fst l).
Proof.
  induction 1 as [|a l Hs IH Hf]; [constructor|]. cbn [map]. constructor; [|exact IH].
  intros Hin. apply in_map_iff in Hin. destruct Hin as (b & Eb & Hb). rewrite Forall_forall in Hf. specialize (Hf b Hb).
  unfold obefore, p_size in Hf. lia.
Qed.

Lemma nodup_map_nth {A} (f : A -> N) l i j x y : NoDup (map f l) -> nth_error l i = Some x -> nth_error l j = Some y -> f x = f y -> i = j.
Proof.
  intros Hn Hi Hj E. rewrite NoDup_nth_error in Hn. apply Hn.
  - rewrite map_length. apply nth_error_Some. congruence.
  - rewrite !nth_error_map, Hi, Hj. cbn. congruence.
Qed.

Section Whole.
Context (c : run_cfg) (pkts : list packet) (custom : option N).
Context (Hoff : Gen.Facts.cdp_offset_sampled_after = true).
Context (Hsort : Gen.Facts.error_sort_when_muted = true).
Context (Hwf : Forall wf_pkt pkts).
Context (Hn : N.of_nat (length pkts) < U32_MAX).
Context (Hpay : pay_all pkts < U32_MAX).
Context (Hknown : forall p r, pkts = p :: r -> known_sysid (r_system_id (hdr p)) = true).
Context (Hskip : sc_skip (rc_scan c) = true).
Context (Hcheck : rc_check c = sanity_cfg custom).

Let sc := rc_scan c.
Let cdps := map (mk_cdp sc) (selected sc 0 pkts).

(* the packets of link `id` among the selected ones, in order *)
Definition link_ops (id : N) : list (N * packet) := filter (fun op => r_link_id (hdr (snd op)) =? id) (selected sc 0 pkts).

Lemma unit_is_link id : sel (rc_check c) id cdps = map to_cdp (map hp_of (link_ops id)).
Proof.
  unfold sel, cdps, link_ops. rewrite filter_map_comm, !map_map, Hcheck.
  assert (E : forall op, mk_cdp sc op = to_cdp (hp_of op)).
  { intros op. unfold mk_cdp, to_cdp, hp_of. cbn [hp_bytes hp_payload hp_off]. fold sc in Hskip. rewrite Hskip. reflexivity. }
  rewrite (map_ext _ _ E). first [reflexivity | (f_equal; apply filter_ext; intros op; rewrite E; reflexivity)].
Qed.

Lemma link_ops_sub id op : In op (link_ops id) -> In op (selected sc 0 pkts) /\ In (snd op) pkts.
Proof.
  intros H. unfold link_ops in H. apply filter_In in H. destruct H as [H _]. split; [exact H|].
  unfold selected in H. apply filter_In in H. destruct H as [H _]. exact (with_offsets_in _ _ _ H).
Qed.

Lemma link_ops_nodup id : NoDup (map fst (link_ops id)).
Proof.
  apply sorted_fst_nodup. unfold link_ops, selected. apply sorted_filter, sorted_filter, with_offsets_sorted.
Qed.

Lemma Forall2_nth_l {A B} (R : A -> B -> Prop) l1 l2 i x : Forall2 R l1 l2 -> nth_error l1 i = Some x -> exists y, nth_error l2 i = Some y /\ R x y.
Proof.
  intros H. revert i. induction H as [|a b l1 l2 Hab _ IH]; intros [|i] Hi; cbn in Hi; try discriminate.
  - injection Hi as <-. exists b. split; [reflexivity|exact Hab].
  - exact (IH i Hi).
Qed.
Lemma Forall2_nth_r {A B} (R : A -> B -> Prop) l1 l2 i y : Forall2 R l1 l2 -> nth_error l2 i = Some y -> exists x, nth_error l1 i = Some x /\ R x y.
Proof.
  intros H. revert i. induction H as [|a b l1 l2 Hab _ IH]; intros [|i] Hi; cbn in Hi; try discriminate.
  - injection Hi as <-. exists a. split; [reflexivity|exact Hab].
  - exact (IH i Hi).
Qed.

Theorem c10_whole_run ff s shown e id op0 rest : run_check ff c (serialize pkts) = R_done s shown e -> link_ops id = op0 :: rest ->
  let first := match custom with Some v => v | None => h_header_id (p_hdr (snd op0)) end in
  forall op, In op (link_ops id) ->
    ((exists m, In m (k_errors s) /\ m_off m = fst op /\ m_body m = 10) <-> rdh_sane first false (p_hdr (snd op)) = false).
Proof.
  intros H Hl first op Hop.
  set (hs := map hp_of (link_ops id)).
  assert (Hok : Forall (fun h => rdh_bytes_ok (hp_bytes h)) hs).
  { unfold hs. rewrite Forall_forall. intros h Hh. apply in_map_iff in Hh. destruct Hh as (o & <- & Ho).
    destruct (link_ops_sub id o Ho) as [_ Hp]. rewrite Forall_forall in Hwf. exact (wf_hdr_ok _ (Hwf _ Hp)). }
  assert (Ehs : hs = hp_of op0 :: map hp_of rest) by (unfold hs; rewrite Hl; reflexivity).
  rewrite Ehs in Hok. destruct (c10_pass custom (hp_of op0) (map hp_of rest) Hok) as (per & Er & F2). cbv zeta in F2. cbn [hp_of hp_bytes] in F2. fold first in F2.
  rewrite <- Ehs in Er, F2.
  assert (Eunit : sel (rc_check c) id cdps = map to_cdp hs) by (apply unit_is_link).
  assert (Hne : sel (rc_check c) id cdps <> []) by (rewrite Eunit, Ehs; discriminate).
  assert (Er' : run_validator (rc_check c) (sel (rc_check c) id cdps) = Ok (concat per)) by (rewrite Eunit, Hcheck; exact Er).
  pose proof (c06_whole_run c pkts Hoff Hsort Hwf Hn Hpay (or_introl Hskip) Hknown ff s shown e id (concat per) H Hne Er') as W. fold sc in W. fold cdps in W.
  (* membership in the unit's part of the report *)
  assert (Mem : forall m, In m (sort_msgs (errs_of (concat per))) <-> exists i h tags, nth_error hs i = Some h /\ violates first h = true /\ m = stored (match rdh_err (hp_off h) 10 tags with VErr x => x | _ => mk_err 0 0 None end)).
  { intros m. split.
    - intros Hm. unfold sort_msgs in Hm. destruct (in_sort_msgs m _ _ Hm) as [[]|Hm'].
      unfold errs_of in Hm'. apply in_flat_map in Hm'. destruct Hm' as (x & Hx & Hmx). apply in_map_iff in Hx. destruct Hx as (v & <- & Hv).
      apply in_concat in Hv. destruct Hv as (msl & Hmsl & Hv). destruct (In_nth_error _ _ Hmsl) as [i Hi].
      destruct (Forall2_nth_r _ _ _ i msl F2 Hi) as (h & Hh & [[_ ->]|[Hv1 (m0 & -> & (tags & ->))]]); [destruct Hv|].
      destruct Hv as [<-|[]]. cbn in Hmx. destruct Hmx as [<-|[]]. exists i, h, tags. split; [exact Hh|]. split; [exact Hv1|reflexivity].
    - intros (i & h & tags & Hh & Hv & ->). unfold sort_msgs. apply sort_In_conv. right.
      destruct (Forall2_nth_l _ _ _ i h F2 Hh) as (msl & Hmsl & [[Hf _]|[_ (m0 & -> & (tags' & ->))]]); [congruence|].
      unfold errs_of. apply in_flat_map. exists (vmsg_to_cstat (rdh_err (hp_off h) 10 tags')).
      split; [apply in_map, in_concat; exists [rdh_err (hp_off h) 10 tags']; split; [exact (nth_error_In _ _ Hmsl)|left; reflexivity]|].
      cbn. left. unfold stored, rdh_err. cbn. reflexivity. }
  (* the position of op in the link *)
  destruct (In_nth_error _ _ Hop) as [j Hj].
  assert (Hhj : nth_error hs j = Some (hp_of op)) by (unfold hs; rewrite nth_error_map, Hj; reflexivity).
  split.
  - intros (m & Hm & Hoffm & _).
    assert (Hin : In m (filter (fun m0 => in_unitb (sel (rc_check c) id cdps) (m_off m0)) (k_errors s))).
    { apply filter_In. split; [exact Hm|]. apply in_unitb_true. exists (to_cdp (hp_of op)). split.
      - rewrite Eunit. apply in_map, in_map, Hop.
      - unfold inside_pkt, to_cdp, hp_of. cbn. rewrite Hoffm. lia. }
    rewrite W in Hin. apply Mem in Hin. destruct Hin as (i & h & tags & Hh & Hv & ->).
    cbn in Hoffm.
    assert (Hi : exists o, nth_error (link_ops id) i = Some o /\ h = hp_of o).
    { unfold hs in Hh. rewrite nth_error_map in Hh. destruct (nth_error (link_ops id) i) as [o|]; [|discriminate]. injection Hh as <-. exists o. auto. }
    destruct Hi as (o & Ho & ->). cbn [hp_of hp_off] in Hoffm.
    assert (i = j) by exact (nodup_map_nth fst (link_ops id) i j o op (link_ops_nodup id) Ho Hj Hoffm). subst i.
    rewrite Hj in Ho. injection Ho as <-. unfold violates in Hv. cbn [hp_of hp_bytes] in Hv. apply negb_true_iff in Hv. exact Hv.
  - intros Hs. assert (Hv : violates first (hp_of op) = true) by (unfold violates; cbn [hp_of hp_bytes]; rewrite Hs; reflexivity).
    destruct (Forall2_nth_l _ _ _ j (hp_of op) F2 Hhj) as (msl & Hmsl & [[Hf _]|[_ (m0 & -> & (tags & ->))]]); [congruence|].
    set (m := stored (match rdh_err (hp_off (hp_of op)) 10 tags with VErr x => x | _ => mk_err 0 0 None end)).
    assert (Hin : In m (sort_msgs (errs_of (concat per)))) by (apply Mem; exists j, (hp_of op), tags; auto).
    rewrite <- W in Hin. apply filter_In in Hin. exists m. split; [apply Hin|]. split; reflexivity.
Qed.
End Whole.
