(* C04: no input crashes the sequential core -- which panic sites exist, which can never be reached, and under which (exactly
   stated) conditions the remaining ones are reached. *)
From Coq Require Import List NArith Bool Lia.
Import ListNotations.
From FP Require Import Model.Base Model.ItsWords Model.ItsFsm Model.Rdh Model.RdhChecks Model.Payload Model.Alpide Model.CdpRunning Model.Scanner Model.Link Model.Collector.
From FP Require Import Proofs.Bits.
From FP Require Gen.Facts.
Open Scope N_scope.

(* ---- the `unreachable_unchecked` hint of the lane decoder is never reached, for ANY byte sequence ---- *)
Lemma aword_never_padding b : aword_of_byte b <> AW_ApePadding.
Proof.
  unfold aword_of_byte.
  destruct (N.land b 192 =? 64); [discriminate|]. destruct (N.land b 192 =? 0) eqn:E0; [discriminate|].
  destruct (N.land b 224 =? 192); [discriminate|]. destruct (N.land b 240 =? 224); [discriminate|].
  destruct (N_in_range 160 175 b); [discriminate|]. destruct (N.land b 240 =? 176); [discriminate|].
  destruct (b =? 240); [discriminate|]. destruct (b =? 241); [discriminate|]. destruct (b =? 242); [discriminate|].
  destruct (N_in_range 244 252 b); [discriminate|]. destruct ((b =? 253) || (b =? 254)); [discriminate|].
  destruct (N.eqb_spec b 0) as [->|_]; [|discriminate]. cbn in E0. discriminate.
Qed.

Lemma lane_decode_unreachable s b : ls_unreachable s = false -> ls_unreachable (lane_decode s b) = false.
Proof.
  destruct s as [hs lc sk ch nbc ft bs fl ur]. cbn [ls_unreachable]. intros ->. unfold lane_decode.
  destruct (0 <? sk); [reflexivity|]. destruct nbc; [destruct (has_chip lc ch); reflexivity|].
  destruct (negb hs && (b =? 0)); [reflexivity|].
  pose proof (aword_never_padding b) as Hn. destruct (aword_of_byte b); try reflexivity. contradiction.
Qed.

Lemma c04_unreachable_never bytes : ls_unreachable (lane_run bytes) = false.
Proof.
  unfold lane_run. assert (G : forall s, ls_unreachable s = false -> ls_unreachable (fold_left lane_decode bytes s) = false).
  { induction bytes as [|b bs IH]; intros s H; [exact H|]. cbn [fold_left]. apply IH. apply lane_decode_unreachable. exact H. }
  apply G. reflexivity.
Qed.

(* ---- without the stave target there is no panic site on the validator's path: for EVERY packet list ---- *)
Definition no_rfv (s : cdp_state) : Prop := cs_rfv s = None.
Ltac rfv H := cbn; first [exact H | reflexivity | rewrite H; reflexivity | (unfold no_rfv in *; cbn; first [exact H | reflexivity | rewrite H; reflexivity])].

Lemma set_current_rdh_no_rfv s r pos : no_rfv s -> exists s1, set_current_rdh s r pos = Ok s1 /\ no_rfv s1.
Proof. unfold no_rfv, set_current_rdh. intros H. rewrite H. eexists. split; [reflexivity|]. rfv H. Qed.

Lemma preprocess_tdh_no_rfv s w : no_rfv s -> no_rfv (fst (preprocess_tdh s w)).
Proof. unfold no_rfv, preprocess_tdh. intros H. cbn [fst]. cbn [cs_rfv set_words]. rewrite H. rfv H. Qed.

Lemma preprocess_data_no_rfv c s w : no_rfv s -> exists s1 m, preprocess_data_word c s w = Ok (s1, m) /\ no_rfv s1.
Proof.
  unfold no_rfv, preprocess_data_word. intros H.
  destruct (cs_start_of_data s && (nb 9 w =? Gen.Facts.cdw_id)).
  - destruct (negb (v_running c)); eexists; eexists; (split; [reflexivity|]); rfv H.
  - destruct (negb (v_running c) || _); [eexists; eexists; split; [reflexivity|]; rfv H|].
    unfold store_data. rewrite H. eexists. eexists. split; [reflexivity|]. rfv H.
Qed.

Lemma cdp_check_no_rfv c s w : no_rfv s -> exists s1 m, cdp_check c s w = Ok (s1, m) /\ no_rfv s1.
Proof.
  intros H. unfold cdp_check.
  set (s0 := set_counter s (wrap16 (cs_counter s + 1))).
  assert (H0 : no_rfv s0) by exact H.
  destruct (advance (cs_fsm s0) w) as [f' r].
  assert (H1 : no_rfv (set_fsm s0 f')) by exact H0.
  destruct r as [p|a].
  - destruct p.
    + (* IHW *) destruct (preprocess_ihw (set_fsm s0 f') w) as [s1 m] eqn:E. eexists. eexists. split; [reflexivity|].
      unfold preprocess_ihw in E. injection E as <- _. exact H1.
    + eexists. eexists. split; [reflexivity|]. exact H1.
    + destruct (preprocess_tdh (set_fsm s0 f') w) as [s1 m] eqn:E. eexists. eexists. split; [reflexivity|].
      pose proof (preprocess_tdh_no_rfv _ w H1) as G. rewrite E in G. exact G.
    + destruct (preprocess_tdh (set_fsm s0 f') w) as [s1 m] eqn:E. eexists. eexists. split; [reflexivity|].
      pose proof (preprocess_tdh_no_rfv _ w H1) as G. rewrite E in G. exact G.
    + destruct (preprocess_tdh (set_fsm s0 f') w) as [s1 m] eqn:E. eexists. eexists. split; [reflexivity|].
      pose proof (preprocess_tdh_no_rfv _ w H1) as G. rewrite E in G. exact G.
    + (* TDT *) unfold preprocess_tdt. unfold no_rfv in H1. cbn [cs_rfv set_words]. rewrite H1. eexists. eexists. split; [reflexivity|]. exact H1.
    + destruct (preprocess_data_no_rfv c _ w H1) as [s1 [m [E G]]]. rewrite E. eauto.
    + destruct (preprocess_data_no_rfv c _ w H1) as [s1 [m [E G]]]. rewrite E. eauto.
    + eexists. eexists. split; [reflexivity|]. exact H1.
  - destruct a.
    + destruct (preprocess_tdh (set_fsm s0 f') w) as [s1 m] eqn:E. eexists. eexists. split; [reflexivity|].
      pose proof (preprocess_tdh_no_rfv _ w H1) as G. rewrite E in G. exact G.
    + destruct (preprocess_data_no_rfv c _ w H1) as [s1 [m [E G]]]. rewrite E. eauto.
    + eexists. eexists. split; [reflexivity|]. exact H1.
Qed.

Lemma cdp_words_no_rfv c ws : forall s acc, no_rfv s -> exists s1 m, cdp_words c s ws acc = Ok (s1, m) /\ no_rfv s1.
Proof.
  induction ws as [|w ws IH]; intros s acc H; cbn [cdp_words]; [eauto|].
  destruct (cdp_check_no_rfv c s w H) as [s1 [m [E G]]]. rewrite E. apply IH. exact G.
Qed.

Lemma payload_no_rfv c s r p pos : no_rfv s -> exists s1 m, do_payload_checks c s r p pos = Ok (s1, m) /\ no_rfv s1.
Proof.
  intros H. unfold do_payload_checks. destruct (set_current_rdh_no_rfv s r pos H) as [s1 [E G]]. rewrite E.
  destruct (preprocess p); [eexists; eexists; split; [reflexivity|]; exact G|]. apply cdp_words_no_rfv. exact G.
Qed.

Lemma link_step_no_panic c s p : v_target c <> T_stave -> no_rfv (lk_cdp s) ->
  exists s1 m, link_step c s p = Ok (s1, m) /\ no_rfv (lk_cdp s1).
Proof.
  intros Ht H. unfold link_step. destruct (rdh_sanity _ _) as [ss t10]. destruct (if v_running c then _ else _) as [rs m11].
  destruct (v_target c); [eexists; eexists; split; [reflexivity|]; exact H| |contradiction].
  destruct (c_payload p) eqn:Ep; [eexists; eexists; split; [reflexivity|]; exact H|]. rewrite <- Ep.
  destruct (payload_no_rfv c (lk_cdp s) (c_rdh p) (c_payload p) (c_off p) H) as [s1 [m [E G]]]. rewrite E. eexists. eexists. split; [reflexivity|]. exact G.
Qed.

Theorem c04_no_panic_without_stave c ps : v_target c <> T_stave -> exists m, run_validator c ps = Ok m.
Proof.
  intros Ht. unfold run_validator.
  assert (G : forall ps s acc, no_rfv (lk_cdp s) -> exists s1 m, link_run c s ps acc = Ok (s1, m)).
  { induction ps0 as [|p ps0 IH]; intros s acc H; cbn [link_run]; [eauto|].
    destruct (link_step_no_panic c s p Ht H) as [s1 [m [E G1]]]. rewrite E. apply IH. exact G1. }
  destruct (G ps (link_init c) []) as [s1 [m E]].
  - unfold no_rfv, link_init, cdp_init. cbn. destruct (v_target c); try reflexivity. contradiction.
  - rewrite E. eauto.
Qed.

(* ---- the panic sites of the stave-level code and their exact conditions (the three recorded findings) ---- *)
Lemma c04_site_layer7 fee : layer_of_feeid fee = Panic SITE_stave_from_feeid <-> 6 < layer_from_feeid fee.
Proof.
  unfold layer_of_feeid. destruct (N.leb_spec (layer_from_feeid fee) 2); [split; [discriminate|lia]|].
  destruct (N.leb_spec (layer_from_feeid fee) 4); [split; [discriminate|lia]|].
  destruct (N.leb_spec (layer_from_feeid fee) 6); [split; [discriminate|lia]|]. split; [intros _; lia|reflexivity].
Qed.

(* a data word with no open readout frame, a lane without any chip: reported, not a crash -- these two theorems type-check only
   while the source handles the cases (regenerated facts; the pinned commit unwrapped a None in both places: findings F5, F8) *)
Lemma c04_no_frame_when (b : bool) : b = true -> b = Gen.Facts.data_word_without_frame_is_ignored ->
  forall s w, exists s1, store_data s w = Ok s1.
Proof.
  intros Hb Hg s w. unfold store_data. destruct (cs_rfv s) as [rf|]; [|eauto]. destruct (rf_frame rf); [eauto|]. rewrite <- Hg, Hb. eauto.
Qed.
Lemma c04_no_chip_when (b : bool) : b = true -> b = Gen.Facts.lane_without_chip_is_reported ->
  forall ly ln cc co s, exists o, lane_checks ly ln cc co s = Ok o.
Proof.
  intros Hb Hg ly ln cc co s. unfold lane_checks. destruct (ls_fatal s); [eauto|].
  destruct (negb _ && _); [rewrite <- Hg, Hb; eauto|]. destruct (_ || _ || _ || _); eauto.
Qed.
Lemma c04_refuted_sites :
  (if false then Ok 0 else Panic SITE_store_lane_no_frame) = Panic SITE_store_lane_no_frame /\
  (if false then Ok 0 else Panic SITE_no_chip_in_lane) = Panic SITE_no_chip_in_lane.
Proof. split; reflexivity. Qed.

(* exit status: 0, 1 or the configured status *)
Lemma c04_exit_range aee r flag : exit_code aee r flag = 0 \/ exit_code aee r flag = 1 \/ exists n, aee = Some n /\ exit_code aee r flag = n.
Proof. unfold exit_code. destruct r; [|auto]. destruct aee as [n|]; [|auto]. destruct flag; [right; right; eauto|auto]. Qed.
