(* Deadlock freedom, orderly end, no panic, and the stop flag (C17). *)
From Coq Require Import List Arith Bool Lia.
From FP Require Import Model.Protocol Proofs.C17_inv.
Import ListNotations.

Lemma all_done_false_ex vs : all_done vs = false ->
  exists j v, nth_error vs j = Some v /\ v_done v = false.
Proof.
  induction vs as [|x vs IH]; cbn; [discriminate|].
  destruct (v_done x) eqn:E; cbn; intros H.
  - destruct (IH H) as (j & v & N & D). exists (S j), v. auto.
  - exists 0, x. auto.
Qed.

Definition only_choice (l : label) (i c : nat) : Prop :=
  forall j c', l = L_analysis j c' -> j = i /\ c' = c.

Lemma oc_other l i c : (forall j c', l <> L_analysis j c') -> only_choice l i c.
Proof. intros H j c' E. exfalso. eapply H; eauto. Qed.
Lemma oc_self i c : only_choice (L_analysis i c) i c.
Proof. intros j c' E. inversion E. auto. Qed.

Ltac other l := exists l; split; [|apply oc_other; intros; discriminate].

Lemma valid_enabled f s j v : s_panic s = false -> s_hardexit s = false -> nth_error (s_vs s) j = Some v -> v_done v = false ->
  (v_q v <> [] \/ s_alive s = false) -> forall i c, exists l, step f l s <> None /\ only_choice l i c.
Proof.
  intros Hp Hh N D Q i c. other (L_valid j). unfold step, step_valid. rewrite Hp, Hh, N, D.
  destruct (v_q v) as [|k q]; [|discriminate].
  destruct Q as [Q|Q]; [congruence|]. rewrite Q. discriminate.
Qed.

Lemma writer_progress f s i c : s_panic s = false -> s_hardexit s = false ->
  match s_w s with W_absent | W_done => False | _ => True end ->
  (s_dq s <> [] \/ reader_done s = true) ->
  exists l, step f l s <> None /\ only_choice l i c.
Proof.
  intros Hp Hh Hw Hdq. other (L_writer false). unfold step, step_writer. rewrite Hp, Hh.
  destruct (s_w s) as [| |b|b| |]; try contradiction.
  - destruct (s_dq s) as [|b rest]; [|discriminate].
    destruct Hdq as [Hdq|Hdq]; [congruence|]. rewrite Hdq. discriminate.
  - destruct (pf_writer_polls f && s_stop s); discriminate.
  - discriminate.
  - destruct (w_flush_ok s); [discriminate|]. destruct (pf_writer_err_handled f); discriminate.
Qed.

Lemma analysis_progress f s i c : goodf f -> Inv s -> s_panic s = false -> s_hardexit s = false ->
  match s_a s with A_absent | A_done => False | _ => True end ->
  (s_dq s <> [] \/ reader_done s = true) -> i <= length (s_vs s) -> pf_vcap_min f <= c ->
  exists l, step f l s <> None /\ only_choice l i c.
Proof.
  intros G I Hp Hh Haa Hdq Hi Hc.
  destruct I as (Imode & (Icap & Ivs) & Ialive & Imain & Ictrl).
  destruct (s_a s) as [| | |b|l| | |] eqn:Ha; try contradiction.
  - exists (L_analysis i c); split; [|apply oc_self]. unfold step, step_analysis. rewrite Hp, Hh, Ha.
    destruct (pf_analysis_polls f && s_stop s); discriminate.
  - exists (L_analysis i c); split; [|apply oc_self]. unfold step, step_analysis. rewrite Hp, Hh, Ha.
    destruct (s_dq s) as [|b rest]; [|discriminate].
    destruct Hdq as [Hdq|Hdq]; [congruence|]. rewrite Hdq. discriminate.
  - exists (L_analysis i c); split; [|apply oc_self]. unfold step, step_analysis. rewrite Hp, Hh, Ha. discriminate.
  - destruct l as [|k l].
    { exists (L_analysis i c); split; [|apply oc_self]. unfold step, step_analysis. rewrite Hp, Hh, Ha. discriminate. }
    destruct (nth_error (s_vs s) i) as [v|] eqn:Hn.
    + destruct (v_done v) eqn:Hvd.
      * exists (L_analysis i c); split; [|apply oc_self]. unfold step, step_analysis. rewrite Hp, Hh, Ha.
        destruct (c_mode (s_cfg s)); rewrite ?Hn, ?Hvd; try discriminate.
        destruct (s_open s); [discriminate|]. destruct (pf_view_err_handled f); discriminate.
      * destruct (length (v_q v) <? v_cap v) eqn:Hfull.
        -- exists (L_analysis i c); split; [|apply oc_self]. unfold step, step_analysis. rewrite Hp, Hh, Ha.
           destruct (c_mode (s_cfg s)); rewrite ?Hn, ?Hvd, ?Hfull; try discriminate.
           destruct (s_open s); [discriminate|]. destruct (pf_view_err_handled f); discriminate.
        -- destruct (c_mode (s_cfg s)) eqn:Hmode.
           2:{ exists (L_analysis i c); split; [|apply oc_self]. unfold step, step_analysis.
               rewrite Hp, Hh, Ha, Hmode. destruct (s_open s); [discriminate|]. destruct (pf_view_err_handled f); discriminate. }
           all: apply (valid_enabled f s i v Hp Hh Hn Hvd); left;
             apply Nat.ltb_ge in Hfull;
             assert (1 <= v_cap v) by (rewrite Forall_forall in Icap; apply Icap; eapply nth_error_In; eauto);
             destruct (v_q v); cbn in *; [lia|discriminate].
    + assert (i = length (s_vs s)) as Ei by (apply nth_error_None in Hn; lia).
      exists (L_analysis i c); split; [|apply oc_self]. unfold step, step_analysis. rewrite Hp, Hh, Ha.
      destruct (c_mode (s_cfg s)); rewrite ?Hn; try (
        replace ((i =? length (s_vs s)) && (pf_vcap_min f <=? c)) with true
          by (symmetry; apply andb_true_iff; split; [apply Nat.eqb_eq; assumption|apply Nat.leb_le; assumption]);
        discriminate).
      destruct (s_open s); [discriminate|]. destruct (pf_view_err_handled f); discriminate.
  - exists (L_analysis i c); split; [|apply oc_self]. unfold step, step_analysis. rewrite Hp, Hh, Ha. discriminate.
  - unfold alive_ok in Ialive. rewrite Ha in Ialive.
    destruct (all_done (s_vs s)) eqn:Had.
    + exists (L_analysis i c); split; [|apply oc_self]. unfold step, step_analysis. rewrite Hp, Hh, Ha, Had. discriminate.
    + destruct (all_done_false_ex _ Had) as (j & v & N & D).
      apply (valid_enabled f s j v Hp Hh N D). right. assumption.
Qed.

Lemma consumer_progress f s i c : goodf f -> Inv s -> s_panic s = false -> s_hardexit s = false -> consumer_alive s = true ->
  (s_dq s <> [] \/ reader_done s = true) -> i <= length (s_vs s) -> pf_vcap_min f <= c ->
  exists l, step f l s <> None /\ only_choice l i c.
Proof.
  intros G I Hp Hh Hca Hdq Hi Hc. unfold consumer_alive in Hca. apply orb_true_iff in Hca. destruct Hca as [Hca|Hca].
  - apply analysis_progress; auto. destruct (s_a s); try discriminate; exact Logic.I.
  - apply writer_progress; auto. destruct (s_w s); try discriminate; exact Logic.I.
Qed.

Theorem no_deadlock f s i c : goodf f -> Inv s -> final s = false ->
  i <= length (s_vs s) -> pf_vcap_min f <= c ->
  exists l, step f l s <> None /\ only_choice l i c.
Proof.
  intros G I Hfin Hi Hc. unfold final in Hfin. apply orb_false_iff in Hfin. destruct Hfin as [Hp Hm].
  apply orb_false_iff in Hp. destruct Hp as [Hp Hh].
  pose proof I as (Imode & (Icap & Ivs) & Ialive & Imain & Ictrl).
  destruct (s_c s) eqn:Hcc.
  2:{ other L_ctrl. unfold step, step_ctrl. rewrite Hp, Hh, Hcc.
      destruct (c_stats_stdout (s_cfg s) && negb (s_open s) && negb (pf_stats_stdout_handled f)); discriminate. }
  2:{ unfold ctrl_ok in Ictrl. rewrite Hcc in Ictrl. destruct Ictrl as [_ S0].
      unfold stats_senders0, main_holds_stats in S0.
      other L_main. unfold step, step_main. rewrite Hp, Hh. destruct (s_m s); cbn in S0; try discriminate.
      rewrite Hcc. discriminate. }
  destruct (s_sq s) as [|k rest] eqn:Hsq.
  2:{ other L_ctrl. unfold step, step_ctrl. rewrite Hp, Hh, Hcc, Hsq.
      destruct k; [discriminate| |]; destruct (s_fatal s); try discriminate.
      destruct ((0 <? c_cap (s_cfg s)) && (S (s_errs s) =? c_cap (s_cfg s))); discriminate. }
  destruct (s_r s) as [| |b|] eqn:Hr.
  - other L_reader. unfold step, step_reader. rewrite Hp, Hh, Hr.
    destruct ((pf_reader_polls f && s_stop s) || s_lstop s); discriminate.
  - other L_reader. unfold step, step_reader. rewrite Hp, Hh, Hr. destruct (s_input s); discriminate.
  - destruct (receivers0 s) eqn:Hr0.
    { other L_reader. unfold step, step_reader. rewrite Hp, Hh, Hr, Hr0. discriminate. }
    destruct (length (s_dq s) <? pf_dcap f) eqn:Hfull.
    { other L_reader. unfold step, step_reader. rewrite Hp, Hh, Hr, Hr0, Hfull. discriminate. }
    assert (s_dq s <> []) as Hne.
    { apply Nat.ltb_ge in Hfull. pose proof (gf_dcap f G). destruct (s_dq s); cbn in *; [lia|discriminate]. }
    unfold receivers0 in Hr0. apply andb_false_iff in Hr0. destruct Hr0 as [Hr0|Hr0].
    + apply negb_false_iff in Hr0. unfold main_ok in Imain.
      other L_main. unfold step, step_main. rewrite Hp, Hh.
      destruct (s_m s); try discriminate; try (destruct Imain as [? ?]; congruence); congruence.
    + apply negb_false_iff in Hr0. apply consumer_progress; auto.
  - assert (reader_done s = true) as Hrd by (unfold reader_done; rewrite Hr; reflexivity).
    destruct (s_m s) eqn:Hmm; try discriminate.
    + other L_main. unfold step, step_main. rewrite Hp, Hh, Hmm. discriminate.
    + other L_main. unfold step, step_main. rewrite Hp, Hh, Hmm. destruct (s_iq s); [rewrite Hrd|]; discriminate.
    + destruct (consumer_alive s) eqn:Hca.
      * apply consumer_progress; auto.
      * other L_main. unfold step, step_main. rewrite Hp, Hh, Hmm, Hca. discriminate.
    + other L_ctrl. unfold step, step_ctrl. rewrite Hp, Hh, Hcc, Hsq.
      unfold main_ok in Imain. rewrite Hmm in Imain. destruct Imain as (_ & _ & _ & Hca).
      unfold consumer_alive in Hca. apply orb_false_iff in Hca. destruct Hca as [Haa _].
      unfold stats_senders0, main_holds_stats, analysis_alive. rewrite Hmm, Haa. cbn.
      unfold alive_ok in Ialive.
      destruct (s_a s) eqn:Ha; try discriminate.
      * rewrite (Ivs eq_refl). discriminate.
      * destruct Ialive as [_ Had]. rewrite Had. discriminate.
Qed.

(* ---- orderly end ---------------------------------------------------------------------- *)
Theorem all_joined s : Inv s -> s_m s = M_exit ->
  reader_done s = true /\ consumer_alive s = false /\ all_done (s_vs s) = true /\
  s_c s = C_done /\ s_sq s = [] /\ s_iq s = [] /\ s_mrecv s = false.
Proof.
  intros (Imode & (Icap & Ivs) & Ialive & Imain & Ictrl) Hm.
  unfold main_ok in Imain. rewrite Hm in Imain. destruct Imain as (A & B & C & D & E).
  unfold ctrl_ok in Ictrl. rewrite E in Ictrl. destruct Ictrl as [F S0].
  unfold stats_senders0 in S0. apply andb_true_iff in S0. destruct S0 as [_ S0]. auto 10.
Qed.

(* ---- no panic when every write error is handled ----------------------------------------- *)
Record handled (f : pfacts) : Prop := {
  hd_writer : pf_writer_err_handled f = true;
  hd_view : pf_view_err_handled f = true;
  hd_stats : pf_stats_stdout_handled f = true }.

Theorem no_panic_step f l s s' : handled f -> step f l s = Some s' -> s_panic s' = false.
Proof.
  intros [Hw Hv Hs]. unfold step. destruct (s_panic s) eqn:Hp; [discriminate|]. destruct (s_hardexit s) eqn:Hh; [discriminate|].
  destruct l.
  - destruct (1 <=? s_sigs s); [discriminate|].
    destruct (s_stop s && negb (pf_handler_own_counter f)); intros H; got H; assumption.
  - destruct (s_open s); [|discriminate]. intros H; got H. assumption.
  - unfold step_reader. destruct (s_r s); try discriminate.
    + destruct ((pf_reader_polls f && s_stop s) || s_lstop s); intros H; got H; assumption.
    + destruct (s_input s); intros H; got H; assumption.
    + destruct (receivers0 s); [intros H; got H; assumption|].
      destruct (length (s_dq s) <? pf_dcap f); intros H; got H; assumption.
  - unfold step_main. destruct (s_m s); try discriminate.
    + destruct (pf_main_drops_recv f); intros H; got H; assumption.
    + destruct (s_iq s); [destruct (reader_done s)|]; intros H; got H; assumption.
    + destruct (consumer_alive s); intros H; got H; assumption.
    + destruct (s_c s); intros H; got H; assumption.
  - unfold step_analysis. rewrite Hv. destruct (s_a s) as [| | |b|l0| | |]; try discriminate.
    + destruct (pf_analysis_polls f && s_stop s); intros H; got H; assumption.
    + destruct (s_dq s); [destruct (reader_done s)|]; intros H; got H; assumption.
    + intros H; got H; assumption.
    + destruct l0 as [|k l0]; [intros H; got H; assumption|].
      destruct (c_mode (s_cfg s)).
      2:{ destruct (s_open s); intros H; got H; assumption. }
      all: destruct (nth_error (s_vs s) i) as [v|];
        [destruct (v_done v); [|destruct (length (v_q v) <? v_cap v)]
        |destruct ((i =? length (s_vs s)) && (pf_vcap_min f <=? c))]; intros H; got H; assumption.
    + destruct (pf_join_clears f); intros H; got H; assumption.
    + destruct (all_done (s_vs s)); intros H; got H; assumption.
  - unfold step_valid. destruct (nth_error (s_vs s) i) as [v|]; [|discriminate].
    destruct (v_done v); [discriminate|]. destruct (v_q v); [destruct (s_alive s)|]; intros H; got H; assumption.
  - unfold step_writer. rewrite Hw. destruct (s_w s); try discriminate.
    + destruct (s_dq s); [destruct (reader_done s)|]; intros H; got H; assumption.
    + destruct (pf_writer_polls f && s_stop s); intros H; got H; assumption.
    + destruct fl; [destruct (w_flush_ok s)|]; intros H; got H; assumption.
    + destruct (w_flush_ok s); intros H; got H; assumption.
  - unfold step_ctrl. rewrite Hs. destruct (s_c s); try discriminate.
    + destruct (s_sq s) as [|k r]; [destruct (stats_senders0 s); intros H; got H; assumption|].
      destruct k; [intros H; got H; assumption| |]; destruct (s_fatal s); try (intros H; got H; assumption).
      destruct ((0 <? c_cap (s_cfg s)) && (S (s_errs s) =? c_cap (s_cfg s))); intros H; got H; assumption.
    + rewrite andb_false_r. intros H; got H; assumption.
Qed.


(* ---- the stop flag ------------------------------------------------------------------------ *)
Definition stop_inv (s : state) : Prop := s_fatal s = true -> s_stop s = true.

Fixpoint count_err (l : list skind) : nat :=
  match l with [] => 0 | K_error :: r => S (count_err r) | _ :: r => count_err r end.
Lemma count_err_app l1 l2 : count_err (l1 ++ l2) = count_err l1 + count_err l2.
Proof. induction l1 as [|[] l1 IH]; cbn; lia. Qed.

(* a fatal message is in flight to the controller *)
Definition fatal_pending (s : state) : Prop :=
  s_stop s = true \/ In K_fatal (s_sq s) \/ In K_fatal (s_iq s).
(* enough error messages are in flight to reach the cap *)
Definition cap_pending (s : state) : Prop :=
  s_stop s = true \/
  (0 < c_cap (s_cfg s) /\ s_errs s < c_cap (s_cfg s) /\
   c_cap (s_cfg s) <= s_errs s + count_err (s_sq s)).

Ltac stepcases H :=
  unfold step, step_reader, step_main, step_analysis, step_valid, step_writer, step_ctrl in H;
  repeat match type of H with
  | context [match ?x with _ => _ end] =>
      lazymatch x with
      | context [match _ with _ => _ end] => fail
      | _ => destruct x eqn:?
      end
  end; try discriminate; try (inversion H; subst; clear H).

(* a single signal never makes the handler exit the process (it does so only on its own second call) *)
Theorem no_hard_exit_step f l s s' : pf_handler_own_counter f = true -> step f l s = Some s' -> s_hardexit s' = false.
Proof. intros Hc H. destruct l; stepcases H; cbn; auto; rewrite Hc, andb_false_r in *; discriminate. Qed.

Lemma stop_monotone f l s s' : step f l s = Some s' -> s_stop s = true -> s_stop s' = true.
Proof. intros H St. destruct l; stepcases H; cbn; auto. Qed.

Lemma stop_inv_step f l s s' : step f l s = Some s' -> stop_inv s -> stop_inv s'.
Proof.
  unfold stop_inv. intros H I. destruct l; stepcases H; cbn in *; auto; try congruence.
Qed.

Ltac inapp := repeat (rewrite in_app_iff || cbn [In]); auto.

Lemma fatal_pending_step f l s s' : step f l s = Some s' -> stop_inv s -> fatal_pending s -> fatal_pending s'.
Proof.
  unfold fatal_pending, stop_inv. intros H SI [St|P].
  { left. eapply stop_monotone; eauto. }
  destruct (s_stop s) eqn:St.
  { left. eapply stop_monotone; eauto. }
  assert (s_fatal s = false) as Hf by (destruct (s_fatal s); [specialize (SI eq_refl); discriminate|reflexivity]).
  destruct l; stepcases H; unfold push_sq, push_iq; cbn in *; rewrite ?in_app_iff; cbn [In];
    try solve [auto | tauto | congruence];
    repeat match goal with E : _ = _ :: _ |- _ => rewrite E in * end; cbn [In] in *;
    try solve [intuition (try discriminate; try congruence; auto)].
Qed.

Lemma cap_pending_step f l s s' : step f l s = Some s' -> stop_inv s -> cap_pending s -> cap_pending s'.
Proof.
  unfold cap_pending, stop_inv. intros H SI [St|P].
  { left. eapply stop_monotone; eauto. }
  destruct (s_stop s) eqn:St.
  { left. eapply stop_monotone; eauto. }
  assert (s_fatal s = false) as Hf by (destruct (s_fatal s); [specialize (SI eq_refl); discriminate|reflexivity]).
  destruct l; stepcases H; unfold push_sq, push_iq; cbn in *; rewrite ?count_err_app; cbn [count_err];
    try solve [auto | right; lia];
    repeat match goal with E : _ = _ :: _ |- _ => rewrite E in * end; cbn [count_err] in *;
    try solve [right; lia | right; destruct s0; cbn [count_err]; lia | congruence].
  (* the controller takes an error that does not reach the cap yet: the count moves from the queue to s_errs *)
  all: try (right;
    repeat match goal with E : (_ && _) = false |- _ => apply andb_false_iff in E; destruct E as [E|E] end;
    repeat match goal with E : (_ <? _) = false |- _ => apply Nat.ltb_ge in E
                         | E : (_ =? _) = false |- _ => apply Nat.eqb_neq in E end; lia).
  all: right; destruct (c_cap (s_cfg s)); cbn in *; [lia|];
    match goal with E : (_ =? _) = false |- _ => apply Nat.eqb_neq in E end; lia.
Qed.
