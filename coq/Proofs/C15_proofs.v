(* C15: the comparison of collected statistics with an input statistics file is reflexive and complete. *)
From Coq Require Import List NArith Bool Lia.
Import ListNotations.
Require Import FP.Gen.Facts FP.Model.StatsCmp FP.Model.Collector.
Open Scope N_scope.

Definition veq_ok {V} (veqb : V -> V -> bool) : Prop := forall a b, veqb a b = true <-> a = b.

Definition in_N (i : N) (l : list N) : bool := existsb (N.eqb i) l.
Lemma in_N_In i l : in_N i l = true <-> In i l.
Proof.
  unfold in_N. rewrite existsb_exists. split.
  - intros [x [Hx He]]. apply N.eqb_eq in He. subst. exact Hx.
  - intros H. exists i. split; [exact H|apply N.eqb_refl].
Qed.

Definition nseq (n : N) : list N := map N.of_nat (seq 0 (N.to_nat n)).
Lemma nseq_In i n : In i (nseq n) <-> i < n.
Proof.
  unfold nseq. rewrite in_map_iff. split.
  - intros [k [Hk Hin]]. apply in_seq in Hin. lia.
  - intros H. exists (N.to_nat i). split; [lia|]. apply in_seq. lia.
Qed.

(* conditions on the regenerated lists, all decided by computation *)
Definition ident_on (macro : list N) (recon : list (N * N)) : bool :=
  forallb (fun i => match src_of recon i with Some s => N.eqb s i | None => false end) macro.
Definition in_range (n : N) (l : list N) : bool := forallb (fun i => i <? n) l && (n <=? 255).
Definition covers (n : N) (macro subs : list N) : bool := forallb (fun i => in_N i macro || in_N i subs) (nseq n).

Lemma filter_nil {A} (f : A -> bool) l : filter f l = [] <-> forall x, In x l -> f x = false.
Proof.
  induction l as [|y l IH]; cbn.
  - split; [intros _ x []|reflexivity].
  - destruct (f y) eqn:Hy.
    + split; [discriminate|]. intros H. specialize (H y (or_introl eq_refl)). congruence.
    + rewrite IH. split.
      * intros H x [->|Hx]; [exact Hy|exact (H x Hx)].
      * intros H x Hx. apply H. right. exact Hx.
Qed.

Lemma flat_map_nil {A B} (f : A -> list B) l : flat_map f l = [] <-> forall x, In x l -> f x = [].
Proof.
  induction l as [|y l IH]; cbn.
  - split; [intros _ x []|reflexivity].
  - split.
    + intros H. apply app_eq_nil in H. destruct H as [H1 H2]. intros x [->|Hx]; [exact H1|]. apply IH; assumption.
    + intros H. rewrite (H y (or_introl eq_refl)). cbn. apply IH. intros x Hx. apply H. right. exact Hx.
Qed.

Lemma tagged_nil t l : tagged t l = [] <-> l = [].
Proof. unfold tagged. destruct l; cbn; split; congruence. Qed.

Lemma app_nil_iff {A} (l1 l2 : list A) : l1 ++ l2 = [] <-> l1 = [] /\ l2 = [].
Proof. split; [apply app_eq_nil|]. intros [-> ->]. reflexivity. Qed.

Lemma rebuilt_ident {V} (dflt : V) n macro recon other i :
  ident_on macro recon = true -> in_range n macro = true -> In i macro ->
  rebuilt_field dflt recon other i = nth (N.to_nat i) other dflt.
Proof.
  intros Hid Hr Hin. unfold ident_on in Hid. rewrite forallb_forall in Hid. specialize (Hid i Hin).
  unfold in_range in Hr. apply andb_true_iff in Hr. destruct Hr as [Hr Hn]. rewrite forallb_forall in Hr. specialize (Hr i Hin).
  apply N.ltb_lt in Hr. apply N.leb_le in Hn.
  unfold rebuilt_field. destruct (src_of recon i) as [s|]; [|discriminate]. apply N.eqb_eq in Hid. subst s.
  unfold DEFAULT_SRC. destruct (N.eqb_spec i 255) as [E|E]; [lia|reflexivity].
Qed.

Lemma vf_nil {V} (veqb : V -> V -> bool) (dflt : V) n macro recon a b :
  veq_ok veqb -> ident_on macro recon = true -> in_range n macro = true ->
  (validate_fields veqb dflt macro recon a b = [] <->
   forall i, In i macro -> nth (N.to_nat i) a dflt = nth (N.to_nat i) b dflt).
Proof.
  intros Hv Hid Hr. unfold validate_fields. rewrite filter_nil. split.
  - intros H i Hi. specialize (H i Hi). rewrite (rebuilt_ident dflt n macro recon b i Hid Hr Hi) in H.
    apply negb_false_iff in H. apply Hv in H. exact H.
  - intros H i Hi. rewrite (rebuilt_ident dflt n macro recon b i Hid Hr Hi). apply negb_false_iff. apply Hv. apply H. exact Hi.
Qed.

(* ---- structs without sub-structs ---- *)
Definition leaf_ok (n : N) (macro : list N) (recon : list (N * N)) : bool :=
  covers n macro [] && ident_on macro recon && in_range n macro.

Lemma leaf_iff {V} (veqb : V -> V -> bool) (dflt : V) n macro recon a b :
  veq_ok veqb -> leaf_ok n macro recon = true -> length a = N.to_nat n -> length b = N.to_nat n ->
  (validate_fields veqb dflt macro recon a b = [] <-> a = b).
Proof.
  intros Hv Hok Ha Hb. unfold leaf_ok in Hok. apply andb_true_iff in Hok. destruct Hok as [Hok Hr].
  apply andb_true_iff in Hok. destruct Hok as [Hc Hid].
  rewrite (vf_nil veqb dflt n macro recon a b Hv Hid Hr). split.
  - intros H. apply (nth_ext a b dflt dflt); [congruence|]. intros k Hk.
    unfold covers in Hc. rewrite forallb_forall in Hc. specialize (Hc (N.of_nat k)).
    assert (Hin : In (N.of_nat k) (nseq n)) by (apply nseq_In; lia). specialize (Hc Hin).
    apply orb_true_iff in Hc. destruct Hc as [Hc|Hc]; [|cbn in Hc; discriminate].
    apply in_N_In in Hc. specialize (H _ Hc). rewrite Nnat.Nat2N.id in H. exact H.
  - intros -> i _. reflexivity.
Qed.

Lemma leaf_refl {V} (veqb : V -> V -> bool) (dflt : V) n macro recon a :
  veq_ok veqb -> ident_on macro recon = true -> in_range n macro = true -> validate_fields veqb dflt macro recon a a = [].
Proof. intros Hv Hid Hr. apply (vf_nil veqb dflt n macro recon a a Hv Hid Hr). reflexivity. Qed.

(* ---- structs with sub-structs ---- *)
Definition parent_ok (n : N) (macro : list N) (recon deleg : list (N * N)) (subs : list N) : bool :=
  ident_on macro recon && in_range n macro
  && forallb (fun p => N.eqb (fst p) (snd p) && in_N (fst p) subs) deleg
  && forallb (fun i => in_N i (map fst deleg)) subs.

Lemma parent_iff {V} (veqb : V -> V -> bool) (dflt : V) tag n macro recon deleg subs subval ta tb :
  veq_ok veqb -> parent_ok n macro recon deleg subs = true ->
  (forall i, In i subs -> exists r, subval i = Some r) ->
  (parent_validate veqb dflt tag deleg subval macro recon ta tb = [] <->
   (forall i, In i subs -> subval i = Some []) /\
   (forall i, In i macro -> nth (N.to_nat i) ta dflt = nth (N.to_nat i) tb dflt)).
Proof.
  intros Hv Hok Hknown. unfold parent_ok in Hok.
  apply andb_true_iff in Hok. destruct Hok as [Hok Hsubs]. apply andb_true_iff in Hok. destruct Hok as [Hok Hdel].
  apply andb_true_iff in Hok. destruct Hok as [Hid Hr].
  rewrite forallb_forall in Hsubs, Hdel.
  unfold parent_validate. rewrite app_nil_iff, tagged_nil, (vf_nil veqb dflt n macro recon ta tb Hv Hid Hr), flat_map_nil.
  split; intros [H1 H2]; (split; [|exact H2]).
  - intros i Hi. specialize (Hsubs i Hi). apply in_N_In in Hsubs. apply in_map_iff in Hsubs. destruct Hsubs as [p [Hp Hin]].
    specialize (H1 p Hin). specialize (Hdel p Hin). apply andb_true_iff in Hdel. destruct Hdel as [He _].
    rewrite He in H1. cbn in H1. rewrite Hp in H1. destruct (Hknown i Hi) as [r Hr']. rewrite Hr' in H1. subst r. exact Hr'.
  - intros p Hin. specialize (Hdel p Hin). apply andb_true_iff in Hdel. destruct Hdel as [He Hs]. rewrite He. cbn.
    apply in_N_In in Hs. rewrite (H1 _ Hs). reflexivity.
Qed.

(* positions not covered by the field list are sub-structs *)
Lemma covered_positions n macro subs i :
  covers n macro subs = true -> i < n -> ~ In i subs -> In i macro.
Proof.
  intros Hc Hi Hn. unfold covers in Hc. rewrite forallb_forall in Hc. specialize (Hc i (proj2 (nseq_In i n) Hi)).
  apply orb_true_iff in Hc. destruct Hc as [Hc|Hc]; apply in_N_In in Hc; [exact Hc|contradiction].
Qed.

(* ---- the statistics tree ---- *)
Definition rdh_subs : list N := [IDX_RDH_ITS; IDX_RDH_TRG].
Definition alp_subs : list N := [IDX_ALP_ROF].
Definition sc_subs : list N := [IDX_SC_RDH; IDX_SC_ERR; IDX_SC_ALP].

Definition disjoint_N (a b : list N) : bool := forallb (fun i => negb (in_N i b)) a.
Definition nodup_N (l : list N) : bool := (fix go l := match l with [] => true | x :: r => negb (in_N x r) && go r end) l.

Definition all_ok : bool :=
  leaf_ok its_nfields its_macro its_recon && leaf_ok trg_nfields trg_macro trg_recon &&
  leaf_ok err_nfields err_macro err_recon && leaf_ok rof_nfields rof_macro rof_recon &&
  parent_ok rdh_nfields rdh_macro rdh_recon rdh_deleg rdh_subs && covers rdh_nfields rdh_macro rdh_subs && disjoint_N rdh_macro rdh_subs && nodup_N rdh_subs &&
  parent_ok alp_nfields alp_macro alp_recon alp_deleg alp_subs && covers alp_nfields alp_macro alp_subs && disjoint_N alp_macro alp_subs &&
  parent_ok sc_nfields sc_macro sc_recon sc_deleg sc_subs && nodup_N sc_subs && disjoint_N sc_macro sc_subs &&
  (* the only top-level field that is neither compared nor a sub-struct is the is_finalized marker *)
  forallb (fun i => in_N i sc_macro || in_N i sc_subs || N.eqb i sc_idx_is_finalized) (nseq sc_nfields) &&
  (* nothing is left out of, or renamed in, the file *)
  forallb (fun l => match l with [] => true | _ => false end)
          [sc_serde_skipped; rdh_serde_skipped; err_serde_skipped; trg_serde_skipped; its_serde_skipped; alp_serde_skipped; rof_serde_skipped] &&
  validate_macro_compares_all.

Lemma nodup_N_2 a b : nodup_N [a; b] = true -> N.eqb b a = false.
Proof.
  unfold nodup_N, in_N. cbn [existsb]. rewrite orb_false_r, !andb_true_r. intros H. apply negb_true_iff in H. rewrite N.eqb_sym. exact H.
Qed.
Lemma nodup_N_3 a b c : nodup_N [a; b; c] = true -> N.eqb b a = false /\ N.eqb c a = false /\ N.eqb c b = false.
Proof.
  unfold nodup_N, in_N. cbn [existsb]. rewrite !orb_false_r, !andb_true_r. intros H.
  apply andb_true_iff in H. destruct H as [H1 H2]. apply negb_true_iff in H1, H2. apply orb_false_iff in H1. destruct H1 as [H1 H3].
  rewrite (N.eqb_sym b a), (N.eqb_sym c a), (N.eqb_sym c b). auto.
Qed.

Record rdh_wf {V} (r : rdh_t V) : Prop := {
  wf_r_top : length (r_top r) = N.to_nat rdh_nfields;
  wf_r_its : length (r_its r) = N.to_nat its_nfields;
  wf_r_trg : length (r_trg r) = N.to_nat trg_nfields }.
Record alp_wf {V} (r : alp_t V) : Prop := {
  wf_a_top : length (a_top r) = N.to_nat alp_nfields;
  wf_a_rof : length (a_rof r) = N.to_nat rof_nfields }.
Record sc_wf {V} (c : sc_t V) : Prop := {
  wf_s_top : length (s_top c) = N.to_nat sc_nfields;
  wf_s_rdh : rdh_wf (s_rdh c);
  wf_s_err : length (s_err c) = N.to_nat err_nfields;
  wf_s_alp : match s_alp c with Some x => alp_wf x | None => True end }.

(* what "the same statistics" means: every leaf that is not a sub-struct placeholder *)
Definition rdh_agree {V} (dflt : V) (a b : rdh_t V) : Prop :=
  (forall i, i < rdh_nfields -> ~ In i rdh_subs -> nth (N.to_nat i) (r_top a) dflt = nth (N.to_nat i) (r_top b) dflt) /\
  r_its a = r_its b /\ r_trg a = r_trg b.
Definition alp_agree {V} (dflt : V) (a b : alp_t V) : Prop :=
  (forall i, i < alp_nfields -> ~ In i alp_subs -> nth (N.to_nat i) (a_top a) dflt = nth (N.to_nat i) (a_top b) dflt) /\
  a_rof a = a_rof b.
(* a = what the run collected, b = the file.  ALPIDE statistics count only when the run collects them. *)
Definition sc_agree {V} (dflt : V) (a b : sc_t V) : Prop :=
  rdh_agree dflt (s_rdh a) (s_rdh b) /\ s_err a = s_err b /\
  match s_alp a with
  | Some x => exists y, s_alp b = Some y /\ alp_agree dflt x y
  | None => True
  end /\
  (forall i, In i sc_macro -> nth (N.to_nat i) (s_top a) dflt = nth (N.to_nat i) (s_top b) dflt).

Ltac split_ok H :=
  repeat match type of H with
         | (_ && _) = true => let H1 := fresh "Hok" in apply andb_true_iff in H; destruct H as [H H1]
         end.

Lemma disjoint_not_in a b i : disjoint_N a b = true -> In i a -> ~ In i b.
Proof.
  unfold disjoint_N. rewrite forallb_forall. intros H Hi Hb. specialize (H i Hi). apply negb_true_iff in H.
  apply in_N_In in Hb. congruence.
Qed.

Lemma in_range_lt n macro i : in_range n macro = true -> In i macro -> i < n.
Proof.
  unfold in_range. intros H Hi. apply andb_true_iff in H. destruct H as [H _]. rewrite forallb_forall in H.
  apply N.ltb_lt. apply H. exact Hi.
Qed.

Lemma some_nil_iff {A} (l : list A) : Some l = Some [] <-> l = [].
Proof. split; congruence. Qed.

Section Tree.
  Context {V : Type} (veqb : V -> V -> bool) (dflt : V) (Hv : veq_ok veqb) (Hall : all_ok = true).

  Lemma rdh_iff a b : rdh_wf a -> rdh_wf b -> (rdh_validate veqb dflt a b = [] <-> rdh_agree dflt a b).
  Proof.
    intros Wa Wb. pose proof Hall as H. unfold all_ok in H. split_ok H.
    match goal with Hp : parent_ok rdh_nfields _ _ _ _ = true |- _ => rename Hp into Hpar end.
    match goal with Hp : covers rdh_nfields _ _ = true |- _ => rename Hp into Hcov end.
    match goal with Hp : disjoint_N rdh_macro _ = true |- _ => rename Hp into Hdis end.
    match goal with Hp : nodup_N rdh_subs = true |- _ => rename Hp into Hnd end.
    match goal with Hp : leaf_ok trg_nfields _ _ = true |- _ => rename Hp into Htrg end.
    assert (Hne : N.eqb IDX_RDH_TRG IDX_RDH_ITS = false).
    { apply nodup_N_2. exact Hnd. }
    unfold rdh_validate.
    rewrite (parent_iff veqb dflt ST_rdh rdh_nfields rdh_macro rdh_recon rdh_deleg rdh_subs _ (r_top a) (r_top b) Hv Hpar).
    2:{ intros i [<-|[<-|[]]]; unfold rdh_subval; rewrite ?N.eqb_refl, ?Hne; eauto. }
    unfold rdh_agree. split.
    - intros [Hs Ht]. split; [|split].
      + intros i Hi Hn. apply Ht. exact (covered_positions _ _ _ i Hcov Hi Hn).
      + specialize (Hs IDX_RDH_ITS (or_introl eq_refl)). unfold rdh_subval in Hs. rewrite N.eqb_refl in Hs.
        apply some_nil_iff in Hs. unfold its_validate in Hs. apply tagged_nil in Hs.
        apply (leaf_iff veqb dflt its_nfields its_macro its_recon) in Hs; [exact Hs|exact Hv|exact H| apply Wa | apply Wb].
      + specialize (Hs IDX_RDH_TRG (or_intror (or_introl eq_refl))). unfold rdh_subval in Hs. rewrite Hne, N.eqb_refl in Hs.
        apply some_nil_iff in Hs. unfold trg_validate in Hs. apply tagged_nil in Hs.
        apply (leaf_iff veqb dflt trg_nfields trg_macro trg_recon) in Hs; [exact Hs|exact Hv|exact Htrg| apply Wa | apply Wb].
    - intros [Ht [Hi Hg]]. split.
      + intros i [<-|[<-|[]]]; unfold rdh_subval; rewrite ?N.eqb_refl, ?Hne; f_equal.
        * unfold its_validate. apply tagged_nil. apply (leaf_iff veqb dflt its_nfields its_macro its_recon); [exact Hv|exact H|apply Wa|apply Wb|exact Hi].
        * unfold trg_validate. apply tagged_nil. apply (leaf_iff veqb dflt trg_nfields trg_macro trg_recon); [exact Hv|exact Htrg|apply Wa|apply Wb|exact Hg].
      + intros i Him. apply Ht.
        * unfold parent_ok in Hpar. split_ok Hpar. eapply in_range_lt; eassumption.
        * exact (disjoint_not_in _ _ i Hdis Him).
  Qed.

  Lemma alp_iff a b : alp_wf a -> alp_wf b -> (alp_validate veqb dflt a b = [] <-> alp_agree dflt a b).
  Proof.
    intros Wa Wb. pose proof Hall as H. unfold all_ok in H. split_ok H.
    match goal with Hp : parent_ok alp_nfields _ _ _ _ = true |- _ => rename Hp into Hpar end.
    match goal with Hp : covers alp_nfields _ _ = true |- _ => rename Hp into Hcov end.
    match goal with Hp : disjoint_N alp_macro _ = true |- _ => rename Hp into Hdis end.
    match goal with Hp : leaf_ok rof_nfields _ _ = true |- _ => rename Hp into Hrof end.
    unfold alp_validate.
    rewrite (parent_iff veqb dflt ST_alp alp_nfields alp_macro alp_recon alp_deleg alp_subs _ (a_top a) (a_top b) Hv Hpar).
    2:{ intros i [<-|[]]; unfold alp_subval; rewrite ?N.eqb_refl; eauto. }
    unfold alp_agree. split.
    - intros [Hs Ht]. split.
      + intros i Hi Hn. apply Ht. exact (covered_positions _ _ _ i Hcov Hi Hn).
      + specialize (Hs IDX_ALP_ROF (or_introl eq_refl)). unfold alp_subval in Hs. rewrite N.eqb_refl in Hs.
        apply some_nil_iff in Hs. unfold rof_validate in Hs. apply tagged_nil in Hs.
        apply (leaf_iff veqb dflt rof_nfields rof_macro rof_recon) in Hs; [exact Hs|exact Hv|exact Hrof| apply Wa | apply Wb].
    - intros [Ht Hr]. split.
      + intros i [<-|[]]; unfold alp_subval; rewrite ?N.eqb_refl; f_equal.
        unfold rof_validate. apply tagged_nil. apply (leaf_iff veqb dflt rof_nfields rof_macro rof_recon); [exact Hv|exact Hrof|apply Wa|apply Wb|exact Hr].
      + intros i Him. apply Ht.
        * unfold parent_ok in Hpar. split_ok Hpar. eapply in_range_lt; eassumption.
        * exact (disjoint_not_in _ _ i Hdis Him).
  Qed.

  Lemma sc_iff a b : sc_wf a -> sc_wf b -> (sc_validate veqb dflt a b = [] <-> sc_agree dflt a b).
  Proof.
    intros Wa Wb. pose proof Hall as H. unfold all_ok in H. split_ok H.
    match goal with Hp : parent_ok sc_nfields _ _ _ _ = true |- _ => rename Hp into Hpar end.
    match goal with Hp : nodup_N sc_subs = true |- _ => rename Hp into Hnd end.
    match goal with Hp : leaf_ok err_nfields _ _ = true |- _ => rename Hp into Herr end.
    assert (Hne : N.eqb IDX_SC_ERR IDX_SC_RDH = false /\ N.eqb IDX_SC_ALP IDX_SC_RDH = false /\ N.eqb IDX_SC_ALP IDX_SC_ERR = false).
    { apply nodup_N_3. exact Hnd. }
    destruct Hne as [Hn1 [Hn2 Hn3]].
    unfold sc_validate.
    rewrite (parent_iff veqb dflt ST_sc sc_nfields sc_macro sc_recon sc_deleg sc_subs _ (s_top a) (s_top b) Hv Hpar).
    2:{ intros i [<-|[<-|[<-|[]]]]; unfold sc_subval; rewrite ?N.eqb_refl, ?Hn1, ?Hn2, ?Hn3; eauto. }
    assert (Halp : sc_alp_validate veqb dflt (s_alp a) (s_alp b) = [] <->
                   match s_alp a with Some x => exists y, s_alp b = Some y /\ alp_agree dflt x y | None => True end).
    { unfold sc_alp_validate. pose proof (wf_s_alp _ Wa) as Wxa. pose proof (wf_s_alp _ Wb) as Wxb.
      destruct (s_alp a) as [x|]; [|tauto]. destruct (s_alp b) as [y|].
      - rewrite (alp_iff x y Wxa Wxb). split; [intros Hg; exists y; auto|]. intros [y' [Hy Hg]]. injection Hy as <-. exact Hg.
      - split; [discriminate|]. intros [y' [Hy _]]. discriminate. }
    unfold sc_agree. split.
    - intros [Hs Ht]. split; [|split; [|split; [|exact Ht]]].
      + specialize (Hs IDX_SC_RDH (or_introl eq_refl)). unfold sc_subval in Hs. rewrite N.eqb_refl in Hs.
        apply some_nil_iff in Hs. apply (rdh_iff _ _ (wf_s_rdh _ Wa) (wf_s_rdh _ Wb)). exact Hs.
      + specialize (Hs IDX_SC_ERR (or_intror (or_introl eq_refl))). unfold sc_subval in Hs. rewrite Hn1, N.eqb_refl in Hs.
        apply some_nil_iff in Hs. unfold err_validate in Hs. apply tagged_nil in Hs.
        apply (leaf_iff veqb dflt err_nfields err_macro err_recon) in Hs; [exact Hs|exact Hv|exact Herr| apply Wa | apply Wb].
      + specialize (Hs IDX_SC_ALP (or_intror (or_intror (or_introl eq_refl)))). unfold sc_subval in Hs. rewrite Hn2, Hn3, N.eqb_refl in Hs.
        apply some_nil_iff in Hs. apply Halp. exact Hs.
    - intros [Hr [He [Ha Ht]]]. split; [|exact Ht].
      intros i [<-|[<-|[<-|[]]]]; unfold sc_subval; rewrite ?N.eqb_refl, ?Hn1, ?Hn2, ?Hn3; f_equal.
      + apply (rdh_iff _ _ (wf_s_rdh _ Wa) (wf_s_rdh _ Wb)). exact Hr.
      + unfold err_validate. apply tagged_nil. apply (leaf_iff veqb dflt err_nfields err_macro err_recon); [exact Hv|exact Herr|apply Wa|apply Wb|exact He].
      + apply Halp. exact Ha.
  Qed.

  Lemma sc_agree_refl a : sc_agree dflt a a.
  Proof.
    unfold sc_agree, rdh_agree. repeat split; try reflexivity.
    destruct (s_alp a) as [x|]; [|exact I]. exists x. split; [reflexivity|]. unfold alp_agree. split; reflexivity.
  Qed.

  Lemma sc_refl a : sc_wf a -> sc_validate veqb dflt a a = [].
  Proof. intros W. apply (sc_iff a a W W). apply sc_agree_refl. Qed.

  Lemma sc_detects a b : sc_wf a -> sc_wf b -> ~ sc_agree dflt a b -> sc_validate veqb dflt a b <> [].
  Proof. intros Wa Wb Hn He. apply Hn. apply (sc_iff a b Wa Wb). exact He. Qed.
End Tree.

Lemma c15_iff_when (ok : bool) : ok = true -> ok = all_ok ->
  forall V (veqb : V -> V -> bool) (dflt : V), veq_ok veqb -> forall a b, sc_wf a -> sc_wf b ->
  (sc_validate veqb dflt a b = [] <-> sc_agree dflt a b).
Proof. intros H1 H2 V veqb dflt Hv a b. apply sc_iff; [exact Hv|congruence]. Qed.

(* a single differing leaf is a disagreement *)
Lemma c15_rdh_leaf {V} (dflt : V) a b i : i < rdh_nfields -> ~ In i rdh_subs ->
  nth (N.to_nat i) (r_top (s_rdh a)) dflt <> nth (N.to_nat i) (r_top (s_rdh b)) dflt -> ~ sc_agree dflt a b.
Proof. intros Hi Hn Hd [[Ht _] _]. apply Hd. apply Ht; assumption. Qed.
Lemma c15_its_leaf {V} (dflt : V) (a b : sc_t V) : r_its (s_rdh a) <> r_its (s_rdh b) -> ~ sc_agree dflt a b.
Proof. intros Hd [[_ [Ht _]] _]. contradiction. Qed.
Lemma c15_trg_leaf {V} (dflt : V) (a b : sc_t V) : r_trg (s_rdh a) <> r_trg (s_rdh b) -> ~ sc_agree dflt a b.
Proof. intros Hd [[_ [_ Ht]] _]. contradiction. Qed.
Lemma c15_err_leaf {V} (dflt : V) (a b : sc_t V) : s_err a <> s_err b -> ~ sc_agree dflt a b.
Proof. intros Hd [_ [Ht _]]. contradiction. Qed.
Lemma c15_alp_leaf {V} (dflt : V) (a b : sc_t V) x : s_alp a = Some x ->
  (forall y, s_alp b = Some y -> a_rof x <> a_rof y) -> ~ sc_agree dflt a b.
Proof. intros Hx Hd [_ [_ [Ht _]]]. rewrite Hx in Ht. destruct Ht as [y [Hy [_ Hr]]]. exact (Hd y Hy Hr). Qed.

(* ---- the flag, the exit status and the file ---- *)
Lemma c15_exit_when (b : bool) : b = true -> b = stats_mismatch_sets_flag ->
  forall n flag, exit_code (Some n) Init_ok (flag_after_compare flag true) = n.
Proof.
  intros H1 H2 n flag. unfold flag_after_compare. rewrite <- H2, H1. rewrite orb_true_r. reflexivity.
Qed.

Lemma c15_no_mismatch_keeps_flag flag : flag_after_compare flag false = flag.
Proof. unfold flag_after_compare. rewrite andb_false_r, orb_false_r. reflexivity. Qed.

Lemma c15_file_when (b : bool) : b = true -> forall A (old new : list A), written_file b old new = new.
Proof. intros -> A old new. reflexivity. Qed.

Lemma c15_file_refuted : exists old new : list N, written_file false old new <> new.
Proof. exists [1; 2; 3], [7]. cbn. discriminate. Qed.

(* round trip: the later run parses what the earlier one wrote and reports nothing *)
Lemma c15_roundtrip_when (ok rep : bool) : ok = true -> ok = all_ok -> rep = true ->
  forall V (veqb : V -> V -> bool) (dflt : V), veq_ok veqb ->
  forall (F : Type) (ser : sc_t V -> list F) (de : list F -> option (sc_t V)), (forall x, de (ser x) = Some x) ->
  forall old a, sc_wf a ->
    exists b, de (written_file rep old (ser a)) = Some b /\ sc_validate veqb dflt a b = [].
Proof.
  intros H1 H2 H3 V veqb dflt Hv F ser de Hrt old a Wa. subst rep. exists a. split; [cbn; apply Hrt|].
  apply sc_refl; [exact Hv|congruence|exact Wa].
Qed.

(* ---- the tree of a collector state (Model/StatsTree.v) ---- *)
Require Import FP.Model.StatsTree FP.Proofs.Interleave FP.Proofs.C05_proofs.

Lemma list_eqb_ok {A} (e : A -> A -> bool) : (forall a b, e a b = true <-> a = b) -> forall a b, list_eqb e a b = true <-> a = b.
Proof.
  intros He. induction a as [|x a IH]; intros [|y b]; cbn; try (split; congruence).
  rewrite andb_true_iff, He, IH. split; [intros [-> ->]; reflexivity|]. intros H. injection H as -> ->. auto.
Qed.
Lemma opt_eqb_ok {A} (e : A -> A -> bool) : (forall a b, e a b = true <-> a = b) -> forall a b, opt_eqb e a b = true <-> a = b.
Proof.
  intros He [x|] [y|]; cbn; try (split; congruence). rewrite He. split; congruence.
Qed.
Lemma pair_eqb_ok a b : pair_eqb a b = true <-> a = b.
Proof.
  destruct a as [a1 a2], b as [b1 b2]. unfold pair_eqb. cbn [fst snd]. rewrite andb_true_iff, !N.eqb_eq. split; [intros [-> ->]; reflexivity|].
  intros H. injection H as -> ->. auto.
Qed.
Lemma emsg_eqb_ok a b : emsg_eqb a b = true <-> a = b.
Proof.
  destruct a as [o1 c1 b1 f1], b as [o2 c2 b2 f2]. unfold emsg_eqb. cbn [m_off m_codes m_body m_fee].
  rewrite !andb_true_iff, !N.eqb_eq, (list_eqb_ok N.eqb N.eqb_eq), (opt_eqb_ok N.eqb N.eqb_eq).
  split; [intros [[[-> ->] ->] ->]; reflexivity|]. intros H. injection H as -> -> -> ->. auto.
Qed.
Lemma sleaf_eqb_ok : veq_ok sleaf_eqb.
Proof.
  intros a b. destruct a, b; cbn; try (split; congruence).
  - rewrite Bool.eqb_true_iff. split; congruence.
  - rewrite N.eqb_eq. split; congruence.
  - rewrite (opt_eqb_ok N.eqb N.eqb_eq). split; congruence.
  - rewrite (list_eqb_ok N.eqb N.eqb_eq). split; congruence.
  - rewrite (list_eqb_ok pair_eqb pair_eqb_ok). split; congruence.
  - rewrite (opt_eqb_ok _ (list_eqb_ok pair_eqb pair_eqb_ok)). split; congruence.
  - rewrite (list_eqb_ok emsg_eqb emsg_eqb_ok). split; congruence.
  - rewrite (opt_eqb_ok emsg_eqb emsg_eqb_ok). split; congruence.
Qed.

Definition tree_shape_ok : bool :=
  N.eqb sc_nfields 4 && N.eqb rdh_nfields 12 && N.eqb its_nfields 1 && N.eqb trg_nfields 20 && N.eqb err_nfields 6 &&
  N.eqb alp_nfields 1 && N.eqb rof_nfields 7.

Lemma tree_of_wf alp s : tree_shape_ok = true -> sc_wf (tree_of alp s).
Proof.
  intros H. unfold tree_shape_ok in H. split_ok H.
  repeat match goal with Hx : N.eqb _ _ = true |- _ => apply N.eqb_eq in Hx end.
  constructor; [| constructor | |]; cbn [tree_of s_top s_rdh s_err s_alp r_top r_its r_trg];
    try (rewrite ?map_length, ?seq_length; cbn [length]; match goal with Hx : ?n = _ |- _ = N.to_nat ?n => rewrite Hx; reflexivity end).
  destruct alp; [|exact I]. constructor; cbn [a_top a_rof]; rewrite ?map_length, ?seq_length; cbn [length];
    match goal with Hx : ?n = _ |- _ = N.to_nat ?n => rewrite Hx; reflexivity end.
Qed.

(* the same input under any two thread schedules: the later run accepts the earlier run's statistics *)
Lemma c15_same_input_when (ok sorted : bool) : ok = true -> ok = (all_ok && tree_shape_ok) -> sorted = true ->
  forall ss a1 a2 mute alp, streams_ok ss -> Interleave ss a1 -> Interleave ss a2 ->
  sc_validate sleaf_eqb L_sub (tree_of alp (finalize sorted mute (collect_all a1))) (tree_of alp (finalize sorted mute (collect_all a2))) = [].
Proof.
  intros H1 H2 H3 ss a1 a2 mute alp Hs Hi1 Hi2. rewrite H1 in H2. symmetry in H2. apply andb_true_iff in H2. destruct H2 as [Ha Ht].
  rewrite (c05_collector_when sorted H3 ss a1 a2 mute Hs Hi1 Hi2).
  apply sc_refl; [exact sleaf_eqb_ok|exact Ha|apply tree_of_wf; exact Ht].
Qed.

(* ---- witnesses: what goes wrong when a list is incomplete or crossed (by computation) ---- *)
Lemma c15_refuted_dropped_field :
  exists a b : list N, a <> b /\ validate_fields N.eqb 0 [0; 1] [(0, 0); (1, 1); (2, 2)] a b = [].
Proof. exists [1; 2; 3], [1; 2; 4]. split; [discriminate|reflexivity]. Qed.

Lemma c15_refuted_crossed_fields :
  exists a : list N, validate_fields N.eqb 0 [0; 1; 2] [(0, 0); (1, 2); (2, 1)] a a <> [].
Proof. exists [1; 2; 3]. cbv. discriminate. Qed.

Lemma c15_nonvacuous : sc_wf (tree_of true cinit) /\ sc_wf (tree_of false cinit) /\ all_ok = true.
Proof. split; [|split]; [apply tree_of_wf; reflexivity|apply tree_of_wf; reflexivity|reflexivity]. Qed.
