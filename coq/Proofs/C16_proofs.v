(* C16: exit status and error accounting. *)
From Coq Require Import List NArith ZArith Bool Lia ZifyBool ZifyN Arith.
From FP Require Import Model.Base Model.Alpide Model.Collector Model.ErrFilter Proofs.C05_proofs.
From FP Require Gen.Facts.
Import ListNotations.
Open Scope N_scope.

(* ------------------------------------------------------------------ the code matcher *)
Lemma after_bracket_app pre rest : Forall (fun c => c <> CH_LBRACKET) pre ->
  after_bracket (pre ++ CH_LBRACKET :: rest) = Some rest.
Proof.
  induction 1 as [|c pre Hc _ IH]; cbn [app after_bracket]; [rewrite N.eqb_refl; reflexivity|].
  destruct (N.eqb_spec c CH_LBRACKET); [contradiction|exact IH].
Qed.

Lemma zip_all_spec : forall f digits post, Forall (fun c => c <> CH_RBRACKET) digits -> Forall (fun c => c <> CH_RBRACKET) f ->
  (match zip_all f (digits ++ CH_RBRACKET :: post) with Some (c :: _) => c =? CH_RBRACKET | _ => false end) = true <-> f = digits.
Proof.
  induction f as [|x f IH]; intros digits post Hd Hf.
  - cbn [zip_all]. destruct digits as [|d digits]; cbn [app].
    + rewrite N.eqb_refl. split; reflexivity || auto.
    + pose proof (Forall_inv Hd) as Hne. destruct (N.eqb_spec d CH_RBRACKET); [contradiction|]. split; discriminate.
  - pose proof (Forall_inv Hf) as Hx. pose proof (Forall_inv_tail Hf) as Hf'.
    destruct digits as [|d digits]; cbn [app zip_all].
    + destruct (N.eqb_spec x CH_RBRACKET); [contradiction|]. split; discriminate.
    + pose proof (Forall_inv_tail Hd) as Hd'. destruct (N.eqb_spec x d) as [->|Hne].
      * rewrite (IH digits post Hd' Hf'). split; [intros ->; reflexivity|intros E; injection E; auto].
      * split; [discriminate|intros E; injection E; intros; contradiction].
Qed.

(* a message whose first '[' opens "[E<digits>]" passes the filter code f iff f is exactly those digits *)
Lemma c16_code_match pre digits post f :
  Forall (fun c => c <> CH_LBRACKET) pre -> Forall (fun c => c <> CH_RBRACKET) digits -> Forall (fun c => c <> CH_RBRACKET) f ->
  match_error_code (pre ++ CH_LBRACKET :: CH_E :: digits ++ CH_RBRACKET :: post) f = true <-> f = digits.
Proof.
  intros Hp Hd Hf. unfold match_error_code. rewrite (after_bracket_app pre _ Hp). apply zip_all_spec; assumption.
Qed.

(* ------------------------------------------------------------------ totals and what is displayed *)
(* invariant of the collector: the total counts exactly the stored non-fatal messages *)
Definition total_inv (s : cstate) : Prop := k_total s = N.of_nat (length (k_errors s) + length (k_custom s)).

Lemma total_inv_update s x : total_inv s -> total_inv (update s x).
Proof.
  unfold total_inv. intros H. destruct x; cbn [update]; try exact H;
    repeat match goal with |- context [set_once ?o ?v] => destruct (set_once o v) end; try exact H.
  - destruct (k_fatal s); [exact H|]. cbn. rewrite app_length. cbn. lia.
  - destruct (k_fatal s); exact H.
Qed.
Lemma total_inv_collect a : total_inv (collect_all a).
Proof.
  unfold collect_all. assert (G : forall s, total_inv s -> total_inv (fold_left update a s)).
  { induction a as [|x a IH]; intros s H; cbn [fold_left]; [exact H|]. apply IH, total_inv_update, H. }
  apply G. reflexivity.
Qed.
Lemma total_inv_custom s es : total_inv s -> total_inv (add_custom s es).
Proof. unfold total_inv, add_custom. cbn. intros H. rewrite app_length. lia. Qed.

Lemma sort_fold_length l : forall acc, length (fold_left (fun a m => insert_msg m a) l acc) = (length acc + length l)%nat.
Proof.
  assert (I : forall m acc, length (insert_msg m acc) = S (length acc)).
  { intros m acc. induction acc as [|y acc IH]; cbn [insert_msg]; [reflexivity|]. destruct (m_off m <? m_off y); cbn [length]; [reflexivity|]. rewrite IH. reflexivity. }
  induction l as [|m l IH]; intros acc; cbn [fold_left length]; [lia|]. rewrite IH, I. lia.
Qed.
Lemma sort_msgs_length l : length (sort_msgs l) = length l.
Proof. unfold sort_msgs. rewrite sort_fold_length. reflexivity. Qed.

Lemma total_inv_finalize sm mute s : total_inv s -> total_inv (finalize sm mute s).
Proof.
  unfold total_inv, finalize. intros H. destruct (k_finalized s); [exact H|]. cbn.
  destruct (negb mute || sm); rewrite ?sort_msgs_length; exact H.
Qed.

(* no display option: every message is shown and, without a fatal error, their number is the total *)
Lemma c16_total d s : d_mute d = false -> d_cap d = 0 -> d_filter d = None -> total_inv s ->
  displayed d s = (if k_total s =? 0 then [] else all_messages s) /\
  (k_fatal s = None -> N.of_nat (length (all_messages s)) = k_total s).
Proof.
  intros Hm Hc Hf Ht. unfold displayed. rewrite Hm, Hc, Hf. cbn [orb N.eqb]. split; [destruct (k_total s =? 0); reflexivity|].
  intros Hn. unfold all_messages. rewrite Hn, Ht. cbn [app]. rewrite app_length. reflexivity.
Qed.

(* muting shows nothing; the cap shows at most that many; neither changes the total (displayed does not touch the state) *)
Lemma c16_mute d s : d_mute d = true -> displayed d s = [].
Proof. intros H. unfold displayed. rewrite H. reflexivity. Qed.
Lemma c16_cap d s : d_cap d <> 0 -> N.of_nat (length (displayed d s)) <= d_cap d.
Proof.
  intros H. unfold displayed. destruct (d_mute d || (k_total s =? 0)); [cbn; lia|].
  destruct (N.eqb_spec (d_cap d) 0); [contradiction|]. unfold firstn_N. rewrite firstn_length. lia.
Qed.

(* with an error-code filter exactly the messages whose first code is listed are shown (then capped):
   reducing the filter to the codes actually seen does not change the selection *)
Lemma uniq_codes_in c : forall l seen, In c (uniq_codes seen l) <-> In c seen \/ In c l.
Proof.
  induction l as [|x l IH]; intros seen; cbn [uniq_codes In]; [tauto|].
  rewrite IH. unfold add_new. destruct (existsb (N.eqb x) seen) eqn:E.
  - apply existsb_exists in E. destruct E as (y & Hy & Ey). apply N.eqb_eq in Ey. subst y. cbn [In]. split; [tauto|]. intros [H|[<-|H]]; tauto.
  - rewrite in_app_iff. cbn [In]. tauto.
Qed.
Lemma unique_codes_in c errs custom : In c (unique_error_codes errs custom) <-> In c (flat_map m_codes errs) \/ In c (flat_map m_codes custom).
Proof. unfold unique_error_codes. rewrite !uniq_codes_in. cbn [In]. tauto. Qed.

Lemma c16_filter_minified codes uniq m : (forall c, first_code m = Some c -> In c uniq) ->
  code_listed (filter (fun c => existsb (N.eqb c) uniq) codes) m = code_listed codes m.
Proof.
  intros H. unfold code_listed. destruct (first_code m) as [c|] eqn:E; [|reflexivity].
  specialize (H c eq_refl).
  induction codes as [|x codes IH]; [reflexivity|]. cbn [filter existsb].
  destruct (existsb (N.eqb x) uniq) eqn:Ex; cbn [existsb]; rewrite IH; [reflexivity|].
  destruct (N.eqb_spec c x) as [->|Hne]; [|reflexivity].
  exfalso. assert (existsb (N.eqb x) uniq = true) by (apply existsb_exists; exists x; split; [exact H|apply N.eqb_refl]). congruence.
Qed.

(* ------------------------------------------------------------------ exit status *)
(* the decision table of the documented contract *)
Definition exit_spec (any_errors_exit : option N) (init_ok : bool) (anything_reported : bool) : N :=
  if negb init_ok then 1
  else match any_errors_exit with
       | Some n => if anything_reported then n else 0
       | None => 0
       end.
Lemma c16_exit_table aee r flag : exit_code aee r flag = exit_spec aee (match r with Init_ok => true | Init_failed => false end) flag.
Proof. destruct r; reflexivity. Qed.
