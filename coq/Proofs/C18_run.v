(* C18 composed over scanner, dispatcher and validators: for every cut position, every dispatch unit's findings for the complete packets
   before the cut are the SAME in the run on the truncated input and in the run on the whole input -- both reports start, unit by unit,
   with the findings of one pass over the unit's complete packets; what the truncated run adds comes from at most one more packet, the
   header of the packet whose payload was cut. *)
From Coq Require Import List NArith Bool Lia.
Import ListNotations.
From FP Require Import Model.Base Model.Rdh Model.Alpide Model.CdpRunning Model.Scanner Model.Link Spec.Framing
  Proofs.C03_proofs Proofs.C06_proofs Proofs.C18_proofs Proofs.C04_stave Proofs.C18_total.
From FP Require Gen.Facts.
Open Scope N_scope.

Lemma sel_app vc id a b : sel vc id (a ++ b) = sel vc id a ++ sel vc id b.
Proof. unfold sel. apply filter_app. Qed.

(* a run of the unit's validator over `base ++ more`: it extends the findings over `base`, or stops at the invalid-layer site *)
Definition extends_or_layer7 (vc : vcfg) (msgs : list vmsg) (ps : list cdp) : Prop :=
  (exists more, run_validator vc ps = Ok (msgs ++ more)) \/
  (run_validator vc ps = Panic SITE_stave_from_feeid /\ exists q, In q ps /\ 6 < layer_from_feeid (r_fee_id (c_rdh q))).

Theorem c18_units_when (b keep : bool) (H : sites_handled) : b = true -> keep = true ->
  forall c vc pkts k id, Forall wf_pkt pkts -> (k <= length (serialize pkts))%nat ->
  let '(pre, t) := cut_at k pkts in
  let base := map (mk_cdp c) (selected c 0 pre) in
  let cut := concat (so_batches (scan b keep c (firstn k (serialize pkts)))) in
  let full := concat (so_batches (scan b keep c (serialize pkts))) in
  (exists tl, cut = base ++ tl /\ (length tl <= 1)%nat) /\
  forall msgs, run_validator vc (sel vc id base) = Ok msgs ->
    extends_or_layer7 vc msgs (sel vc id cut) /\ extends_or_layer7 vc msgs (sel vc id full).
Proof.
  intros Hb Hk c vc pkts k id Hwf Hle.
  pose proof (c18_scan_truncated_when b keep Hb Hk c pkts k Hwf Hle) as T.
  destruct (cut_at k pkts) as [pre t]. cbv zeta in T |- *. destruct T as (Ec & (rest & Ef) & Hl & _).
  split; [exists (tail_cdps c (total_size pre) t); split; [exact Ec|exact Hl]|].
  intros msgs Hm. rewrite Ec, Ef, !sel_app. split; exact (c18_validator_prefix_total H vc _ _ msgs Hm).
Qed.
