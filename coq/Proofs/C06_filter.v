(* C06, the filter clause: what a whole run with --filter-link reports is exactly the link's part of what the whole run WITHOUT the
   filter reports -- same messages, same offsets, same order. *)
From Coq Require Import List NArith ZArith Bool Lia.
From FP Require Import Model.Base Model.Rdh Model.RdhChecks Model.Payload Model.Alpide Model.Scanner Model.CdpRunning Model.Link
  Model.Collector Model.System Spec.RdhRules Spec.Framing Spec.GroundTruth
  Proofs.C03_proofs Proofs.C05_proofs Proofs.C06_proofs Proofs.C07_run Proofs.C14_proofs Proofs.C04_system Proofs.C05_run Proofs.C06_run Proofs.C10_whole.
From FP Require Gen.Facts.
Import ListNotations.
Open Scope N_scope.

Lemma filter_all {A} (f : A -> bool) l : (forall x, In x l -> f x = true) -> filter f l = l.
Proof. induction l as [|x l IH]; intros H; [reflexivity|]. cbn [filter]. rewrite (H x (or_introl eq_refl)), IH; [reflexivity|]. intros y Hy. apply H. right. exact Hy. Qed.

Section FilterEquiv.
Context (c1 c2 : run_cfg) (pkts : list packet) (id : N).
Context (Hoff : Gen.Facts.cdp_offset_sampled_after = true).
Context (Hsort : Gen.Facts.error_sort_when_muted = true).
Context (Hwf : Forall wf_pkt pkts).
Context (Hn : N.of_nat (length pkts) < U32_MAX).
Context (Hpay : pay_all pkts < U32_MAX).
Context (Hlay : forall p, In p pkts -> layout_rp (hdr p) (p_payload p)).
Context (Hknown : forall p r, pkts = p :: r -> known_sysid (r_system_id (hdr p)) = true).
(* the same check configuration, validators per link id; run 1 unfiltered, run 2 with --filter-link id; payload handling alike *)
Context (Hcheck : rc_check c2 = rc_check c1).
Context (Hf1 : sc_filter (rc_scan c1) = None).
(* the filter of the second run selects exactly the packets of the dispatch unit `id` of the first *)
Context (Hkey : forall r, matches_opt (sc_filter (rc_scan c2)) r = (disp_id (rc_check c1) {| c_rdh := r; c_payload := []; c_off := 0 |} =? id)).
Context (Hdisp_rdh : forall p q, c_rdh p = c_rdh q -> disp_id (rc_check c1) p = disp_id (rc_check c1) q).
Context (Hskip : sc_skip (rc_scan c2) = sc_skip (rc_scan c1)).

Let vc := rc_check c1.
Let cdps1 := map (mk_cdp (rc_scan c1)) (selected (rc_scan c1) 0 pkts).
Let cdps2 := map (mk_cdp (rc_scan c2)) (selected (rc_scan c2) 0 pkts).

Lemma mk_same op : mk_cdp (rc_scan c2) op = mk_cdp (rc_scan c1) op.
Proof. unfold mk_cdp. rewrite Hskip. reflexivity. Qed.

Lemma filtered_is_unit : cdps2 = sel vc id cdps1.
Proof.
  unfold cdps2, cdps1, sel, selected, pmatch. rewrite Hf1. cbn [matches_opt].
  rewrite filter_map_comm, (map_ext _ _ mk_same). f_equal.
  rewrite (filter_all (fun _ => true)) by reflexivity.
  apply filter_ext. intros op. unfold vc. rewrite Hkey. rewrite (Hdisp_rdh {| c_rdh := decode_rdh (p_hdr (snd op)); c_payload := []; c_off := 0 |} (mk_cdp (rc_scan c1) op) eq_refl). reflexivity.
Qed.

Lemma unit_of_filtered : sel vc id cdps2 = cdps2.
Proof. rewrite filtered_is_unit. apply sel_idem. Qed.

Theorem c06_filter_equiv ff s1 sh1 e1 s2 sh2 e2 : sel vc id cdps1 <> [] ->
  run_check ff c1 (serialize pkts) = R_done s1 sh1 e1 -> run_check ff c2 (serialize pkts) = R_done s2 sh2 e2 ->
  filter (fun m => in_unitb (sel vc id cdps1) (m_off m)) (k_errors s1) = k_errors s2.
Proof.
  intros Hne R1 R2.
  (* neither run's validator of the link crashes: both runs ended with a report *)
  assert (Hms : exists ms, run_validator vc (sel vc id cdps1) = Ok ms).
  { destruct (run_validator vc (sel vc id cdps1)) as [ms|site] eqn:E; [exists ms; reflexivity|]. exfalso.
    unfold run_check in R1. destruct (Nat.ltb _ _); [discriminate|]. destruct (negb _); [discriminate|]. cbv zeta in R1.
    fold (gather (run_dispatch (rc_check c1) (concat (so_batches (scan_impl (rc_scan c1) (serialize pkts)))))) in R1.
    destruct (gather _) as [v|q] eqn:Eg; [|discriminate].
    destruct (whole_streams c1 pkts Hoff Hwf Hn Hpay Hknown) as (_ & _ & _ & _ & _ & _ & Ec). rewrite Ec in Eg. fold cdps1 in Eg. fold vc in Eg.
    pose proof (c06_alone vc cdps1 id Hne) as Hin. rewrite E in Hin.
    clear - Eg Hin. revert v Eg. induction (run_dispatch vc cdps1) as [|[i r] l IH]; intros v Eg; [destruct Hin|].
    cbn in Eg. fold (gather l) in Eg. destruct (gather l) as [x|q] eqn:El; [|discriminate].
    destruct Hin as [Hin|Hin]; [injection Hin as -> ->; discriminate|]. destruct r; [|discriminate]. exact (IH Hin x eq_refl). }
  destruct Hms as [ms Hms].
  pose proof (c06_whole_run c1 pkts Hoff Hsort Hwf Hn Hpay (or_intror Hlay) Hknown ff s1 sh1 e1 id ms R1 Hne Hms) as W1.
  fold cdps1 in W1. fold vc in W1. rewrite W1.
  assert (Hne2 : sel (rc_check c2) id cdps2 <> []) by (rewrite Hcheck; fold vc; rewrite unit_of_filtered, filtered_is_unit; exact Hne).
  assert (Hms2 : run_validator (rc_check c2) (sel (rc_check c2) id cdps2) = Ok ms) by (rewrite Hcheck; fold vc; rewrite unit_of_filtered, filtered_is_unit; exact Hms).
  pose proof (c06_whole_run c2 pkts Hoff Hsort Hwf Hn Hpay (or_intror Hlay) Hknown ff s2 sh2 e2 id ms R2 Hne2 Hms2) as W2.
  fold cdps2 in W2. rewrite Hcheck in W2. fold vc in W2. rewrite unit_of_filtered, filtered_is_unit in W2.
  rewrite <- W2. apply filter_all. intros m Hm.
  destruct (c07_whole_run c2 pkts Hoff Hwf Hn Hpay (or_intror Hlay) Hknown ff s2 sh2 e2 R2 m Hm) as (q & Hq & Sq & _).
  fold cdps2 in Hq. rewrite filtered_is_unit in Hq.
  apply in_unitb_true. exists q. split; [exact Hq|apply start_inside, Sq].
Qed.
End FilterEquiv.

(* the three instances: validators per link id with --filter-link; validators per FEE id (`check all its-stave`) with --filter-fee *)
Lemma disp_rdh_only vc p q : c_rdh p = c_rdh q -> disp_id vc p = disp_id vc q.
Proof. intros E. unfold disp_id. rewrite E. reflexivity. Qed.

Theorem c06_filter_equiv_link c1 c2 pkts id : Gen.Facts.cdp_offset_sampled_after = true -> Gen.Facts.error_sort_when_muted = true ->
  Forall wf_pkt pkts -> N.of_nat (length pkts) < U32_MAX -> pay_all pkts < U32_MAX ->
  (forall p, In p pkts -> layout_rp (hdr p) (p_payload p)) ->
  (forall p r, pkts = p :: r -> known_sysid (r_system_id (hdr p)) = true) ->
  rc_check c2 = rc_check c1 -> (forall p, disp_id (rc_check c1) p = r_link_id (c_rdh p)) ->
  sc_filter (rc_scan c1) = None -> sc_filter (rc_scan c2) = Some (F_link id) -> sc_skip (rc_scan c2) = sc_skip (rc_scan c1) ->
  forall ff s1 sh1 e1 s2 sh2 e2,
  sel (rc_check c1) id (map (mk_cdp (rc_scan c1)) (selected (rc_scan c1) 0 pkts)) <> [] ->
  run_check ff c1 (serialize pkts) = R_done s1 sh1 e1 -> run_check ff c2 (serialize pkts) = R_done s2 sh2 e2 ->
  filter (fun m => in_unitb (sel (rc_check c1) id (map (mk_cdp (rc_scan c1)) (selected (rc_scan c1) 0 pkts))) (m_off m)) (k_errors s1) = k_errors s2.
Proof.
  intros Hoff Hsort Hwf Hn Hpay Hlay Hknown Hcheck Hdisp Hf1 Hf2 Hskip.
  apply (c06_filter_equiv c1 c2 pkts id Hoff Hsort Hwf Hn Hpay Hlay Hknown Hcheck Hf1); [|apply disp_rdh_only|exact Hskip].
  intros r. rewrite Hf2, Hdisp. reflexivity.
Qed.

Theorem c06_filter_equiv_fee c1 c2 pkts id : Gen.Facts.cdp_offset_sampled_after = true -> Gen.Facts.error_sort_when_muted = true ->
  Forall wf_pkt pkts -> N.of_nat (length pkts) < U32_MAX -> pay_all pkts < U32_MAX ->
  (forall p, In p pkts -> layout_rp (hdr p) (p_payload p)) ->
  (forall p r, pkts = p :: r -> known_sysid (r_system_id (hdr p)) = true) ->
  rc_check c2 = rc_check c1 -> (forall p, disp_id (rc_check c1) p = r_fee_id (c_rdh p)) ->
  sc_filter (rc_scan c1) = None -> sc_filter (rc_scan c2) = Some (F_fee id) -> sc_skip (rc_scan c2) = sc_skip (rc_scan c1) ->
  forall ff s1 sh1 e1 s2 sh2 e2,
  sel (rc_check c1) id (map (mk_cdp (rc_scan c1)) (selected (rc_scan c1) 0 pkts)) <> [] ->
  run_check ff c1 (serialize pkts) = R_done s1 sh1 e1 -> run_check ff c2 (serialize pkts) = R_done s2 sh2 e2 ->
  filter (fun m => in_unitb (sel (rc_check c1) id (map (mk_cdp (rc_scan c1)) (selected (rc_scan c1) 0 pkts))) (m_off m)) (k_errors s1) = k_errors s2.
Proof.
  intros Hoff Hsort Hwf Hn Hpay Hlay Hknown Hcheck Hdisp Hf1 Hf2 Hskip.
  apply (c06_filter_equiv c1 c2 pkts id Hoff Hsort Hwf Hn Hpay Hlay Hknown Hcheck Hf1); [|apply disp_rdh_only|exact Hskip].
  intros r. rewrite Hf2, Hdisp. reflexivity.
Qed.
