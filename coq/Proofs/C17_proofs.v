From Coq Require Import List Arith Bool Lia.
From FP Require Import Model.Protocol.
Import ListNotations.
Ltac unf := unfold push_sq, push_iq, do_flush, set_stop, set_open, set_input, set_lstop, set_r, set_dq,
  set_mrecv, set_a, set_alive, set_vs, set_w, set_wbuf, set_wout, set_iq, set_sq, set_m, set_c,
  set_errs, set_fatal, set_panic, set_sigs, set_hardexit in *.
Lemma sum_w_app {A} (w : A -> nat) l1 l2 : sum_w w (l1 ++ l2) = sum_w w l1 + sum_w w l2.
Proof. induction l1 as [|x l1 IH]; simpl; [reflexivity|]. rewrite IH. lia. Qed.

Lemma sum_w_upd (g : vst -> vst) vs : forall i v, nth_error vs i = Some v ->
  sum_w wv (upd i g vs) + wv v = sum_w wv vs + wv (g v).
Proof.
  induction vs as [|x vs IH]; intros [|i] v H; simpl in *; try discriminate.
  - inversion H; subst. lia.
  - specialize (IH _ _ H). lia.
Qed.

Lemma sum_w_upd_inc g vs i v d : nth_error vs i = Some v -> wv (g v) = wv v + d ->
  sum_w wv (upd i g vs) = sum_w wv vs + d.
Proof. intros H E. pose proof (sum_w_upd g vs i v H). lia. Qed.
Lemma sum_w_upd_dec g vs i v d : nth_error vs i = Some v -> wv (g v) + d = wv v ->
  sum_w wv (upd i g vs) + d = sum_w wv vs.
Proof. intros H E. pose proof (sum_w_upd g vs i v H). lia. Qed.

Definition mu0 (s : state) : nat :=
  pcw_r (s_r s) + sum_w wb (s_dq s) + pcw_a (s_a s) + sum_w wv (s_vs s)
  + pcw_w (s_w s) + 2 * length (s_iq s) + length (s_sq s) + pcw_m (s_m s) + pcw_c (s_c s)
  + (if s_stop s then 0 else 1) + (if s_open s then 1 else 0) + (if s_panic s then 0 else 1)
  + (1 - s_sigs s) + (if s_hardexit s then 0 else 1).
Lemma mu_split f s : mu f s = w_input f s + mu0 s.
Proof. unfold mu, mu0. lia. Qed.

Lemma w_input_same f s s' : s_r s' = s_r s -> s_input s' = s_input s -> s_stop s' = s_stop s ->
  w_input f s' = w_input f s.
Proof. unfold w_input. intros -> -> ->. reflexivity. Qed.

Lemma w_input_stop f s s' : s_r s' = s_r s -> s_input s' = s_input s -> s_stop s' = true ->
  w_input f s' <= w_input f s.
Proof.
  unfold w_input. intros -> -> ->. rewrite andb_true_r.
  destruct (pf_reader_polls f); cbn; [|destruct (s_stop s); lia].
  destruct (s_stop s); [lia|]. destruct (s_r s); try lia. destruct (s_input s); cbn; lia.
Qed.

Ltac ifs := repeat match goal with |- context [if ?b then _ else _] => destruct b end.
Ltac rw := repeat match goal with H : ?t = _ |- context [?t] => rewrite H end.
Ltac crunch := unfold push_sq, push_iq, do_flush in *; cbn; rw; rewrite ?app_length, ?sum_w_app; cbn; unfold wi, wb in *;
  first [lia | ifs; cbn; lia].
Ltac got H := inversion H; subst; clear H.
(* a step of a thread other than the reader that leaves the stop flag alone *)
Ltac same_input := rewrite !mu_split;
  match goal with |- w_input ?f ?a + _ < w_input ?f ?b + _ =>
    replace (w_input f a) with (w_input f b) by (symmetry; apply w_input_same; reflexivity) end.

Lemma mu_reader f s s' : step_reader f s = Some s' -> mu f s' < mu f s.
Proof.
  intros H. unfold step_reader in H. rewrite !mu_split. unfold mu0, w_input.
  destruct (s_r s) eqn:Hr.
  - destruct (pf_reader_polls f && s_stop s) eqn:Hc; cbn in H.
    + got H. crunch.
    + destruct (s_lstop s); got H; crunch.
  - destruct (s_input s) as [|b rest] eqn:Hi; got H.
    + crunch.
    + crunch.
  - destruct (receivers0 s); [got H; crunch|].
    destruct (length (s_dq s) <? pf_dcap f); got H; crunch.
  - discriminate.
Qed.

Lemma mu_main f s s' : step_main f s = Some s' -> mu f s' < mu f s.
Proof.
  intros H. unfold step_main in H.
  destruct (s_m s) eqn:Hm.
  - got H. destruct (pf_main_drops_recv f); same_input; unfold mu0; crunch.
  - destruct (s_iq s) as [|k rest] eqn:Hi; [destruct (reader_done s); got H|got H]; same_input; unfold mu0; crunch.
  - destruct (consumer_alive s); got H; same_input; unfold mu0; crunch.
  - destruct (s_c s); got H; same_input; unfold mu0; crunch.
  - discriminate.
Qed.

Lemma mu_analysis f i c s s' : s_panic s = false -> step_analysis f i c s = Some s' -> mu f s' < mu f s.
Proof.
  intros Hp H. unfold step_analysis in H.
  destruct (s_a s) as [| | |b|l| | |] eqn:Ha; try discriminate.
  - destruct (pf_analysis_polls f && s_stop s); got H; same_input; unfold mu0; crunch.
  - destruct (s_dq s) as [|b rest] eqn:Hd; [destruct (reader_done s); got H|got H]; same_input; unfold mu0; crunch.
  - got H. same_input; unfold mu0. destruct (c_mode (s_cfg s)); crunch.
  - destruct l as [|k l]; [got H; same_input; unfold mu0; crunch|].
    destruct (c_mode (s_cfg s)) eqn:Hmode.
    2:{ destruct (s_open s) eqn:Ho; [got H; same_input; unfold mu0; crunch|].
        destruct (pf_view_err_handled f); got H; same_input; unfold mu0; crunch. }
    all: destruct (nth_error (s_vs s) i) as [v|] eqn:Hn;
      [ destruct (v_done v) eqn:Hvd; [got H; same_input; unfold mu0; crunch|];
        destruct (length (v_q v) <? v_cap v); got H;
        same_input; unfold mu0; cbn;
        rewrite (sum_w_upd_inc _ _ _ _ 2 Hn) by (unfold wv; cbn; rewrite app_length; cbn; lia); crunch
      | destruct ((i =? length (s_vs s)) && (pf_vcap_min f <=? c)); got H; same_input; unfold mu0; crunch ].
  - got H. destruct (pf_join_clears f); same_input; unfold mu0; crunch.
  - destruct (all_done (s_vs s)); got H; same_input; unfold mu0; crunch.
Qed.

Lemma mu_valid f i s s' : step_valid i s = Some s' -> mu f s' < mu f s.
Proof.
  intros H. unfold step_valid in H.
  destruct (nth_error (s_vs s) i) as [v|] eqn:Hn; [|discriminate].
  destruct (v_done v) eqn:Hvd; [discriminate|].
  destruct (v_q v) as [|k q] eqn:Hq.
  - destruct (s_alive s); got H.
    pose proof (sum_w_upd_dec (fun v0 => {| v_q := []; v_cap := v_cap v0; v_done := true |}) _ _ _ 1 Hn) as Hs.
    same_input; unfold mu0; cbn. rewrite <- Hs by (unfold wv; cbn; rewrite Hvd, Hq; cbn; lia). crunch.
  - got H.
    pose proof (sum_w_upd_dec (fun v0 => {| v_q := q; v_cap := v_cap v0; v_done := false |}) _ _ _ 2 Hn) as Hs.
    same_input; unfold mu0; cbn. rewrite <- Hs by (unfold wv; cbn; rewrite Hvd, Hq; cbn; lia). crunch.
Qed.

Lemma mu_writer f fl s s' : s_panic s = false -> step_writer f fl s = Some s' -> mu f s' < mu f s.
Proof.
  intros Hp H. unfold step_writer in H.
  destruct (s_w s) as [| |b|b| |] eqn:Hw; try discriminate.
  - destruct (s_dq s) as [|b rest] eqn:Hd; [destruct (reader_done s); got H|got H]; same_input; unfold mu0; crunch.
  - destruct (pf_writer_polls f && s_stop s); got H; same_input; unfold mu0; crunch.
  - destruct fl; [destruct (w_flush_ok s); [|destruct (pf_writer_err_handled f)]|]; got H; same_input; unfold mu0; crunch.
  - destruct (w_flush_ok s); [|destruct (pf_writer_err_handled f)]; got H; same_input; unfold mu0; crunch.
Qed.

Lemma mu_ctrl f s s' : s_panic s = false -> step_ctrl f s = Some s' -> mu f s' < mu f s.
Proof.
  intros Hp H. unfold step_ctrl in H.
  destruct (s_c s) eqn:Hc; try discriminate.
  - destruct (s_sq s) as [|k rest] eqn:Hq.
    + destruct (stats_senders0 s); got H; same_input; unfold mu0; crunch.
    + destruct k.
      * got H; same_input; unfold mu0; crunch.
      * destruct (s_fatal s); [got H; same_input; unfold mu0; crunch|].
        destruct ((0 <? c_cap (s_cfg s)) && (S (s_errs s) =? c_cap (s_cfg s))); got H.
        -- rewrite !mu_split. match goal with |- w_input f ?a + _ < _ => assert (w_input f a <= w_input f s) by (apply w_input_stop; reflexivity) end.
           unfold mu0; crunch.
        -- same_input; unfold mu0; crunch.
      * destruct (s_fatal s); got H; [same_input; unfold mu0; crunch|].
        rewrite !mu_split. match goal with |- w_input f ?a + _ < _ => assert (w_input f a <= w_input f s) by (apply w_input_stop; reflexivity) end.
        unfold mu0; crunch.
  - destruct (c_stats_stdout (s_cfg s) && negb (s_open s) && negb (pf_stats_stdout_handled f)); got H; same_input; unfold mu0; crunch.
Qed.

Theorem mu_decreases f l s s' : step f l s = Some s' -> mu f s' < mu f s.
Proof.
  unfold step. destruct (s_panic s) eqn:Hp; [discriminate|]. destruct (s_hardexit s) eqn:Hh; [discriminate|].
  destruct l.
  - destruct (1 <=? s_sigs s) eqn:Hs; [discriminate|]. apply Nat.leb_gt in Hs.
    destruct (s_stop s && negb (pf_handler_own_counter f)); intros H; got H.
    + same_input; unfold mu0; crunch.
    + rewrite !mu_split. match goal with |- w_input f ?a + _ < _ => assert (w_input f a <= w_input f s) by (apply w_input_stop; reflexivity) end.
      unfold mu0; crunch.
  - destruct (s_open s) eqn:Ho; [|discriminate]. intros H; got H. same_input; unfold mu0; crunch.
  - apply mu_reader.
  - apply mu_main.
  - apply mu_analysis; assumption.
  - apply mu_valid.
  - apply mu_writer; assumption.
  - apply mu_ctrl; assumption.
Qed.
