(* C18: input truncated at any byte. *)
From Coq Require Import List NArith ZArith Bool Lia ZifyBool ZifyN ZifyNat Arith.
From FP Require Import Model.Base Model.Rdh Model.Scanner Model.CdpRunning Model.Link Spec.RdhRules Spec.Framing
  Proofs.RdhFacts Proofs.C12_proofs Proofs.C03_proofs.
From FP Require Gen.Facts.
Import ListNotations.
Open Scope N_scope.
Ltac Zify.zify_post_hook ::= Z.div_mod_to_equations.

(* ------------------------------------------------------------------ where a cut falls *)
Definition psz (p : packet) : nat := (64 + length (p_payload p))%nat.

(* the complete packets inside the first k bytes and what is left of the packet the cut falls in *)
Fixpoint cut_at (k : nat) (pkts : list packet) : list packet * tail :=
  match pkts with
  | [] => ([], TL_none)
  | p :: r =>
      if Nat.leb (psz p) k then let '(pre, t) := cut_at (k - psz p) r in (p :: pre, t)
      else if Nat.eqb k 0 then ([], TL_none)
      else if Nat.ltb k 64 then ([], TL_hdr (firstn k (p_hdr p)))
      else ([], TL_cut p (k - 64))
  end.

Lemma p_bytes_length p : wf_pkt p -> length (p_bytes p) = psz p.
Proof. intros ((Hl & _) & _). unfold p_bytes, psz. rewrite app_length, Hl. reflexivity. Qed.

Lemma cut_at_spec : forall pkts k, Forall wf_pkt pkts -> (k <= length (serialize pkts))%nat ->
  let '(pre, t) := cut_at k pkts in
  firstn k (serialize pkts) = serialize pre ++ tail_bytes t /\ tail_ok t /\ Forall wf_pkt pre /\
  exists post, pkts = pre ++ post.
Proof.
  induction pkts as [|p r IH]; intros k Hwf Hk.
  - cbn in *. assert (k = 0)%nat by lia. subst. cbn. repeat split; [constructor | exists []; reflexivity].
  - pose proof (Forall_inv Hwf) as Hp; pose proof (Forall_inv_tail Hwf) as Hr.
    cbn [cut_at]. rewrite serialize_cons in *. rewrite app_length, (p_bytes_length p Hp) in Hk.
    destruct (Nat.leb_spec (psz p) k) as [Hle|Hlt].
    + specialize (IH (k - psz p)%nat Hr ltac:(lia)).
      destruct (cut_at (k - psz p) r) as [pre t]. destruct IH as (Hf & Hok & Hpre & post & Hpost).
      split; [|split; [exact Hok|split; [constructor; assumption|exists post; cbn; rewrite Hpost; reflexivity]]].
      rewrite firstn_app, (p_bytes_length p Hp).
      rewrite firstn_all2 by (rewrite (p_bytes_length p Hp); lia).
      rewrite Hf, serialize_cons, app_assoc. reflexivity.
    + destruct (Nat.eqb_spec k 0) as [->|Hk0].
      * cbn. repeat split; [constructor | exists (p :: r); reflexivity].
      * rewrite firstn_app, (p_bytes_length p Hp).
        replace (k - psz p)%nat with 0%nat by lia. rewrite firstn_O, app_nil_r.
        destruct Hp as ((Hl & Hb) & Hrest). unfold p_bytes.
        destruct (Nat.ltb_spec k 64) as [H64|H64].
        -- rewrite firstn_app. replace (k - length (p_hdr p))%nat with 0%nat by lia. rewrite firstn_O, app_nil_r.
           cbn [serialize map concat app tail_bytes tail_ok].
           repeat split; [rewrite firstn_length; lia | constructor | exists (p :: r); reflexivity].
        -- rewrite firstn_app, Hl. rewrite firstn_all2 by lia.
           cbn [serialize map concat app tail_bytes tail_ok].
           split; [reflexivity|]. split; [split; [exact (Forall_inv Hwf)|unfold psz in Hlt; lia]|].
           split; [constructor | exists (p :: r); reflexivity].
Qed.

(* ------------------------------------------------------------------ the scanner on a truncated input *)
Lemma serialize_app a b : serialize (a ++ b) = serialize a ++ serialize b.
Proof. unfold serialize. rewrite map_app, concat_app. reflexivity. Qed.

Lemma tail_len_fuel pre t : Forall wf_pkt pre -> tail_ok t ->
  (length pre + need t < scan_fuel (serialize pre ++ tail_bytes t))%nat.
Proof.
  intros Hwf Hok. pose proof (serialize_length pre Hwf) as HL. unfold scan_fuel. rewrite app_length.
  destruct t as [|b|p j]; cbn [need tail_bytes length].
  - assert (length pre <= (length (serialize pre) + 0) / 64)%nat by (apply Nat.div_le_lower_bound; lia). lia.
  - assert (length pre <= (length (serialize pre) + length b) / 64)%nat by (apply Nat.div_le_lower_bound; lia). lia.
  - destruct Hok as (((Hl & _) & _) & _). rewrite app_length, Hl.
    assert (length pre + 1 <= (length (serialize pre) + (64 + length (firstn j (p_payload p)))) / 64)%nat
      by (apply Nat.div_le_lower_bound; lia). lia.
Qed.

(* with_offsets / selected of a prefix are a prefix *)
Lemma with_offsets_app : forall a b off,
  with_offsets off (a ++ b) = with_offsets off a ++ with_offsets (off + total_size a) b.
Proof.
  induction a as [|p a IH]; intros b off; cbn [app with_offsets].
  - unfold total_size. cbn. rewrite N.add_0_r. reflexivity.
  - rewrite IH. f_equal. f_equal. unfold total_size. cbn [fold_right]. f_equal. lia.
Qed.
Lemma selected_app c a b off :
  selected c off (a ++ b) = selected c off a ++ selected c (off + total_size a) b.
Proof. unfold selected. rewrite with_offsets_app, filter_app. reflexivity. Qed.

(* the theorem: a scanner that keeps the batch being filled when a pipe seek runs past the end *)
Lemma c18_scan_truncated_when (b keep : bool) : b = true -> keep = true ->
  forall c pkts k, Forall wf_pkt pkts -> (k <= length (serialize pkts))%nat ->
  let '(pre, t) := cut_at k pkts in
  let out := scan b keep c (firstn k (serialize pkts)) in
  (* every complete packet before the cut is handed on exactly as in the untruncated input ... *)
  concat (so_batches out) = map (mk_cdp c) (selected c 0 pre) ++ tail_cdps c (total_size pre) t /\
  (exists rest, concat (so_batches (scan b keep c (serialize pkts))) = map (mk_cdp c) (selected c 0 pre) ++ rest) /\
  (* ... and at most one more: the header of the packet whose payload was cut, with an empty payload *)
  (length (tail_cdps c (total_size pre) t) <= 1)%nat /\
  (* reading ends on its own (the fuel of the model is never exhausted) *)
  so_end out = tail_end c t /\ so_end out <> End_fuel.
Proof.
  intros -> -> c pkts k Hwf Hk.
  pose proof (cut_at_spec pkts k Hwf Hk) as HC. destruct (cut_at k pkts) as [pre t].
  destruct HC as (Hf & Hok & Hpre & post & Hpost). cbn zeta.
  assert (HE : so_end (scan true true c (firstn k (serialize pkts))) = tail_end c t).
  { unfold scan. rewrite Hf.
    destruct (scan_flat_spec c (length pre) pre t (scan_fuel (serialize pre ++ tail_bytes t)) (sinit (serialize pre ++ tail_bytes t)) 0
                (le_n _) Hpre Hok (tail_len_fuel pre t Hpre Hok) (conj eq_refl eq_refl)) as (st' & H & _).
    rewrite H. reflexivity. }
  split; [|split; [|split; [|split; [exact HE|rewrite HE; unfold tail_end; destruct (tail_loop c t); discriminate]]]].
  - unfold scan. rewrite Hf.
    destruct (scan_flat_spec c (length pre) pre t (scan_fuel (serialize pre ++ tail_bytes t)) (sinit (serialize pre ++ tail_bytes t)) 0
                (le_n _) Hpre Hok (tail_len_fuel pre t Hpre Hok) (conj eq_refl eq_refl)) as (st' & H & _).
    rewrite H. cbn [so_batches]. unfold tail_off. rewrite N.add_0_l.
    unfold batches_of. destruct (tail_end c t); apply chunk_concat, CAP_pos.
  - destruct (c03_scan_exact_when true true eq_refl c pkts Hwf) as (_ & Hc & _). rewrite Hc.
    subst pkts. rewrite selected_app, map_app. eexists; reflexivity.
  - unfold tail_cdps. destruct (tail_loop c t); cbn; lia.
Qed.

(* with the batch dropped (the code before the repair) complete packets are lost: witness *)
Definition f16_pkts : list packet :=
  [ {| p_hdr := f1_hdr 1; p_payload := [] |};
    {| p_hdr := [7;64;42;80;0;32;0;0; 68;0;68;0;0;0;24;0] ++ repeat 0 8 ++ [2;0;0;0;0;0;0;0; 3;106;0;0;0;0;0;0] ++ repeat 0 24;
       p_payload := [1;2;3;4] |} ].
Definition f16_cfg : scfg := {| sc_filter := Some (F_link 1); sc_skip := false; sc_src := Src_pipe |}.

Lemma c18_refuted_when_batch_dropped :
  Forall wf_pkt f16_pkts /\
  (* cut two bytes before the end: inside the payload of the second (skipped) packet *)
  cut_at 130 f16_pkts = ([ {| p_hdr := f1_hdr 1; p_payload := [] |} ], TL_cut (nth 1 f16_pkts {| p_hdr := []; p_payload := [] |}) 2) /\
  concat (so_batches (scan true false f16_cfg (firstn 130 (serialize f16_pkts)))) = [] /\
  map c_off (concat (so_batches (scan true true f16_cfg (firstn 130 (serialize f16_pkts))))) = [0].
Proof.
  split; [repeat constructor; apply wf_pktb_sound; vm_compute; reflexivity|].
  split; [vm_compute; reflexivity|]. split; vm_compute; reflexivity.
Qed.

(* ------------------------------------------------------------------ validators are left folds *)
Lemma link_run_app c ps1 : forall s ps2 acc,
  link_run c s (ps1 ++ ps2) acc =
  match link_run c s ps1 acc with
  | Ok (s1, acc1) => link_run c s1 ps2 acc1
  | Panic p => Panic p
  end.
Proof.
  induction ps1 as [|p ps1 IH]; intros s ps2 acc; cbn [app link_run]; [reflexivity|].
  destruct (link_step c s p) as [[s1 m]|site]; [apply IH|reflexivity].
Qed.

Lemma link_run_acc c : forall ps s acc,
  link_run c s ps acc =
  match link_run c s ps [] with
  | Ok (s1, m) => Ok (s1, acc ++ m)
  | Panic p => Panic p
  end.
Proof.
  induction ps as [|p ps IH]; intros s acc; cbn [link_run]; [rewrite app_nil_r; reflexivity|].
  destruct (link_step c s p) as [[s1 m]|site]; [|reflexivity].
  rewrite (IH s1 (acc ++ m)), (IH s1 ([] ++ m)). cbn [app].
  destruct (link_run c s1 ps []) as [[s2 m2]|site]; [rewrite app_assoc; reflexivity|reflexivity].
Qed.

(* the findings for a link's packets ps1 are a prefix of the findings for ps1 ++ ps2, whatever follows *)
Lemma c18_validator_prefix c ps1 ps2 msgs :
  run_validator c ps1 = Ok msgs ->
  match run_validator c (ps1 ++ ps2) with
  | Ok all => exists more, all = msgs ++ more
  | Panic _ => True
  end.
Proof.
  unfold run_validator. rewrite link_run_app.
  destruct (link_run c (link_init c) ps1 []) as [[s1 m1]|site]; [|discriminate].
  intros [= <-]. rewrite link_run_acc.
  destruct (link_run c s1 ps2 []) as [[s2 m2]|site]; [eexists; reflexivity|exact I].
Qed.
