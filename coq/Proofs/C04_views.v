(* C04, the frame views (`view its-readout-frames`, `view its-readout-frames-data`): the only panic site is Stave::from_feeid's,
   reached exactly when the view comes to a packet whose FEE id names layer 7 before it is stopped by a payload error
   (recorded finding F6); for every other batch the view ends normally or with the payload error. *)
From Coq Require Import List NArith Bool Lia.
Import ListNotations.
From FP Require Import Model.Base Model.Rdh Model.Payload Model.Scanner Model.Views.
Open Scope N_scope.

Lemma frame_rdh_row_cases c :
  (exists r, frame_rdh_row c = Ok r /\ layer_from_feeid (r_fee_id (c_rdh c)) <= 6) \/
  (frame_rdh_row c = Panic SITE_view_stave_from_feeid /\ 6 < layer_from_feeid (r_fee_id (c_rdh c))).
Proof.
  unfold frame_rdh_row. cbv zeta. destruct (N.ltb_spec 6 (layer_from_feeid (r_fee_id (c_rdh c)))) as [L|G].
  - right. split; [reflexivity|exact L].
  - left. eexists. split; [reflexivity|exact G].
Qed.

Lemma view_frames_batch_panic dv bf : forall cdps rows s, view_frames_batch dv bf cdps = (rows, VE_panic s) ->
  s = SITE_view_stave_from_feeid /\ exists c, In c cdps /\ 6 < layer_from_feeid (r_fee_id (c_rdh c)).
Proof.
  induction cdps as [|c rest IH]; intros rows s H; cbn [view_frames_batch] in H; [discriminate|].
  destruct (frame_rdh_row_cases c) as [[r [E _]]|[E G]]; rewrite E in H.
  - destruct (preprocess (c_payload c)); [discriminate|].
    destruct (view_frames_batch dv bf rest) as [rows' e] eqn:R. injection H as _ ->.
    destruct (IH rows' s eq_refl) as [Hs [q [Hq G]]]. split; [exact Hs|]. exists q. split; [right; exact Hq|exact G].
  - injection H as _ <-. split; [reflexivity|]. exists c. split; [left; reflexivity|exact G].
Qed.

Theorem c04_view_frames_panic dv batch rows s : view_frames dv batch = (rows, VE_panic s) ->
  s = SITE_view_stave_from_feeid /\ exists c, In c batch /\ 6 < layer_from_feeid (r_fee_id (c_rdh c)).
Proof. unfold view_frames. apply view_frames_batch_panic. Qed.

Corollary c04_view_frames_total dv batch :
  (forall c, In c batch -> layer_from_feeid (r_fee_id (c_rdh c)) <= 6) ->
  exists rows, view_frames dv batch = (rows, VE_done) \/ exists off, view_frames dv batch = (rows, VE_payload_error off).
Proof.
  intros Hl. destruct (view_frames dv batch) as [rows e] eqn:E. exists rows. destruct e as [|off|s]; [auto|right; eauto|].
  destruct (c04_view_frames_panic dv batch rows s E) as [_ [c [Hc G]]]. specialize (Hl c Hc). lia.
Qed.

(* the finding's class is not empty: a single packet of layer 7 *)
Lemma c04_view_layer7_panics dv c rest : 6 < layer_from_feeid (r_fee_id (c_rdh c)) ->
  view_frames dv (c :: rest) = ([], VE_panic SITE_view_stave_from_feeid).
Proof.
  intros G. unfold view_frames. cbn [view_frames_batch].
  destruct (frame_rdh_row_cases c) as [[r [_ L]]|[E _]]; [lia|]. rewrite E. reflexivity.
Qed.
