(* Characterisation of every Rust-shaped accessor of Model/ItsWords.v as a bit field of
   the 80-bit word value (Spec/WordLayout.v). *)
From Coq Require Import List NArith ZArith Bool Lia ZifyBool ZifyN.
From FP Require Import Model.Base Model.ItsWords Spec.WordLayout Proofs.Bits.
Import ListNotations.
Open Scope N_scope.
Ltac Zify.zify_post_hook ::= Z.div_mod_to_equations.
Arguments N.add : simpl never. Arguments N.mul : simpl never. Arguments N.div : simpl never.
Arguments N.modulo : simpl never. Arguments N.pow : simpl never. Arguments N.land : simpl never.
Arguments N.shiftr : simpl never. Arguments N.shiftl : simpl never. Arguments N.lor : simpl never.

Ltac pow_norm :=
  repeat match goal with
  | |- context [2 ^ ?k] => let v := eval vm_compute in (2 ^ k) in change (2 ^ k) with v
  | H : context [2 ^ ?k] |- _ => let v := eval vm_compute in (2 ^ k) in change (2 ^ k) with v in H
  end.

Ltac word_destruct H :=
  let b0 := fresh "b0" in let b1 := fresh "b1" in let b2 := fresh "b2" in
  let b3 := fresh "b3" in let b4 := fresh "b4" in let b5 := fresh "b5" in
  let b6 := fresh "b6" in let b7 := fresh "b7" in let b8 := fresh "b8" in
  let b9 := fresh "b9" in
  destruct (word_ok_inv _ H) as (b0&b1&b2&b3&b4&b5&b6&b7&b8&b9&->&?&?&?&?&?&?&?&?&?&?).

Ltac spec_unfold := unfold id_of, f80, w80, field; cbn [nth le]; pow_norm.

(* ------------------------------------------------------------------ IHW *)
Lemma ihw_id_spec w : word_ok w -> ihw_id w = id_of w.
Proof.
  intros H; word_destruct H.
  unfold ihw_id, ihw_id_raw, wrap8, le16, nb; spec_unfold.
  rewrite N.shiftr_div_pow2; pow_norm. lia.
Qed.

Lemma ihw_active_lanes_spec w : word_ok w -> ihw_active_lanes w = f80 w 0 28.
Proof.
  intros H; word_destruct H.
  unfold ihw_active_lanes, ihw_active_lanes_raw, le32, nb; spec_unfold.
  change 268435455 with (N.ones 28). rewrite N.land_ones; pow_norm. lia.
Qed.

Lemma ihw_reserved_zero_spec w : word_ok w -> (ihw_reserved w = 0 <-> ihw_reserved_zero w).
Proof.
  intros H; word_destruct H.
  unfold ihw_reserved, ihw_reserved_zero, ihw_active_lanes_raw, ihw_reserved_raw, ihw_id_raw,
    wrap8, le16, le32, nb; spec_unfold.
  rewrite !lor_eq0, !shiftl_eq0.
  change 15 with (N.ones 4). change 255 with (N.ones 8).
  rewrite !N.land_ones, N.shiftr_div_pow2; pow_norm. lia.
Qed.

(* ------------------------------------------------------------------ TDH *)
Lemma tdh_id_spec w : word_ok w -> tdh_id w = id_of w.
Proof.
  intros H; word_destruct H.
  unfold tdh_id, tdh_w4, wrap8, le16, nb; spec_unfold.
  rewrite N.shiftr_div_pow2; pow_norm. lia.
Qed.

Lemma tdh_reserved0_spec w : word_ok w -> tdh_reserved0 w = f80 w 64 8.
Proof.
  intros H; word_destruct H.
  unfold tdh_reserved0, tdh_w4, le16, nb; spec_unfold.
  change 255 with (N.ones 8). rewrite N.land_ones; pow_norm. lia.
Qed.

Lemma tdh_reserved1_spec w : word_ok w -> tdh_reserved1 w = f80 w 28 4 * 4096.
Proof.
  intros H; word_destruct H.
  unfold tdh_reserved1, tdh_w1, le16, nb; spec_unfold.
  rewrite (land_lit _ 61440 12 4 eq_refl); pow_norm. lia.
Qed.

Lemma tdh_trigger_bc_spec w : word_ok w -> tdh_trigger_bc w = f80 w 16 12.
Proof.
  intros H; word_destruct H.
  unfold tdh_trigger_bc, tdh_w1, le16, nb; spec_unfold.
  change 4095 with (N.ones 12). rewrite N.land_ones; pow_norm. lia.
Qed.

Lemma tdh_reserved2_spec w : word_ok w -> tdh_reserved2 w = f80 w 15 1 * 32768.
Proof.
  intros H; word_destruct H.
  unfold tdh_reserved2, tdh_w0, le16, nb; spec_unfold.
  rewrite (land_lit _ 32768 15 1 eq_refl); pow_norm. lia.
Qed.

Lemma tdh_continuation_spec w : word_ok w -> tdh_continuation w = f80 w 14 1.
Proof.
  intros H; word_destruct H.
  unfold tdh_continuation, tdh_w0, le16, nb; spec_unfold.
  rewrite (land_lit _ 16384 14 1 eq_refl), N.shiftr_div_pow2; pow_norm. lia.
Qed.

Lemma tdh_no_data_spec w : word_ok w -> tdh_no_data w = f80 w 13 1.
Proof.
  intros H; word_destruct H.
  unfold tdh_no_data, tdh_w0, le16, nb; spec_unfold.
  rewrite (land_lit _ 8192 13 1 eq_refl), N.shiftr_div_pow2; pow_norm. lia.
Qed.

Lemma tdh_internal_trigger_spec w : word_ok w -> tdh_internal_trigger w = f80 w 12 1.
Proof.
  intros H; word_destruct H.
  unfold tdh_internal_trigger, tdh_w0, le16, nb; spec_unfold.
  rewrite (land_lit _ 4096 12 1 eq_refl), N.shiftr_div_pow2; pow_norm. lia.
Qed.

Lemma tdh_trigger_type_spec w : word_ok w -> tdh_trigger_type w = f80 w 0 12.
Proof.
  intros H; word_destruct H.
  unfold tdh_trigger_type, tdh_w0, le16, nb; spec_unfold.
  change 4095 with (N.ones 12). rewrite N.land_ones; pow_norm. lia.
Qed.

Lemma tdh_orbit_spec w : word_ok w -> tdh_orbit w = f80 w 32 32.
Proof.
  intros H; word_destruct H.
  unfold tdh_orbit, le32, nb; spec_unfold. lia.
Qed.

(* single-byte fields go through le_field_byte *)
Lemma f80_byte w k j len : word_ok w -> j + len <= 8 ->
  f80 w (8 * N.of_nat k + j) len = field (nb k w) j len.
Proof. intros [_ Hf] Hj. apply le_field_byte; assumption. Qed.

Ltac byte_field pos k j :=
  change pos with (8 * N.of_nat k + j); rewrite f80_byte by (assumption || lia).

(* ------------------------------------------------------------------ TDT *)
Lemma tdt_id_spec w : word_ok w -> tdt_id w = id_of w.
Proof.
  intros H. unfold id_of. byte_field 72 9%nat 0.
  destruct H as [_ Hf]. unfold tdt_id, field, nb. pow_norm.
  assert (Hb : nth 9 w 0 < 256).
  { destruct (Nat.lt_ge_cases 9 (length w)) as [Hl|Hl].
    - apply (proj1 (Forall_forall _ _) Hf), nth_In; assumption.
    - rewrite nth_overflow by assumption. lia. }
  lia.
Qed.

Lemma nb_lt w k : word_ok w -> nb k w < 256.
Proof.
  intros [_ Hf]. unfold nb.
  destruct (Nat.lt_ge_cases k (length w)) as [Hl|Hl].
  - apply (proj1 (Forall_forall _ _) Hf), nth_In; assumption.
  - rewrite nth_overflow by assumption. lia.
Qed.

Lemma tdt_reserved0_spec w : word_ok w -> tdt_reserved0 w = f80 w 68 4.
Proof.
  intros H. byte_field 68 8%nat 4. pose proof (nb_lt w 8 H).
  unfold tdt_reserved0, field. rewrite N.shiftr_div_pow2; pow_norm. lia.
Qed.

Lemma tdt_reserved1_spec w : word_ok w -> tdt_reserved1 w = f80 w 66 1 * 4.
Proof.
  intros H. byte_field 66 8%nat 2.
  unfold tdt_reserved1. rewrite (land_lit _ 4 2 1 eq_refl). reflexivity.
Qed.

Lemma tdt_reserved2_spec w : word_ok w -> tdt_reserved2 w = f80 w 56 5.
Proof.
  intros H. byte_field 56 7%nat 0.
  unfold tdt_reserved2, field. change 31 with (N.ones 5). rewrite N.land_ones; pow_norm.
  rewrite N.div_1_r. reflexivity.
Qed.

Lemma tdt_packet_done_spec w : word_ok w -> tdt_packet_done w = (f80 w 64 1 =? 1).
Proof.
  intros H. byte_field 64 8%nat 0.
  unfold tdt_packet_done, field. change 1 with (N.ones 1) at 1. rewrite N.land_ones; pow_norm.
  rewrite N.div_1_r. reflexivity.
Qed.

Lemma sl_tdt_packet_done_spec w : word_ok w -> sl_tdt_packet_done w = (f80 w 64 1 =? 1).
Proof.
  intros H. byte_field 64 8%nat 0.
  unfold sl_tdt_packet_done, field. change 1 with (N.ones 1) at 1. rewrite N.land_ones; pow_norm.
  rewrite N.div_1_r. lia.
Qed.

Lemma sl_tdh_no_data_spec w : word_ok w -> sl_tdh_no_data w = (f80 w 13 1 =? 1).
Proof.
  intros H. byte_field 13 1%nat 5.
  unfold sl_tdh_no_data. rewrite (land_lit _ 32 5 1 eq_refl). unfold field; pow_norm. lia.
Qed.

Lemma sl_tdh_continuation_spec w : word_ok w -> sl_tdh_continuation w = (f80 w 14 1 =? 1).
Proof.
  intros H. byte_field 14 1%nat 6.
  unfold sl_tdh_continuation. rewrite (land_lit _ 64 6 1 eq_refl). unfold field; pow_norm. lia.
Qed.

(* ------------------------------------------------------------------ DDW0 *)
Lemma ddw0_id_spec w : word_ok w -> ddw0_id w = id_of w.
Proof. intros H. rewrite <- tdt_id_spec by assumption. reflexivity. Qed.

Lemma ddw0_index_spec w : word_ok w -> ddw0_index w = f80 w 68 4.
Proof.
  intros H. byte_field 68 8%nat 4. pose proof (nb_lt w 8 H).
  unfold ddw0_index. rewrite (land_lit _ 240 4 4 eq_refl), N.shiftr_div_pow2.
  unfold field; pow_norm. lia.
Qed.

Lemma land5_zero b : N.land b 5 = 0 <-> (field b 0 1 = 0 /\ field b 2 1 = 0).
Proof.
  change 5 with (N.lor 1 4). rewrite N.land_lor_distr_r, lor_eq0.
  change 1 with (N.ones 1) at 1. rewrite N.land_ones.
  rewrite (land_lit_eq0 b 4 2 1 eq_refl). unfold field; pow_norm.
  rewrite N.div_1_r. tauto.
Qed.

Lemma ddw0_reserved0_1_spec w :
  word_ok w -> (ddw0_reserved0_1 w = 0 <-> f80 w 64 1 = 0 /\ f80 w 66 1 = 0).
Proof.
  intros H. byte_field 64 8%nat 0. byte_field 66 8%nat 2.
  unfold ddw0_reserved0_1. apply land5_zero.
Qed.

Lemma ddw0_res3_spec w :
  word_ok w -> (N.land (ddw0_res3_lane_status w) 18374686479671623680 = 0 <-> f80 w 56 8 = 0).
Proof.
  intros H. byte_field 56 7%nat 0. pose proof (nb_lt w 7 H) as H7.
  word_destruct H. unfold ddw0_res3_lane_status, le64, nb in *. cbn [nth] in *.
  rewrite (land_lit_eq0 _ 18374686479671623680 56 8 eq_refl). unfold field; pow_norm. lia.
Qed.
