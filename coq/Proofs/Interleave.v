(* Interleavings of several FIFO streams (the arrival order at a multi-producer channel). *)
From Coq Require Import List Bool Arith Lia Permutation.
Import ListNotations.

Section IL.
Context {A : Type}.

Fixpoint replace_nth (i : nat) (s : list A) (ss : list (list A)) : list (list A) :=
  match i, ss with
  | O, _ :: r => s :: r
  | S i', x :: r => x :: replace_nth i' s r
  | _, [] => []
  end.

(* `a` is an interleaving of the streams `ss`: repeatedly take the head of some stream *)
Inductive Interleave : list (list A) -> list A -> Prop :=
| IL_nil : forall ss, Forall (fun s => s = []) ss -> Interleave ss []
| IL_cons : forall ss i x s' a, nth_error ss i = Some (x :: s') ->
    Interleave (replace_nth i s' ss) a -> Interleave ss (x :: a).

Lemma concat_all_nil ss : Forall (fun s : list A => s = []) ss -> concat ss = [].
Proof. induction 1 as [|s ss Hs _ IH]; [reflexivity|]. cbn. rewrite Hs, IH. reflexivity. Qed.

Lemma concat_replace_perm : forall ss i x s', nth_error ss i = Some (x :: s') ->
  Permutation (concat ss) (x :: concat (replace_nth i s' ss)).
Proof.
  induction ss as [|s ss IH]; intros [|i] x s' H; cbn in H; try discriminate.
  - injection H as ->. cbn. reflexivity.
  - cbn [replace_nth concat]. rewrite (IH i x s' H).
    apply Permutation_sym, Permutation_middle.
Qed.

Lemma interleave_perm ss a : Interleave ss a -> Permutation a (concat ss).
Proof.
  induction 1 as [ss H|ss i x s' a Hn _ IH].
  - rewrite (concat_all_nil ss H). constructor.
  - rewrite (concat_replace_perm ss i x s' Hn). constructor. exact IH.
Qed.

(* if only stream i holds elements satisfying P, the P-subsequence of any interleaving is the
   P-subsequence of that stream *)
Definition only_in (P : A -> bool) (ss : list (list A)) (i : nat) : Prop :=
  forall j s, nth_error ss j = Some s -> j <> i -> forall y, In y s -> P y = false.

Lemma filter_none (P : A -> bool) l : (forall y, In y l -> P y = false) -> filter P l = [].
Proof.
  induction l as [|x l IH]; intros H; [reflexivity|]. cbn. rewrite (H x (or_introl eq_refl)).
  apply IH. intros y Hy. apply H. right. exact Hy.
Qed.

Lemma nth_error_replace_same : forall ss i (s : list A), (i < length ss)%nat -> nth_error (replace_nth i s ss) i = Some s.
Proof. induction ss as [|x ss IH]; intros [|i] s H; cbn in *; try lia; [reflexivity|apply IH; lia]. Qed.
Lemma nth_error_replace_other : forall ss i j (s : list A), j <> i -> nth_error (replace_nth i s ss) j = nth_error ss j.
Proof.
  induction ss as [|x ss IH]; intros [|i] [|j] s H; cbn; try reflexivity; try congruence.
  apply IH. congruence.
Qed.

Lemma interleave_filter_at (P : A -> bool) : forall ss a, Interleave ss a ->
  forall i, only_in P ss i ->
  filter P a = match nth_error ss i with Some s => filter P s | None => [] end.
Proof.
  induction 1 as [ss H|ss k x s' a Hn Hil IH]; intros i Ho.
  - destruct (nth_error ss i) as [s|] eqn:E; [|reflexivity].
    assert (s = []) as -> by (exact (proj1 (Forall_forall _ _) H s (nth_error_In _ _ E))). reflexivity.
  - assert (Hk : (k < length ss)%nat) by (apply nth_error_Some; congruence).
    destruct (Nat.eq_dec k i) as [->|Hne].
    + rewrite Hn. specialize (IH i). rewrite (nth_error_replace_same ss i s' Hk) in IH.
      cbn [filter]. rewrite IH; [reflexivity|].
      intros j s Hj Hji y Hy. rewrite (nth_error_replace_other ss i j s' Hji) in Hj. exact (Ho j s Hj Hji y Hy).
    + specialize (IH i). rewrite (nth_error_replace_other ss k i s' (not_eq_sym Hne)) in IH.
      cbn [filter]. rewrite (Ho k (x :: s') Hn Hne x (or_introl eq_refl)). apply IH.
      intros j s Hj Hji y Hy. destruct (Nat.eq_dec j k) as [->|Hjk].
      * rewrite (nth_error_replace_same ss k s' Hk) in Hj. injection Hj as <-.
        exact (Ho k (x :: s') Hn Hne y (or_intror Hy)).
      * rewrite (nth_error_replace_other ss k j s' Hjk) in Hj. exact (Ho j s Hj Hji y Hy).
Qed.

(* no stream holds a P-element at all *)
Lemma interleave_filter_nowhere (P : A -> bool) ss a : Interleave ss a ->
  (forall s, In s ss -> forall y, In y s -> P y = false) -> filter P a = [].
Proof.
  intros H Hn. apply filter_none. intros y Hy.
  assert (Hin : In y (concat ss)) by (eapply Permutation_in; [apply interleave_perm; exact H|exact Hy]).
  apply in_concat in Hin. destruct Hin as (s & Hs & Hys). exact (Hn s Hs y Hys).
Qed.

(* hence: two interleavings of the same streams have the same P-subsequence whenever the
   P-elements all live in one stream *)
Lemma interleave_filter_eq (P : A -> bool) ss a1 a2 : Interleave ss a1 -> Interleave ss a2 ->
  (exists i, only_in P ss i) -> filter P a1 = filter P a2.
Proof.
  intros H1 H2 (i & Ho). rewrite (interleave_filter_at P ss a1 H1 i Ho), (interleave_filter_at P ss a2 H2 i Ho). reflexivity.
Qed.
End IL.
