(* C02, faults at a TDH position of a conforming stream (continuation of Proofs/C02_insync.v, which covers the data / TDT positions).
   Whatever word stands where the TDH of an item would stand -- after the IHW and one or more complete conforming items of any page of any
   heartbeat frame, followed by anything -- is judged in the state in which the grammar says an item starts (a choice state after a
   complete packet or a no-data TDH; the continuation-TDH state on a page that continues a packet), at offset packet + 64 + index * slot;
   its messages open what the validator reports for that page and are never retracted. *)
From Coq Require Import List NArith ZArith Bool Lia ZifyBool ZifyN Arith.
From FP Require Import Model.Base Model.ItsWords Model.ItsFsm Model.Rdh Model.RdhChecks Model.Payload Model.Alpide
  Model.CdpRunning Model.Scanner Model.Link Spec.WordLayout Spec.Grammar Spec.GrammarIts
  Proofs.Bits Proofs.WordFacts Proofs.C11_proofs Proofs.C12_proofs Proofs.C12_packet Proofs.C01_rdh Proofs.C01_its Proofs.C01_its_cdw
  Proofs.C02_proofs Proofs.C02_insync.
From FP Require Proofs.C07_proofs Proofs.C04_stave Proofs.C02_total Proofs.C04_proofs.
From FP Require Gen.Facts.
Import ListNotations.
Open Scope N_scope.

Section SplitItemsT.
  Context (running : bool) (h : hbf_desc) (r : rdh) (ihw : list N).
  Context (Hihw : W_ihw ihw) (Horb : r_orbit r = h_orbit h) (Hbc : rdh_bc r = h_bc h) (Htrig : r_trigger_type r = h_trigger h).
  Notation cfg := (its_cfg running).
  Notation lanes := (ihw_f_lanes ihw).

  (* run_items_split, remembering that after at least one complete item a previous TDH is stored *)
  Lemma run_items_split_some : forall items1 first prev opened i items2 out s acc,
    items_ok h lanes first prev opened (items1 ++ i :: items2) out ->
    (prev = None -> opened = None -> r_pages_counter r = 0 -> first = true) -> entry r ihw prev opened s ->
    exists s' first' prev' opened',
      cdp_words cfg s (flat_map item_words items1) acc = Ok (s', acc) /\
      items_ok h lanes first' prev' opened' (i :: items2) out /\
      (prev' = None -> opened' = None -> r_pages_counter r = 0 -> first' = true) /\ entry r ihw prev' opened' s' /\
      ((items1 <> [] \/ prev <> None \/ opened <> None) -> (prev' <> None \/ opened' <> None)).
  Proof.
    induction items1 as [|a items1 IH]; intros first prev opened i items2 out s acc Hok Hfirst Hen.
    - exists s, first, prev, opened. cbn. repeat split; auto. intros [X|X]; [congruence|exact X].
    - cbn [app] in Hok.
      assert (Hnn : items1 ++ i :: items2 <> []) by (destruct items1; discriminate).
      assert (Hsome : forall t : list N, items1 <> [] \/ Some t <> None \/ @None (list N) <> None) by (intros t; right; left; discriminate).
      inversion Hok as [f0 p0
                       |f0 p0 t rr o0 Ht Hle Hr
                       |f0 p0 t d e rr o0 Ht Hle Hd He Hr
                       |f0 p0 t d e Ht Hle Hd He
                       |o t d e Ht Hd He
                       |o t d e rr o0 Ht Hd He Hr]; subst.
      + destruct (start_tdh running h r ihw Horb Hbc Htrig first prev 1 t s (or_intror eq_refl) Ht Hle (fun P => Hfirst P eq_refl) Hen) as [s1 [E1 S1]].
        assert (En : entry r ihw (Some t) None s1) by (cbn [entry]; exists S_Choice_ByNoDataTrue; split; [reflexivity|split; [exact S1|apply Ht]]).
        destruct (IH false (Some t) None i items2 out s1 acc Hr ltac:(intros X; discriminate) En) as (s2 & f2 & p2 & o2 & E2 & R1 & R2 & R3 & R4).
        exists s2, f2, p2, o2. split; [|split; [exact R1|split; [exact R2|split; [exact R3|intros _; exact (R4 (Hsome t))]]]].
        cbn [flat_map item_words app cdp_words]. rewrite E1, app_nil_r. exact E2.
      + destruct (start_tdh running h r ihw Horb Hbc Htrig first prev 0 t s (or_introl eq_refl) Ht Hle (fun P => Hfirst P eq_refl) Hen) as [s1 [E1 S1]].
        destruct (piece_tail running r ihw Hihw s1 _ _ d e 1 S1 eq_refl Hd (or_intror eq_refl) He acc (flat_map item_words items1)) as [s2 [E2 S2]].
        assert (En : entry r ihw (Some t) None s2) by (cbn [entry]; exists S_Choice_ByTdtDone; split; [reflexivity|split; [exact S2|apply Ht]]).
        destruct (IH false (Some t) None i items2 out s2 acc Hr ltac:(intros X; discriminate) En) as (s3 & f3 & p3 & o3 & E3 & R1 & R2 & R3 & R4).
        exists s3, f3, p3, o3. split; [|split; [exact R1|split; [exact R2|split; [exact R3|intros _; exact (R4 (Hsome t))]]]].
        cbn [flat_map item_words app cdp_words]. rewrite E1, app_nil_r, E2. exact E3.
      + exfalso. apply Hnn. symmetry. assumption.
      + exfalso. apply Hnn. symmetry. assumption.
      + destruct Hen as [Hs Ho]. destruct Ht as (Hw & Hc & Hn & Hb & Hob & Hty).
        destruct (step_tdh_cont running s r (Some ihw) o t Hs Hw Ho Hc Hb Hob Hty) as [s1 [E1 S1]].
        destruct (piece_tail running r ihw Hihw s1 _ _ d e 1 S1 eq_refl Hd (or_intror eq_refl) He acc (flat_map item_words items1)) as [s2 [E2 S2]].
        assert (En : entry r ihw (Some t) None s2) by (cbn [entry]; exists S_Choice_ByTdtDone; split; [reflexivity|split; [exact S2|exact Hw]]).
        destruct (IH false (Some t) None i items2 out s2 acc Hr ltac:(intros X; discriminate) En) as (s3 & f3 & p3 & o3 & E3 & R1 & R2 & R3 & R4).
        exists s3, f3, p3, o3. split; [|split; [exact R1|split; [exact R2|split; [exact R3|intros _; exact (R4 (Hsome t))]]]].
        cbn [flat_map item_words app cdp_words]. rewrite E1, app_nil_r, E2. exact E3.
  Qed.

  Lemma run_items_split_nonempty a items1 first prev opened i items2 out s acc :
    items_ok h lanes first prev opened ((a :: items1) ++ i :: items2) out ->
    (prev = None -> opened = None -> r_pages_counter r = 0 -> first = true) -> entry r ihw prev opened s ->
    exists s' first' prev' opened',
      cdp_words cfg s (flat_map item_words (a :: items1)) acc = Ok (s', acc) /\
      items_ok h lanes first' prev' opened' (i :: items2) out /\
      (prev' = None -> opened' = None -> r_pages_counter r = 0 -> first' = true) /\ entry r ihw prev' opened' s' /\
      (prev' <> None \/ opened' <> None).
  Proof.
    intros Hok Hf Hen. destruct (run_items_split_some (a :: items1) first prev opened i items2 out s acc Hok Hf Hen) as (s' & f' & p' & o' & E & R1 & R2 & R3 & R4).
    exists s', f', p', o'. repeat split; auto. apply R4. left. discriminate.
  Qed.
End SplitItemsT.

Section FaultyPageT.
  Context (HS : C04_stave.sites_handled).

  Lemma prefix_shape_t h lanes first prev opened a items1 i items2 out :
    items_ok h lanes first prev opened ((a :: items1) ++ i :: items2) out ->
    (exists second tl, flat_map item_words (a :: items1) = second :: tl /\ W_tdh second) /\
    Forall gw (flat_map item_words (a :: items1)).
  Proof.
    intros Hok. split.
    - cbn [app] in Hok. destruct (items_head_tdh _ _ _ _ _ _ _ _ Hok) as [Ht [tl Etl]].
      exists (item_tdh a), (tl ++ flat_map item_words items1). split; [|exact Ht]. cbn [flat_map]. rewrite Etl. reflexivity.
    - pose proof (items_gw _ _ _ _ _ _ _ Hok) as Hg. rewrite flat_map_app in Hg. apply Forall_app in Hg. apply Hg.
  Qed.

  Lemma insync_tdh_page running ld h k pg ihw a items1 i items2 first opened out w rest pad s pos :
    (l_format ld = 0 \/ l_format ld = 2) -> h_bc h < 4096 -> W_ihw ihw ->
    items_ok h (ihw_f_lanes ihw) first None opened ((a :: items1) ++ i :: items2) out ->
    Forall gw (w :: rest) -> (pad <= 15)%nat ->
    pg_payload pg = layout (l_format ld) ((ihw :: flat_map item_words (a :: items1)) ++ w :: rest) pad ->
    (k = 0 -> first = true) -> PEntry opened s ->
    N.of_nat (S (length (flat_map item_words (a :: items1)))) < 65535 ->
    pos + 64 + N.of_nat (S (length (flat_map item_words (a :: items1)))) * 16 < 18446744073709551616 ->
    exists sk prev' opened' s' tl,
      do_payload_checks (its_cfg running) s (render_rdh ld h k 0 pg) (pg_payload pg) pos = Ok (s', word_msgs (its_cfg running) sk w ++ tl) /\
      entry (render_rdh ld h k 0 pg) ihw prev' opened' sk /\ (prev' <> None \/ opened' <> None) /\
      pos_of sk = C07_proofs.wpos (pos + 64) (10 + C07_proofs.pad_of (render_rdh ld h k 0 pg)) (S (length (flat_map item_words (a :: items1)))).
  Proof.
    intros Hfmt Hbc Hihw Hitems Hgw Hpad Hpl Hk [Hrfv Hen] Hlen Hbound.
    set (r := render_rdh ld h k 0 pg). set (pre := flat_map item_words (a :: items1)) in *.
    destruct (set_rdh_its s r pos Hrfv) as (s1 & E1 & F1 & R1 & V1 & W1).
    destruct (C07_proofs.set_current_rdh_ok s r pos s1 E1) as (P1 & C1 & D1 & _).
    destruct (prefix_shape_t _ _ _ _ _ _ _ _ _ _ Hitems) as [(second & tl0 & Eshape & Hsec) Hgpre]. fold pre in Eshape, Hgpre.
    assert (Hwords : words_of (pg_payload pg) = Some ((ihw :: pre) ++ w :: rest)).
    { rewrite Hpl. apply (layout_words _ _ _ second (tl0 ++ w :: rest)); auto.
      - cbn [app]. constructor; [apply gw_ihw; exact Hihw|]. apply Forall_app. split; assumption.
      - cbn [app hd]. rewrite Eshape. reflexivity. }
    rewrite (c12_packet_words _ _ _ _ _ s1 _ E1 Hwords).
    assert (Horb : r_orbit r = h_orbit h) by reflexivity.
    assert (Hb : rdh_bc r = h_bc h) by (apply rdh_bc_rendered; exact Hbc).
    assert (Htr : r_trigger_type r = h_trigger h) by reflexivity.
    assert (Hstop : r_stop_bit r = 0) by reflexivity.
    assert (Hpc : r_pages_counter r = k) by reflexivity.
    (* the conforming part: IHW and the complete items before the position *)
    assert (Hpre : exists sk prev' opened', cdp_words (its_cfg running) s1 (ihw :: pre) [] = Ok (sk, []) /\ entry r ihw prev' opened' sk /\
                                            (prev' <> None \/ opened' <> None)).
    { destruct opened as [o|].
      - destruct Hen as (Hf & Ht & Ho).
        assert (S1 : St s1 S_cIHW r (sw_ihw (cs_words s1)) (Some o)) by (unfold St; rewrite F1, W1; repeat split; auto).
        destruct (step_ihw_cont running s1 r _ _ ihw S1 Hihw) as [s2 [E2 S2]].
        destruct (run_items_split_nonempty running h r ihw Hihw Horb Hb Htr a items1 first None (Some o) i items2 out s2 [] Hitems
                    ltac:(intros _ X; discriminate) (conj S2 Ho)) as (sk & f' & p' & o' & E3 & _ & _ & En & Hnn).
        exists sk, p', o'. cbn [cdp_words]. rewrite E2. cbn [app]. auto.
      - assert (S1 : St s1 (cs_fsm s) r (sw_ihw (cs_words s1)) (sw_tdh (cs_words s1))) by (unfold St; repeat split; auto).
        destruct (step_ihw running s1 _ r _ _ ihw S1 Hen Hihw Hstop) as [s2 [E2 S2]].
        destruct (run_items_split_nonempty running h r ihw Hihw Horb Hb Htr a items1 first None None i items2 out s2 [] Hitems
                    ltac:(intros _ _ X; apply Hk; rewrite <- Hpc; exact X) (ex_intro _ _ S2)) as (sk & f' & p' & o' & E3 & _ & _ & En & Hnn).
        exists sk, p', o'. cbn [cdp_words]. rewrite E2. cbn [app]. auto. }
    destruct Hpre as (sk & prev' & opened' & Epre & Sk & Hnn).
    destruct (cdp_words_tracker _ _ _ _ _ _ 0%nat Epre C1 ltac:(cbn [length Nat.add]; lia)) as (Tc & Tp & Td). cbn [Nat.add length] in Tc.
    rewrite cdp_words_app, Epre.
    destruct (C04_stave.cdp_words_ok HS (its_cfg running) (w :: rest) sk []) as [[s' ms] Ew]. rewrite Ew.
    cbn [cdp_words] in Ew. destruct (cdp_check (its_cfg running) sk w) as [[s3 m]|p] eqn:Ec; [|discriminate].
    destruct (cdp_words_extends _ _ _ _ _ _ Ew) as [tl ->]. cbn [app].
    exists sk, prev', opened', s', tl. split; [|split; [exact Sk|split; [exact Hnn|]]].
    - unfold word_msgs. rewrite Ec. reflexivity.
    - assert (Hw64 : wrap64 (pos + 64) = pos + 64) by (unfold wrap64; apply N.mod_small; lia).
      rewrite (pos_of_at sk (S (length pre)) Tc); rewrite ?Tp, ?Td, ?P1, ?D1, ?Hw64; [reflexivity|lia|].
      unfold C07_proofs.pad_of. destruct (rdh_data_format r =? 0); lia.
  Qed.
End FaultyPageT.

(* ---- the packet of such a page in the run of a link ---- *)
Section FaultyLinkT.
  Context (HS : C04_stave.sites_handled).
  Context (ld : link_desc) (Hwf : wf_link_rdh ld = true) (Hsys : l_system ld = Gen.Facts.its_system_id)
          (Hfmt : l_format ld = 0 \/ l_format ld = 2).
  Let layf (p : its_page) : list N := layout (l_format ld) (page_words p) (ip_pad p).

  Lemma insync_tdh_link_step running h k pg ihw a items1 i items2 first opened out w rest pad s off :
    wf_hbf h = true -> latch_ok ld (lk_sanity s) -> PEntry opened (lk_cdp s) ->
    (running = true -> RInv ld h k (lk_running s)) -> k + 1 < 65536 -> W_ihw ihw ->
    items_ok h (ihw_f_lanes ihw) first None opened ((a :: items1) ++ i :: items2) out ->
    Forall gw (w :: rest) -> (pad <= 15)%nat ->
    pg_payload pg = layout (l_format ld) ((ihw :: flat_map item_words (a :: items1)) ++ w :: rest) pad ->
    (k = 0 -> first = true) ->
    N.of_nat (S (length (flat_map item_words (a :: items1)))) < 65535 ->
    off + 64 + N.of_nat (S (length (flat_map item_words (a :: items1)))) * 16 < 18446744073709551616 ->
    exists sk prev' opened' s' tl,
      link_step (its_cfg running) s {| c_rdh := render_rdh ld h k 0 pg; c_payload := pg_payload pg; c_off := off |} =
        Ok (s', word_msgs (its_cfg running) sk w ++ tl) /\
      entry (render_rdh ld h k 0 pg) ihw prev' opened' sk /\ (prev' <> None \/ opened' <> None) /\
      pos_of sk = C07_proofs.wpos (off + 64) (10 + C07_proofs.pad_of (render_rdh ld h k 0 pg)) (S (length (flat_map item_words (a :: items1)))).
  Proof.
    intros Hh Hl Hp Hr Hk Hihw Hitems Hgw Hpad Hpl Hfirst Hlen Hbound.
    destruct (sane_rendered ld Hwf (lk_sanity s) h k 0 pg Hl Hh ltac:(lia)) as [S1 S2].
    destruct (rdh_sanity (lk_sanity s) (render_rdh ld h k 0 pg)) as [ss t10] eqn:E10. cbn [fst snd] in S1, S2. subst t10.
    assert (Hpne : pg_payload pg <> []).
    { rewrite Hpl. cbn [app]. apply layout_nonempty. destruct Hihw as [[L _] _]. exact L. }
    destruct (insync_tdh_page HS running ld h k pg ihw a items1 i items2 first opened out w rest pad (lk_cdp s) off
                Hfmt (hbf_bc_small ld Hsys Hfmt h Hh) Hihw Hitems Hgw Hpad Hpl Hfirst Hp Hlen Hbound) as (sk & p' & o' & cs & tl & Ecs & Sk & Hnn & Pk).
    exists sk, p', o'.
    destruct running.
    - destruct (running_data_page ld h k pg (lk_running s) (Hr eq_refl) Hk) as [R1 R2].
      destruct (running_check (lk_running s) (render_rdh ld h k 0 pg)) as [rs t11] eqn:E11. cbn [fst snd] in R1, R2. subst t11.
      rewrite (its_step true s _ _ off ss rs E10 E11 Hpne), Ecs. eexists. exists tl. auto.
    - rewrite (its_step false s _ _ off ss (lk_running s) E10 eq_refl Hpne), Ecs. eexists. exists tl. auto.
  Qed.
End FaultyLinkT.

(* ---- the theorem: a link that conforms up to the TDH position of an item of some page, ANY words from there on, ANY packets after ---- *)
Section InSyncT.
  Context (HS : C04_stave.sites_handled).
  Context (ld : link_desc) (Hwf : wf_link_rdh ld = true) (Hsys : l_system ld = Gen.Facts.its_system_id)
          (Hfmt : l_format ld = 0 \/ l_format ld = 2).
  Let layf (p : its_page) : list N := layout (l_format ld) (page_words p) (ip_pad p).

  Theorem c02_insync_link_tdh running hbfs1 ihs1 h hbfs2 pgs1 pg pgs2 ips1 ihw a items1 i items2 pad0 ips2 w rest pad ps1 p ps2 :
    l_hbfs ld = hbfs1 ++ h :: hbfs2 -> Forall2 (its_hbf_ok (l_format ld)) hbfs1 ihs1 ->
    h_pages h = pgs1 ++ pg :: pgs2 ->
    pages_ok h true None (ips1 ++ {| ip_ihw := ihw; ip_items := (a :: items1) ++ i :: items2; ip_pad := pad0 |} :: ips2) ->
    map pg_payload pgs1 = map layf ips1 ->
    Forall gw (w :: rest) -> (pad <= 15)%nat ->
    pg_payload pg = layout (l_format ld) ((ihw :: flat_map item_words (a :: items1)) ++ w :: rest) pad ->
    map strip ps1 = flat_map (render_hbf ld) hbfs1 ++ render_pages ld h 0 pgs1 ->
    strip p = (render_rdh ld h (N.of_nat (length pgs1)) 0 pg, pg_payload pg) ->
    N.of_nat (S (length (flat_map item_words (a :: items1)))) < 65535 ->
    c_off p + 64 + N.of_nat (S (length (flat_map item_words (a :: items1)))) * 16 < 18446744073709551616 ->
    exists sk prev' opened',
      entry (c_rdh p) ihw prev' opened' sk /\ (prev' <> None \/ opened' <> None) /\
      pos_of sk = C07_proofs.wpos (c_off p + 64) (10 + C07_proofs.pad_of (c_rdh p)) (S (length (flat_map item_words (a :: items1)))) /\
      exists out more, run_validator (its_cfg running) (ps1 ++ p :: ps2) = Ok out /\ out = word_msgs (its_cfg running) sk w ++ more.
  Proof.
    intros Hl Hall Hpages Hpo Hpl1 Hgw Hpad Hpl Hm1 Hp Hlen Hbound.
    pose proof (wf_parts ld Hwf) as (_ & _ & _ & _ & _ & _ & _ & _ & Hh & Ho). rewrite Hl in Hh, Ho.
    rewrite forallb_app in Hh. apply andb_true_iff in Hh. destruct Hh as [Hh1 Hh2]. cbn [forallb] in Hh2.
    apply andb_true_iff in Hh2. destruct Hh2 as [Hh _].
    apply orbits_differ_prefix in Ho.
    assert (Hsp : exists psA psB, ps1 = psA ++ psB /\ map strip psA = flat_map (render_hbf ld) hbfs1 /\ map strip psB = render_pages ld h 0 pgs1).
    { exists (firstn (length (flat_map (render_hbf ld) hbfs1)) ps1), (skipn (length (flat_map (render_hbf ld) hbfs1)) ps1).
      split; [symmetry; apply firstn_skipn|]. rewrite <- firstn_map, <- skipn_map, Hm1. split; [apply firstn_app_exact|apply skipn_app_exact]. }
    destruct Hsp as (psA & psB & -> & HA & HB).
    destruct (its_run_hbfs_then ld Hwf Hsys Hfmt running hbfs1 ihs1 Hall psA (link_init (its_cfg running)) [] None h Hh1 Ho HA) with (rest := psB ++ p :: ps2)
      as (s1 & prev' & E1 & L1 & P1 & B1 & O1).
    { unfold latch_ok, link_init, its_cfg, sanity_init. cbn. split; [left; reflexivity|right; rewrite Hsys; reflexivity]. }
    { split; reflexivity. }
    { intros _. reflexivity. }
    pose proof Hh as Hh'. unfold wf_hbf in Hh'. repeat (apply andb_true_iff in Hh'; destruct Hh' as [Hh' ?]).
    match goal with H : (N.of_nat (length (h_pages h)) <? 65535) = true |- _ => apply N.ltb_lt in H; rename H into Hn end.
    rewrite Hpages, app_length in Hn. cbn [length] in Hn.
    destruct (its_run_pages_split ld Hwf Hsys Hfmt running h Hh ips1 true None _ ips2 Hpo pgs1 0 s1 psB [] HB Hpl1 L1 P1
                (fun X => between_inv ld prev' _ h (B1 X) O1) ltac:(lia) ltac:(reflexivity) (p :: ps2)) as (s2 & f2 & o2 & E2 & L2 & P2 & R2 & Q2 & F2).
    rewrite N.add_0_l in R2, F2.
    inversion Q2 as [|f0 o0 p0 r0 out Hihw Hne Hpad0 Hitems Hrest]; subst. cbn [ip_ihw ip_items ip_pad] in *.
    destruct p as [pr pp poff]. unfold strip in Hp. cbn [c_rdh c_payload c_off] in *. injection Hp as -> ->.
    destruct (insync_tdh_link_step HS ld Hwf Hsys Hfmt running h (N.of_nat (length pgs1)) pg ihw a items1 i items2 f2 o2 out w rest pad s2 poff
                Hh L2 P2 R2 ltac:(lia) Hihw Hitems Hgw Hpad Hpl F2 Hlen Hbound) as (sk & p' & o' & s3 & tl & E3 & Sk & Hnn & Pk).
    exists sk, p', o'. split; [exact Sk|]. split; [exact Hnn|]. split; [exact Pk|].
    destruct (C04_proofs.c04_no_panic_without_stave (its_cfg running) ((psA ++ psB) ++ {| c_rdh := render_rdh ld h (N.of_nat (length pgs1)) 0 pg; c_payload := pg_payload pg; c_off := poff |} :: ps2)
                ltac:(discriminate)) as [out' Eout].
    exists out'. unfold run_validator in Eout |- *. rewrite <- app_assoc in Eout |- *. rewrite E1, E2 in Eout |- *.
    cbn [link_run] in Eout |- *. rewrite E3 in Eout |- *.
    destruct (link_run (its_cfg running) s3 ps2 ([] ++ word_msgs (its_cfg running) sk w ++ tl)) as [[sf o]|site] eqn:Er; [|discriminate].
    injection Eout as <-. destruct (link_run_keeps _ _ _ _ _ _ Er) as [more Em]. exists (tl ++ more). split; [reflexivity|].
    rewrite Em. cbn [app]. rewrite app_assoc. reflexivity.
  Qed.
End InSyncT.

(* ---- what the word at a TDH position draws, by fault class ---- *)
Section InSyncFaultsT.
  Context (HS : C04_stave.sites_handled).

  (* the state machine at an item start (after at least one complete item, or on a page that continues a packet) *)
  Lemma entry_fsm r ihw prev opened s : entry r ihw prev opened s -> (prev <> None \/ opened <> None) ->
    cs_fsm s = S_cTDH \/ is_choice_state (cs_fsm s) = true.
  Proof.
    unfold entry. destruct opened as [o|]; [intros [(Hf & _) _] _; left; exact Hf|].
    destruct prev as [p|]; [intros (f & Hc & (Hf & _) & _) _; right; rewrite Hf; exact Hc|intros _ [X|X]; congruence].
  Qed.

  (* a TDH-identified word is taken for a TDH there *)
  Lemma adv_tdh_at_entry f w : (f = S_cTDH \/ is_choice_state f = true) -> nb 9 w = Gen.Facts.tdh_id ->
    exists p, snd (advance f w) = F_ok p /\ (p = P_TDH \/ p = P_TDH_cont \/ p = P_TDH_after_done).
  Proof.
    intros [->|Hc] Hid; unfold advance, advance_k.
    - exists P_TDH_cont. split; [reflexivity|right; left; reflexivity].
    - destruct f; try discriminate; unfold choice_arm; rewrite Hid, N.eqb_refl; destruct (sl_tdh_no_data w);
        (exists P_TDH_after_done; split; [reflexivity|right; right; reflexivity]).
  Qed.

  (* a TDH-identified word that breaks a TDH sanity rule (reserved bits; neither trigger type nor internal trigger): [E40] at the word *)
  Lemma insync_tdh_fault c sk r ihw prev opened w more : entry r ihw prev opened sk -> (prev <> None \/ opened <> None) ->
    nb 9 w = Gen.Facts.tdh_id -> tdh_sanity w <> [] -> has_err (pos_of sk) 40 (word_msgs c sk w ++ more).
  Proof.
    intros He Hnn Hid Hne. apply has_err_app. left.
    destruct (adv_tdh_at_entry (cs_fsm sk) w (entry_fsm _ _ _ _ _ He Hnn) Hid) as (p & Ha & Hp).
    exact (c02_tdh_sanity c sk w p Ha Hp Hne).
  Qed.

  (* where a continuation TDH is due (a page that continues a packet) EVERY word is taken for it: a word with another identifier
     fails the TDH's sanity check on the identifier -- [E40] at the word *)
  Lemma insync_not_a_tdh_in_continuation c sk r ihw prev o w more : entry r ihw prev (Some o) sk ->
    tdh_sanity w <> [] -> has_err (pos_of sk) 40 (word_msgs c sk w ++ more).
  Proof.
    intros He Hne. apply has_err_app. left. destruct He as [(Hf & _) _].
    apply (c02_tdh_sanity c sk w P_TDH_cont); [unfold advance, advance_k; rewrite Hf; reflexivity|right; left; reflexivity|exact Hne].
  Qed.

  (* after a complete packet or a no-data TDH (choice state): an identifier that is none of TDH / IHW / DDW0 is not recognised --
     [E990] (after a no-data TDH) or [E992] (after a complete packet) at the word *)
  Lemma insync_unknown_id_at_choice c sk r ihw p w more : entry r ihw (Some p) None sk ->
    nb 9 w <> Gen.Facts.tdh_id -> nb 9 w <> Gen.Facts.ihw_id -> nb 9 w <> Gen.Facts.ddw0_id ->
    has_err (pos_of sk) 990 (word_msgs c sk w ++ more) \/ has_err (pos_of sk) 992 (word_msgs c sk w ++ more).
  Proof.
    intros (f & Hc & (Hf & _) & _) H1 H2 H3. apply N.eqb_neq in H1, H2, H3.
    destruct f; try discriminate.
    - left. apply has_err_app. left.
      destruct (C02_total.c02_unrecognised_total HS c sk w A_TDH_or_DDW0) as (s1 & m & E & Hm).
      { unfold advance, advance_k, choice_arm. rewrite Hf, H1, H2, H3. reflexivity. }
      unfold word_msgs. rewrite E. exact Hm.
    - right. apply has_err_app. left.
      destruct (C02_total.c02_unrecognised_total HS c sk w A_DDW0_or_TDH_IHW) as (s1 & m & E & Hm).
      { unfold advance, advance_k, choice_arm. rewrite Hf, H1, H2, H3. reflexivity. }
      unfold word_msgs. rewrite E. exact Hm.
  Qed.
End InSyncFaultsT.

(* ---- non-vacuity: the example link of C01_its.v; on the first page of the second heartbeat frame the TDH of the third item (behind a
   no-data TDH and a complete trigger packet) is replaced by a TDH-identified word with a reserved bit set, followed by an arbitrary word ---- *)
Module ExampleT.
  Import C01_its.Example.
  Definition badtdh : list N := [3; 26; 9; 0; 11; 0; 0; 0; 1; 232].
  Definition junk : list N := [7; 7; 7; 7; 7; 7; 7; 7; 7; 7].
  Definition itA : pitem := PI_nodata (tdh NODATA 5 11).
  Definition itB : pitem := PI_frame (tdh 0 7 11) [dw 0 1; dw 3 2] (tdt 1).
  Definition itC : pitem := PI_open (tdh 0 9 11) [dw 1 7] (tdt 0).
  Definition pgT : page_desc :=
    {| pg_counter := 0; pg_par := 0; pg_payload := layout 2 ((ihw :: flat_map item_words (itA :: [itB])) ++ badtdh :: [junk]) 2 |}.
  Definition hbT : hbf_desc :=
    {| h_orbit := 11; h_bc := 5; h_trigger := 27139; h_detfield := 0; h_pages := [pgT];
       h_stop := {| pg_counter := 0; pg_par := 0; pg_payload := layout 2 [ddw0] 6 |} |}.
  Definition ldT : link_desc :=
    {| l_link := 3; l_fee := 20522; l_version := 7; l_system := 32; l_format := 2; l_cru := 24; l_dw := 0; l_hbfs := [hb 10; hbT] |}.
  Definition ps1 : list cdp := C02_insync.ExampleF.place (flat_map (render_hbf ldT) [hb 10] ++ render_pages ldT hbT 0 []) 0.
  Definition pT : cdp := {| c_rdh := render_rdh ldT hbT 0 0 pgT; c_payload := pg_payload pgT; c_off := 4096 |}.

  Lemma pages_okT : pages_ok hbT true None ([] ++
    {| ip_ihw := ihw; ip_items := (itA :: [itB]) ++ itC :: []; ip_pad := 3 |} :: [page1 11; page2 11]).
  Proof. cbn [app]. unfold itA, itB, itC. repeat (econstructor; cbn [ip_ihw ip_items ip_pad page0 page1 page2]); wsolve. Qed.

  Lemma example_insync_tdh (HS : C04_stave.sites_handled) running ps2 : exists sk prev' opened',
    entry (c_rdh pT) ihw prev' opened' sk /\ (prev' <> None \/ opened' <> None) /\ pos_of sk = 4096 + 64 + 60 /\
    exists out more, run_validator (its_cfg running) (ps1 ++ pT :: ps2) = Ok out /\ out = word_msgs (its_cfg running) sk badtdh ++ more /\
                     has_err (4096 + 64 + 60) 40 out.
  Proof.
    assert (Hwf : wf_link_rdh ldT = true) by (vm_compute; reflexivity).
    assert (H1 : Forall2 (its_hbf_ok (l_format ldT)) [hb 10] [ih 10]) by (constructor; [exact hbf_ok10|constructor]).
    assert (H2 : Forall gw [badtdh; junk]) by (repeat constructor; vm_compute; intuition discriminate).
    assert (H3 : map strip ps1 = flat_map (render_hbf ldT) [hb 10] ++ render_pages ldT hbT 0 []) by (vm_compute; reflexivity).
    pose proof (c02_insync_link_tdh HS ldT Hwf eq_refl (or_intror eq_refl) running
                [hb 10] [ih 10] hbT [] [] pgT [] [] ihw itA [itB] itC [] 3%nat [page1 11; page2 11] badtdh [junk] 2%nat ps1 pT ps2
                eq_refl H1 eq_refl pages_okT eq_refl H2 ltac:(lia) eq_refl H3 eq_refl ltac:(vm_compute; reflexivity) ltac:(vm_compute; reflexivity))
      as (sk & p' & o' & A & B & C & out & more & D & E).
    exists sk, p', o'. split; [exact A|]. split; [exact B|].
    assert (Cv : pos_of sk = 4096 + 64 + 60) by (rewrite C; vm_compute; reflexivity).
    split; [exact Cv|]. exists out, more. split; [exact D|]. split; [exact E|].
    rewrite E, <- Cv. apply (insync_tdh_fault (its_cfg running) sk _ _ _ _ badtdh more A B); [reflexivity|vm_compute; discriminate].
  Qed.
End ExampleT.

(* ================================================================== the IHW position: the first word of a data page *)
Section FaultyIhw.
  Context (HS : C04_stave.sites_handled).

  (* the state machine at the start of a data page of a conforming link *)
  Definition page_start_fsm (f : fstate) : Prop := ihw_state f = true \/ f = S_cIHW.

  Lemma insync_ihw_page running ld h k pg opened w second tl pad s pos :
    (l_format ld = 0 \/ l_format ld = 2) -> Forall gw (w :: second :: tl) -> W_tdh second -> (pad <= 15)%nat ->
    pg_payload pg = layout (l_format ld) (w :: second :: tl) pad -> PEntry opened s ->
    pos + 64 + 16 < 18446744073709551616 ->
    exists sk s' more,
      do_payload_checks (its_cfg running) s (render_rdh ld h k 0 pg) (pg_payload pg) pos = Ok (s', word_msgs (its_cfg running) sk w ++ more) /\
      cs_fsm sk = cs_fsm s /\ page_start_fsm (cs_fsm s) /\
      pos_of sk = C07_proofs.wpos (pos + 64) (10 + C07_proofs.pad_of (render_rdh ld h k 0 pg)) 0.
  Proof.
    intros Hfmt Hgw Hsec Hpad Hpl [Hrfv Hen] Hbound.
    set (r := render_rdh ld h k 0 pg).
    destruct (set_rdh_its s r pos Hrfv) as (s1 & E1 & F1 & R1 & V1 & W1).
    destruct (C07_proofs.set_current_rdh_ok s r pos s1 E1) as (P1 & C1 & D1 & _).
    assert (Hwords : words_of (pg_payload pg) = Some (w :: second :: tl)).
    { rewrite Hpl. apply (layout_words _ _ _ second tl); auto. }
    rewrite (c12_packet_words _ _ _ _ _ s1 _ E1 Hwords).
    remember (second :: tl) as rest eqn:Erest.
    destruct (C04_stave.cdp_words_ok HS (its_cfg running) (w :: rest) s1 []) as [[s' ms] Ew]. rewrite Ew.
    cbn [cdp_words] in Ew. destruct (cdp_check (its_cfg running) s1 w) as [[s3 m]|p] eqn:Ec; [|discriminate].
    destruct (cdp_words_extends _ _ _ _ _ _ Ew) as [more ->]. cbn [app].
    exists s1, s', more. split; [unfold word_msgs; rewrite Ec; reflexivity|]. split; [exact F1|]. split.
    - unfold page_start_fsm. destruct opened as [o|]; [right; apply Hen|left; exact Hen].
    - assert (Hw64 : wrap64 (pos + 64) = pos + 64) by (unfold wrap64; apply N.mod_small; lia).
      rewrite (pos_of_at s1 0 C1); rewrite ?P1, ?D1, ?Hw64; [reflexivity|lia|].
      unfold C07_proofs.pad_of. destruct (rdh_data_format r =? 0); lia.
  Qed.
End FaultyIhw.

Section FaultyIhwLink.
  Context (HS : C04_stave.sites_handled).
  Context (ld : link_desc) (Hwf : wf_link_rdh ld = true) (Hsys : l_system ld = Gen.Facts.its_system_id)
          (Hfmt : l_format ld = 0 \/ l_format ld = 2).
  Let layf (p : its_page) : list N := layout (l_format ld) (page_words p) (ip_pad p).

  Theorem c02_insync_link_ihw running hbfs1 ihs1 h hbfs2 pgs1 pg pgs2 ips1 ip ips2 w second tl pad ps1 p ps2 :
    l_hbfs ld = hbfs1 ++ h :: hbfs2 -> Forall2 (its_hbf_ok (l_format ld)) hbfs1 ihs1 ->
    h_pages h = pgs1 ++ pg :: pgs2 ->
    pages_ok h true None (ips1 ++ ip :: ips2) ->
    map pg_payload pgs1 = map layf ips1 ->
    Forall gw (w :: second :: tl) -> W_tdh second -> (pad <= 15)%nat ->
    pg_payload pg = layout (l_format ld) (w :: second :: tl) pad ->
    map strip ps1 = flat_map (render_hbf ld) hbfs1 ++ render_pages ld h 0 pgs1 ->
    strip p = (render_rdh ld h (N.of_nat (length pgs1)) 0 pg, pg_payload pg) ->
    c_off p + 64 + 16 < 18446744073709551616 ->
    exists sk,
      page_start_fsm (cs_fsm sk) /\ pos_of sk = c_off p + 64 /\
      exists out more, run_validator (its_cfg running) (ps1 ++ p :: ps2) = Ok out /\ out = word_msgs (its_cfg running) sk w ++ more.
  Proof.
    intros Hl Hall Hpages Hpo Hpl1 Hgw Hsec Hpad Hpl Hm1 Hp Hbound.
    pose proof (wf_parts ld Hwf) as (_ & _ & _ & _ & _ & _ & _ & _ & Hh & Ho). rewrite Hl in Hh, Ho.
    rewrite forallb_app in Hh. apply andb_true_iff in Hh. destruct Hh as [Hh1 Hh2]. cbn [forallb] in Hh2.
    apply andb_true_iff in Hh2. destruct Hh2 as [Hh _].
    apply orbits_differ_prefix in Ho.
    assert (Hsp : exists psA psB, ps1 = psA ++ psB /\ map strip psA = flat_map (render_hbf ld) hbfs1 /\ map strip psB = render_pages ld h 0 pgs1).
    { exists (firstn (length (flat_map (render_hbf ld) hbfs1)) ps1), (skipn (length (flat_map (render_hbf ld) hbfs1)) ps1).
      split; [symmetry; apply firstn_skipn|]. rewrite <- firstn_map, <- skipn_map, Hm1. split; [apply firstn_app_exact|apply skipn_app_exact]. }
    destruct Hsp as (psA & psB & -> & HA & HB).
    destruct (its_run_hbfs_then ld Hwf Hsys Hfmt running hbfs1 ihs1 Hall psA (link_init (its_cfg running)) [] None h Hh1 Ho HA) with (rest := psB ++ p :: ps2)
      as (s1 & prev' & E1 & L1 & P1 & B1 & O1).
    { unfold latch_ok, link_init, its_cfg, sanity_init. cbn. split; [left; reflexivity|right; rewrite Hsys; reflexivity]. }
    { split; reflexivity. }
    { intros _. reflexivity. }
    pose proof Hh as Hh'. unfold wf_hbf in Hh'. repeat (apply andb_true_iff in Hh'; destruct Hh' as [Hh' ?]).
    match goal with H : (N.of_nat (length (h_pages h)) <? 65535) = true |- _ => apply N.ltb_lt in H; rename H into Hn end.
    rewrite Hpages, app_length in Hn. cbn [length] in Hn.
    destruct (its_run_pages_split ld Hwf Hsys Hfmt running h Hh ips1 true None ip ips2 Hpo pgs1 0 s1 psB [] HB Hpl1 L1 P1
                (fun X => between_inv ld prev' _ h (B1 X) O1) ltac:(lia) ltac:(reflexivity) (p :: ps2)) as (s2 & f2 & o2 & E2 & L2 & P2 & R2 & Q2 & F2).
    rewrite N.add_0_l in R2, F2.
    destruct p as [pr pp poff]. unfold strip in Hp. cbn [c_rdh c_payload c_off] in *. injection Hp as -> ->.
    set (k := N.of_nat (length pgs1)) in *.
    (* the packet: clean RDH, then the page *)
    destruct (sane_rendered ld Hwf (lk_sanity s2) h k 0 pg L2 Hh ltac:(lia)) as [S1 S2].
    destruct (rdh_sanity (lk_sanity s2) (render_rdh ld h k 0 pg)) as [ss t10] eqn:E10. cbn [fst snd] in S1, S2. subst t10.
    assert (Hpne : pg_payload pg <> []).
    { rewrite Hpl. apply layout_nonempty. inversion Hgw as [|? ? Gw _]; subst.
      pose proof (gw_word10 [w] (Forall_cons _ Gw (Forall_nil _))) as X. inversion X; assumption. }
    destruct (insync_ihw_page HS running ld h k pg o2 w second tl pad (lk_cdp s2) poff Hfmt Hgw Hsec Hpad Hpl P2 Hbound) as (sk & cs & more0 & Ecs & Fk & Pk & Posk).
    assert (E3 : exists s3, link_step (its_cfg running) s2 {| c_rdh := render_rdh ld h k 0 pg; c_payload := pg_payload pg; c_off := poff |} =
                            Ok (s3, word_msgs (its_cfg running) sk w ++ more0)).
    { destruct running.
      - destruct (running_data_page ld h k pg (lk_running s2) (R2 eq_refl) ltac:(lia)) as [R1' R2'].
        destruct (running_check (lk_running s2) (render_rdh ld h k 0 pg)) as [rs t11] eqn:E11. cbn [fst snd] in R1', R2'. subst t11.
        rewrite (its_step true s2 _ _ poff ss rs E10 E11 Hpne), Ecs. eexists. reflexivity.
      - rewrite (its_step false s2 _ _ poff ss (lk_running s2) E10 eq_refl Hpne), Ecs. eexists. reflexivity. }
    destruct E3 as [s3 E3].
    exists sk. split; [rewrite Fk; exact Pk|]. split; [rewrite Posk; unfold C07_proofs.wpos; lia|].
    destruct (C04_proofs.c04_no_panic_without_stave (its_cfg running) ((psA ++ psB) ++ {| c_rdh := render_rdh ld h k 0 pg; c_payload := pg_payload pg; c_off := poff |} :: ps2)
                ltac:(discriminate)) as [out' Eout].
    exists out'. unfold run_validator in Eout |- *. rewrite <- app_assoc in Eout |- *. rewrite E1, E2 in Eout |- *.
    cbn [link_run] in Eout |- *. rewrite E3 in Eout |- *.
    destruct (link_run (its_cfg running) s3 ps2 ([] ++ word_msgs (its_cfg running) sk w ++ more0)) as [[sf o]|site] eqn:Er; [|discriminate].
    injection Eout as <-. destruct (link_run_keeps _ _ _ _ _ _ Er) as [more Em]. exists (more0 ++ more). split; [reflexivity|].
    rewrite Em. cbn [app]. rewrite app_assoc. reflexivity.
  Qed.
End FaultyIhwLink.

(* ---- what the word at the IHW position draws ---- *)
Section InSyncFaultsIhw.
  (* where only an IHW can stand -- the very first page, the page after a DDW0, a page that continues a packet -- EVERY word is taken
     for the IHW: a word that is no sane IHW (wrong identifier, reserved bits) draws [E30] at the word *)
  Lemma insync_ihw_fault_single c sk w more : (cs_fsm sk = S_InitialIHW \/ cs_fsm sk = S_IHW_ByDdw0 \/ cs_fsm sk = S_cIHW) ->
    ihw_sanity w <> [] -> has_err (pos_of sk) 30 (word_msgs c sk w ++ more).
  Proof.
    intros Hf Hne. apply has_err_app. left.
    destruct Hf as [Hf|[Hf|Hf]].
    - apply (c02_ihw_sanity c sk w P_IHW eq_refl); [unfold advance, advance_k; rewrite Hf; reflexivity|left; reflexivity|exact Hne].
    - apply (c02_ihw_sanity c sk w P_IHW eq_refl); [unfold advance, advance_k; rewrite Hf; reflexivity|left; reflexivity|exact Hne].
    - apply (c02_ihw_sanity c sk w P_IHW_cont eq_refl); [unfold advance, advance_k; rewrite Hf; reflexivity|right; reflexivity|exact Hne].
  Qed.

  (* on a page that follows a complete packet or a no-data TDH (choice state) an IHW-identified word that breaks an IHW rule: [E30] *)
  Lemma insync_ihw_fault_choice c sk w more : is_choice_state (cs_fsm sk) = true ->
    nb 9 w = Gen.Facts.ihw_id -> ihw_sanity w <> [] -> has_err (pos_of sk) 30 (word_msgs c sk w ++ more).
  Proof.
    intros Hc Hid Hne. apply has_err_app. left.
    apply (c02_ihw_sanity c sk w P_IHW eq_refl); [|left; reflexivity|exact Hne].
    unfold advance, advance_k, choice_arm. rewrite Hid. change Gen.Facts.ihw_id with 224. change Gen.Facts.tdh_id with 232.
    destruct (cs_fsm sk); try discriminate; reflexivity.
  Qed.
End InSyncFaultsIhw.

(* ================================================================== the DDW0 position: the only word of the stop page *)
Lemma layout_single_words fmt w pad : (fmt = 0 \/ fmt = 2) -> gw w -> (pad <= 15)%nat -> words_of (layout fmt [w] pad) = Some [w].
Proof.
  intros Hfmt Hg Hpad.
  assert (Hgs : Forall gw [w]) by (constructor; [exact Hg|constructor]).
  pose proof (gw_word10 [w] Hgs) as H10.
  unfold layout. destruct Hfmt as [-> | ->]; cbn [N.eqb].
  - exact (proj1 (c12_fmt0 [w] pad H10 ltac:(discriminate) Hpad)).
  - refine (proj1 (c12_fmt2 [w] pad H10 Hpad (last_not_ff_words [w] Hgs ltac:(discriminate)) _)).
    unfold detect_fmt0. cbn [concat]. rewrite app_nil_r.
    assert (L : length w = 10%nat) by (destruct Hg as [[L _] _]; exact L).
    rewrite <- L at 1. rewrite drop_app_exact.
    destruct pad as [|pad]; [reflexivity|]. cbn [repeat take take_while_zero N.eqb]. reflexivity.
Qed.

Section FaultyDdw0.
  Context (HS : C04_stave.sites_handled).
  Context (ld : link_desc) (Hwf : wf_link_rdh ld = true) (Hsys : l_system ld = Gen.Facts.its_system_id)
          (Hfmt : l_format ld = 0 \/ l_format ld = 2).
  Let layf (p : its_page) : list N := layout (l_format ld) (page_words p) (ip_pad p).

  (* the stop page of a heartbeat frame whose data pages conform, holding ANY word where the DDW0 stands *)
  Theorem c02_insync_link_ddw0 running hbfs1 ihs1 h hbfs2 ips w pad ps1 p ps2 :
    l_hbfs ld = hbfs1 ++ h :: hbfs2 -> Forall2 (its_hbf_ok (l_format ld)) hbfs1 ihs1 ->
    pages_ok h true None ips -> ips <> [] -> map pg_payload (h_pages h) = map layf ips ->
    gw w -> (pad <= 15)%nat -> pg_payload (h_stop h) = layout (l_format ld) [w] pad ->
    map strip ps1 = flat_map (render_hbf ld) hbfs1 ++ render_pages ld h 0 (h_pages h) ->
    strip p = (render_rdh ld h (N.of_nat (length (h_pages h))) 1 (h_stop h), pg_payload (h_stop h)) ->
    c_off p + 64 + 16 < 18446744073709551616 ->
    exists sk,
      is_choice_state (cs_fsm sk) = true /\ pos_of sk = c_off p + 64 /\
      exists out more, run_validator (its_cfg running) (ps1 ++ p :: ps2) = Ok out /\ out = word_msgs (its_cfg running) sk w ++ more.
  Proof.
    intros Hl Hall Hpo Hipsne Hpls Hgw Hpad Hpl Hm1 Hp Hbound.
    pose proof (wf_parts ld Hwf) as (_ & _ & _ & _ & _ & _ & _ & _ & Hh & Ho). rewrite Hl in Hh, Ho.
    rewrite forallb_app in Hh. apply andb_true_iff in Hh. destruct Hh as [Hh1 Hh2]. cbn [forallb] in Hh2.
    apply andb_true_iff in Hh2. destruct Hh2 as [Hh _].
    apply orbits_differ_prefix in Ho.
    assert (Hsp : exists psA psB, ps1 = psA ++ psB /\ map strip psA = flat_map (render_hbf ld) hbfs1 /\ map strip psB = render_pages ld h 0 (h_pages h)).
    { exists (firstn (length (flat_map (render_hbf ld) hbfs1)) ps1), (skipn (length (flat_map (render_hbf ld) hbfs1)) ps1).
      split; [symmetry; apply firstn_skipn|]. rewrite <- firstn_map, <- skipn_map, Hm1. split; [apply firstn_app_exact|apply skipn_app_exact]. }
    destruct Hsp as (psA & psB & -> & HA & HB).
    destruct (its_run_hbfs_then ld Hwf Hsys Hfmt running hbfs1 ihs1 Hall psA (link_init (its_cfg running)) [] None h Hh1 Ho HA) with (rest := psB ++ p :: ps2)
      as (s1 & prev' & E1 & L1 & P1 & B1 & O1).
    { unfold latch_ok, link_init, its_cfg, sanity_init. cbn. split; [left; reflexivity|right; rewrite Hsys; reflexivity]. }
    { split; reflexivity. }
    { intros _. reflexivity. }
    pose proof Hh as Hh'. unfold wf_hbf in Hh'. repeat (apply andb_true_iff in Hh'; destruct Hh' as [Hh' ?]).
    match goal with H : (N.of_nat (length (h_pages h)) <? 65535) = true |- _ => apply N.ltb_lt in H; rename H into Hn end.
    match goal with H : negb ?x = true |- _ => lazymatch x with context [h_pages] => rename H into Hne end end.
    destruct (its_run_pages ld Hwf Hsys Hfmt running h Hh true None ips Hpo Hipsne (h_pages h) 0 s1 psB [] HB Hpls L1 P1
                (fun X => between_inv ld prev' _ h (B1 X) O1) ltac:(lia) ltac:(reflexivity) (p :: ps2)) as (s2 & E2 & L2 & P2 & R2).
    rewrite N.add_0_l in R2.
    destruct p as [pr pp poff]. unfold strip in Hp. cbn [c_rdh c_payload c_off] in *. injection Hp as -> ->.
    set (k := N.of_nat (length (h_pages h))) in *.
    assert (Hk : k <> 0) by (unfold k; destruct (h_pages h); [discriminate Hne|cbn [length]; lia]).
    (* the stop packet: clean RDH, then the one word *)
    destruct (sane_rendered ld Hwf (lk_sanity s2) h k 1 (h_stop h) L2 Hh ltac:(lia)) as [S1 S2].
    destruct (rdh_sanity (lk_sanity s2) (render_rdh ld h k 1 (h_stop h))) as [ss t10] eqn:E10. cbn [fst snd] in S1, S2. subst t10.
    assert (Hpne : pg_payload (h_stop h) <> []).
    { rewrite Hpl. apply layout_nonempty. pose proof (gw_word10 [w] (Forall_cons _ Hgw (Forall_nil _))) as X. inversion X; assumption. }
    destruct P2 as [Hrfv Hch].
    set (r := render_rdh ld h k 1 (h_stop h)).
    destruct (set_rdh_its (lk_cdp s2) r poff Hrfv) as (c1 & Ec1 & F1 & R1 & V1 & W1).
    destruct (C07_proofs.set_current_rdh_ok (lk_cdp s2) r poff c1 Ec1) as (Pp & Cc & Dd & _).
    assert (Hwords : words_of (pg_payload (h_stop h)) = Some [w]) by (rewrite Hpl; apply layout_single_words; auto).
    assert (Ecs : exists cs more0, do_payload_checks (its_cfg running) (lk_cdp s2) r (pg_payload (h_stop h)) poff = Ok (cs, word_msgs (its_cfg running) c1 w ++ more0)).
    { rewrite (c12_packet_words _ _ _ _ _ c1 _ Ec1 Hwords).
      destruct (C04_stave.cdp_words_ok HS (its_cfg running) [w] c1 []) as [[cs ms] Ew]. rewrite Ew.
      cbn [cdp_words] in Ew. destruct (cdp_check (its_cfg running) c1 w) as [[c3 m]|q] eqn:Ec; [|discriminate].
      injection Ew as <- <-. exists c3, []. unfold word_msgs. rewrite Ec, app_nil_r. reflexivity. }
    destruct Ecs as (cs & more0 & Ecs).
    assert (E3 : exists s3, link_step (its_cfg running) s2 {| c_rdh := r; c_payload := pg_payload (h_stop h); c_off := poff |} =
                            Ok (s3, word_msgs (its_cfg running) c1 w ++ more0)).
    { destruct running.
      - destruct (running_stop_page ld h k (h_stop h) (lk_running s2) (R2 eq_refl) Hk) as [R1' R2'].
        destruct (running_check (lk_running s2) (render_rdh ld h k 1 (h_stop h))) as [rs t11] eqn:E11. cbn [fst snd] in R1', R2'. subst t11.
        unfold r. rewrite (its_step true s2 _ _ poff ss rs E10 E11 Hpne). fold r. rewrite Ecs. eexists. reflexivity.
      - unfold r. rewrite (its_step false s2 _ _ poff ss (lk_running s2) E10 eq_refl Hpne). fold r. rewrite Ecs. eexists. reflexivity. }
    destruct E3 as [s3 E3].
    exists c1. split; [rewrite F1; exact Hch|]. split.
    { assert (Hw64 : wrap64 (poff + 64) = poff + 64) by (unfold wrap64; apply N.mod_small; lia).
      rewrite (pos_of_at c1 0 Cc); rewrite ?Pp, ?Dd, ?Hw64; [unfold C07_proofs.wpos; lia|lia|].
      unfold C07_proofs.pad_of. destruct (rdh_data_format r =? 0); lia. }
    subst r.
    destruct (C04_proofs.c04_no_panic_without_stave (its_cfg running) ((psA ++ psB) ++ {| c_rdh := render_rdh ld h k 1 (h_stop h); c_payload := pg_payload (h_stop h); c_off := poff |} :: ps2)
                ltac:(discriminate)) as [out' Eout].
    exists out'. unfold run_validator in Eout |- *. rewrite <- app_assoc in Eout |- *. rewrite E1, E2 in Eout |- *.
    cbn [link_run] in Eout |- *. rewrite E3 in Eout |- *.
    destruct (link_run (its_cfg running) s3 ps2 ([] ++ word_msgs (its_cfg running) c1 w ++ more0)) as [[sf o]|site] eqn:Er; [|discriminate].
    injection Eout as <-. destruct (link_run_keeps _ _ _ _ _ _ Er) as [more Em]. exists (more0 ++ more). split; [reflexivity|].
    rewrite Em. cbn [app]. rewrite app_assoc. reflexivity.
  Qed.
End FaultyDdw0.

Section InSyncFaultsDdw0.
  Context (HS : C04_stave.sites_handled).
  (* a DDW0-identified word that breaks a DDW0 rule (reserved bits, index): [E60] at the word *)
  Lemma insync_ddw0_fault c sk w more : is_choice_state (cs_fsm sk) = true ->
    nb 9 w = Gen.Facts.ddw0_id -> ddw0_sanity w <> [] -> has_err (pos_of sk) 60 (word_msgs c sk w ++ more).
  Proof.
    intros Hc Hid Hne. apply has_err_app. left. apply (c02_ddw0_sanity c sk w); [|exact Hne].
    unfold advance, advance_k, choice_arm. rewrite Hid. change Gen.Facts.ddw0_id with 228. change Gen.Facts.tdh_id with 232. change Gen.Facts.ihw_id with 224.
    destruct (cs_fsm sk); try discriminate; reflexivity.
  Qed.
  (* an identifier that is none of TDH / IHW / DDW0 where the DDW0 (or a new packet) is due: [E990] / [E992] at the word *)
  Lemma insync_unknown_id_choice_state c sk w more : is_choice_state (cs_fsm sk) = true ->
    nb 9 w <> Gen.Facts.tdh_id -> nb 9 w <> Gen.Facts.ihw_id -> nb 9 w <> Gen.Facts.ddw0_id ->
    has_err (pos_of sk) 990 (word_msgs c sk w ++ more) \/ has_err (pos_of sk) 992 (word_msgs c sk w ++ more).
  Proof.
    intros Hc H1 H2 H3. apply N.eqb_neq in H1, H2, H3.
    destruct (cs_fsm sk) eqn:Hf; try discriminate.
    - left. apply has_err_app. left.
      destruct (C02_total.c02_unrecognised_total HS c sk w A_TDH_or_DDW0) as (s1 & m & E & Hm).
      { unfold advance, advance_k, choice_arm. rewrite Hf, H1, H2, H3. reflexivity. }
      unfold word_msgs. rewrite E. exact Hm.
    - right. apply has_err_app. left.
      destruct (C02_total.c02_unrecognised_total HS c sk w A_DDW0_or_TDH_IHW) as (s1 & m & E & Hm).
      { unfold advance, advance_k, choice_arm. rewrite Hf, H1, H2, H3. reflexivity. }
      unfold word_msgs. rewrite E. exact Hm.
  Qed.
End InSyncFaultsDdw0.

(* ================================================================== the first TDH of a page: the word right behind the IHW *)
(* the payload of a format-2 page is cut in 10-byte words when its second word does not start with six zero bytes (finding F12 is about the
   other case); a format-0 page is cut in 16-byte slots whatever the words are *)
Definition not_six_zeros (w : list N) : Prop := forall tail, Nat.eqb (take_while_zero (take 6 (w ++ tail))) 6 = false.

Lemma layout_words_gen fmt ws pad second tl : (fmt = 0 \/ fmt = 2) -> Forall gw ws -> (pad <= 15)%nat ->
  ws = hd [] ws :: second :: tl -> (fmt = 0 \/ not_six_zeros second) ->
  words_of (layout fmt ws pad) = Some ws.
Proof.
  intros Hfmt Hg Hpad Hshape Hsec. pose proof (gw_word10 ws Hg) as H10.
  assert (Hne : ws <> []) by (rewrite Hshape; discriminate).
  unfold layout. destruct Hfmt as [-> | ->]; cbn [N.eqb].
  - exact (proj1 (c12_fmt0 ws pad H10 Hne Hpad)).
  - destruct Hsec as [X|Hsec]; [discriminate X|].
    refine (proj1 (c12_fmt2 ws pad H10 Hpad (last_not_ff_words ws Hg Hne) _)).
    unfold detect_fmt0. rewrite Hshape. cbn [concat].
    assert (L : length (hd [] ws) = 10%nat).
    { rewrite Hshape in H10. inversion H10; subst. cbn [hd]. assumption. }
    rewrite <- app_assoc. rewrite <- L at 1. rewrite drop_app_exact. rewrite <- app_assoc.
    apply Hsec.
Qed.

Section FaultyFirstTdh.
  Context (HS : C04_stave.sites_handled).

  Lemma insync_first_tdh_page running ld h k pg ihw opened w rest pad s pos :
    (l_format ld = 0 \/ l_format ld = 2) -> W_ihw ihw -> Forall gw (w :: rest) -> (l_format ld = 0 \/ not_six_zeros w) -> (pad <= 15)%nat ->
    pg_payload pg = layout (l_format ld) (ihw :: w :: rest) pad -> PEntry opened s ->
    pos + 64 + 2 * 16 < 18446744073709551616 ->
    exists sk s' more,
      do_payload_checks (its_cfg running) s (render_rdh ld h k 0 pg) (pg_payload pg) pos = Ok (s', word_msgs (its_cfg running) sk w ++ more) /\
      (cs_fsm sk = S_cTDH \/ cs_fsm sk = S_TDH_ByIhw) /\
      pos_of sk = C07_proofs.wpos (pos + 64) (10 + C07_proofs.pad_of (render_rdh ld h k 0 pg)) 1.
  Proof.
    intros Hfmt Hihw Hgw Hsix Hpad Hpl [Hrfv Hen] Hbound.
    set (r := render_rdh ld h k 0 pg).
    destruct (set_rdh_its s r pos Hrfv) as (s1 & E1 & F1 & R1 & V1 & W1).
    destruct (C07_proofs.set_current_rdh_ok s r pos s1 E1) as (P1 & C1 & D1 & _).
    assert (Hwords : words_of (pg_payload pg) = Some (ihw :: w :: rest)).
    { rewrite Hpl. apply (layout_words_gen _ _ _ w rest); auto. constructor; [apply gw_ihw; exact Hihw|exact Hgw]. }
    rewrite (c12_packet_words _ _ _ _ _ s1 _ E1 Hwords).
    assert (Hstop : r_stop_bit r = 0) by reflexivity.
    assert (Hpre : exists sk, cdp_words (its_cfg running) s1 [ihw] [] = Ok (sk, []) /\ (cs_fsm sk = S_cTDH \/ cs_fsm sk = S_TDH_ByIhw)).
    { destruct opened as [o|].
      - destruct Hen as (Hf & Ht & Ho).
        assert (S1 : St s1 S_cIHW r (sw_ihw (cs_words s1)) (Some o)) by (unfold St; rewrite F1, W1; repeat split; auto).
        destruct (step_ihw_cont running s1 r _ _ ihw S1 Hihw) as [s2 [E2 S2]].
        exists s2. cbn [cdp_words]. rewrite E2. cbn [app]. split; [reflexivity|left; apply S2].
      - assert (S1 : St s1 (cs_fsm s) r (sw_ihw (cs_words s1)) (sw_tdh (cs_words s1))) by (unfold St; repeat split; auto).
        destruct (step_ihw running s1 _ r _ _ ihw S1 Hen Hihw Hstop) as [s2 [E2 S2]].
        exists s2. cbn [cdp_words]. rewrite E2. cbn [app]. split; [reflexivity|right; apply S2]. }
    destruct Hpre as (sk & Epre & Fk).
    destruct (cdp_words_tracker _ _ _ _ _ _ 0%nat Epre C1 ltac:(cbn [length Nat.add]; lia)) as (Tc & Tp & Td). cbn [Nat.add length] in Tc.
    change (ihw :: w :: rest) with ([ihw] ++ w :: rest). rewrite cdp_words_app, Epre.
    destruct (C04_stave.cdp_words_ok HS (its_cfg running) (w :: rest) sk []) as [[s' ms] Ew]. rewrite Ew.
    cbn [cdp_words] in Ew. destruct (cdp_check (its_cfg running) sk w) as [[s3 m]|p] eqn:Ec; [|discriminate].
    destruct (cdp_words_extends _ _ _ _ _ _ Ew) as [more ->]. cbn [app].
    exists sk, s', more. split; [unfold word_msgs; rewrite Ec; reflexivity|]. split; [exact Fk|].
    assert (Hw64 : wrap64 (pos + 64) = pos + 64) by (unfold wrap64; apply N.mod_small; lia).
    rewrite (pos_of_at sk 1 Tc); rewrite ?Tp, ?Td, ?P1, ?D1, ?Hw64; [reflexivity|lia|].
    unfold C07_proofs.pad_of. destruct (rdh_data_format r =? 0); lia.
  Qed.

  (* both states have a single successor, the TDH: EVERY word that is no sane TDH draws [E40] at the word *)
  Lemma insync_first_tdh_fault c sk w more : (cs_fsm sk = S_cTDH \/ cs_fsm sk = S_TDH_ByIhw) ->
    tdh_sanity w <> [] -> has_err (pos_of sk) 40 (word_msgs c sk w ++ more).
  Proof.
    intros Hf Hne. apply has_err_app. left. destruct Hf as [Hf|Hf].
    - apply (c02_tdh_sanity c sk w P_TDH_cont); [unfold advance, advance_k; rewrite Hf; reflexivity|right; left; reflexivity|exact Hne].
    - apply (c02_tdh_sanity c sk w P_TDH); [unfold advance, advance_k; rewrite Hf; destruct (sl_tdh_no_data w); reflexivity|left; reflexivity|exact Hne].
  Qed.
End FaultyFirstTdh.

Section FaultyFirstTdhLink.
  Context (HS : C04_stave.sites_handled).
  Context (ld : link_desc) (Hwf : wf_link_rdh ld = true) (Hsys : l_system ld = Gen.Facts.its_system_id)
          (Hfmt : l_format ld = 0 \/ l_format ld = 2).
  Let layf (p : its_page) : list N := layout (l_format ld) (page_words p) (ip_pad p).

  Theorem c02_insync_link_first_tdh running hbfs1 ihs1 h hbfs2 pgs1 pg pgs2 ips1 ip ips2 ihw w rest pad ps1 p ps2 :
    l_hbfs ld = hbfs1 ++ h :: hbfs2 -> Forall2 (its_hbf_ok (l_format ld)) hbfs1 ihs1 ->
    h_pages h = pgs1 ++ pg :: pgs2 ->
    pages_ok h true None (ips1 ++ ip :: ips2) ->
    map pg_payload pgs1 = map layf ips1 ->
    W_ihw ihw -> Forall gw (w :: rest) -> (l_format ld = 0 \/ not_six_zeros w) -> (pad <= 15)%nat ->
    pg_payload pg = layout (l_format ld) (ihw :: w :: rest) pad ->
    map strip ps1 = flat_map (render_hbf ld) hbfs1 ++ render_pages ld h 0 pgs1 ->
    strip p = (render_rdh ld h (N.of_nat (length pgs1)) 0 pg, pg_payload pg) ->
    c_off p + 64 + 2 * 16 < 18446744073709551616 ->
    exists sk,
      (cs_fsm sk = S_cTDH \/ cs_fsm sk = S_TDH_ByIhw) /\
      pos_of sk = C07_proofs.wpos (c_off p + 64) (10 + C07_proofs.pad_of (c_rdh p)) 1 /\
      exists out more, run_validator (its_cfg running) (ps1 ++ p :: ps2) = Ok out /\ out = word_msgs (its_cfg running) sk w ++ more.
  Proof.
    intros Hl Hall Hpages Hpo Hpl1 Hihw Hgw Hsix Hpad Hpl Hm1 Hp Hbound.
    pose proof (wf_parts ld Hwf) as (_ & _ & _ & _ & _ & _ & _ & _ & Hh & Ho). rewrite Hl in Hh, Ho.
    rewrite forallb_app in Hh. apply andb_true_iff in Hh. destruct Hh as [Hh1 Hh2]. cbn [forallb] in Hh2.
    apply andb_true_iff in Hh2. destruct Hh2 as [Hh _].
    apply orbits_differ_prefix in Ho.
    assert (Hsp : exists psA psB, ps1 = psA ++ psB /\ map strip psA = flat_map (render_hbf ld) hbfs1 /\ map strip psB = render_pages ld h 0 pgs1).
    { exists (firstn (length (flat_map (render_hbf ld) hbfs1)) ps1), (skipn (length (flat_map (render_hbf ld) hbfs1)) ps1).
      split; [symmetry; apply firstn_skipn|]. rewrite <- firstn_map, <- skipn_map, Hm1. split; [apply firstn_app_exact|apply skipn_app_exact]. }
    destruct Hsp as (psA & psB & -> & HA & HB).
    destruct (its_run_hbfs_then ld Hwf Hsys Hfmt running hbfs1 ihs1 Hall psA (link_init (its_cfg running)) [] None h Hh1 Ho HA) with (rest := psB ++ p :: ps2)
      as (s1 & prev' & E1 & L1 & P1 & B1 & O1).
    { unfold latch_ok, link_init, its_cfg, sanity_init. cbn. split; [left; reflexivity|right; rewrite Hsys; reflexivity]. }
    { split; reflexivity. }
    { intros _. reflexivity. }
    pose proof Hh as Hh'. unfold wf_hbf in Hh'. repeat (apply andb_true_iff in Hh'; destruct Hh' as [Hh' ?]).
    match goal with H : (N.of_nat (length (h_pages h)) <? 65535) = true |- _ => apply N.ltb_lt in H; rename H into Hn end.
    rewrite Hpages, app_length in Hn. cbn [length] in Hn.
    destruct (its_run_pages_split ld Hwf Hsys Hfmt running h Hh ips1 true None ip ips2 Hpo pgs1 0 s1 psB [] HB Hpl1 L1 P1
                (fun X => between_inv ld prev' _ h (B1 X) O1) ltac:(lia) ltac:(reflexivity) (p :: ps2)) as (s2 & f2 & o2 & E2 & L2 & P2 & R2 & Q2 & F2).
    rewrite N.add_0_l in R2, F2.
    destruct p as [pr pp poff]. unfold strip in Hp. cbn [c_rdh c_payload c_off] in *. injection Hp as -> ->.
    set (k := N.of_nat (length pgs1)) in *.
    destruct (sane_rendered ld Hwf (lk_sanity s2) h k 0 pg L2 Hh ltac:(lia)) as [S1 S2].
    destruct (rdh_sanity (lk_sanity s2) (render_rdh ld h k 0 pg)) as [ss t10] eqn:E10. cbn [fst snd] in S1, S2. subst t10.
    assert (Hpne : pg_payload pg <> []).
    { rewrite Hpl. apply layout_nonempty. destruct Hihw as [[L _] _]. exact L. }
    destruct (insync_first_tdh_page HS running ld h k pg ihw o2 w rest pad (lk_cdp s2) poff Hfmt Hihw Hgw Hsix Hpad Hpl P2 Hbound) as (sk & cs & more0 & Ecs & Fk & Posk).
    assert (E3 : exists s3, link_step (its_cfg running) s2 {| c_rdh := render_rdh ld h k 0 pg; c_payload := pg_payload pg; c_off := poff |} =
                            Ok (s3, word_msgs (its_cfg running) sk w ++ more0)).
    { destruct running.
      - destruct (running_data_page ld h k pg (lk_running s2) (R2 eq_refl) ltac:(lia)) as [R1' R2'].
        destruct (running_check (lk_running s2) (render_rdh ld h k 0 pg)) as [rs t11] eqn:E11. cbn [fst snd] in R1', R2'. subst t11.
        rewrite (its_step true s2 _ _ poff ss rs E10 E11 Hpne), Ecs. eexists. reflexivity.
      - rewrite (its_step false s2 _ _ poff ss (lk_running s2) E10 eq_refl Hpne), Ecs. eexists. reflexivity. }
    destruct E3 as [s3 E3].
    exists sk. split; [exact Fk|]. split; [exact Posk|].
    destruct (C04_proofs.c04_no_panic_without_stave (its_cfg running) ((psA ++ psB) ++ {| c_rdh := render_rdh ld h k 0 pg; c_payload := pg_payload pg; c_off := poff |} :: ps2)
                ltac:(discriminate)) as [out' Eout].
    exists out'. unfold run_validator in Eout |- *. rewrite <- app_assoc in Eout |- *. rewrite E1, E2 in Eout |- *.
    cbn [link_run] in Eout |- *. rewrite E3 in Eout |- *.
    destruct (link_run (its_cfg running) s3 ps2 ([] ++ word_msgs (its_cfg running) sk w ++ more0)) as [[sf o]|site] eqn:Er; [|discriminate].
    injection Eout as <-. destruct (link_run_keeps _ _ _ _ _ _ Er) as [more Em]. exists (more0 ++ more). split; [reflexivity|].
    rewrite Em. cbn [app]. rewrite app_assoc. reflexivity.
  Qed.
End FaultyFirstTdhLink.
