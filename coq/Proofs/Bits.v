(* Bit-level lemmas used by the word and RDH proofs. *)
From Coq Require Import List NArith ZArith Bool Lia ZifyBool ZifyN Arith.
From FP Require Import Model.Base.
Import ListNotations.
Open Scope N_scope.
Ltac Zify.zify_post_hook ::= Z.div_mod_to_equations.

Lemma land_mask_shift x lo len :
  N.land x (N.shiftl (N.ones len) lo) = N.shiftl (N.land (N.shiftr x lo) (N.ones len)) lo.
Proof.
  apply N.bits_inj; intro n.
  rewrite N.land_spec.
  destruct (N.lt_ge_cases n lo) as [Hlt|Hge].
  - rewrite !N.shiftl_spec_low by assumption. apply andb_false_r.
  - rewrite !N.shiftl_spec_high' by assumption.
    rewrite N.land_spec, N.shiftr_spec'.
    replace (n - lo + lo) with n by lia. reflexivity.
Qed.

Lemma land_lit x M lo len :
  M = N.shiftl (N.ones len) lo -> N.land x M = ((x / 2 ^ lo) mod 2 ^ len) * 2 ^ lo.
Proof.
  intros ->. rewrite land_mask_shift, N.shiftl_mul_pow2, N.land_ones, N.shiftr_div_pow2. reflexivity.
Qed.

Lemma land_lit_eq0 x M lo len :
  M = N.shiftl (N.ones len) lo -> (N.land x M = 0 <-> field x lo len = 0).
Proof.
  intros HM. rewrite (land_lit x M lo len HM). unfold field.
  assert (2 ^ lo <> 0) by (apply N.pow_nonzero; lia).
  split; intros H0.
  - apply N.eq_mul_0 in H0. tauto.
  - rewrite H0. reflexivity.
Qed.

Lemma lor_eq0 a b : N.lor a b = 0 <-> a = 0 /\ b = 0.
Proof. apply N.lor_eq_0_iff. Qed.

Lemma shiftl_eq0 a n : N.shiftl a n = 0 <-> a = 0.
Proof. apply N.shiftl_eq_0_iff. Qed.

(* destructuring a 10-byte word *)
Definition word_ok (w : list N) : Prop := length w = 10%nat /\ Forall byte_ok w.

Lemma word_ok_inv w : word_ok w ->
  exists b0 b1 b2 b3 b4 b5 b6 b7 b8 b9,
    w = [b0;b1;b2;b3;b4;b5;b6;b7;b8;b9] /\
    b0 < 256 /\ b1 < 256 /\ b2 < 256 /\ b3 < 256 /\ b4 < 256 /\
    b5 < 256 /\ b6 < 256 /\ b7 < 256 /\ b8 < 256 /\ b9 < 256.
Proof.
  intros [Hl Hf].
  do 10 (destruct w as [|? w]; [discriminate Hl|]).
  destruct w; [|discriminate Hl].
  repeat match goal with H : Forall _ (_ :: _) |- _ => inversion H; clear H; subst end.
  unfold byte_ok in *.
  do 10 eexists. split; [reflexivity|]. repeat split; assumption.
Qed.

Lemma field_low b r j len : b < 256 -> j + len <= 8 ->
  field (b + 256 * r) j len = field b j len.
Proof.
  intros Hb Hj. unfold field.
  assert (Hj8 : j <= 8) by lia.
  replace 256 with (2 ^ j * 2 ^ (8 - j)).
  2:{ rewrite <- N.pow_add_r. replace (j + (8 - j)) with 8 by lia. reflexivity. }
  rewrite <- N.mul_assoc.
  rewrite N.mul_comm with (n := 2 ^ j), N.div_add by (apply N.pow_nonzero; lia).
  replace (2 ^ (8 - j)) with (2 ^ len * 2 ^ (8 - j - len)).
  2:{ rewrite <- N.pow_add_r. f_equal. lia. }
  rewrite <- N.mul_assoc, (N.mul_comm (2 ^ len)), N.mod_add by (apply N.pow_nonzero; lia).
  reflexivity.
Qed.

Lemma field_high b r m len : b < 256 ->
  field (b + 256 * r) (8 + m) len = field r m len.
Proof.
  intros Hb. unfold field. rewrite N.pow_add_r, <- N.div_div by (try apply N.pow_nonzero; lia).
  change (2 ^ 8) with 256.
  rewrite N.mul_comm, N.div_add by lia. rewrite (N.div_small b 256) by assumption.
  reflexivity.
Qed.

Lemma le_field_byte bs : Forall byte_ok bs -> forall k j len, j + len <= 8 ->
  field (le bs) (8 * N.of_nat k + j) len = field (nth k bs 0) j len.
Proof.
  induction 1 as [|b r Hb Hr IH]; intros k j len Hj.
  - destruct k; cbn [le nth]; unfold field; rewrite !N.div_0_l by (apply N.pow_nonzero; lia); reflexivity.
  - destruct k as [|k]; cbn [le nth].
    + change (8 * N.of_nat 0 + j) with j. apply field_low; assumption.
    + replace (8 * N.of_nat (S k) + j) with (8 + (8 * N.of_nat k + j)) by lia.
      rewrite field_high by assumption. apply IH. assumption.
Qed.

(* complete enumeration of one byte *)
Definition all_bytes : list N := map N.of_nat (seq 0 256).

Lemma all_bytes_complete b : b < 256 -> In b all_bytes.
Proof.
  intros Hb. unfold all_bytes. apply in_map_iff. exists (N.to_nat b).
  split; [apply N2Nat.id|]. apply in_seq. lia.
Qed.

Lemma byte_forall (P : N -> bool) :
  forallb P all_bytes = true -> forall b, b < 256 -> P b = true.
Proof.
  intros H b Hb. rewrite forallb_forall in H. apply H, all_bytes_complete, Hb.
Qed.

Lemma testbit_pow2_land x k : negb (N.land x (N.shiftl 1 k) =? 0) = N.testbit x k.
Proof.
  rewrite N.shiftl_1_l.
  destruct (N.testbit x k) eqn:Hk.
  - apply negb_true_iff, N.eqb_neq. intros H0.
    assert (Ht : N.testbit (N.land x (2 ^ k)) k = true)
      by (rewrite N.land_spec, Hk, N.pow2_bits_true; reflexivity).
    rewrite H0, N.bits_0 in Ht. discriminate.
  - apply negb_false_iff, N.eqb_eq. apply N.bits_inj; intro n.
    rewrite N.land_spec, N.bits_0.
    destruct (N.eq_dec n k) as [->|Hn].
    + rewrite Hk. reflexivity.
    + rewrite N.pow2_bits_false by congruence. apply andb_false_r.
Qed.

(* ---- windows of a little-endian byte string ---- *)
Lemma le_bound bs : Forall byte_ok bs -> le bs < 2 ^ (8 * N.of_nat (length bs)).
Proof.
  induction 1 as [|b r Hb Hr IH]; cbn [le length].
  - cbn. lia.
  - unfold byte_ok in Hb.
    replace (8 * N.of_nat (S (length r))) with (8 + 8 * N.of_nat (length r)) by lia.
    rewrite N.pow_add_r. change (2 ^ 8) with 256. nia.
Qed.

Lemma le_split bs k : le bs = le (take k bs) + 2 ^ (8 * N.of_nat (length (take k bs))) * le (drop k bs).
Proof.
  revert bs; induction k as [|k IH]; intros bs.
  - cbn [take drop le length]. change (2 ^ (8 * N.of_nat 0)) with 1. lia.
  - destruct bs as [|b r]; cbn [take drop le length]; [change (2 ^ (8 * N.of_nat 0)) with 1; lia|].
    rewrite (IH r) at 1.
    replace (8 * N.of_nat (S (length (take k r)))) with (8 + 8 * N.of_nat (length (take k r))) by lia.
    rewrite N.pow_add_r. change (2 ^ 8) with 256. lia.
Qed.

Lemma take_ok k bs : Forall byte_ok bs -> Forall byte_ok (take k bs).
Proof. intros H; revert k; induction H as [|b r Hb Hr IH]; intros [|k]; cbn; constructor; auto. Qed.
Lemma drop_ok k bs : Forall byte_ok bs -> Forall byte_ok (drop k bs).
Proof. intros H; revert k; induction H as [|b r Hb Hr IH]; intros [|k]; cbn; try constructor; auto. Qed.

(* x = a + 2^p * r with a < 2^p *)
Lemma field_shift a p r j len : a < 2 ^ p -> field (a + 2 ^ p * r) (p + j) len = field r j len.
Proof.
  intros Ha. unfold field. rewrite N.pow_add_r, <- N.div_div by (apply N.pow_nonzero; lia).
  rewrite N.mul_comm, N.div_add by (apply N.pow_nonzero; lia).
  rewrite (N.div_small a) by assumption. reflexivity.
Qed.

Lemma field_trunc a p r j len : j + len <= p -> field (a + 2 ^ p * r) j len = field a j len.
Proof.
  intros Hj. unfold field.
  replace (2 ^ p) with (2 ^ j * (2 ^ len * 2 ^ (p - j - len))).
  2:{ rewrite <- !N.pow_add_r. f_equal. lia. }
  rewrite <- N.mul_assoc.
  rewrite (N.mul_comm (2 ^ j)), N.div_add by (apply N.pow_nonzero; lia).
  rewrite <- N.mul_assoc, (N.mul_comm (2 ^ len)), N.mod_add by (apply N.pow_nonzero; lia).
  reflexivity.
Qed.

Lemma field_window bs k m j len : Forall byte_ok bs -> (k + m <= length bs)%nat ->
  j + len <= 8 * N.of_nat m ->
  field (le bs) (8 * N.of_nat k + j) len = field (le (take m (drop k bs))) j len.
Proof.
  intros Hok Hlen Hj.
  rewrite (le_split bs k).
  assert (Hlk : length (take k bs) = k).
  { clear -Hlen. revert bs Hlen; induction k as [|k IH]; intros [|b r] H; cbn in *; try lia. rewrite IH; lia. }
  rewrite Hlk.
  rewrite field_shift.
  2:{ pose proof (le_bound (take k bs) (take_ok k bs Hok)) as Hb. rewrite Hlk in Hb. exact Hb. }
  rewrite (le_split (drop k bs) m).
  assert (Hlm : length (take m (drop k bs)) = m).
  { assert (Hd : (m <= length (drop k bs))%nat).
    { clear -Hlen. revert bs Hlen; induction k as [|k IH]; intros [|b r] H; cbn in *; try lia. apply IH; lia. }
    clear -Hd. revert Hd. generalize (drop k bs) as l. induction m as [|m IH]; intros [|b r] H; cbn in *; try lia.
    rewrite IH; lia. }
  rewrite Hlm. apply field_trunc. assumption.
Qed.

Lemma field_testbit x lo len n :
  N.testbit (field x lo len) n = (n <? len) && N.testbit x (lo + n).
Proof.
  unfold field. destruct (N.ltb_spec n len) as [Hlt|Hge].
  - rewrite N.mod_pow2_bits_low by assumption. rewrite N.div_pow2_bits. cbn. f_equal. lia.
  - rewrite N.mod_pow2_bits_high by assumption. reflexivity.
Qed.

Lemma field_field x lo len j l : j + l <= len ->
  field (field x lo len) j l = field x (lo + j) l.
Proof.
  intros Hj. apply N.bits_inj; intro n.
  rewrite !field_testbit.
  destruct (N.ltb_spec n l) as [Hlt|Hge]; cbn; [|reflexivity].
  destruct (N.ltb_spec (j + n) len) as [_|Hc]; [|lia]. cbn. f_equal. lia.
Qed.

Lemma land_lor_eq0 x a c : N.land x (N.lor a c) = 0 <-> N.land x a = 0 /\ N.land x c = 0.
Proof. rewrite N.land_lor_distr_r. apply N.lor_eq_0_iff. Qed.
