"""Builders for ITS payload words, payloads and packets (used by several property checks).
Mirrors the word layouts of Spec/WordLayout.v; everything is plain bytes."""
import struct

from . import rawdata

ALL_LANES = 0x0FFFFFFF


def ihw(lanes=ALL_LANES, reserved=0, idb=0xE0):
    return struct.pack("<I", lanes & 0xFFFFFFFF) + struct.pack("<I", reserved & 0xFFFFFFFF) + bytes([0, idb])


def tdh(trigger_type=0x003, internal=1, no_data=0, continuation=0, bc=0, orbit=0, res=0, idb=0xE8):
    w0 = (trigger_type & 0xFFF) | (internal & 1) << 12 | (no_data & 1) << 13 | (continuation & 1) << 14 | ((res & 1) << 15)
    w1 = (bc & 0xFFF) | ((res >> 1) & 0xF) << 12
    return struct.pack("<HHI", w0, w1, orbit & 0xFFFFFFFF) + bytes([(res >> 5) & 0xFF, idb])


def tdt(packet_done=1, lane_status=0, b7=0, b8_extra=0, idb=0xF0):
    b = bytearray(10)
    b[0:7] = (lane_status & ((1 << 56) - 1)).to_bytes(7, "little")
    b[7] = b7 & 0xFF
    b[8] = (packet_done & 1) | (b8_extra & 0xFE)
    b[9] = idb
    return bytes(b)


def ddw0(index=0, lane_status=0, b8_extra=0, idb=0xE4):
    b = bytearray(10)
    b[0:7] = (lane_status & ((1 << 56) - 1)).to_bytes(7, "little")
    b[8] = ((index & 0xF) << 4) | (b8_extra & 0x0F)
    b[9] = idb
    return bytes(b)


def cdw(index=0, user=0, idb=0xF8):
    v = (user & ((1 << 48) - 1)) | ((index & 0xFFFFFF) << 48)
    return v.to_bytes(9, "little") + bytes([idb])


def data_word(idb, body=b"\x00" * 9):
    return bytes(body[:9]).ljust(9, b"\x00") + bytes([idb])


def payload(words, fmt, ff=None):
    """format 2: words back to back + 0xFF up to a multiple of 16 (or exactly `ff` bytes);
    format 0: 16-byte slots with 6 zero bytes"""
    if fmt == 0:
        p = b"".join(w + b"\x00" * 6 for w in words)
        return p + b"\xFF" * (ff or 0)
    p = b"".join(words)
    if ff is None:
        ff = (-len(p)) % 16
    return p + b"\xFF" * ff


def packet(words, fmt=2, ff=None, **rdh_fields):
    p = payload(words, fmt, ff)
    r = rawdata.mk_rdh(fmt=fmt, payload_len=len(p), **rdh_fields)
    return r, p


def layout(packets, start=0):
    """[(rdh, payload)] -> [(offset, rdh, payload)] laid out back to back"""
    out = []
    off = start
    for r, p in packets:
        out.append((off, r, p))
        off += 64 + len(p)
    return out


def hexs(b):
    return bytes(b).hex().upper()
