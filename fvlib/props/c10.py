"""C10 -- RDH sanity and running checks implement the documented rules exactly."""
import random
import struct

from .. import core, canon, rawdata

TRUSTED = [
    "Coq 8.16.1 kernel (coqc); vm_compute only for per-byte (256-case) bit-field facts; no native_compute",
    "axioms: none (Print Assumptions: Closed under the global context for every C10 theorem)",
    "gen/extract_facts.py: FEE-id reserved mask, stave/layer bounds, BC maximum, trigger spare mask, detector-field mask, header size, ITS system id read from the current sources",
    "extraction with ExtrOcamlBasic only; OCaml driver ocaml/driver.ml (streams link, rdhspec)",
    "fp_harness `link` stream (LinkValidator over RDH-only packets, run on the calling thread)",
    "canonicalisation of [E10]/[E11] message text to sub-rule tags (fvlib/canon.py)",
    "Spec/RdhRules.v is our reading of doc/checks_list.md (DESIGN.md D1, D2)",
]


def hbf(rng, orbit, pages, fee=0x502A, trigger=0x6A03, link=0, version=7, sysid=0x20, detfield=0):
    """a conforming HBF of `pages` data pages + the stop page"""
    out = []
    bc = rng.randrange(0, 0xDEC)
    for p in range(pages + 1):
        out.append(bytearray(rawdata.mk_rdh(version=version, fee=fee, sysid=sysid, link=link, orbit=orbit, bc=bc,
                                            trigger=trigger, pages=p, stop=1 if p == pages else 0, detfield=detfield,
                                            pktcnt=rng.randrange(256), cru=rng.randrange(4096), fmt=rng.choice([0, 2]),
                                            dw=rng.choice([0, 1]), par=rng.randrange(65536))))
    return out


def history(rng, n):
    out = []
    orbit = rng.randrange(1 << 32)
    fee = (rng.randrange(7) << 12) | (rng.randrange(4) << 8) | rng.randrange(48)
    trig = rng.choice([0x6A03, 0x4813, 0x0001, 0x0893, 0x10])
    ver = rng.choice([6, 7])
    while len(out) < n:
        out.extend(hbf(rng, orbit, rng.randrange(1, 5), fee=fee, trigger=trig, version=ver))
        orbit = (orbit + rng.choice([1, 1, 1, 32, 0xFFFFFFFF])) & 0xFFFFFFFF
    return out[:n]


BOUNDARY = [
    ("bc", 16, "<I", [0xDEB, 0xDEC, 0xFFF, 0x1000, 0xDEB | 0x80000]),
    ("fee", 2, "<H", [47, 48, 63, 0x6000, 0x7000, 0x6000 | 47, 0x0040, 0x0080, 0x0400, 0x0800, 0x8000, 0x0300]),
    ("stop", 38, "<B", [0, 1, 2, 255]),
    ("fmt", 24, "<B", [0, 1, 2, 3, 255]),
    ("cru_dw", 14, "<H", [0x0000, 0x1000, 0x2000, 0xF000, 0x1FFF]),
    ("trigger", 32, "<I", [0, 1, 1 << 14, 1 << 15, 1 << 26, 1 << 27, 0x07FF8000, 0xF8007FFF, 0xFFFFFFFF]),
    ("detfield", 48, "<I", [0, 0xFFF, 0x1000, 0x800000, 0x1000000, 0xFF000FFF, 0xFFFFFFFF]),
    ("hsize", 1, "<B", [0, 0x3F, 0x40, 0x41]),
    ("version", 0, "<B", [3, 6, 7, 8]),
    ("prio", 4, "<B", [0, 1, 128]),
    ("sysid", 5, "<B", [0, 0x1F, 0x20, 0x21]),
    ("pages", 36, "<H", [0, 1, 2, 0xFFFF]),
    ("orbit", 20, "<I", [0, 1, 0xFFFFFFFF]),
]


def gen_cases(tier, rng):
    cases = []   # (head, [rdh bytes], label)
    heads = ["all none - -", "all its - -", "sanity none - -", "sanity its - -", "all none - {\"rdh_version\":7}", "all its - {\"rdh_version\":6}"]
    # (1) every single-bit deviation of the 512 header bits at every position of a history
    lens = [1, 2, 3, 5, 8] if tier == "thorough" else [1, 3, 6]
    for n in lens:
        base = history(rng, n)
        cases.append((heads[0], [bytes(b) for b in base], "clean"))
        positions = range(n) if tier == "thorough" else sorted(set([0, 1, n - 1, rng.randrange(n)]))
        for pos in positions:
            if pos >= n:
                continue
            for bit in range(512):
                h = [bytearray(b) for b in base]
                h[pos][bit // 8] ^= 1 << (bit % 8)
                cases.append((heads[(bit + pos) % 2], [bytes(b) for b in h], "bit%d@%d" % (bit, pos)))
    # (2) boundary values of each field at a random position
    for rep in range(6 if tier == "thorough" else 2):
        for name, off, fmt, vals in BOUNDARY:
            for v in vals:
                n = rng.randrange(1, 7)
                h = history(rng, n)
                pos = rng.randrange(n)
                struct.pack_into(fmt, h[pos], off, v)
                cases.append((rng.choice(heads), [bytes(b) for b in h], "%s=%X@%d" % (name, v, pos)))
    # (3) random walks over page counter / stop bit / orbit / trigger / fee
    nwalk = 3000 if tier == "thorough" else 250
    for _ in range(nwalk):
        n = rng.randrange(2, 40 if tier == "thorough" else 16)
        h = history(rng, n)
        for _k in range(rng.randrange(0, 4)):
            pos = rng.randrange(n)
            what = rng.randrange(6)
            if what == 0:
                struct.pack_into("<H", h[pos], 36, rng.choice([0, 1, 2, 3, rng.randrange(65536)]))
            elif what == 1:
                h[pos][38] = rng.choice([0, 1, 1, 2])
            elif what == 2:
                struct.pack_into("<I", h[pos], 20, struct.unpack_from("<I", h[max(0, pos - 1)], 20)[0])
            elif what == 3:
                struct.pack_into("<I", h[pos], 32, rng.choice([0x6A03, 0x4813, 1]))
            elif what == 4:
                struct.pack_into("<H", h[pos], 2, rng.choice([0x502A, 0x0001, 0x6120]))
            else:
                del h[pos]
                n -= 1
                if n == 0:
                    break
        if h:
            cases.append((rng.choice(heads), [bytes(b) for b in h], "walk"))
    # (3b) TWO deviations: one in the RDH0 of the first header of the history (what the validator latches from the first RDH it sees --
    #      header id, system id -- is latched whether or not that RDH passes), one anywhere in a later header; and the targeted pair
    #      `first header faulty in any RDH0 field, a later header with another header id`
    npair = 2500 if tier == "thorough" else 400
    for k in range(npair):
        n = rng.randrange(2, 7)
        h = history(rng, n)
        a = rng.randrange(64)
        h[0][a // 8] ^= 1 << (a % 8)
        pos = rng.randrange(1, n)
        if k % 3 == 0:
            h[pos][0] = rng.choice([3, 6, 7, 8, 100]) if h[pos][0] != 6 else 7       # another header id, nothing else
            label = "pair:rdh0bit%d@0+version@%d" % (a, pos)
        else:
            b_ = rng.randrange(512)
            h[pos][b_ // 8] ^= 1 << (b_ % 8)
            label = "pair:rdh0bit%d@0+bit%d@%d" % (a, b_, pos)
        cases.append((heads[k % 4], [bytes(x) for x in h], label))
    # (4) fully random headers
    for _ in range(2000 if tier == "thorough" else 200):
        n = rng.randrange(1, 5)
        cases.append((rng.choice(heads), [bytes(rng.randrange(256) for _ in range(64)) for _ in range(n)], "random"))
    return cases


def starts_at_hbf(rdhs):
    if len(rdhs) < 2:
        return True
    return struct.unpack_from("<H", rdhs[0], 36)[0] == 0 and struct.unpack_from("<H", rdhs[1], 36)[0] == 1


def run(tier, seed):
    chk = core.Check("C10", tier, seed)
    rng = random.Random(seed)
    gen = core.step_gen()
    chk.cov["gen"] = gen["log"]
    chk.cov["gen_facts"] = {k: v for k, v in gen["facts"].items()
                            if k in ("fee_layer_min", "fee_layer_max", "fee_stave_min", "fee_stave_max", "fee_reserved_mask",
                                     "its_system_id", "rdh_bc_max", "trigger_spare_mask", "detfield_reserved_mask", "rdh_header_size")}
    chk.proof = core.step_coq("Props/C10.v")
    core.step_model()
    h = core.step_harness()
    if not h["ok"]:
        chk.disagreements.append({"stream": "build", "detail": "harness does not build against /repo", "log": h["log"][-1500:]})
        return core.finish(chk, TRUSTED)
    deep = tier == "thorough" or not chk.proof["ok"]
    cases = gen_cases("thorough" if deep else "quick", rng)
    lines = []
    for head, rdhs, _label in cases:
        lines.append(rawdata.link_line(head, [(0x40 * 3 * i + 0x1000, r, b"") for i, r in enumerate(rdhs)]))
    impl = [canon.canon_link(x) for x in core.run_lines(core.HARNESS_BIN, "link", lines)]
    model = [x.strip() for x in core.run_lines(core.FPMODEL, "link", lines)]
    spec = core.run_lines(core.FPMODEL, "rdhspec", lines)
    distinct = set()
    dist = {}
    samples = []
    nrdh = 0
    for (head, rdhs, label), line, li, lm, sp in zip(cases, lines, impl, model, spec):
        kind = label.split("@")[0].split("=")[0]
        kind = "bit" if kind.startswith("bit") else ("pair" if kind.startswith("pair") else kind)
        dist[kind] = dist.get(kind, 0) + 1
        nrdh += len(rdhs)
        if li == "PANIC":
            chk.spec_violations.append({"stream": "rdh", "case": line[:1500], "what": "validator panicked on an RDH sequence"})
            continue
        if li != lm:
            chk.disagreements.append({"stream": "rdh", "label": label, "case": line[:1500], "impl": li[:500], "model": lm[:500]})
        toks = [] if li == "-" else li.split()
        by_off = {}
        for t in toks:
            f = t.split(":")
            by_off.setdefault(int(f[1], 16), []).append(int(f[2]))
        running = head.startswith("all")
        hbf_ok = starts_at_hbf(rdhs) and len(rdhs) < 60000
        verdicts = sp.split()
        for i, v in enumerate(verdicts):
            off = 0x40 * 3 * i + 0x1000
            codes = by_off.pop(off, [])
            e10 = 10 in codes
            e11 = 11 in codes
            sane = v[0] == "1"
            viol = v[1] == "1"
            distinct.add((kind if kind != "bit" else label.split("@")[0], e10, e11))
            if e10 == sane:
                chk.spec_violations.append({"stream": "rdh", "label": label, "case": line[:1500], "rdh_index": i, "impl_codes": codes,
                                            "spec": "sane" if sane else "violates a documented sanity rule",
                                            "what": "[E10] reported iff a documented sanity condition is violated -- broken"})
            if running and hbf_ok and e11 != viol:
                chk.spec_violations.append({"stream": "rdh", "label": label, "case": line[:1500], "rdh_index": i, "impl_codes": codes,
                                            "spec": "running violation" if viol else "no running violation",
                                            "what": "[E11] reported iff a documented running rule is violated -- broken"})
            if not running and e11:
                chk.spec_violations.append({"stream": "rdh", "label": label, "case": line[:1500], "rdh_index": i,
                                            "what": "[E11] (running check) reported by `check sanity`"})
            if [c for c in codes if c not in (10, 11)]:
                chk.spec_violations.append({"stream": "rdh", "label": label, "case": line[:1500], "rdh_index": i, "impl_codes": codes,
                                            "what": "unexpected error code for an RDH-only packet"})
        if by_off:
            chk.spec_violations.append({"stream": "rdh", "label": label, "case": line[:1500], "impl": li[:400],
                                        "what": "error reported at an offset that is not an RDH offset"})
        if len(samples) < 5 and label != "clean" and toks and kind in ("bit", "bc", "stop", "walk"):
            samples.append({"label": label, "head": head, "impl": li[:200], "model": lm[:200], "spec(sane,running_violation)": sp})
    chk.cov["rule"] = ("RDH-only packet sequences through LinkValidator: every single-bit deviation of all 512 header bits at "
                       "positions of conforming histories, boundary values per field, random walks over page counter / stop bit / "
                       "orbit / trigger / FEE id with deletions, fully random headers; four mode/target heads + custom rdh_version. "
                       "distinct = (deviation label, E10 reported, E11 reported)")
    chk.cov["rdhs_checked"] = nrdh
    chk.add_stream("rdh", len(cases), distinct, samples, distribution=dist)
    return core.finish(chk, TRUSTED)
