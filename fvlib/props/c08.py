"""C08 -- filtered output is exact, lossless and partitions the input."""
import os
import random
import struct
import zlib

from .. import rawdata, core, scangen

TRUSTED = [
    "Coq 8.16.1 kernel (coqc); vm_compute for the non-vacuity example; no native_compute",
    "axioms: none (Print Assumptions: Closed under the global context for every C08 theorem)",
    "gen/extract_facts.py: offset window, layer/stave mask, batch size, cdp_offset_sampled_after (as C03)",
    "extraction with ExtrOcamlBasic only; OCaml driver (streams written, rdhrt)",
    "fp_harness `rdhrt` (RdhCru::load + to_byte_slice) and the real `fastpasta` binary rebuilt from /repo for the end-to-end runs "
    "(-f/-F/-s with -o <file> and stdout, input from file and from a pipe)",
    "the independent packet filter of fvlib/scangen.py (specification side)",
    "writer model: flush threshold is an arbitrary parameter of the theorem; the 1 Mi-element threshold of write/lib.rs is never reached by the runs",
]


def stave_arg(fee):
    return "L%d_%d" % ((fee >> 12) & 7, fee & 0x3F)


def cli_stream(rng, npk):
    """well-framed, recognisable by the CLI: first RDH0 sane, ITS system id"""
    pkts, ids = scangen.rand_stream(rng, npk, big=(npk < 8))
    out = []
    for rdh, payload in pkts:
        b = bytearray(rdh)
        b[5] = 0x20
        b[6] = b[7] = 0
        out.append((bytes(b), payload))
    return out, ids


def filt_args(flt):
    k, v = flt.split(":")
    v = int(v)
    if k == "link":
        return ["-f", str(v)]
    if k == "fee":
        return ["-F", str(v)]
    return ["-s", stave_arg(v)]


def run(tier, seed):
    chk = core.Check("C08", tier, seed)
    rng = random.Random(seed)
    gen = core.step_gen()
    chk.cov["gen"] = gen["log"]
    chk.cov["gen_facts"] = {k: v for k, v in gen["facts"].items() if k in ("layer_stave_mask", "batch_cap", "cdp_offset_sampled_after", "offset_window_hi")}
    chk.proof = core.step_coq("Props/C08.v")
    core.step_model()
    h = core.step_harness()
    b = core.step_cli() if h["ok"] else h
    if not h["ok"] or not b["ok"]:
        chk.disagreements.append({"stream": "build", "detail": "harness / binary does not build against /repo", "log": (h.get("log") or b.get("log", ""))[-1500:]})
        return core.finish(chk, TRUSTED)
    deep = tier == "thorough" or not chk.proof["ok"]
    # ------------------------------------------------------------ stream 1: 64-byte round trip
    blocks = []
    nrt = 20000 if deep else 2000
    for i in range(nrt):
        r = rng.random()
        if r < 0.4:
            blk = bytes(rng.randrange(256) for _ in range(64))
        elif r < 0.6:
            blk = bytes(rng.choice([0, 0xFF, 0x80, 0x7F, 1]) for _ in range(64))
        else:
            blk = bytearray(64)
            blk[rng.randrange(64)] = 1 << rng.randrange(8)
            blk = bytes(blk)
        blocks.append(blk.hex().upper())
    impl = core.run_lines(core.HARNESS_BIN, "rdhrt", blocks)
    model = core.run_lines(core.FPMODEL, "rdhrt", blocks)
    d1 = set()
    for blk, li, lm in zip(blocks, impl, model):
        if li != lm:
            chk.disagreements.append({"stream": "rdhrt", "block": blk, "impl": li[:300], "model": lm[:300]})
        ihex, _, ifields = li.partition(" ")
        if ihex != blk:
            chk.spec_violations.append({"stream": "rdhrt", "block": blk, "impl": ihex, "what": "re-serialised header differs from the 64 input bytes"})
        if ifields != scangen.field_sig(bytes.fromhex(blk)):
            chk.spec_violations.append({"stream": "rdhrt", "block": blk, "impl": ifields, "spec": scangen.field_sig(bytes.fromhex(blk)),
                                        "what": "decoded header fields differ from the documented layout"})
        d1.add(zlib.crc32(bytes.fromhex(blk)) & 0xFF)
    chk.add_stream("rdhrt", len(blocks), d1, [{"block": blocks[0], "impl": impl[0][:200]}])
    # ------------------------------------------------------------ stream 1b: the real BufferedWriter with small flush thresholds
    wcases = []
    wexp = []
    for _ in range(400 if deep else 60):
        n = rng.choice([1, 2, 3, 5, 9, 10, 11, 25, 40])
        pkts, _ids = scangen.rand_stream(rng, n)
        data = scangen.serialize(pkts)
        mx = rng.choice([1, 2, 3, 5, 10, 11, 1000])
        sizes = ",".join(str(rng.choice([1, 2, 3, 7, 100])) for _ in range(rng.randrange(1, 4)))
        wcases.append("%d %s %s" % (mx, sizes, data.hex().upper()))
        wexp.append("%d %08X" % (len(data), zlib.crc32(data) & 0xFFFFFFFF))
    wimpl = core.run_lines(core.HARNESS_BIN, "writer", wcases)
    wmodel = core.run_lines(core.FPMODEL, "writer", wcases)
    dw = set()
    for c, li, lm, ex in zip(wcases, wimpl, wmodel, wexp):
        mx, sizes, _ = c.split(" ", 2)
        dw.add((mx, sizes.count(",")))
        if li != lm:
            chk.disagreements.append({"stream": "writer", "case": c[:800], "impl": li, "model": lm})
        if li != ex:
            chk.spec_violations.append({"stream": "writer", "flush_threshold": mx, "batch_sizes": sizes, "case": c[:1200], "impl(len crc)": li,
                                        "spec(len crc)": ex, "what": "bytes written by BufferedWriter are not the pushed packets, once each, in order"})
    chk.add_stream("writer", len(wcases), dw, [{"case": wcases[0][:200], "impl": wimpl[0], "model": wmodel[0]}])
    # ------------------------------------------------------------ stream 2: end to end through the binary
    tmp = core.scratch_dir("c08")
    jobs = []
    counts = [1, 2, 3, 10, 99, 100, 101, 200, 250] if not deep else [1, 2, 3, 5, 10, 50, 99, 100, 101, 199, 200, 201, 300, 1000]
    reps = 3 if not deep else 10
    sid = 0
    for _ in range(reps):
        for n in counts:
            pkts, ids = cli_stream(rng, n)
            if n in (3, 10):
                # packets near the upper size limit on every id: a skipped packet of 8..10 KB must be skipped entirely
                pkts = [(bytes(bytearray(r[:8]) + (64 + sz).to_bytes(2, "little") * 2 + r[12:]), bytes([i & 0xFF]) * sz)
                        for i, ((r, _p), sz) in enumerate(zip(pkts, [rng.choice([8191, 8192, 8193, 9000, 10000, 100]) for _ in pkts]))]
            data = scangen.serialize(pkts)
            path = os.path.join(tmp, "in%d.raw" % sid)
            with open(path, "wb") as f:
                f.write(data)
            kind = rng.choice(["link", "fee", "stave"])
            # every distinct value of the chosen key, plus one absent value
            if kind == "link":
                vals = sorted(set(r[12] for r, _ in pkts))
                absent = next(v for v in range(256) if v not in vals)
            elif kind == "fee":
                vals = sorted(set(struct.unpack_from("<H", r, 2)[0] for r, _ in pkts))
                absent = next(v for v in range(0x7000) if v not in vals and (v & 0x8CC0) == 0)
            else:
                vals = sorted(set(struct.unpack_from("<H", r, 2)[0] & scangen.LAYER_STAVE_MASK for r, _ in pkts))
                absent = next(((l << 12) | s) for l in range(7) for s in range(48) if ((l << 12) | s) not in vals)
            for v in vals + [absent]:
                jobs.append({"sid": sid, "path": path, "pkts": pkts, "flt": "%s:%d" % (kind, v), "present": v != absent,
                             "out": rng.choice(["file", "stdout"]), "inp": "pipe" if n in (3, 10) else rng.choice(["file", "pipe"]), "data": data, "group": (sid, kind)})
            sid += 1

    # sparse matches in a LARGE input: while one batch of matching packets is collected the input advances by far more than any
    # fixed amount a reader might use as a yardstick (here > 16 MiB, also in the quick tier): nothing may be lost behind the gap
    for rep in range(1 if not deep else 3):
        la, lb = rng.sample(range(24), 2)
        fa, fb = (rng.randrange(3) << 12) | rng.randrange(12), (5 << 12) | rng.randrange(40)
        mk = lambda link, fee, n, i: (rawdata.mk_rdh(link=link, fee=fee, payload_len=n, pktcnt=i & 0xFF, orbit=i, pages=0, stop=0), bytes([i & 0xFF]) * n)
        pkts = [mk(la, fa, rng.choice([0, 80, 160]), i) for i in range(3)]
        ngap = rng.choice([2200, 2400]) if not deep else rng.choice([2200, 3000, 4400])
        pkts += [mk(lb, fb, 8192 - 64, 3 + i) for i in range(ngap)]                       # ~ 17..34 MiB of the other link
        for i in range(150):
            pkts.append(mk(la, fa, rng.choice([0, 16, 240]), 5000 + i))
            if i % 3 == 0:
                pkts.append(mk(lb, fb, 1000, 6000 + i))
        pkts.append(mk(la, fa, 10000, 7000))
        data = scangen.serialize(pkts)
        path = os.path.join(tmp, "in%d.raw" % sid)
        with open(path, "wb") as f:
            f.write(data)
        for flt, inp in (("link:%d" % la, "file"), ("fee:%d" % fa, "pipe"), ("link:%d" % lb, rng.choice(["file", "pipe"]))):
            jobs.append({"sid": sid, "path": path, "pkts": pkts, "flt": flt, "present": True, "out": rng.choice(["file", "stdout"]), "inp": inp,
                         "data": data, "group": (sid, "sparse-" + flt), "big": True})
        sid += 1

    def work(j):
        args = filt_args(j["flt"])
        outp = os.path.join(tmp, "out_%d_%s.raw" % (j["sid"], j["flt"].replace(":", "_")))
        if j["out"] == "file":
            args += ["-o", outp]
            if j["sid"] % 2 == 1:
                # the destination already exists and holds MORE bytes than the run will write: the output must replace it
                with open(outp, "wb") as f:
                    f.write(b"\xA5" * (len(j["data"]) + 4096))
        if j.get("big") or j["sid"] % 3 == 1:
            # an orthogonal option: a custom-checks file (the end-of-run checks have nothing to do with what is written; seed C08-H)
            tp = os.path.join(tmp, "cc_%d_%s.toml" % (j["sid"], j["flt"].replace(":", "_")))
            with open(tp, "w") as f:
                f.write("triggers_pht = 0\n")
            args += ["--checks-toml", tp]
        if j["inp"] == "file":
            rc, so, se, _ = core.run_cli([j["path"]] + args)
        else:
            rc, so, se, _ = core.run_cli(args, stdin_bytes=j["data"])
        if j["out"] == "file":
            got = open(outp, "rb").read() if os.path.exists(outp) else None
        else:
            got = so
        # idempotence: filter the output again (from a pipe), to stdout
        again = None
        if got:
            rc2, so2, se2, _ = core.run_cli(filt_args(j["flt"]), stdin_bytes=got)
            again = so2
            if b"Init processing failed" in se2:
                again = None      # the output opens with a packet whose RDH0 the start-up code refuses (D9): as an INPUT it is not analysed at all
        if os.path.exists(outp):
            os.remove(outp)
        return rc, got, again, se[-400:].decode("utf8", "replace")

    results = core.par_map(work, jobs)
    mlines = [scangen.hexline(j["inp"], j["flt"], 0, j["data"] if not j.get("big") else b"") for j in jobs]
    model = core.run_lines(core.FPMODEL, "written", mlines, shards=core.NCPU)
    d2 = set()
    groups = {}
    samples = []
    for j, (rc, got, again, err), lm in zip(jobs, results, model):
        exp = b"".join(r + p for r, p in j["pkts"] if scangen.matches(j["flt"], r))
        desc = {"stream": "cli-filter", "packets": len(j["pkts"]), "filter": j["flt"], "output": j["out"], "input": j["inp"],
                "input_hex": j["data"].hex().upper() if len(j["data"]) < 1200 else "(%d bytes; seed %d stream %d)" % (len(j["data"]), seed, j["sid"])}
        if not isinstance(rc, int) or rc != 0 or got is None:
            chk.spec_violations.append(dict(desc, rc=str(rc), stderr=err, what="filtered writing failed on a well-framed input"))
            continue
        gm = "%d %08X" % (len(got), zlib.crc32(got) & 0xFFFFFFFF)
        if gm != lm and not j.get("big"):          # the large inputs are judged by the specification only
            chk.disagreements.append(dict(desc, impl=gm, model=lm))
        if got != exp:
            k = next((i for i in range(min(len(got), len(exp))) if got[i] != exp[i]), min(len(got), len(exp)))
            chk.spec_violations.append(dict(desc, impl_len=len(got), spec_len=len(exp), first_difference_at_byte=k,
                                            what="output is not the concatenation of all and only the matching packets"))
        if again is not None and again != got:
            chk.spec_violations.append(dict(desc, what="filtering an output again with the same filter does not reproduce it",
                                            first_len=len(got), second_len=len(again)))
        if not j.get("big"):
            groups.setdefault(j["group"], []).append((j, got))
        d2.add((j["flt"].split(":")[0], j["present"], j["out"], j["inp"], min(len(j["pkts"]), 100), len(got) > 0))
        if len(samples) < 3 and len(j["data"]) < 600 and j["present"]:
            samples.append(dict(desc, output_len=len(got), model=lm))
    # partition: over all distinct values the outputs have exactly the input's packets
    for (sid_, kind), lst in groups.items():
        total = sum(len(g) for _, g in lst)
        j0 = lst[0][0]
        if total != len(j0["data"]):
            chk.spec_violations.append({"stream": "cli-filter", "what": "outputs over all distinct %s values do not partition the input" % kind,
                                        "input_len": len(j0["data"]), "sum_of_outputs": total, "packets": len(j0["pkts"]),
                                        "input_hex": j0["data"].hex().upper() if len(j0["data"]) < 1200 else "(seed %d stream %d)" % (seed, sid_)})
        else:
            pk = sorted(r + p for r, p in j0["pkts"])
            outs = []
            for _, g in lst:
                outs.extend(r + p for _, r, p in __import__("fvlib.rawdata", fromlist=["walk"]).walk(g))
            if sorted(outs) != pk:
                chk.spec_violations.append({"stream": "cli-filter", "what": "union of the outputs is not the multiset of input packets (%s)" % kind,
                                            "packets": len(j0["pkts"])})
    import shutil
    shutil.rmtree(tmp, ignore_errors=True)
    chk.add_stream("cli-filter", len(jobs), d2, samples, distribution={"streams": sid, "runs": len(jobs)})
    chk.cov["rule"] = ("rdhrt: random / boundary / single-bit 64-byte blocks through RdhCru::load + to_byte_slice. cli-filter: recognisable "
                       "well-framed streams (1..250, thorough ..1000 packets; 1..12 ids; payloads 0..400 and 5000/9999/10000) x every distinct "
                       "value of a link / FEE / layer-stave key plus one absent value x -o file|stdout x input file|pipe; each output compared "
                       "byte for byte, re-filtered, and summed over the values. distinct = (filter kind, present, output, input, size class, nonempty)")
    return core.finish(chk, TRUSTED)
