"""C05 -- results do not depend on thread scheduling."""
import json
import os
import random
import re
import shutil
import struct

from .. import core, streams
from . import c06

TRUSTED = [
    "Coq 8.16.1 kernel (coqc); vm_compute for the refutation witness; no native_compute",
    "axioms: none (Print Assumptions: Closed under the global context for every C05 theorem)",
    "gen/extract_facts.py: error_sort_is_stable / error_sort_when_muted read from error_stats.rs on every run",
    "extraction (ExtrOcamlBasic only) + OCaml driver (`collector` stream); fp_harness `collector` (the real StatsCollector fed with chosen "
    "interleavings of per-sender streams, serialised with serde_json)",
    "the rebuilt binary run repeatedly and concurrently on the same input (natural schedule variation; the number of distinct arrival "
    "orders is not measured -- no schedule hook is installed)",
    "Rust's guarantee that threads share no mutable state other than the channels and the two atomics; std's stable sort",
    "that the per-sender streams are schedule independent is C06 (FIFO routing) and the hypothesis `streams_ok` is C07 (message offsets lie "
    "in the sender's own packets)",
]

ANSI = re.compile(r"\x1b\[[0-9;]*m")

def _hdr(link, prio, fmt, size, fee=0x502A):
    return (bytes([7, 64]) + struct.pack("<H", fee) + bytes([prio, 32, 0, 0]) + struct.pack("<HH", size, size) + bytes([link, 0, 24, 0]) + bytes(8) +
            bytes([fmt, 0, 0, 0, 0, 0, 0, 0]) + bytes([3, 106, 0, 0, 0, 0, 0, 0]) + bytes(24))


def forced_inputs(rng):
    """directed inputs for the forced-schedule stream: (name, bytes, modes, is_layout_collision)"""
    res = []
    # (a) finding F18: link 0's header says data format 0 (16-byte slots), its payload is laid out in 10-byte words: word 600 is
    #     reported at 64 + 600*16 = 64 + 9600, the start of the next packet, whose RDH (link 1) is faulty itself
    L = 9600
    payload = b"".join(bytes([1 + (i % 200)] * 9 + [0x3D]) for i in range(L // 10))
    res.append(("layout-collision", _hdr(0, 0, 0, 64 + L) + payload + _hdr(1, 1, 2, 64), [["check", "sanity", "its"], ["check", "all", "its", "-m"]], True))
    # (b) the same shape with a payload laid out as the header says (format 2): no collision possible
    res.append(("layout-agrees", _hdr(0, 0, 2, 64 + L) + payload + _hdr(1, 1, 2, 64), [["check", "sanity", "its"]], False))
    # (c) the input ends inside the payload of its last packet whose RDH is faulty as well; two links with faulty RDHs before it
    words = b"".join(bytes([3] * 9 + [0x3D]) for _ in range(40))
    body = _hdr(0, 0, 2, 64 + 400) + words + _hdr(1, 1, 2, 64 + 400) + words + _hdr(0, 1, 2, 64 + 400) + words + _hdr(1, 1, 2, 64 + 400) + words
    for cut in (len(body) - 1, len(body) - 399, len(body) - 200):
        res.append(("cut-in-last-payload-%d" % (len(body) - cut), body[:cut], [["check", "all", "its"], ["check", "sanity", "its", "-m"]], False))
    # (d) cut inside the last RDH
    res.append(("cut-in-last-rdh", body[:3 * 464 + 30], [["check", "all", "its"]], False))
    # (e) many links, every RDH faulty twice (stop bit 2: [E10] + [E11] at one offset), interleaved
    n = 8
    pk = b"".join(_hdr(l, 0, 2, 64)[:38] + b"\x02" + _hdr(l, 0, 2, 64)[39:] for _r in range(6) for l in range(n))
    # the third mode: a check together with a filter and `-o stdout` (the data output is ignored, the report is skipped): the statistics
    # file must still be finalised -- sorted -- before it is written (seed C05-K)
    res.append(("twelve-faulty-links", _hdr(0, 0, 2, 64) + pk, [["check", "all"], ["check", "all", "its-stave"],
                                                                ["check", "all", "-F", str(0x502A), "-o", "stdout"]], False))
    # (f) ONE link id, six FEE ids (stave mode: six validators), every RDH faulty
    fees = [0x0001, 0x1005, 0x2007, 0x3002, 0x4003, 0x5004]
    pk1 = b"".join(_hdr(3, 0, 2, 64, fee=f)[:38] + b"\x02" + _hdr(3, 0, 2, 64, fee=f)[39:] for _r in range(6) for f in fees)
    res.append(("one-link-six-staves", _hdr(3, 0, 2, 64, fee=fees[0]) + pk1, [["check", "all", "its-stave"], ["check", "all", "its-stave", "-m"],
                                                                        ["check", "all", "its-stave", "-f", "3", "-o", "stdout", "-m"]], False))
    return res


FORCED = [None, "0:d.spawn=100000", "0:m.droprecv=200000", "0:a.recv=200000", "0:v.recv=30000", "0:d.send=20000", "0:c.recv=300",
          "7:v.recv=5000,d.send=2000", "0:m.forwarded=200000"]


def err_lines(se):
    return [l for l in ANSI.sub("", se.decode("utf8", "replace")).split("\n") if l.startswith("ERROR ")]


def collision_only(data, a, b):
    """do two stderr message sequences differ ONLY in the order of messages that share an offset at which a payload-word message of one
    packet meets the RDH of another packet (finding F18)?  `data` is the input (well-framed)."""
    if sorted(a) != sorted(b):
        return False
    off = lambda l: int(l.split()[1].rstrip(":"), 16)
    if [off(l) for l in a] != [off(l) for l in b]:
        return False
    starts = set()
    o = 0
    while o + 64 <= len(data):
        starts.add(o)
        o += struct.unpack_from("<H", data, o + 8)[0] or 64
    groups = {}
    for la, lb in zip(a, b):
        if la != lb:
            groups.setdefault(off(la), []).append(la)
    for o, ls in groups.items():
        every = [l for l in a if off(l) == o]
        has_rdh = any("[E10]" in l or "[E11]" in l for l in every)
        has_word = any(("[E10]" not in l and "[E11]" not in l) for l in every)
        if not (o in starts and has_rdh and has_word):
            return False
    return True



def gen_streams(rng, big=False, boundary=False):
    """per-sender streams satisfying streams_ok: main (reader stats), analysis, validators.
    boundary: the validators' offsets lie on the two sides of a power of 16 (0xF.... / 0x1.....), strictly increasing within a
    validator: the arrival order `later validator first` is then ascending for a comparison of the message TEXTS and descending for
    the offsets"""
    nval = rng.randrange(2, 6) if not boundary else 2
    main = ["V7", "G%d" % rng.choice([27139, 18451]), "D%d" % rng.choice([0, 2]), "I32"]
    fees = []
    for i in range(nval):
        layer, stave = rng.randrange(7), rng.randrange(48)
        fees.append((layer << 12) | stave)
    # a third of the families: all validators behind ONE link id (stave mode: one validator per FEE id) -- the number of links says
    # nothing about the number of senders (seed C05-F)
    one_link = rng.random() < 0.33
    for i in range(nval):
        main += (["L%d" % i] if (not one_link or i == 0) else []) + ["F%d" % fees[i]]
    for _ in range(rng.randrange(1, 4)):
        main.append(rng.choice(["S%d" % rng.randrange(1000), "R%d" % rng.randrange(100), "P%d" % rng.randrange(100000)]))
    rng.shuffle(main[4:])
    ana = []
    for _ in range(rng.randrange(2, 12)):
        ana.append("T%X" % rng.choice([0x6A03, 0x4813, 0x10, 0x893, rng.randrange(1 << 32)]))
        i = rng.randrange(nval)
        ana.append("Y%d.%d" % (fees[i] >> 12, fees[i] & 63))
    ana.append("H%d" % rng.randrange(20))
    # layer/staves of every validator must have been seen (staves_with_errors looks them up)
    ana = ["Y%d.%d" % (f >> 12, f & 63) for f in fees] + ana
    vals = []
    for i in range(nval):
        s = []
        base = i * 0x10000
        if boundary:
            digits = boundary
            base = (0xF << (4 * (digits - 1))) if i == 0 else (1 << (4 * digits))
        off = base
        for _ in range(rng.randrange(400, 800) if big else (rng.randrange(2, 12) if boundary else rng.randrange(0, 25))):
            if boundary:
                off += rng.choice([10, 16, 64, 400])
            else:
                off += rng.choice([0, 0, 10, 16, 64, 400]) if not big else rng.choice([0, 10, 16])     # repeated offsets: several messages at one word / RDH
            code = rng.choice([10, 11, 30, 40, 50, 60, 70, 72, 74, 991])
            tok = "E%X.%d.%d" % (off, code, rng.randrange(1000))
            if code == 74:
                tok += ".%d" % fees[i]
            s.append(tok)
            if rng.random() < 0.15:
                s.append("A%s" % ".".join(str(rng.randrange(5)) for _ in range(7)))
        vals.append(s)
    return [main, ana] + vals


def rand_schedule(rng, ss, style):
    counts = [len(s) for s in ss]
    sched = []
    if style == "sequential":
        for i, c in enumerate(counts):
            sched += [i] * c
    elif style == "reverse":
        for i in reversed(range(len(counts))):
            sched += [i] * counts[i]
    else:
        left = list(counts)
        while any(left):
            i = rng.choice([i for i, c in enumerate(left) if c])
            burst = rng.choice([1, 1, 2, 5])
            for _ in range(min(burst, left[i])):
                sched.append(i)
                left[i] -= 1
    return sched


def canon_json(js):
    """impl JSON -> the driver's canonical line"""
    d = json.loads(js)
    r = d["rdh_stats"]
    t = r["trigger_stats"]
    a = (d.get("alpide_stats") or {}).get("readout_flags")
    counters = [r["rdhs_seen"], r["rdhs_filtered"], r["payload_size"], r["hbfs_seen"]] + \
               [t[k] for k in ("orbit", "hb", "hbr", "hc", "pht", "pp", "cal", "sot", "eot", "soc", "eoc", "tf", "fe_rst", "rt", "rs",
                               "lhc_gap1", "lhc_gap2", "tpc_sync", "tpc_rst", "tof")] + \
               ([a[k] for k in ("chip_trailers_seen", "busy_violations", "data_overrun", "transmission_in_fatal", "flushed_incomplete",
                                "strobe_extended", "busy_transitions")] if a else [0] * 7)
    e = d["error_stats"]
    errs = []
    for m in e["reported_errors"]:
        mm = re.match(r"0x([0-9A-F]+): \[E(\d+)\] body(\d+)", m)
        errs.append("%s.%s.%s" % (mm.group(1), mm.group(2), mm.group(3)))
    sysid = {"TPC": 3, "TRD": 4, "TOF": 5, "HMP": 6, "PHS": 7, "CPV": 8, "MCH": 10, "ZDC": 15, "TRG": 17, "EMC": 18, "TST": 19, "ITS": 32,
             "FDD": 33, "FT0": 34, "FV0": 35, "MFT": 36, "MID": 37, "DCS": 38, "FOC": 39, "Unloaded": 255}.get(r["system_id"], r["system_id"])
    opt = lambda x: "-" if x is None else str(x)
    return "C:%s L:%s F:%s Y:%s O:%s,%s,%s,%s E:%s T:%d U:%s W:%s Z:%s X:0" % (
        ",".join(map(str, counters)), ",".join(map(str, r["links"])), ",".join(map(str, r["fee_id"])),
        ",".join("%d.%d" % (l, s) for l, s in r["its_stats"]["layer_staves_seen"]),
        opt(r["rdh_version"]), opt(r["data_format"]), opt(sysid), opt(r["run_trigger_type"][0] if r["run_trigger_type"] else None),
        ";".join(errs), e["total_errors"], ",".join(e["unique_error_codes"]),
        "-" if e["staves_with_errors"] is None else ",".join("%d.%d" % (l, s) for l, s in e["staves_with_errors"]),
        "-" if e["fatal_error"] is None else e["fatal_error"])


def run(tier, seed):
    chk = core.Check("C05", tier, seed)
    rng = random.Random(seed)
    gen = core.step_gen()
    chk.cov["gen"] = gen["log"]
    chk.cov["gen_facts"] = {k: v for k, v in gen["facts"].items() if k.startswith("error_sort")}
    chk.proof = core.step_coq("Props/C05.v")
    core.step_model()
    h = core.step_harness()
    b = core.step_cli() if h["ok"] else h
    if not h["ok"] or not b["ok"]:
        chk.disagreements.append({"stream": "build", "detail": "harness / binary does not build against /repo", "log": (h.get("log") or b.get("log", ""))[-1500:]})
        return core.finish(chk, TRUSTED)
    deep = tier == "thorough" or not chk.proof["ok"]
    # ------------------------------------------------------------ stream 1: the real collector under chosen interleavings
    nfam = 300 if deep else 40
    nsched = 12 if deep else 6
    lines = []
    meta = []
    for f in range(nfam):
        # now and then far more messages than any fixed cap a collector might have; now and then offsets around a power of 16
        # (at most 12 messages of at most 400 bytes apart per validator: the lower validator stays below the power, offsets of
        # different senders stay different)
        bnd = rng.choice([5, 6, 7, 8]) if (f % 8 == 3 and f % 20 != 7) else False
        ss = gen_streams(rng, big=(f % 20 == 7), boundary=bnd)
        mute = rng.randrange(2)
        body = " | ".join(" ".join(s) for s in ss)
        for k in range(nsched):
            style = ["sequential", "reverse"][k] if k < 2 else "random"
            sched = rand_schedule(rng, ss, style)
            lines.append("%d %s alpide ; %s" % (mute, ",".join(map(str, sched)) or "-", body))
            meta.append((f, k, mute))
    impl = core.run_lines(core.HARNESS_BIN, "collector", lines)
    model = core.run_lines(core.FPMODEL, "collector", lines)
    first = {}
    d1 = set()
    samples = []
    for (f, k, mute), line, li, lm in zip(meta, lines, impl, model):
        if li.startswith("PANIC") or li.startswith("DIED"):
            chk.spec_violations.append({"stream": "collector-interleavings", "case": line[:1500], "impl": li[:300], "what": "collector panicked"})
            continue
        ci = canon_json(li)
        if ci != lm:
            chk.disagreements.append({"stream": "collector-interleavings", "case": line[:1500], "impl": ci[:700], "model": lm[:700]})
        d1.add((mute, k if k < 2 else 2, ci.count(";") > 0))
        if f not in first:
            first[f] = (li, line)
        elif li != first[f][0]:
            a, b2 = first[f][0], li
            p = next((i for i in range(min(len(a), len(b2))) if a[i] != b2[i]), 0)
            chk.spec_violations.append({"stream": "collector-interleavings", "muted": bool(mute), "schedule_A": first[f][1].split(";")[0],
                                        "schedule_B": line.split(";")[0], "streams": line.split(";", 1)[1][:1500],
                                        "statistics_A": a[max(0, p - 120):p + 160], "statistics_B": b2[max(0, p - 120):p + 160],
                                        "class": "F3-error-order-depends-on-arrival-order",
                                        "what": "two arrival orders of the same per-sender streams give different finalised statistics (serialised JSON differs)"})
        if len(samples) < 2 and k == 2:
            samples.append({"case": line[:400], "impl": ci[:300]})
    chk.add_stream("collector-interleavings", len(lines), d1, samples, distribution={"families": nfam, "schedules_per_family": nsched})
    chk.cov["traces_validated_against_impl"] = len(lines)

    # ------------------------------------------------------------ stream 2: the binary, repeated concurrent runs
    tmp = core.scratch_dir("c05")
    ninputs = 6 if deep else 2
    nrep = 24 if deep else 10
    jobs = []
    for s in range(ninputs):
        _m, per = streams.conforming(rng, nlinks=rng.choice([6, 9, 12]), nhbf=2, stave_level=True)
        per = [c06.corrupt(rng, pk, 0.5) for pk in per]
        # stop bit 2 in many headers: [E10] and [E11] at the same offset
        per = [[(bytes(bytearray(r[:38]) + b"\x02" + r[39:]) if rng.random() < 0.5 else r, p) for r, p in pk] for pk in per]
        cd, _ranges = c06.place(per, c06.layouts(rng, per)["round-robin"])
        data = b"".join(r + p for _o, r, p in cd)
        if data[4] != 0:
            data = data[:4] + b"\x00" + data[5:]
        path = os.path.join(tmp, "in%d.raw" % s)
        open(path, "wb").write(data)
        for mode in (["check", "all", "its"], ["check", "all", "its", "-m"], ["check", "sanity", "its"]):
            for rep in range(nrep):
                jobs.append({"s": s, "mode": mode, "rep": rep, "path": path})

    def work(j):
        sp = os.path.join(tmp, "st_%d_%d_%s.json" % (j["s"], j["rep"], "_".join(j["mode"])))
        # every repetition but the first runs under its own schedule perturbation (hook H2: random sleeps where a validator takes a
        # packet and where the dispatcher hands one over), so that the validators really report in different orders
        env = {"FASTPASTA_VERIF_SCHED": "%d:v.recv=%d,d.send=%d" % (1000 + 37 * j["rep"] + j["s"], [300, 2000, 50][j["rep"] % 3], [0, 40, 400][j["rep"] % 3])} if j["rep"] else None
        rc, so, se, dt = core.run_cli([j["path"]] + j["mode"] + ["-S", sp, "-D", "json", "-E", "7"], timeout=180, env_extra=env)
        st = open(sp, "rb").read() if os.path.exists(sp) else b""
        if os.path.exists(sp):
            os.remove(sp)
        errs = [l for l in ANSI.sub("", se.decode("utf8", "replace")).split("\n") if l.startswith("ERROR ")]
        rep = "\n".join(l for l in ANSI.sub("", so.decode("utf8", "replace")).split("\n") if "Processed in" not in l)
        return rc, st, errs, rep
    res = core.par_map(work, jobs)
    groups = {}
    for j, r in zip(jobs, res):
        groups.setdefault((j["s"], tuple(j["mode"])), []).append((j, r))
    d2 = set()
    for (s, mode), lst in groups.items():
        rc0, st0, e0, rp0 = lst[0][1]
        variants = {"stats": {st0}, "stderr": {tuple(e0)}, "report": {rp0}, "exit": {rc0}}
        for j, (rc, st, errs, rp) in lst[1:]:
            variants["stats"].add(st)
            variants["stderr"].add(tuple(errs))
            variants["report"].add(rp)
            variants["exit"].add(rc)
        d2.add((" ".join(mode), len(e0) > 0, len(st0) > 0))
        for what, vs in variants.items():
            if len(vs) > 1:
                ex = list(vs)[:2]
                diff = ""
                if what == "stats":
                    a, b2 = ex[0].decode("utf8", "replace"), ex[1].decode("utf8", "replace")
                    p = next((i for i in range(min(len(a), len(b2))) if a[i] != b2[i]), 0)
                    diff = {"A": a[max(0, p - 150):p + 150], "B": b2[max(0, p - 150):p + 150]}
                chk.spec_violations.append({"stream": "cli-repeated-runs", "mode": " ".join(mode), "runs": len(lst), "differs": what,
                                            "distinct_outcomes": len(vs), "example": diff,
                                            "input": "(stream %d of seed %d: multi-link round-robin, corrupted, stop_bit=2 headers)" % (s, seed),
                                            "class": "F3-error-order-depends-on-arrival-order" if what in ("stats", "stderr") else None,
                                            "what": "repeated runs of the same command on the same input differ in " + what})
    shutil.rmtree(tmp, ignore_errors=True)
    chk.add_stream("cli-repeated-runs", len(jobs), d2, [], distribution={"inputs": ninputs, "repetitions": nrep})

    # ------------------------------------------------------------ stream 3: the binary under FORCED schedules on directed inputs
    tmp3 = core.scratch_dir("c05f")
    fjobs = []
    for name, data, modes, collide in forced_inputs(rng):
        path = os.path.join(tmp3, name + ".raw")
        open(path, "wb").write(data)
        for mode in modes:
            for k, sched in enumerate(FORCED if deep else FORCED[:6]):
                fjobs.append({"name": name, "mode": mode, "sched": sched, "k": k, "path": path, "data": data, "collide": collide})

    def fwork(j):
        sp = os.path.join(tmp3, "st_%s_%d_%s.json" % (j["name"], j["k"], "_".join(j["mode"])))
        env = {"FASTPASTA_VERIF_SCHED": j["sched"]} if j["sched"] else None
        rc, so, se, dt = core.run_cli([j["path"]] + j["mode"] + ["-S", sp, "-D", "json", "-E", "7"], timeout=180, env_extra=env)
        st = open(sp, "rb").read() if os.path.exists(sp) else b""
        if os.path.exists(sp):
            os.remove(sp)
        rep = "\n".join(l for l in ANSI.sub("", so.decode("utf8", "replace")).split("\n") if "Processed in" not in l)
        return rc, st, err_lines(se), rep
    fres = core.par_map(fwork, fjobs)
    fgroups = {}
    for j, r in zip(fjobs, fres):
        fgroups.setdefault((j["name"], tuple(j["mode"])), []).append((j, r))
    d3 = set()
    for (name, mode), lst in fgroups.items():
        j0, (rc0, st0, e0, rp0) = lst[0]
        d3.add((name, " ".join(mode), len(e0) > 0))
        for j, (rc, st, errs, rp) in lst[1:]:
            what = None
            if rc != rc0:
                what = "exit status"
            elif rp != rp0:
                what = "report"
            elif "-m" not in mode and errs != e0:
                what = "error messages / their order"
            elif st != st0:
                what = "statistics file"
            if what is None:
                continue
            cls = None
            if j["collide"] and rc == rc0:
                # the statistics file holds the same messages: compare its reported_errors too
                try:
                    ra = json.loads(st0)["error_stats"]["reported_errors"]
                    rb = json.loads(st)["error_stats"]["reported_errors"]
                    la = ["ERROR " + x for x in ra]
                    lb = ["ERROR " + x for x in rb]
                except Exception:
                    la, lb = e0, errs
                if collision_only(j["data"], la, lb) and ("-m" in mode or collision_only(j["data"], e0, errs)):
                    cls = "F18-two-senders-one-offset-under-layout-mismatch"
            chk.spec_violations.append({"stream": "cli-forced-schedules", "input": name, "mode": " ".join(mode), "schedule_A": j0["sched"],
                                        "schedule_B": j["sched"], "differs": what, "class": cls,
                                        "messages_A": [l[:90] for l in e0 if l not in errs][:6] or [l[:90] for l, m in zip(e0, errs) if l != m][:6],
                                        "messages_B": [l[:90] for l, m in zip(errs, e0) if l != m][:6],
                                        "input_hex_head": j["data"][:96].hex(), "input_len": len(j["data"]),
                                        "what": "the same command on the same input under two forced schedules (FASTPASTA_VERIF_SCHED) differs in " + what})
            break
    shutil.rmtree(tmp3, ignore_errors=True)
    chk.add_stream("cli-forced-schedules", len(fjobs), d3, [], distribution={"inputs": len(set(j["name"] for j in fjobs)), "schedules": len(FORCED if deep else FORCED[:6])})
    chk.cov["rule"] = ("collector-interleavings: random families of per-sender streams satisfying streams_ok (reader/main, analysis, 2-5 validators "
                       "with repeated offsets), each under sequential / reverse / random bursty interleavings, muted and not, through the real "
                       "StatsCollector; the serialised statistics must be byte-identical across interleavings and equal to the model's. "
                       "cli-repeated-runs: multi-link corrupted inputs (incl. [E10]+[E11] pairs at one offset) run 10 (24) times concurrently, each repetition under its own schedule perturbation (hook H2), "
                       "per mode incl. -m; statistics file bytes, stderr lines, report and exit status compared. "
                       "cli-forced-schedules: directed inputs (layout collision of finding F18, the same with an agreeing layout, inputs cut inside the last payload / RDH with faulty RDHs, "
                       "many links with two messages per offset) each under 6 (9) FORCED schedules (fixed sleeps at d.spawn / m.droprecv / a.recv / v.recv / d.send / c.recv through hook H2): every observable must be identical; "
                       "a difference that is ONLY the order of messages sharing an offset at which a payload-word message of one packet meets the RDH of another packet is finding F18. distinct = class tuples")
    return core.finish(chk, TRUSTED)
