"""C07 -- reported offsets and quoted bytes are truthful."""
import os
import random
import re
import shutil
import struct

from .. import core, canon, rawdata, streams
from . import c06

TRUSTED = [
    "Coq 8.16.1 kernel (coqc); no vm_compute in the cone of the C07 theorems beyond the per-byte facts inherited from C12; no native_compute",
    "axioms: none (Print Assumptions: Closed under the global context for every C07 theorem)",
    "extraction (ExtrOcamlBasic only) + OCaml driver (`link` stream); fp_harness `link`; the rebuilt binary",
    "parsing of the tool's own message format: leading `0x<HEX>:`, `[b0 .. b9]` dump, `current :` RDH row (fvlib/props/c07.py)",
    "the independent chain walk / header decode of the input (Python) that every message is re-checked against",
    "the proviso of the property (payload layout agrees with the header's data format) is enforced by the generator and re-checked per case",
]

ANSI = re.compile(r"\x1b\[[0-9;]*m")
DUMP = re.compile(r"\[((?:[0-9A-F]{2} ){9}[0-9A-F]{2})\]\s*$")


def layout_agrees(rdh, payload):
    """detected slot size (validators/lib.rs rule) == the header's format"""
    fmt0_hdr = rdh[24] == 0
    det0 = len(payload) >= 16 and payload[10:16] == b"\x00" * 6
    return fmt0_hdr == det0


def legit_offsets(cd):
    """offset -> ('rdh', rdh) | ('word', 10 bytes) for every RDH start and every word start of the input"""
    res = {}
    for off, r, p in cd:
        res[off] = ("rdh", r)
        slot = 16 if r[24] == 0 else 10
        i = 0
        while i + 10 <= len(p):
            res[off + 64 + i] = ("word", p[i:i + 10])
            i += slot
    return res


def parse_messages(text):
    """stderr -> list of (offset, first line, [context lines])"""
    msgs = []
    cur = None
    for line in ANSI.sub("", text).split("\n"):
        if line.startswith("ERROR "):
            m = re.match(r"ERROR\s+0x([0-9A-Fa-f]+):\s*(.*)$", line)
            if m:
                cur = [int(m.group(1), 16), m.group(2), []]
                msgs.append(cur)
            else:
                cur = [None, line, []]
                msgs.append(cur)
        elif cur is not None and line.strip():
            cur[2].append(line)
    return msgs


def current_row_fields(rdh):
    (hid, hs, fee, prio, sysid, res0, offset, memsize, link, pktcnt, cruid_dw, bc_res, orbit, fmt_res, trigger, pages,
     stop, r2res, _r1, det, par, r3res, _r2) = struct.unpack("<BBHBBHHHBBHIIQIHBBQIHHQ", rdh)
    return [str(hid), str(hs), str(fee), str(sysid), str(offset), str(link), str(pktcnt), str(bc_res & 0xFFF), "%#x" % orbit,
            str(fmt_res & 0xFF), "%#x" % trigger, str(pages), str(stop), "%#x" % det]


def run(tier, seed):
    chk = core.Check("C07", tier, seed)
    rng = random.Random(seed)
    gen = core.step_gen()
    chk.cov["gen"] = gen["log"]
    chk.proof = core.step_coq("Props/C07.v")
    core.step_model()
    h = core.step_harness()
    b = core.step_cli() if h["ok"] else h
    if not h["ok"] or not b["ok"]:
        chk.disagreements.append({"stream": "build", "detail": "harness / binary does not build against /repo", "log": (h.get("log") or b.get("log", ""))[-1500:]})
        return core.finish(chk, TRUSTED)
    deep = tier == "thorough" or not chk.proof["ok"]
    tmp = core.scratch_dir("c07")
    nsets = 80 if deep else 24
    jobs = []
    llines = []
    lmeta = []
    MODES = [["check", "all", "its"], ["check", "sanity", "its"], ["check", "all"], ["check", "all", "its-stave"]]
    for s in range(nsets):
        nl = rng.choice([1, 2, 3])
        mode = MODES[s % len(MODES)]
        stave = mode[-1] == "its-stave"
        _m, per = streams.conforming(rng, nlinks=nl, nhbf=rng.choice([1, 2]), stave_level=True)
        if stave:
            # stave mode: RDH-level corruption only (payload corruption of stave data is C13/C04 territory)
            per = [[(bytes(bytearray(r[:36]) + struct.pack("<H", rng.randrange(5)) + r[38:]) if rng.random() < 0.3 else r, p) for r, p in pk] for pk in per]
        else:
            per = [c06.corrupt(rng, pk, rng.choice([0.2, 0.5])) for pk in per]
            # a whole word slot of one value in mid-payload (all 0xFF looks like padding, all 0x00 like nothing) followed, later in the
            # same packet, by a word with an illegal identifier: the later word must still be reported at ITS offset (seed C07-G)
            def special_slot(r, p):
                slot = 16 if r[24] == 0 else 10
                nw = len(p) // slot
                if nw < 4:
                    return r, p
                b = bytearray(p)
                i = rng.randrange(1, nw - 2)
                k = rng.randrange(i + 1, nw - 1)
                fill = rng.choice([0xFF, 0xFF, 0x00])
                b[i * slot:i * slot + 10] = bytes([fill]) * 10
                b[k * slot + 9] = rng.choice([0x3D, 0x99, 0x07])
                return r, bytes(b)
            per = [[(special_slot(r, p) if rng.random() < 0.2 else (r, p)) for r, p in pk] for pk in per]
            # a continuation page (pages counter != 0) whose FEE id / orbit / trigger type differs from the page before: the running check
            # quotes both values in its message -- the current one must be the one stored at the reported offset (seed C07-L)
            def field_change(r):
                b = bytearray(r)
                what = rng.choice(["fee", "fee", "orbit", "trigger"])
                if what == "fee":
                    b[2] ^= rng.choice([1, 2, 6])
                elif what == "orbit":
                    b[20 + rng.randrange(4)] ^= 1 << rng.randrange(8)
                else:
                    b[32] ^= rng.choice([0x10, 0x04, 0x40])
                return bytes(b)
            per = [[((field_change(r), p) if (r[36:38] != b"\x00\x00" and rng.random() < 0.3) else (r, p)) for r, p in pk] for pk in per]
        # some packets without any payload (offset_to_next = 64), not last in the file
        def strip(r):
            b = bytearray(r)
            struct.pack_into("<HH", b, 8, 64, 64)
            return bytes(b), b""
        per = [[(strip(r) if (r[38] == 1 and rng.random() < 0.4) else (r, p)) for r, p in pk] for pk in per]
        # the data format may change from packet to packet within a link: the slot size is the current header's
        per = [[(streams.reformat(r, p) if rng.random() < 0.25 else (r, p)) for r, p in pk] for pk in per]
        if not all(layout_agrees(r, p) for pk in per for r, p in pk):
            # keep the property's proviso: drop packets whose corrupted payload no longer looks like its header's format
            per = [[(r, p) for r, p in pk if layout_agrees(r, p)] for pk in per]
        order = c06.layouts(rng, per)["random-1"]
        cd, ranges = c06.place(per, order, start=0)
        data = b"".join(r + p for _o, r, p in cd)
        path = os.path.join(tmp, "s%d.raw" % s)
        open(path, "wb").write(data)
        legit = legit_offsets(cd)
        for variant in range(2):
            args = [path] + mode
            flt = None
            if variant == 1:
                r0 = per[rng.randrange(nl)][0][0] if per[0] else None
                if r0 is None:
                    continue
                fee = struct.unpack_from("<H", r0, 2)[0]
                flt = rng.choice([["-f", str(r0[12])], ["-F", str(fee)], ["-s", "L%d_%d" % ((fee >> 12) & 7, fee & 0x3F)]])
                args = [path] + flt + mode
            jobs.append({"s": s, "args": args, "legit": legit, "len": len(data), "mode": mode, "flt": flt, "npk": len(cd), "data": data})
        # the same packets link by link through the in-process validator: model vs code incl. quoted bytes
        head = {"its": "all its - -", "all": "all none - -"}.get(mode[-1], "all stave - -")
        if mode[1] == "sanity":
            head = "sanity its - -"
        for i in range(nl):
            cdi = [(o, r, p) for (o, r, p), (_lo, _hi, li, _k) in zip(cd, ranges) if li == i]
            if cdi:
                llines.append(rawdata.link_line(head, cdi))
                lmeta.append(legit)

    def work(j):
        rc, so, se, dt = core.run_cli(j["args"], timeout=60)
        return rc, se.decode("utf8", "replace")
    res = core.par_map(work, jobs)
    distinct = set()
    samples = []
    nmsg = 0
    for j, (rc, se) in zip(jobs, res):
        desc = {"stream": "cli-messages", "mode": " ".join(j["mode"]), "filter": " ".join(j["flt"] or []), "packets": j["npk"],
                "input_hex": j["data"].hex().upper() if len(j["data"]) <= 900 else "(stream %d of seed %d, %d bytes)" % (j["s"], seed, j["len"])}
        if not isinstance(rc, int) or rc < 0 or "panicked at" in se:
            continue    # crashes are C04's subject
        for off, first, ctx in parse_messages(se):
            nmsg += 1
            if off is None and first.startswith("ERROR Init processing failed"):
                continue    # unrecognised input (D9): a log line of the tool, not a message about data
            if off is None:
                chk.spec_violations.append(dict(desc, message=first[:200], what="error message without a leading offset"))
                continue
            codes = [int(c) for c in canon.CODE_RE.findall(first)]
            code = codes[0] if codes else 0
            distinct.add((j["mode"][-1], bool(j["flt"]), code))
            ent = j["legit"].get(off)
            dump = DUMP.search(first)
            if code in (100, 101):
                continue    # reader messages: label = position after the cut packet (C18)
            if off >= j["len"] or ent is None:
                chk.spec_violations.append(dict(desc, message=first[:200], offset="0x%X" % off,
                                                what="leading offset is not the start of an RDH or of an 80-bit word of the input"))
                continue
            if dump:
                q = bytes.fromhex(dump.group(1).replace(" ", ""))
                if ent[0] != "word" or q != ent[1]:
                    chk.spec_violations.append(dict(desc, message=first[:200], offset="0x%X" % off, quoted=q.hex().upper(),
                                                    bytes_at_offset=(ent[1][:10].hex().upper()),
                                                    what="quoted word bytes are not the bytes stored at the reported offset"))
            if code in (10, 11):
                cur = [l for l in ctx if l.strip().startswith("current :")]
                if ent[0] != "rdh":
                    chk.spec_violations.append(dict(desc, message=first[:200], offset="0x%X" % off, what="RDH error not located at an RDH"))
                elif cur:
                    got = cur[0].split(":", 1)[1].replace("<--- Error detected here", "").split()
                    exp = current_row_fields(ent[1])
                    if got != exp:
                        chk.spec_violations.append(dict(desc, message=first[:200], offset="0x%X" % off, row=got, header_at_offset=exp,
                                                        what="header fields quoted in the `current :` row are not those stored at the reported offset"))
                # ... and the values the running-check message itself quotes for the CURRENT header (`X changed from <previous> to <current>`)
                # are the fields stored at the reported offset: FEE id = bytes 2..3, orbit = bytes 20..23, trigger type = bytes 32..35 (seed C07-L)
                if ent[0] == "rdh":
                    for label, lo, n in (("FeeId", 2, 2), ("Orbit", 20, 4), ("Trigger type", 32, 4)):
                        mm = re.search(label + r" changed from 0x([0-9A-Fa-f]+) to 0x([0-9A-Fa-f]+)\.", first)
                        if mm and int(mm.group(2), 16) != int.from_bytes(ent[1][lo:lo + n], "little"):
                            chk.spec_violations.append(dict(desc, message=first[:240], offset="0x%X" % off, field=label, quoted_current="0x" + mm.group(2),
                                                            stored_at_offset="0x%X" % int.from_bytes(ent[1][lo:lo + n], "little"),
                                                            what="a header field quoted in the running-check message is not the value stored at the reported offset"))
            elif code == 0 and "Payload error following RDH" in first and ent[0] != "rdh":
                chk.spec_violations.append(dict(desc, message=first[:200], offset="0x%X" % off, what="payload error not located at an RDH"))
            if len(samples) < 4 and dump:
                samples.append({"mode": " ".join(j["mode"]), "filter": j["flt"], "message": first[:160]})
    chk.add_stream("cli-messages", len(jobs), distinct, samples, distribution={"streams": nsets, "messages_checked": nmsg})
    # ------------------------------------------------------------ in-process: model vs code, with quoted words
    impl = [canon.canon_link(x) for x in core.run_lines(core.HARNESS_BIN, "link", llines, extra_env={"FV_MUTE": "1"})]
    model = [x.strip() for x in core.run_lines(core.FPMODEL, "link", llines)]
    d2 = set()
    for line, legit, li, lm in zip(llines, lmeta, impl, model):
        if li == "PANIC" or lm.startswith("PANIC"):
            continue
        if li != lm:
            chk.disagreements.append({"stream": "link-messages", "case": line[:1500], "impl": li[:600], "model": lm[:600]})
        for t in ([] if li == "-" else li.split()):
            f = t.split(":")
            if f[0] != "E":
                continue
            off = int(f[1], 16)
            ent = legit.get(off)
            d2.add((f[2], f[3] != "-"))
            if ent is None:
                chk.spec_violations.append({"stream": "link-messages", "case": line[:1500], "message": t,
                                            "what": "leading offset is not the start of an RDH or of a word"})
            elif f[3] != "-" and (ent[0] != "word" or f[3] != ent[1].hex().upper()):
                chk.spec_violations.append({"stream": "link-messages", "case": line[:1500], "message": t,
                                            "what": "quoted word bytes are not the bytes stored at the reported offset"})
    chk.add_stream("link-messages", len(llines), d2, [])
    shutil.rmtree(tmp, ignore_errors=True)
    chk.cov["rule"] = ("conforming multi-link ITS streams corrupted in RDH fields and payload words (layout proviso kept), random merge, with and "
                       "without -f/-F/-s filters, through the binary in check all its / sanity its / all / all its-stave: EVERY error line is "
                       "re-checked against the input (offset inside, RDH or word start, `[..]` dump = bytes there, `current :` row = "
                       "independent decode); the same packets through the in-process validator vs the model incl. quoted words. "
                       "distinct = (mode, filtered, error code)")
    return core.finish(chk, TRUSTED)
