"""C11 -- word-level sanity predicates are exact for all 80-bit values."""
import random

from .. import core, canon, ctxstream

TRUSTED = [
    "Coq 8.16.1 kernel (coqc); vm_compute for the 256-identifier enumeration; no native_compute",
    "axioms: none (Print Assumptions: Closed under the global context for every C11 theorem)",
    "gen/extract_facts.py (word identifiers, valid data-id ranges read from the current sources)",
    "extraction with ExtrOcamlBasic only; OCaml driver ocaml/driver.ml (hex parsing, printing)",
    "fp_harness `words` stream calling StatusWordSanityChecker::check_* and CdpRunningValidator::check",
    "canonicalisation of message text to sub-rule tags (fvlib/canon.py)",
    "Spec/WordLayout.v is our reading of the documented word layouts (DESIGN.md section 7, D4)",
]

KINDS = ["ihw", "tdh", "tdt", "ddw0"]
IDS = {"ihw": 0xE0, "tdh": 0xE8, "tdt": 0xF0, "ddw0": 0xE4}


def hexw(b):
    return "".join("%02X" % x for x in b)


def gen_cases(tier, rng):
    cases = []
    # (1) all 256 identifiers x {zero body, all-ones body, typical valid body}
    for k in KINDS:
        for idb in range(256):
            for body in ([0] * 9, [0xFF] * 9, [0x03, 0x1A, 0, 0, 0x75, 0xD5, 0x7D, 0x0B, 0]):
                cases.append("%s %s" % (k, hexw(body + [idb])))
    # (2) correct id: every single-bit and two-bit pattern over the other 72 bits, on two bases
    for k in KINDS:
        bases = [[0] * 9]
        if k == "tdh":
            bases.append([0x03, 0x1A, 0, 0, 0, 0, 0, 0, 0])   # valid trigger
        for base in bases:
            for i in range(72):
                b = list(base)
                b[i // 8] ^= 1 << (i % 8)
                cases.append("%s %s" % (k, hexw(b + [IDS[k]])))
            pairs = [(i, j) for i in range(72) for j in range(i + 1, 72)]
            if tier == "quick":
                pairs = rng.sample(pairs, 700)
            for i, j in pairs:
                b = list(base)
                b[i // 8] ^= 1 << (i % 8)
                b[j // 8] ^= 1 << (j % 8)
                cases.append("%s %s" % (k, hexw(b + [IDS[k]])))
    # (3) random words, random ids near the right one
    nrand = 20000 if tier == "quick" else 400000
    for _ in range(nrand):
        k = rng.choice(KINDS)
        b = [rng.randrange(256) for _ in range(9)]
        if rng.random() < 0.5:
            # sparse words: mostly zero
            b = [x if rng.random() < 0.2 else 0 for x in b]
        idb = IDS[k] if rng.random() < 0.8 else rng.randrange(256)
        cases.append("%s %s" % (k, hexw(b + [idb])))
    # (4) data words: all ids x single-lane masks, empty, full, random masks; both modes
    masks = [0, 0x0FFFFFFF] + [1 << i for i in range(28)] + [0x0FFFFFFF ^ (1 << i) for i in range(28)]
    nmask_rand = 4 if tier == "quick" else 40
    for idb in range(256):
        if idb in (0xF0, 0xF8):
            continue  # TDT / CDW in the data state are not data words (covered by the FSM streams)
        ms = masks + [rng.randrange(1 << 28) for _ in range(nmask_rand)]
        for m in ms:
            body = [rng.randrange(256) for _ in range(9)]
            cases.append("data %s %X 1" % (hexw(body + [idb]), m))
        for m in (0, 0x0FFFFFFF, rng.randrange(1 << 28)):
            cases.append("data %s %X 0" % (hexw([0] * 9 + [idb]), m))
    return cases


def canon_impl(case, line):
    """harness line -> the model driver's textual form"""
    kind = case.split()[0]
    if line.startswith("PANIC") or line.startswith("DIED"):
        return "PANIC"
    if kind != "data":
        if line == "ok":
            return "ok"
        msg = canon.unesc(line[4:])
        return "err " + canon.sanity_tags(msg)
    # data: "pre<n> msg || msg"
    pre, _, rest = line.partition(" ")
    if pre != "pre0":
        return "BADPRE " + line
    if rest == "-":
        return "-"
    codes = []
    for m in rest.split(" || "):
        off, cs, word = canon.parse_error(canon.unesc(m))
        if off != 0x54 or word != case.split()[1]:
            return "BADOFF " + m
        codes.extend(c for c in cs if c != 991)
    return ",".join(str(c) for c in codes) if codes else "-"


def run(tier, seed):
    chk = core.Check("C11", tier, seed)
    rng = random.Random(seed)
    gen = core.step_gen()
    chk.cov["gen"] = gen["log"]
    chk.cov["gen_facts"] = {k: v for k, v in gen["facts"].items()
                            if k.endswith("_id") or k.startswith("valid_") or k.startswith("pin_")}
    chk.proof = core.step_coq("Props/C11.v")
    pins_changed = [k for k, v in gen["facts"].items() if k.startswith("pin_") and (v.get("changed") or v["status"] == "fallback")]
    if pins_changed:
        chk.notes.append("accessor literal pins differ from snapshot (search widened): " + " ".join(pins_changed))
        tier_eff = "thorough"
    else:
        tier_eff = tier
    core.step_model()
    h = core.step_harness()
    if not h["ok"]:
        chk.disagreements.append({"stream": "build", "detail": "harness does not build against /repo", "log": h["log"][-1500:]})
        return core.finish(chk, TRUSTED)
    if not chk.proof["ok"]:
        tier_eff = "thorough"
    cases = gen_cases(tier_eff, rng)
    impl = core.run_lines(core.HARNESS_BIN, "words", cases)
    model = core.run_lines(core.FPMODEL, "words", cases)
    distinct = set()
    dist = {}
    samples = []
    for c, li, lm in zip(cases, impl, model):
        m_res, _, s_res = lm.partition(" | ")
        i_res = canon_impl(c, li)
        kind = c.split()[0]
        dist[kind] = dist.get(kind, 0) + 1
        distinct.add((kind, i_res))
        if i_res != m_res:
            chk.disagreements.append({"stream": "words", "case": c, "impl": i_res, "model": m_res, "impl_raw": li[:300]})
        # implementation vs specification
        if kind != "data":
            spec_ok = s_res == "1"
            if (i_res == "ok") != spec_ok:
                chk.spec_violations.append({"stream": "words", "case": c, "impl": i_res,
                                            "spec": "accept" if spec_ok else "reject",
                                            "what": "%s sanity verdict differs from the documented rule" % kind})
        else:
            if s_res == "70+":
                if "70" not in i_res.split(","):
                    chk.spec_violations.append({"stream": "words", "case": c, "impl": i_res, "spec": "E70 required",
                                                "what": "invalid data-word identifier not reported"})
            elif i_res != s_res:
                chk.spec_violations.append({"stream": "words", "case": c, "impl": i_res, "spec": s_res,
                                            "what": "data word verdict differs from the documented rule"})
        if len(samples) < 6 and (len(samples) < 3 or i_res not in ("ok", "-")):
            samples.append({"case": c, "impl": i_res, "model": m_res, "spec": s_res})
    chk.cov["rule"] = ("cases: all 256 ids x 3 bodies per word type; every single-bit and (quick: 700 sampled / thorough: all 2556) "
                       "two-bit pattern of the 72 non-id bits; random dense and sparse words; data words: all ids x "
                       "single-lane / all-but-one / random active-lane masks in both modes. distinct_nontrivial = "
                       "distinct (word kind, canonical verdict) pairs observed")
    chk.add_stream("words", len(cases), distinct, samples, distribution=dist)
    ctxstream.run(chk, rng, tier_eff == "thorough")
    return core.finish(chk, TRUSTED)
