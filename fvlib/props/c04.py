"""C04 -- no input crashes or hangs the tool."""
import os
import random
import re
import shutil
import struct

from .. import core, itsgen, streams
from . import c06

TRUSTED = [
    "Coq 8.16.1 kernel (coqc)",
    "axioms: none (Print Assumptions: Closed under the global context for every C04 theorem)",
    "PARTIAL: the theorems cover the sequential core: every validator in every mode and the whole `check` run (scanner + dispatcher + validators + collector) reach "
    "no panic site except Stave::from_feeid's for a packet naming layer 7 (known finding F6); the unreachable hint of the ALPIDE decoder; the handled sites F5/F8/F17 "
    "(regenerated facts); the frame views reach the same site only; the reader loop ends within length/64 + 2 rounds on arbitrary bytes; the exit-status range. Memory safety of the unsafe blocks, "
    "thread behaviour and wall-clock time are decided by running the shipped-profile binary only",
    "gen/extract_facts.py (facts of the validator models); extraction + OCaml driver (`cli` stream: whole-run model incl. panic sites); the rebuilt binary "
    "(release profile: panic = abort, no overflow checks)",
    "the corruption generators of fvlib/props/c04.py; the time limit (20 s for inputs below 1 MB) as the reading of `a time bound proportional to the input size`",
]

ANSI = re.compile(r"\x1b\[[0-9;]*m")
SITES = [
    (re.compile(r"words/its\.rs:\d+:\d+:\s*\n?Invalid layer number|Invalid layer number"), "F6-invalid-layer-number-panics"),
    (re.compile(r"readout_frame\.rs:\d+:\d+:\s*\n?called `Option::unwrap\(\)` on a `None` value"), "F5-data-word-outside-readout-frame-panics"),
    (re.compile(r"lane_alpide_frame_analyzer\.rs:\d+:\d+:\s*\n?called `Option::unwrap\(\)` on a `None` value"), "F8-lane-without-chip-header-panics"),
    (re.compile(r"Invalid fatal lane number"), "F17-fatal-lane-number-above-8-panics"),
]
MODEL_SITE = {2: "F5-data-word-outside-readout-frame-panics", 3: "F6-invalid-layer-number-panics", 4: "F8-lane-without-chip-header-panics",
              5: "F17-fatal-lane-number-above-8-panics"}


def mutate(rng, per):
    """structure-aware corruption of a conforming stream (list of links, each a list of (rdh, payload))"""
    per = [list(pk) for pk in per]
    kind = rng.choice(["bits", "extreme-rdh", "word-ops", "splice", "size", "ids", "lanes", "heavy", "offset", "ff-payload"])
    victim = (rng.randrange(len(per)), None)
    for li, pk in enumerate(per):
        for k, (r, p) in enumerate(pk):
            r, p = bytearray(r), bytearray(p)
            slot = 16 if r[24] == 0 else 10
            nw = len(p) // slot
            if kind == "bits" and rng.random() < 0.3:
                for _ in range(rng.randrange(1, 4)):
                    if rng.random() < 0.5 or not p:
                        i = rng.randrange(64)
                        if i not in (8, 9):
                            r[i] ^= 1 << rng.randrange(8)
                    else:
                        p[rng.randrange(len(p))] ^= 1 << rng.randrange(8)
            elif kind == "extreme-rdh" and rng.random() < 0.3:
                f = rng.choice(["fee", "link", "bc", "orbit", "fmt", "trig", "pages", "stop", "det", "sys", "ver", "size", "prio", "cru"])
                v = rng.choice([0, 0xFF, 0xFFFF, 0xFFFFFFFF, 0x7000, 0x70FF, 0x8000, 1, 2, 3])
                if f == "fee":
                    struct.pack_into("<H", r, 2, v & 0xFFFF)
                elif f == "link":
                    r[12] = v & 0xFF
                elif f == "bc":
                    struct.pack_into("<I", r, 16, v)
                elif f == "orbit":
                    struct.pack_into("<I", r, 20, v)
                elif f == "fmt":
                    r[24] = v & 0xFF
                elif f == "trig":
                    struct.pack_into("<I", r, 32, v)
                elif f == "pages":
                    struct.pack_into("<H", r, 36, v & 0xFFFF)
                elif f == "stop":
                    r[38] = v & 0xFF
                elif f == "det":
                    struct.pack_into("<I", r, 48, v)
                elif f == "sys" and (li, k) != (0, 0):
                    r[5] = v & 0xFF
                elif f == "ver" and (li, k) != (0, 0):
                    r[0] = v & 0xFF
                elif f == "size":
                    r[1] = v & 0xFF
                elif f == "prio" and (li, k) != (0, 0):
                    r[4] = v & 0xFF
                elif f == "cru":
                    struct.pack_into("<H", r, 14, v & 0xFFFF)
            elif kind == "word-ops" and nw >= 2 and rng.random() < 0.4:
                ws = [bytes(p[i * slot:(i + 1) * slot]) for i in range(nw)]
                op = rng.choice(["delete", "duplicate", "swap", "insert-tdh", "insert-data", "insert-tdt", "drop-first", "cont-first"])
                i = rng.randrange(nw)
                pad = b"\x00" * (slot - 10)
                if op == "delete":
                    del ws[i]
                elif op == "duplicate":
                    ws.insert(i, ws[i])
                elif op == "swap":
                    j = rng.randrange(nw)
                    ws[i], ws[j] = ws[j], ws[i]
                elif op == "insert-tdh":
                    ws.insert(i, itsgen.tdh(continuation=rng.randrange(2), no_data=rng.randrange(2), internal=1) + pad)
                elif op == "insert-data":
                    ws.insert(i, itsgen.data_word(rng.choice([0x20, 0x28, 0x40, 0x5E]), bytes(rng.getrandbits(8) for _ in range(9))) + pad)
                elif op == "insert-tdt":
                    ws.insert(i, itsgen.tdt(packet_done=rng.randrange(2)) + pad)
                elif op == "drop-first":
                    del ws[0]
                else:
                    # a continuation TDH as the first TDH, then data (data word outside a readout frame in stave mode)
                    for q, w in enumerate(ws):
                        if w[9] == 0xE8:
                            b2 = bytearray(w)
                            b2[1] |= 0x40
                            ws[q] = bytes(b2)
                            break
                np_ = b"".join(ws)
                if slot == 10:
                    np_ += b"\xFF" * ((-len(np_)) % 16)
                p = bytearray(np_)
                struct.pack_into("<H", r, 8, 64 + len(p))
                struct.pack_into("<H", r, 10, 64 + len(p))
            elif kind == "size" and rng.random() < 0.2:
                # memory size / offset inconsistent with the content (kept inside the scanner's window so that scanning goes on)
                struct.pack_into("<H", r, 10, rng.choice([0, 63, 64, 65, 0xFFFF, 64 + len(p) + 16]))
            elif kind == "offset" and li == victim[0] and k == min(len(pk) - 1, 1 + (len(pk) // 2)):
                # offset_to_next outside / at the edges of the window the scanner accepts, or inconsistent with the payload
                struct.pack_into("<H", r, 8, rng.choice([0, 1, 8, 63, 64, 65, 10064, 10065, 0x8000, 0xFFFF]))
            elif kind == "ff-payload" and len(p) >= 16 and rng.random() < 0.6:
                # payloads ending in (or consisting of) more than 15 bytes of 0xFF
                n = rng.choice([16, 17, 32, len(p)])
                p[len(p) - min(n, len(p)):] = b"\xFF" * min(n, len(p))
            elif kind == "ids" and nw and rng.random() < 0.5:
                for _ in range(rng.randrange(1, 4)):
                    p[rng.randrange(nw) * slot + 9] = rng.choice([0x00, 0x20, 0x29, 0x3F, 0x47, 0x5F, 0xE0, 0xE4, 0xE8, 0xF0, 0xF8, 0xFF, 0xE1, rng.getrandbits(8)])
            elif kind == "lanes" and nw and rng.random() < 0.6:
                # ALPIDE lane content: no chip header at all, only idle bytes, fatal extensions, lane ids beyond the barrel
                for i in range(nw):
                    b0 = i * slot
                    if 0x20 <= p[b0 + 9] <= 0x5E and rng.random() < 0.4:
                        c = rng.random()
                        if c < 0.3:
                            p[b0:b0 + 9] = b"\x00" * 9
                        elif c < 0.5:
                            p[b0:b0 + 9] = bytes([rng.choice([0xF4, 0xF8, 0xFC])]) + b"\x00" * 8
                        elif c < 0.7:
                            p[b0 + 9] = rng.choice([0x29, 0x2B, 0x3F, 0x20 + rng.randrange(9)])
                        else:
                            p[b0:b0 + 9] = bytes(rng.getrandbits(8) for _ in range(9))
            elif kind == "heavy":
                for _ in range(rng.randrange(1, 12)):
                    if p and rng.random() < 0.7:
                        p[rng.randrange(len(p))] = rng.getrandbits(8)
                    else:
                        i = rng.randrange(64)
                        if i not in (8, 9) and not ((li, k) == (0, 0) and i < 8):
                            r[i] = rng.getrandbits(8)
            pk[k] = (bytes(r), bytes(p))
    if kind == "splice" and len(per) > 1:
        a, b_ = rng.sample(range(len(per)), 2)
        i, j = rng.randrange(len(per[a])), rng.randrange(len(per[b_]))
        per[a][i], per[b_][j] = per[b_][j], per[a][i]
    return kind, per


def fatal_lane_links(rng):
    """stave-level links in which lanes announce the FATAL state through an APE byte (0xF4..0xFC) and are absent from the
    later frames -- the lanes of the link's own group, lanes of another group, and data words whose lane id lies beyond
    the barrel (inner barrel: 0x29..0x3F, lane numbers 9..31).  -> per-link lists of (rdh, payload)"""
    per = []
    used = set()
    for _ in range(rng.choice([1, 1, 2])):
        while True:
            layer = rng.choice([0, 1, 2, 0, 1, 2, rng.randrange(3, 7)])
            stave, lid = rng.randrange(12), rng.randrange(24)
            if (layer, stave) not in used and lid not in [x[1] for x in used]:
                used.add((layer, stave))
                used.add(("link", lid))
                break
        l = streams.Link(rng, lid, layer, stave, fmt=rng.choice([0, 2]), stave_level=True)
        if layer <= 2:
            foreign = [0x20 + x for x in range(9) if 0x20 + x not in l.lane_ids] + list(range(0x29, 0x40))
        else:
            foreign = [i for i in range(0x40, 0x80) if i not in l.lane_ids]
        events = {}      # frame index -> lane id bytes that announce FATAL in that frame
        nfr = rng.randrange(2, 6)
        for _ in range(rng.choice([1, 1, 2, 3])):
            idb = rng.choice(l.lane_ids) if rng.random() < 0.5 else rng.choice(foreign)
            events.setdefault(rng.randrange(nfr - 1), []).append(idb)
        gone = set()
        words = [itsgen.ihw(l.lanes_mask)]
        bc = rng.randrange(0, 0x100)
        trig = 0x6A03
        for f in range(nfr):
            words.append(itsgen.tdh(trigger_type=(trig & 0xFFF) if f == 0 else 0x010, internal=1, no_data=0, continuation=0, bc=bc, orbit=l.orbit))
            abc = rng.randrange(256)
            now = events.get(f, [])
            # the frames after an announcement usually come with as many lanes fewer as lanes are known to be in FATAL state
            # (whichever lanes those are: the count is what the frame check looks at first)
            nforeign = len([i for i in gone if i not in l.lane_ids])
            absent = set(rng.sample(l.lane_ids, min(nforeign, len(l.lane_ids)))) if rng.random() < 0.7 else set()
            for idb in l.lane_ids + [i for i in now if i not in l.lane_ids]:
                if idb in gone and rng.random() < 0.9:
                    continue
                if idb in absent and idb not in now:
                    continue
                if idb in now:
                    words += streams.lane_words(idb, bytes([rng.choice([0xF4, 0xF8, 0xFC, 0xF5])]))
                elif layer <= 2:
                    words += streams.lane_words(idb, streams.alpide_lane([idb & 0x1F], abc, rng))
                else:
                    words += streams.lane_words(idb, streams.alpide_lane(list(range(7)), abc, rng))
            gone.update(now)
            words.append(itsgen.tdt(packet_done=1))
            bc += rng.randrange(1, 40)
        pl = itsgen.payload(words, l.fmt)
        pk = [(l.rdh(len(pl), 0, 0, bc & 0xFF, trig), pl)]
        pl = itsgen.payload([itsgen.ddw0()], l.fmt)
        pk.append((l.rdh(len(pl), 1, 1, bc & 0xFF, trig), pl))
        per.append(pk)
    return per


def corpus():
    """the inputs of the recorded and repaired crash findings, run first on every tier: -> [(name, bytes, mode)]"""
    rng = random.Random(4)

    def ib_link(frames, layer=0, cont_first=0, link=5):
        l = streams.Link(rng, link, layer, 10, fmt=2, stave_level=True)
        l.group, l.lane_ids, l.lanes_mask = [0, 1, 2], [0x20, 0x21, 0x22], 7
        words = [itsgen.ihw(l.lanes_mask)]
        for f, lanes in enumerate(frames):
            words.append(itsgen.tdh(trigger_type=0xA03 if f == 0 else 0x010, internal=1, no_data=0, continuation=cont_first if f == 0 else 0, bc=10 + f, orbit=l.orbit))
            for idb, data in lanes:
                words += streams.lane_words(idb, data)
            words.append(itsgen.tdt(packet_done=1))
        pl = itsgen.payload(words, l.fmt)
        out = l.rdh(len(pl), 0, 0, 10, 0x6A03) + pl
        pl = itsgen.payload([itsgen.ddw0()], l.fmt)
        return out + l.rdh(len(pl), 1, 1, 10, 0x6A03) + pl

    ok = lambda lane, bc: bytes([0xA0 | lane, bc, 0xB0])
    good = [(0x20, ok(0, 7)), (0x21, ok(1, 7)), (0x22, ok(2, 7))]
    # layer 7 on a later packet (the very first RDH of an input is vetted by the start-up code): a second link behind a good one
    first = ib_link([good])
    data7 = bytearray(first + ib_link([good], link=6))
    pos = len(first)
    while pos + 64 <= len(data7):
        fee = struct.unpack_from("<H", data7, pos + 2)[0]
        struct.pack_into("<H", data7, pos + 2, fee | 0x7000)
        pos += struct.unpack_from("<H", data7, pos + 8)[0]
    st = ["check", "all", "its-stave"]
    # inputs longer than the reader's look-ahead (100 batches of 100 packets): 15 000 payload-less packets whose running checks fail
    # from the second packet on -- a consumer that stops early (error cap) or that does not exist (no sub-command) must not leave the
    # reader blocked on its full queue
    from .. import rawdata as _rd
    long_in = b"".join(_rd.mk_rdh(link=3, fee=0x100A, payload_len=0, pktcnt=i & 0xFF, orbit=7, pages=0, stop=0) for i in range(15000))
    # a middle-layer stave one of whose lanes carries a configured chip order followed by one more chip (and one that stops one chip
    # short), checked with chip orders configured WITHOUT a chip count: an [E9005], not a crash
    ml = streams.Link(rng, 7, 3, 4, fmt=2, stave_level=True)
    wsm = [itsgen.ihw(ml.lanes_mask), itsgen.tdh(trigger_type=0xA03, internal=1, no_data=0, continuation=0, bc=9, orbit=ml.orbit)]
    for n_, idb in enumerate(ml.lane_ids):
        chips = list(range(8)) if n_ == 0 else (list(range(6)) if n_ == 1 else list(range(7)))
        wsm += streams.lane_words(idb, b"".join(bytes([0xE0 | c, 0x21]) for c in chips))        # chip empty frames, bunch counter 0x21
    wsm.append(itsgen.tdt(packet_done=1))
    plm = itsgen.payload(wsm, ml.fmt)
    ml_in = ml.rdh(len(plm), 0, 0, 9, 0x6A03) + plm
    plm = itsgen.payload([itsgen.ddw0()], ml.fmt)
    ml_in += ml.rdh(len(plm), 1, 1, 9, 0x6A03) + plm
    extra = [("custom-chip-orders-without-count", ml_in, ["check", "all", "its-stave", "-c", "TOML2"]),
             ("long-input-error-cap", long_in, ["check", "all", "-e", "1"]), ("long-input-error-cap", long_in, ["check", "all", "its", "-e", "3"]),
             ("long-input-no-subcommand", long_in, []), ("long-input-view", long_in, ["view", "rdh"])]
    return extra + [
        ("F2-empty-input", b"", ["check", "sanity"]),
        ("F2-three-bytes", b"\x07\x40\x00", ["check", "all"]),
        ("F5-data-word-outside-frame", ib_link([good], cont_first=1), st),
        ("F6-layer-7", bytes(data7), ["view", "its-readout-frames"]),
        ("F6-layer-7", bytes(data7), st),
        ("F8-lane-without-chip", ib_link([[(0x20, b"\x00" * 9), (0x21, ok(1, 7)), (0x22, ok(2, 7))]]), st),
        ("F17-fatal-lane-9", ib_link([good + [(0x29, b"\xF4")], [(0x20, ok(0, 8)), (0x21, ok(1, 8))]]), st),
        ("F17-fatal-lanes-9-31", ib_link([good + [(0x29, b"\xF8"), (0x3F, b"\xFC")], [(0x20, ok(0, 8))], [(0x22, ok(2, 9))]]), st),
    ]


def run(tier, seed):
    chk = core.Check("C04", tier, seed)
    rng = random.Random(seed)
    gen = core.step_gen()
    chk.cov["gen"] = gen["log"]
    chk.proof = core.step_coq("Props/C04.v")
    core.step_model()
    b = core.step_cli()
    if not b["ok"]:
        chk.disagreements.append({"stream": "build", "detail": "the binary does not build against /repo", "log": b.get("log", "")[-1500:]})
        return core.finish(chk, TRUSTED)
    deep = tier == "thorough" or not chk.proof["ok"]
    tmp = core.scratch_dir("c04")
    nin = 500 if deep else 70
    jobs = []
    for ci, (name, data, mode) in enumerate(corpus()):
        path = os.path.join(tmp, "corpus%d.raw" % ci)
        open(path, "wb").write(data)
        for src in ("file", "pipe"):
            jobs.append({"s": -1 - ci, "kind": "corpus:" + name, "data": data, "path": path, "mode": mode, "opts": [], "src": src})
    for s in range(nin):
        cls = ["random", "mutated", "mutated", "mutated", "truncated", "random-with-rdh0", "ff-payloads", "fatal-lanes"][s % 8]
        per = None
        if cls == "random":
            data = bytes(rng.getrandbits(8) for _ in range(rng.choice([0, 1, 7, 8, 9, 63, 64, 65, 200, 1000, 5000])))
            kind = "random"
        elif cls == "random-with-rdh0":
            body = bytearray(rng.getrandbits(8) for _ in range(rng.choice([56, 120, 600, 3000])))
            data = bytes([rng.choice([6, 7]), 0x40]) + struct.pack("<H", rng.randrange(7) << 12 | rng.randrange(48)) + bytes([0, 0x20, 0, 0]) + bytes(body)
            kind = "random-with-rdh0"
        elif cls == "fatal-lanes":
            kind = "fatal-lanes"
            per = fatal_lane_links(rng)
            data = b"".join(r + p for pk in per for r, p in pk)
        else:
            stave = rng.random() < 0.5
            _m, per = streams.conforming(rng, nlinks=rng.choice([1, 2, 3]), nhbf=rng.choice([1, 2]), stave_level=stave)
            if cls == "ff-payloads":
                # many payloads ending in more than 15 bytes of 0xFF: the un-coded payload error at many different addresses
                kind = "ff-payloads"
                per = [[(r, (p[:max(0, len(p) - 32)] + b"\xFF" * min(32, len(p))) if (rng.random() < 0.7 and len(p) >= 16) else p) for r, p in pk] for pk in per]
            else:
                kind, per = mutate(rng, per)
            cd, _r = c06.place(per, c06.layouts(rng, per)[rng.choice(["contiguous", "random-1"])])
            data = b"".join(r + p for _o, r, p in cd)
            if cls == "truncated" and len(data) > 10:
                data = data[:rng.randrange(1, len(data))]
                kind += "+truncated"
        path = os.path.join(tmp, "in%d.raw" % s)
        open(path, "wb").write(data)
        ids = []
        if per:
            ids = [(pk[0][0][12], struct.unpack_from("<H", pk[0][0], 2)[0]) for pk in per if pk]
        modes = [["check", "sanity"], ["check", "all"], ["check", "sanity", "its"], ["check", "all", "its"], ["check", "all", "its-stave"], ["view", "rdh"],
                 ["view", "its-readout-frames"], ["view", "its-readout-frames-data"], ["WRITE"]]
        picked = modes if deep else rng.sample(modes, 4)
        if cls == "ff-payloads" and not deep:
            picked = [["check", "all", "its"], ["check", "sanity", "its"]] + rng.sample(modes, 2)
        if cls == "fatal-lanes" and not deep:
            picked = [["check", "all", "its-stave"], ["check", "all", "its-stave"], ["view", "its-readout-frames-data"]] + rng.sample(modes, 1)
        for mode in picked:
            opts = []
            o = rng.random()
            if ids and o < 0.35:
                link, fee = rng.choice(ids)
                opts = rng.choice([["-f", str(link)], ["-F", str(fee)], ["-s", "L%d_%d" % ((fee >> 12) & 7, fee & 0x3F)]])
            if mode[0] == "check":
                if rng.random() < 0.3:
                    opts += ["-m"]
                if rng.random() < 0.3:
                    opts += ["-e", str(rng.choice([1, 2, 10]))]
                if rng.random() < 0.4:
                    opts += ["-E", "99"]
                if mode[-1] == "its-stave" and "-s" in opts and rng.random() < 0.5:
                    opts += ["-p", str(rng.choice([1, 198, 3563]))]     # the period option is only valid together with a stave filter
                if rng.random() < 0.2:
                    opts += ["-c", "TOML"]
            if mode == ["WRITE"] and not any(x in opts for x in ("-f", "-F", "-s")):
                opts = ["-f", str(ids[0][0] if ids else rng.randrange(32))]
            jobs.append({"s": s, "kind": kind, "data": data, "path": path, "mode": mode, "opts": opts, "src": rng.choice(["file", "pipe"])})
    toml2 = os.path.join(tmp, "cc_orders_only.toml")
    open(toml2, "w").write("chip_orders_ob = [[0, 1, 2, 3, 4, 5, 6], [8, 9, 10, 11, 12, 13, 14]]\n")
    toml = os.path.join(tmp, "cc.toml")
    open(toml, "w").write("cdps = 10\ntriggers_pht = 0\nrdh_version = 7\nchip_count_ob = 7\nchip_orders_ob = [[0, 1, 2, 3, 4, 5, 6], [8, 9, 10, 11, 12, 13, 14]]\n")

    def work(j):
        args = [a if a != "TOML" else (toml if (j["s"] % 2 == 0) else toml2) for a in j["opts"]]
        j = dict(j, mode=[a if a != "TOML2" else toml2 for a in j["mode"]])
        if j["mode"] == ["WRITE"]:
            args = args + ["-o", os.path.join(tmp, "out_%d.raw" % id(j))]
        else:
            args = j["mode"] + args
        limit = 20 + len(j["data"]) // 50000
        if j["src"] == "file":
            rc, so, se, dt = core.run_cli([j["path"]] + args, timeout=limit)
        else:
            rc, so, se, dt = core.run_cli(args, stdin_bytes=j["data"], timeout=limit)
        outp = os.path.join(tmp, "out_%d.raw" % id(j))
        if os.path.exists(outp):
            os.remove(outp)
        return rc, ANSI.sub("", se.decode("utf8", "replace")), dt, args
    res = core.par_map(work, jobs)
    distinct, samples = set(), []
    for j, (rc, se, dt, args) in zip(jobs, res):
        desc = {"stream": "robustness", "input_class": j["kind"], "args": " ".join(os.path.basename(a) if a.startswith(tmp) else a for a in args), "input": j["src"],
                "input_hex": j["data"].hex().upper() if len(j["data"]) <= 3000 else "(input %d of seed %d, %d bytes)" % (j["s"], seed, len(j["data"]))}
        ee = 99 if "-E" in j["opts"] else None
        panicked = "panicked at" in se
        ok_exit = isinstance(rc, int) and rc in (0, 1) + ((ee,) if ee else ())
        distinct.add((j["kind"].split("+")[0], tuple(j["mode"]), "panic" if panicked else ("timeout" if rc == "TIMEOUT" else rc if ok_exit else "bad-exit")))
        if panicked or not ok_exit:
            cls = None
            for rx, fid in SITES:
                if rx.search(se):
                    cls = fid
                    break
            where = re.search(r"panicked at ([^\n]+)", se)
            chk.spec_violations.append(dict(desc, exit=rc, wall_s=round(dt, 2) if isinstance(dt, float) else dt, panic=where.group(1)[:160] if where else None, **{"class": cls},
                                            what=("the process panics / aborts" if panicked else "the process does not end on its own in time" if rc == "TIMEOUT"
                                                  else "exit status outside {0, 1, configured}")))
        elif len(samples) < 3 and j["kind"] != "random":
            samples.append(dict(desc, exit=rc))
    chk.add_stream("robustness", len(jobs), distinct, samples, distribution={"inputs": nin, "runs": len(jobs)})
    # ---- model vs binary: does the run hit a panic site (check modes, unfiltered, no cap)
    mj = [(j, r) for j, r in zip(jobs, res) if j["mode"] and j["mode"][0] == "check" and not any(x in j["opts"] for x in ("-f", "-F", "-s", "-e", "-c", "-p")) and len(j["data"]) >= 64
          and len(j["data"]) < 200000][: (400 if deep else 60)]
    mlines = ["%s %s - %d 0 - %s - - - %s %s" % (j["mode"][1], {"its": "its", "its-stave": "stave"}.get(j["mode"][-1], "none") if len(j["mode"]) > 2 else "none", int("-m" in j["opts"]),
                                                  "99" if "-E" in j["opts"] else "-", j["src"], j["data"].hex().upper()) for j, _r in mj]
    for (j, (rc, se, dt, args)), lm in zip(mj, core.run_lines(core.FPMODEL, "cli", mlines, shards=core.NCPU) if mlines else []):
        ip = "panicked at" in se
        mp = lm.startswith("PANIC:")
        if ip != mp and not lm.startswith("SHORT") and not lm.startswith("UNRECOGNISED"):
            chk.disagreements.append({"stream": "robustness", "args": " ".join(args[-5:]), "impl_panicked": ip, "model": lm[:120], "input_class": j["kind"],
                                      "input_hex": j["data"].hex().upper()[:6000]})
    # ---- the same for the views (unfiltered): the view model ends with `panic` exactly when the binary aborts
    vj = [(j, r) for j, r in zip(jobs, res) if j["mode"] and j["mode"][0] == "view" and not j["opts"] and 64 <= len(j["data"]) < 200000][: (400 if deep else 60)]
    vlines = ["%s %s - %s" % ({"rdh": "rdh", "its-readout-frames": "frames", "its-readout-frames-data": "data"}[j["mode"][1]], j["src"], j["data"].hex().upper()) for j, _r in vj]
    nview = 0
    for (j, (rc, se, dt, args)), lm in zip(vj, core.run_lines(core.FPMODEL, "view", vlines, shards=core.NCPU) if vlines else []):
        if rc == 1 and "Init processing failed" in se:
            continue          # refused at start-up (first RDH0): no view at all
        nview += 1
        ip = "panicked at" in se
        mp = "END:panic:" in lm
        if ip != mp:
            chk.disagreements.append({"stream": "robustness", "args": " ".join(args[-5:]), "impl_panicked": ip, "model": lm[-120:], "input_class": j["kind"],
                                      "input_hex": j["data"].hex().upper()[:6000]})
    chk.cov["views_compared_with_the_view_model"] = nview
    shutil.rmtree(tmp, ignore_errors=True)
    chk.cov["rule"] = ("inputs: pure random bytes (0..5000, also behind a valid RDH0), conforming streams corrupted structure-aware (bit flips, extreme values in every RDH field, words "
                       "deleted / duplicated / swapped / inserted, continuation TDH first, packets spliced across links, sizes inconsistent with content, identifiers overwritten, "
                       "ALPIDE lanes without chip header / only idle bytes / fatal extensions / lane ids beyond the barrel, heavy random overwrite), stave-level links whose lanes "
                       "(own group, other groups, lane ids beyond the barrel) announce FATAL and then stay away (fatal-lanes, truncations x check sanity|all "
                       "x none|its|its-stave, the three views, filtered writing x filters, -m, -e, -E, -p, custom checks x file / pipe, shipped-profile binary. Required: the process "
                       "ends on its own within the limit, no panic / abort / signal, exit status in {0, 1, configured}. A panic is attributed to a recorded finding only by its "
                       "site; model and binary must agree on `hits a panic site`. distinct = (input class, mode, outcome)")
    return core.finish(chk, TRUSTED)
