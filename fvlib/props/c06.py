"""C06 -- each link is validated as if it were alone."""
import os
import random
import re
import shutil
import struct

from .. import core, canon, rawdata, streams

TRUSTED = [
    "Coq 8.16.1 kernel (coqc); vm_compute only for the non-vacuity example; no native_compute",
    "axioms: none (Print Assumptions: Closed under the global context for every C06 theorem)",
    "extraction (ExtrOcamlBasic only) + OCaml driver (streams link, dispatch)",
    "fp_harness `dispatch` (the real ValidatorDispatcher with its validator threads, batches of 100) and `link` (one LinkValidator run "
    "sequentially on the calling thread); the rebuilt binary for merged / filtered / extracted files",
    "canonicalisation of messages; attribution of a message to a link through the byte range its offset falls in (Python)",
    "NOT proved: that validators use packet offsets only as labels (re-basing); it is checked by the layout comparison of this check",
]

ANSI = re.compile(r"\x1b\[[0-9;]*m")


def corrupt(rng, pkts, level):
    """returns a corrupted copy of a link's packet list (RDH fields and payload words)"""
    out = []
    for n, (r, p) in enumerate(pkts):
        r = bytearray(r)
        p = bytearray(p)
        if rng.random() < level:
            k = rng.choice(["pages", "stop", "orbit", "prio", "trig", "bc", "hsize", "hsize", "reserved"])
            if n == 0 and k in ("prio", "hsize", "reserved"):
                # the first RDH0 of an input is vetted by the start-up code (D9): a link file that opens with a broken RDH0 is
                # refused as a whole, which is not what this stream compares
                k = "stop"
            if k == "pages":
                struct.pack_into("<H", r, 36, rng.randrange(6))
            elif k == "stop":
                r[38] = rng.choice([0, 1, 2])
            elif k == "orbit":
                struct.pack_into("<I", r, 20, rng.randrange(1 << 32))
            elif k == "prio":
                r[4] = 1
            elif k == "hsize":
                r[1] = rng.choice([0x00, 0x20, 0x48, 0x50, 0xFF])        # RDH0 header_size: the header is 64 bytes whatever it claims
            elif k == "reserved":
                r[6 + rng.randrange(2)] = rng.randrange(1, 256)          # RDH0 reserved
            elif k == "trig":
                struct.pack_into("<I", r, 32, rng.choice([0, 0x8000, 0x6A03, 0x4813]))
            else:
                struct.pack_into("<I", r, 16, 0xFFF)
        if level and len(p) >= 10 and rng.random() < level * 0.7:
            slot = 16 if r[24] == 0 else 10
            nw = max(1, len(p) // slot)
            i = rng.randrange(nw) * slot
            if i + 10 <= len(p):
                what = rng.random()
                if what < 0.4:
                    p[i + 9] = rng.choice([0xE0, 0xE8, 0xF0, 0xE4, 0x41, 0x99])
                else:
                    p[i + rng.randrange(9)] ^= 1 << rng.randrange(8)
        out.append((bytes(r), bytes(p)))
    return out


def layouts(rng, per):
    """name -> list of (link index, packet index) orders"""
    res = {}
    res["contiguous"] = [(i, k) for i in range(len(per)) for k in range(len(per[i]))]
    rr = []
    k = 0
    while any(k < len(p) for p in per):
        for i in range(len(per)):
            if k < len(per[i]):
                rr.append((i, k))
        k += 1
    res["round-robin"] = rr
    for name in ("random-1", "random-2"):
        idx = [0] * len(per)
        m = []
        while any(idx[i] < len(per[i]) for i in range(len(per))):
            i = rng.choice([i for i in range(len(per)) if idx[i] < len(per[i])])
            m.append((i, idx[i]))
            idx[i] += 1
        res[name] = m
    return res


def place(per, order, start=0):
    """-> [(off, rdh, payload)], ranges [(lo, hi, link, idx)]"""
    out = []
    rng_ = []
    off = start
    for i, k in order:
        r, p = per[i][k]
        out.append((off, r, p))
        rng_.append((off, off + 64 + len(p), i, k))
        off += 64 + len(p)
    return out, rng_


def rebase(tokens, ranges):
    """message tokens E:off:... -> {link: [ (idx, delta, rest) ... in order ]}"""
    res = {}
    for t in tokens:
        f = t.split(":")
        if f[0] != "E":
            res.setdefault("other", []).append(t)
            continue
        off = int(f[1], 16)
        hit = None
        for lo, hi, i, k in ranges:
            if lo <= off < hi:
                hit = (i, k, off - lo)
                break
        if hit is None:
            res.setdefault("unattributed", []).append(t)
        else:
            res.setdefault(hit[0], []).append("%d+%X:%s" % (hit[1], hit[2], ":".join(f[2:])))
    return res


def run(tier, seed):
    chk = core.Check("C06", tier, seed)
    rng = random.Random(seed)
    gen = core.step_gen()
    chk.cov["gen"] = gen["log"]
    chk.proof = core.step_coq("Props/C06.v")
    core.step_model()
    h = core.step_harness()
    b = core.step_cli() if h["ok"] else h
    if not h["ok"] or not b["ok"]:
        chk.disagreements.append({"stream": "build", "detail": "harness / binary does not build against /repo", "log": (h.get("log") or b.get("log", ""))[-1500:]})
        return core.finish(chk, TRUSTED)
    deep = tier == "thorough" or not chk.proof["ok"]
    HEADS = ["all its - -", "sanity its - -", "all none - -", "all stave - -"]
    nsets = 60 if deep else 10
    lines = []
    meta = []
    for s in range(nsets):
        head = HEADS[s % len(HEADS)]
        stave = head.startswith("all stave")
        nl = rng.choice([2, 3, 4, 5])
        long_gap = (s % 5 == 2)
        if long_gap:
            # several reader batches (100 packets each); one unit is silent for more than two whole batches in the middle of a
            # heartbeat frame and then goes on: its validator must still be the one that saw its earlier packets (seed C06-G)
            nl = 3
        _merged, per = streams.conforming(rng, nlinks=nl, nhbf=(rng.choice([30, 40]) if long_gap else rng.choice([2, 3])), stave_level=stave)
        lvl = [0.0] + [rng.choice([0.0, 0.15, 0.4]) for _ in range(nl - 1)]
        if stave:
            per = [[(bytes(bytearray(r[:36]) + struct.pack("<H", rng.randrange(5)) + r[38:]) if rng.random() < l else r, p) for r, p in pk] for pk, l in zip(per, lvl)]
        else:
            per = [corrupt(rng, pk, l) for pk, l in zip(per, lvl)]
        # links with their own RDH version (the `first header id seen` is per validator)
        per = [[(bytes([6 if r[0] == 7 else 7]) + r[1:], p) for r, p in pk] if (i > 0 and rng.random() < 0.35) else pk for i, pk in enumerate(per)]
        # the dispatch id is the link id, or the FEE id in stave mode: the OTHER id may coincide between units (two staves read
        # out over link 0 of two CRUs; one FEE id seen on two links) and must play no role in the routing
        if s % 2 == 1:
            for j in range(1, nl):
                if rng.random() < 0.7:
                    if stave:
                        per[j] = [(r[:12] + per[0][0][0][12:13] + r[13:], p) for r, p in per[j]]
                    else:
                        per[j] = [(r[:2] + per[0][0][0][2:4] + r[4:], p) for r, p in per[j]]
        ly = layouts(rng, per)
        if long_gap:
            ly = {"round-robin": ly["round-robin"]}
            for u in (0, 1):
                # cut unit u inside a heartbeat frame (after a packet that is neither a stop page nor followed by page 0)
                cands = [k for k in range(2, len(per[u]) - 2) if per[u][k][0][38] == 0 and per[u][k + 1][0][36:38] != b"\x00\x00"]
                cutk = (rng.choice(cands) if cands else len(per[u]) // 2) + 1
                others = [(i, k) for i in range(nl) if i != u for k in range(len(per[i]))]
                ly["long-gap-%d" % u] = [(u, k) for k in range(cutk)] + others + [(u, k) for k in range(cutk, len(per[u]))]
        for name, order in ly.items():
            cd, ranges = place(per, order, start=rng.choice([0, 0x1000]))
            lines.append(("dispatch", rawdata.link_line(head, cd)))
            meta.append({"set": s, "layout": name, "ranges": ranges, "head": head, "nlinks": nl, "npk": len(cd)})
        for i in range(nl):
            cd, ranges = place(per, [(i, k) for k in range(len(per[i]))], start=0)
            lines.append(("link", rawdata.link_line(head, cd)))
            meta.append({"set": s, "layout": "alone-%d" % i, "ranges": ranges, "head": head, "link": i})
    dl = [l for kind, l in lines if kind == "dispatch"]
    ll = [l for kind, l in lines if kind == "link"]
    env = {"FV_MUTE": "1"}
    d_impl = core.run_lines(core.HARNESS_BIN, "dispatch", dl, extra_env=env)
    d_model = core.run_lines(core.FPMODEL, "dispatch", dl)
    l_impl = core.run_lines(core.HARNESS_BIN, "link", ll, extra_env=env)
    l_model = core.run_lines(core.FPMODEL, "link", ll)
    di = li = 0
    alone = {}
    per_layout = {}
    distinct = set()
    samples = []
    for (kind, line), m in zip(lines, meta):
        if kind == "link":
            impl_raw, mod = l_impl[li], l_model[li].strip()
            li += 1
            impl = canon.canon_link(impl_raw)
            if impl != mod:
                chk.disagreements.append({"stream": "link-alone", "case": line[:1200], "impl": impl[:500], "model": mod[:500]})
            toks = [] if impl in ("-", "PANIC") else impl.split()
            alone[(m["set"], m["link"])] = ("PANIC" if impl == "PANIC" else rebase(toks, m["ranges"]).get(m["link"], []))
        else:
            impl_raw, mod = d_impl[di], d_model[di]
            di += 1
            panicked = "PANIC" in impl_raw or impl_raw.startswith("DIED")
            toks = [] if impl_raw == "-" else [canon.canon_stat(t) for t in impl_raw.split(" || ")]
            toks = [t for t in toks if t != "PANIC"]
            rb = rebase([t for t in toks if t.startswith("E:")], m["ranges"])
            per_layout[(m["set"], m["layout"])] = (rb, panicked, line, m)
            # model: "<id>= tokens ; <id>= tokens"; compare per link through the offsets as well
            mtoks = []
            mpanic = False
            for part in mod.split(" ; "):
                _id, _, body = part.partition("= ")
                body = body.strip()
                if body.startswith("PANIC"):
                    mpanic = True
                elif body and body != "-":
                    mtoks.extend(t for t in body.split() if t.startswith("E:"))
            mrb = rebase(mtoks, m["ranges"])
            if not panicked and not mpanic and {k: v for k, v in rb.items()} != {k: v for k, v in mrb.items()}:
                k = next((k for k in set(rb) | set(mrb) if rb.get(k) != mrb.get(k)), None)
                chk.disagreements.append({"stream": "dispatch", "layout": m["layout"], "case": line[:1500], "link": str(k),
                                          "impl": str(rb.get(k))[:500], "model": str(mrb.get(k))[:500]})
            if panicked != mpanic:
                chk.disagreements.append({"stream": "dispatch", "layout": m["layout"], "case": line[:1500], "impl_panicked": panicked, "model_panicked": mpanic})
    # implementation vs specification: per link, every layout == alone
    for (s, name), (rb, panicked, line, m) in per_layout.items():
        if panicked:
            continue
        if rb.get("unattributed"):
            chk.spec_violations.append({"stream": "dispatch", "layout": name, "case": line[:1500], "messages": rb["unattributed"][:5],
                                        "what": "message whose offset lies in no packet of the input"})
        for i in range(m["nlinks"]):
            ref = alone.get((s, i))
            if ref == "PANIC" or ref is None:
                continue
            got = rb.get(i, [])
            distinct.add((m["head"], name, len(got) > 0, m["npk"] > 20))
            if got != ref:
                k = next((j for j, (a, bb) in enumerate(zip(got, ref)) if a != bb), min(len(got), len(ref)))
                chk.spec_violations.append({"stream": "dispatch", "mode": m["head"], "layout": name, "link_index": i, "packets_in_input": m["npk"],
                                            "case": line[:1800], "first_difference": k,
                                            "in_merged_input": got[k:k + 3], "alone": ref[k:k + 3], "count_merged": len(got), "count_alone": len(ref),
                                            "what": "errors reported for a link's packets differ between the merged input and the link alone (offsets re-based to packet index + delta)"})
                break
        if len(samples) < 3 and any(rb.get(i) for i in range(m["nlinks"])):
            samples.append({"mode": m["head"], "layout": name, "per_link_counts": {str(i): len(rb.get(i, [])) for i in range(m["nlinks"])}})
    chk.add_stream("dispatch-layouts", len(lines), distinct, samples,
                   distribution={"sets": nsets, "layouts_per_set": 4, "dispatch_runs": len(dl), "alone_runs": len(ll)})

    # ------------------------------------------------------------ the binary: merged vs --filter-* vs extracted
    tmp = core.scratch_dir("c06")
    jobs = []
    ncli = 30 if deep else 6
    for s in range(ncli):
        nl = rng.choice([2, 3, 4])
        stave_pair = s % 3 == 0
        _m, per = streams.conforming(rng, nlinks=nl, nhbf=2, stave_level=True)
        if stave_pair:
            # two staves of an outer layer whose numbers differ by 32 (both legal: 1 and 33): FEE ids of links 0 and 1
            for li_, st in ((0, 1), (1, 33)):
                per[li_] = [(bytes(bytearray(r[:2]) + struct.pack("<H", (6 << 12) | st) + r[4:]), p) for r, p in per[li_]]
        per = [pk if i == 0 else corrupt(rng, pk, rng.choice([0.1, 0.3])) for i, pk in enumerate(per)]
        # every link has its own validator with its own notion of `the first header id seen`: links may come with different RDH versions
        per = [[(bytes([6 if r[0] == 7 else 7]) + r[1:], p) for r, p in pk] if (i > 0 and rng.random() < 0.4) else pk for i, pk in enumerate(per)]
        mode = rng.choice([["check", "all", "its"], ["check", "sanity", "its"], ["check", "all"], ["check", "all", "its-stave"]])
        shared_link = s % 3 == 1
        if shared_link:
            # two FEE ids read out through ONE link id (a file merged from two CRUs): in `check all its-stave` the unit of validation is
            # the FEE id, so the two must not influence each other -- whichever filter narrows the input down
            mode = ["check", "all", "its-stave"]
            lid = per[0][0][0][12]
            per[1] = [(r[:12] + bytes([lid]) + r[13:], p) for r, p in per[1]]
        order = layouts(rng, per)["random-1"]
        cd, ranges = place(per, order)
        merged = b"".join(r + p for _o, r, p in cd)
        mp = os.path.join(tmp, "m%d.raw" % s)
        open(mp, "wb").write(merged)
        jobs.append({"s": s, "kind": "merged", "args": [mp] + mode, "ranges": ranges, "per": per, "mode": mode})
        for i in range(nl):
            r0 = per[i][0][0]
            fee = struct.unpack_from("<H", r0, 2)[0]
            flt = rng.choice([["-f", str(r0[12])], ["-F", str(fee)], ["-s", "L%d_%d" % ((fee >> 12) & 7, fee & 0x3F)]])
            if shared_link and i < 2:
                flt = ["-f", str(r0[12])]
            if stave_pair and i < 2:
                # staves n and n+32 of one layer: the layer/stave filter must tell them apart (all six stave bits compared; seed C06-I)
                flt = ["-s", "L%d_%d" % ((fee >> 12) & 7, fee & 0x3F)]
            jobs.append({"s": s, "kind": "filter", "link": i, "args": [mp] + flt + mode, "ranges": ranges, "flt": flt, "mode": mode,
                         "partner": (1 - i) if (shared_link and i < 2) else None})
            ap = os.path.join(tmp, "a%d_%d.raw" % (s, i))
            cda, ra = place(per, [(i, k) for k in range(len(per[i]))])
            open(ap, "wb").write(b"".join(r + p for _o, r, p in cda))
            jobs.append({"s": s, "kind": "alone", "link": i, "args": [ap] + mode, "ranges": ra, "mode": mode})

    def work(j):
        rc, so, se, dt = core.run_cli(j["args"], timeout=60)
        toks = []
        for line in ANSI.sub("", se.decode("utf8", "replace")).split("\n"):
            if line.startswith("ERROR "):
                t = canon.canon_stat("E " + line[6:])
                toks.append(t)
        return rc, toks, se[-300:].decode("utf8", "replace")
    res = core.par_map(work, jobs)
    by = {}
    for j, (rc, toks, err) in zip(jobs, res):
        rb = rebase(toks, j["ranges"])
        by[(j["s"], j["kind"], j.get("link"))] = (rc, rb, j)
    d2 = set()
    refused = 0
    for (s, kind, link), (rc, rb, j) in by.items():
        if kind == "merged" or not isinstance(rc, int) or rc < 0:
            continue
        if "Init processing failed" in res[jobs.index(j)][2]:
            refused += 1          # input refused at start-up (first RDH0): nothing was analysed, nothing to compare
            continue
        mrc, mrb, mj = by[(s, "merged", None)]
        if not isinstance(mrc, int) or mrc < 0:
            continue
        # order of messages in the CLI report is by offset; compare as sorted lists per link
        a = sorted(rb.get(link, []))
        m_ = sorted(mrb.get(link, []))
        d2.add((kind, " ".join(j["mode"]), len(a) > 0, j.get("flt", [""])[0]))
        if a != m_:
            chk.spec_violations.append({"stream": "cli-layouts", "mode": " ".join(j["mode"]), "compared": "%s vs merged" % kind, "link_index": link,
                                        "filter": " ".join(j.get("flt", [])), "this_run": a[:6], "merged_run": m_[:6], "count_this": len(a), "count_merged": len(m_),
                                        "merged_input_hex": "(stream %d of seed %d, %d packets)" % (s, seed, len(mj["ranges"])),
                                        "what": "errors for a link differ between the merged file and the %s run" % ("filtered" if kind == "filter" else "single-link file")})
        others = [k for k in rb if k not in (link, "other", "unattributed", j.get("partner")) and rb[k]]
        if kind == "filter" and others:
            chk.spec_violations.append({"stream": "cli-layouts", "mode": " ".join(j["mode"]), "filter": " ".join(j["flt"]), "link_index": link,
                                        "errors_of_other_links": {str(k): rb[k][:3] for k in others},
                                        "what": "a filtered run reports errors located in packets of another link / stave"})
    shutil.rmtree(tmp, ignore_errors=True)
    chk.add_stream("cli-layouts", len(jobs), d2, [], distribution={"sets": ncli, "runs": len(jobs), "refused_at_start_up": refused})
    chk.cov["rule"] = ("dispatch-layouts: 2-5 conforming links (one clean, others corrupted in RDH fields and payload words), each set under contiguous / "
                       "round-robin / two random merges through the real dispatcher (threads), and each link alone through one sequential "
                       "LinkValidator; per-link message lists compared after re-basing offsets to (packet index, delta); modes all its / sanity "
                       "its / all / all its-stave (dispatch by FEE id). cli-layouts: merged file vs --filter-link/-fee/-its-stave vs extracted "
                       "single-link file through the binary (incl. staves n and n+32). distinct = (mode, layout, has errors, >20 packets)")
    return core.finish(chk, TRUSTED)
