"""C15 -- statistics files round-trip and detect any drift."""
import copy
import json
import os
import random
import re
import shutil
import struct
import tomllib

from .. import core, streams
from . import c06

TRUSTED = [
    "Coq 8.16.1 kernel (coqc); vm_compute/conversion for C15_field_lists_complete (a closed boolean computed from the regenerated lists)",
    "axioms: none (Print Assumptions: Closed under the global context for every C15 theorem)",
    "gen/facts_stats.py: field lists of the 7 statistics structs, validate_fields! argument lists, the struct literals rebuilt in validate_other, "
    "delegations, serde attributes, the macro body shape, controller order finalize < write < compare, flag on mismatch, fs::write",
    "extraction (ExtrOcamlBasic only) + OCaml driver (`statscmp` stream: leaves compared as canonical strings); the rebuilt binary",
    "serde_json / toml (de)serialisation of the statistics tree: a premise of C15_roundtrip, exercised by every run of this check, not proved",
    "the Python TOML writer of this check (perturbed files) and Python's tomllib/json parsers",
    "PartialEq of the leaf types (u8..u64, String, Option, Vec, tuples) is taken to be equality (veq_ok premise)",
]

ANSI = re.compile(r"\x1b\[[0-9;]*m")
STRUCT_OF = {"rdh": ("rdh_stats",), "its": ("rdh_stats", "its_stats"), "trg": ("rdh_stats", "trigger_stats"), "err": ("error_stats",),
             "alp": ("alpide_stats",), "rof": ("alpide_stats", "readout_flags"), "sc": ()}


def canon(v):
    return json.dumps(v, sort_keys=False, separators=(",", ":")).encode().hex().upper()


def sub(d, path):
    for k in path:
        d = d.get(k) if isinstance(d, dict) else None
        if d is None:
            return None
    return d


def tree_line(d, names):
    """statistics tree -> the line format of the `statscmp` stream (field order = the regenerated declaration order)"""
    def vals(tag):
        st = sub(d, STRUCT_OF[tag])
        return ",".join(canon(None if isinstance(st.get(f), dict) else st.get(f)) for f in names[tag])
    alp = "~" if d.get("alpide_stats") is None else vals("alp") + "/" + vals("rof")
    return ";".join([vals("sc"), vals("rdh"), vals("its"), vals("trg"), vals("err"), alp])


def leaves(d, prefix=()):
    out = []
    for k, v in d.items():
        if isinstance(v, dict):
            out += leaves(v, prefix + (k,))
        else:
            out.append(prefix + (k,))
    return out


def perturb(d, path, rng):
    """a type-correct change of one leaf; returns (new tree, description) or None when the leaf admits none"""
    t = copy.deepcopy(d)
    par = sub(t, path[:-1]) if len(path) > 1 else t
    k = path[-1]
    v = par[k]
    if k == "is_finalized":
        par[k] = not v
    elif k == "system_id":
        par[k] = "TPC" if v != "TPC" else "ITS"
    elif k == "run_trigger_type":
        if v is None:
            par[k] = [1, "x"]
        elif rng.random() < 0.5:
            par[k] = [v[0] + 1, v[1]]
        else:
            par[k] = [v[0], v[1] + "x"]
    elif k in ("rdh_version", "data_format"):
        par[k] = 1 if v is None else (v + 1) % 200
    elif k == "fatal_error":
        par[k] = "x" if v is None else v + "x"
    elif k == "staves_with_errors":
        par[k] = [] if v is None else v + [[1, 2]]
    elif k == "layer_staves_seen":
        par[k] = v + [[6, 47]] if rng.random() < 0.5 or not v else v[:-1]
    elif k in ("links", "fee_id"):
        par[k] = v + [201] if rng.random() < 0.5 or not v else (v[:-1] if rng.random() < 0.5 else [v[0] ^ 1] + v[1:])
    elif k in ("reported_errors", "custom_checks_stats_errors"):
        c = rng.random()
        if c < 0.4 or not v:
            par[k] = v + ['0xFFFF: [E99] a "quoted" \\ message']
        elif c < 0.7:
            par[k] = v[:-1]
        elif len(v) > 1 and v[0] != v[1] and c < 0.85:
            par[k] = [v[1], v[0]] + v[2:]
        else:
            par[k] = [v[0] + " "] + v[1:]
    elif k == "unique_error_codes":
        par[k] = v + ["99"] if rng.random() < 0.5 or not v else v[:-1]
    elif isinstance(v, bool):
        par[k] = not v
    elif isinstance(v, int):
        par[k] = v + 1 if rng.random() < 0.7 or v == 0 else v - 1
    else:
        return None
    return t, "%s: %s -> %s" % (".".join(path), json.dumps(v)[:60], json.dumps(par[k])[:60])


def toml_dump(d):
    """TOML text of a statistics tree (scalars of a table first, then its sub-tables; None = key absent)"""
    def val(v):
        if isinstance(v, bool):
            return "true" if v else "false"
        if isinstance(v, int):
            return str(v)
        if isinstance(v, str):
            return json.dumps(v)          # JSON string escapes are valid TOML basic-string escapes
        if isinstance(v, list):
            return "[" + ", ".join(val(x) for x in v) + "]"
        raise ValueError(v)
    out = []

    def table(t, name):
        if name:
            out.append("\n[%s]" % name)
        for k, v in t.items():
            if v is not None and not isinstance(v, dict):
                out.append("%s = %s" % (k, val(v)))
        for k, v in t.items():
            if isinstance(v, dict):
                table(v, (name + "." if name else "") + k)
    table(d, "")
    return "\n".join(out) + "\n"


def load_stats(path, fmt):
    if fmt == "json":
        return json.load(open(path))
    d = tomllib.load(open(path, "rb"))
    # keys that TOML leaves out are None in the tree
    d.setdefault("alpide_stats", None)
    for k in ("rdh_version", "data_format", "system_id", "run_trigger_type"):
        d["rdh_stats"].setdefault(k, None)
    d["error_stats"].setdefault("fatal_error", None)
    d["error_stats"].setdefault("staves_with_errors", None)
    # canonical key order = the JSON (declaration) order is restored by the caller through `names`
    return d


def ordered(d, names):
    """re-order the keys of a parsed tree to the declaration order (TOML puts sub-tables last)"""
    def o(t, tag):
        if t is None:
            return None
        r = {}
        for f in names[tag]:
            v = t.get(f)
            child = [x for x, p in STRUCT_OF.items() if p == STRUCT_OF[tag] + (f,)]
            r[f] = o(v, child[0]) if child and isinstance(v, dict) else v
        return r
    return o(d, "sc")


def mismatch_lines(stderr_text):
    out = []
    for line in ANSI.sub("", stderr_text).split("\n"):
        m = re.match(r"ERROR\s+([a-z_0-9]+) mismatch! expected:", line)
        if m:
            out.append(m.group(1))
        elif "ALPIDE stats was collected but the input stats does not contain" in line:
            out.append("<alpide missing>")
    return out


def run(tier, seed):
    chk = core.Check("C15", tier, seed)
    rng = random.Random(seed)
    gen = core.step_gen()
    chk.cov["gen"] = gen["log"]
    want = re.compile(r"^(sc|rdh|err|trg|its|alp|rof)_(nfields|macro|recon|deleg|serde_skipped)$|^validate_macro|^stats_|^error_sort")
    chk.cov["gen_facts"] = {k: v for k, v in gen["facts"].items() if want.match(k)}
    names = json.load(open(os.path.join(core.COQ, "Gen", "facts.json")))["_stats_field_names"]["value"]
    chk.proof = core.step_coq("Props/C15.v")
    core.step_model()
    b = core.step_cli()
    if not b["ok"]:
        chk.disagreements.append({"stream": "build", "detail": "the binary does not build against /repo", "log": b.get("log", "")[-1500:]})
        return core.finish(chk, TRUSTED)
    deep = tier == "thorough" or not chk.proof["ok"]
    tmp = core.scratch_dir("c15")
    # ---- inputs
    ninputs = 24 if deep else 6
    inputs = []
    for s in range(ninputs):
        kind = ["clean", "errors", "multi-link-errors", "stave-clean", "stave-errors", "errors"][s % 6]
        stave = kind.startswith("stave")
        _m, per = streams.conforming(rng, nlinks=(1 if stave else rng.choice([1, 2, 3])), nhbf=rng.choice([1, 2]), stave_level=stave)
        if "errors" in kind:
            per = [c06.corrupt(rng, pk, rng.choice([0.1, 0.3, 0.6])) for pk in per]
        cd, _r = c06.place(per, c06.layouts(rng, per)["random-1"])
        data = bytearray(b"".join(r + p for _o, r, p in cd))
        data[4] = 0
        path = os.path.join(tmp, "in%d.raw" % s)
        open(path, "wb").write(bytes(data))
        inputs.append({"s": s, "kind": kind, "path": path, "data": bytes(data), "cd": cd, "stave": stave})
    # a stave whose messages do NOT reach the collector in memory order: a lane the IHW does not list draws a message at each of its words,
    # the frame's own message ([E74], at the frame START) is sent when the frame closes -- later, with a smaller offset; two frames with
    # different lane faults.  Read back under --mute-errors and without writing statistics again (seed C15-H)
    from . import c13
    base = [0x20 + l for l in rng.choice(c13.IB_GROUPS)]
    plans = [c13.plan_frame(rng, 0, base, k, rng.randrange(256)) for k in ("chip-id-wrong", "chip-count", "legal")]
    ulink = c13.PlannedLink(rng, rng.randrange(12), 0, 5, rng.choice([0, 2]), plans, 0, omit=base[1])
    upk = []
    while ulink.k < len(plans):
        upk += ulink.hbf(nslots=min(len(plans) - ulink.k, 3))
    ucd, _r = c06.place([upk], [(0, k) for k in range(len(upk))])
    udata = b"".join(r + p for _o, r, p in ucd)
    upath = os.path.join(tmp, "in_unordered.raw")
    open(upath, "wb").write(udata)
    inputs.append({"s": ninputs + 1, "kind": "stave-unordered-errors", "path": upath, "data": udata, "cd": ucd, "stave": True})
    # a capture that ends inside its first RDH (8..63 bytes): nothing is visited and nothing is reported, yet the statistics (RDH
    # version, all counters zero) are written and must be compared like any others
    cutn = rng.choice([8, 9, 40, 63])
    cpath = os.path.join(tmp, "in_cut.raw")
    open(cpath, "wb").write(inputs[0]["data"][:cutn])
    inputs.append({"s": ninputs, "kind": "cut-inside-first-rdh", "path": cpath, "data": inputs[0]["data"][:cutn], "cd": [], "stave": False})
    # an old, long statistics file that every written file has to replace
    old = {"json": json.dumps({"old": ["x" * 100] * 400}, indent=2), "toml": "old = [\n" + ('    "%s",\n' % ("x" * 100)) * 400 + "]\n"}
    # ---- phase W: write (over the old file and to a fresh path), phase R: read back
    jobs = []
    for inp in inputs:
        modes = [("sanity",), ("all",), ("all", "its")] + ([("all", "its-stave")] if inp["stave"] else [("sanity", "its")])
        unordered = inp["kind"] == "stave-unordered-errors"
        for mode in ([("all", "its-stave")] if unordered else (modes if deep else rng.sample(modes, 2))):
            for fmt in ("json", "toml"):
                jobs.append({"inp": inp, "mode": mode, "fmt": fmt, "mute": (fmt == "json") if unordered else rng.random() < 0.4,
                             "src": rng.choice(["file", "pipe"]), "id": len(jobs)})

    def base_args(j):
        return ["check"] + list(j["mode"]) + (["-m"] if j["mute"] else [])

    def run_bin(j, extra, data=None, path=None):
        data = j["inp"]["data"] if data is None else data
        path = j["inp"]["path"] if path is None else path
        if j["src"] == "file":
            return core.run_cli([path] + base_args(j) + extra, timeout=120)
        return core.run_cli(base_args(j) + extra, stdin_bytes=data, timeout=120)

    def phase_w(j):
        sp = os.path.join(tmp, "st_%d.%s" % (j["id"], j["fmt"]))
        fresh = os.path.join(tmp, "fr_%d.%s" % (j["id"], j["fmt"]))
        open(sp, "w").write(old[j["fmt"]])
        rw = run_bin(j, ["-S", sp, "-D", j["fmt"]])
        rf = run_bin(j, ["-S", fresh, "-D", j["fmt"]])
        rr = run_bin(j, ["-i", sp, "-E", "57"])
        rn = run_bin(j, ["-E", "57"])
        return sp, fresh, rw, rf, rr, rn
    wres = core.par_map(phase_w, jobs)
    distinct = set()
    samples = []
    good = []
    nrt = 0
    for j, (sp, fresh, rw, rf, rr, rn) in zip(jobs, wres):
        desc = {"stream": "roundtrip", "kind": j["inp"]["kind"], "args": " ".join(base_args(j)), "format": j["fmt"], "input": j["src"],
                "input_hex": j["inp"]["data"].hex().upper() if len(j["inp"]["data"]) <= 1200 else "(stream %d of seed %d, %d bytes)" % (j["inp"]["s"], seed, len(j["inp"]["data"]))}
        se = rr[2].decode("utf8", "replace")
        if any("panicked at" in x[2].decode("utf8", "replace") for x in (rw, rf, rn)) or not os.path.exists(sp) or not os.path.exists(fresh):
            continue     # a crash without -i is C04's subject
        nrt += 1
        a, bb = open(sp, "rb").read(), open(fresh, "rb").read()
        mism = mismatch_lines(se)
        distinct.add((j["inp"]["kind"], j["mode"], j["fmt"], j["mute"], "match" if rr[0] == rn[0] else "differs"))
        if a != bb:
            chk.spec_violations.append(dict(desc, what="the statistics file written over an existing longer file differs from the one written to a fresh path",
                                            written_len=len(a), fresh_len=len(bb)))
            lm = core.run_lines(core.FPMODEL, "statsfile", ["%s %s" % (old[j["fmt"]].encode().hex().upper(), bb.hex().upper())])[0]
            if lm.lower() != a.hex():
                chk.disagreements.append(dict(desc, stream="statsfile", impl_len=len(a), model_len=len(lm) // 2, detail="file content after writing over an old file"))
            continue
        if "panicked at" in se or rr[0] != rn[0] or mism or "did not match" in se or "Input stats matched" not in ANSI.sub("", se) and False:
            chk.spec_violations.append(dict(desc, exit_with_input_stats=rr[0], exit_without=rn[0], mismatches=mism[:6],
                                            stderr_tail=ANSI.sub("", se)[-300:] if "panicked" in se else None,
                                            what="the statistics file written by a run is not accepted by a later run on the same input with the same options"))
            continue
        try:
            tree = ordered(load_stats(sp, j["fmt"]), names)
        except Exception as e:
            chk.spec_violations.append(dict(desc, what="written statistics file cannot be parsed: %s" % e))
            continue
        good.append((j, tree, rn[0]))
    chk.add_stream("roundtrip", nrt, distinct, samples, distribution={"inputs": ninputs, "runs": 4 * len(jobs)})
    # ---- phase P: perturb every leaf of the written file, one at a time
    pj = []
    for j, tree, rc0 in good:
        lv = leaves(tree)
        if not deep and len(good) > 8:
            lv = lv if j["id"] % 3 == 0 else rng.sample(lv, min(len(lv), 12))
        for path in lv:
            p = perturb(tree, path, rng)
            if p is None:
                continue
            pj.append({"j": j, "tree": tree, "ptree": p[0], "what": p[1], "path": path, "id": len(pj)})

    def phase_p(x):
        j = x["j"]
        fp = os.path.join(tmp, "pt_%d.%s" % (x["id"], j["fmt"]))
        open(fp, "w").write(json.dumps(x["ptree"], indent=1) if j["fmt"] == "json" else toml_dump(x["ptree"]))
        r = run_bin(j, ["-i", fp, "-E", "57"])
        os.remove(fp)
        return r
    pres = core.par_map(phase_p, pj)
    mlines = [tree_line(x["tree"], names) + " " + tree_line(x["ptree"], names) + " 0" for x in pj]
    model = core.run_lines(core.FPMODEL, "statscmp", mlines, shards=core.NCPU) if pj else []
    pdist = set()
    psamples = []
    for x, (rc, so, se, dt), lm in zip(pj, pres, model):
        j = x["j"]
        se = se.decode("utf8", "replace")
        desc = {"stream": "perturb-leaf", "kind": j["inp"]["kind"], "args": " ".join(base_args(j)), "format": j["fmt"], "changed": x["what"],
                "input_hex": j["inp"]["data"].hex().upper() if len(j["inp"]["data"]) <= 1200 else "(stream %d of seed %d)" % (j["inp"]["s"], seed)}
        mism = mismatch_lines(se)
        collected = not (x["path"][0] == "is_finalized" or (x["path"][0] == "alpide_stats" and x["tree"].get("alpide_stats") is None))
        pdist.add((x["path"], j["fmt"], bool(mism)))
        if "panicked at" in se:
            chk.spec_violations.append(dict(desc, stderr_tail=ANSI.sub("", se)[-300:], what="a type-correct change of one statistic in the file crashes the run instead of being reported"))
            continue
        reported = bool(mism) or "did not match" in se
        if collected and (not reported or rc != 57 or (not mism and not j["mute"])):
            chk.spec_violations.append(dict(desc, exit=rc, mismatches=mism, what="a changed statistic in the file is not reported as a mismatch with the any-errors exit status"))
        if not collected and (mism or "did not match" in se):
            chk.spec_violations.append(dict(desc, exit=rc, mismatches=mism, what="a value the run does not collect is reported as a mismatch"))
        # model vs code: which fields are reported, in which order
        mm = dict(y.split("=", 1) for y in lm.split(" ")) if lm.startswith("mism=") else None
        if mm is None:
            chk.disagreements.append(dict(desc, model=lm[:200]))
            continue
        pred = []
        for t in ([] if mm["mism"] == "-" else mm["mism"].split(",")):
            tag, idx = t.split(":")
            pred.append("<alpide missing>" if tag == "alpmissing" else names[tag][int(idx)])
        if (pred != mism and not j["mute"]) or (mm["flag"] == "1") != ("did not match" in se):
            chk.disagreements.append(dict(desc, impl={"mismatches": mism, "did_not_match": "did not match" in se, "exit": rc}, model=lm))
        if len(psamples) < 4 and mism:
            psamples.append(dict(desc, exit=rc, mismatches=mism, model=lm))
    chk.add_stream("perturb-leaf", len(pj), pdist, psamples, distribution={"files": len(good), "leaves_perturbed": len(pj)})
    # ---- phase D: single-field changes of the input against the original file
    dj = []
    for j, tree, rc0 in good:
        cd = j["inp"]["cd"]
        if not cd:
            continue        # the capture cut inside its first RDH has no packet to change; its drift case is the cut itself (below)
        for _ in range(6 if deep else 2):
            data = bytearray(j["inp"]["data"])
            off = cd[rng.randrange(len(cd))][0]
            what = rng.choice(["trigger-bit", "fee", "link", "stop", "pages", "format-first", "trigger-first", "version-all"])
            if what == "trigger-bit":
                struct.pack_into("<I", data, off + 32, struct.unpack_from("<I", data, off + 32)[0] ^ (1 << rng.choice([0, 1, 4, 9, 11, 27, 29, 30, 31])))
            elif what == "fee":
                data[off + 2] ^= 1 << rng.randrange(6)
            elif what == "link":
                data[off + 12] ^= 1 << rng.randrange(4)
            elif what == "stop":
                data[off + 38] ^= 1
            elif what == "pages":
                data[off + 36] ^= 1
            elif what == "format-first":
                data[24] ^= 2
            elif what == "trigger-first":
                data[33] ^= 0x40
            else:
                data[off + 3] ^= 0x10
            dj.append({"j": j, "tree": tree, "data": bytes(data), "what": what, "id": len(dj)})

    for j, tree, rc0 in good:
        if j["inp"]["cd"] and j["inp"]["s"] == 0:
            dj.append({"j": j, "tree": tree, "data": j["inp"]["data"][:rng.choice([8, 33, 63])], "what": "cut-inside-first-rdh", "id": len(dj)})

    def phase_d(x):
        j = x["j"]
        ip = os.path.join(tmp, "din_%d.raw" % x["id"])
        open(ip, "wb").write(x["data"])
        sp = os.path.join(tmp, "st_%d.%s" % (j["id"], j["fmt"]))
        np_ = os.path.join(tmp, "dst_%d.%s" % (x["id"], j["fmt"]))
        r1 = run_bin(j, ["-S", np_, "-D", j["fmt"]], data=x["data"], path=ip)
        r2 = run_bin(j, ["-i", sp, "-E", "57"], data=x["data"], path=ip)
        t2 = None
        if os.path.exists(np_):
            try:
                t2 = ordered(load_stats(np_, j["fmt"]), names)
            except Exception:
                pass
            os.remove(np_)
        os.remove(ip)
        return r1, r2, t2
    dres = core.par_map(phase_d, dj)
    ddist = set()
    dsamples = []
    nd = 0
    dm_lines, dm_items = [], []
    for x, (r1, r2, t2) in zip(dj, dres):
        j = x["j"]
        se = r2[2].decode("utf8", "replace")
        if t2 is None or "panicked at" in r1[2].decode("utf8", "replace"):
            continue
        nd += 1
        desc = {"stream": "input-drift", "kind": j["inp"]["kind"], "args": " ".join(base_args(j)), "format": j["fmt"], "changed_input_field": x["what"],
                "input_hex": x["data"].hex().upper() if len(x["data"]) <= 1200 else "(stream %d of seed %d, changed)" % (j["inp"]["s"], seed)}
        t1 = copy.deepcopy(x["tree"])
        a, bb = copy.deepcopy(t2), t1
        a.pop("is_finalized", None), bb.pop("is_finalized", None)
        if a.get("alpide_stats") is None:
            bb["alpide_stats"] = None
        differ = a != bb
        mism = mismatch_lines(se)
        ddist.add((x["what"], differ, bool(mism)))
        if "panicked at" in se:
            continue
        if "Init processing failed" in se and r2[0] == 1:
            # the changed input is refused at start-up (its first RDH0 no longer passes, D9): exit status 1, nothing collected,
            # no comparison takes place -- not a case of this stream
            ddist.add((x["what"], "refused-at-start-up"))
            continue
        if differ and (not (mism or "did not match" in se) or r2[0] != 57 or (not mism and not j["mute"])):
            chk.spec_violations.append(dict(desc, exit=r2[0], what="the input changed so that collected statistics differ from the file, but no mismatch / any-errors status is reported"))
        if not differ and mism:
            chk.spec_violations.append(dict(desc, mismatches=mism, what="mismatch reported although every collected statistic equals the file"))
        dm_lines.append(tree_line(t2, names) + " " + tree_line(x["tree"], names) + " 0")
        dm_items.append((desc, mism, "did not match" in se, j["mute"]))
    for (desc, mism, dnm, muted), lm in zip(dm_items, core.run_lines(core.FPMODEL, "statscmp", dm_lines, shards=core.NCPU) if dm_lines else []):
        mm = dict(y.split("=", 1) for y in lm.split(" ")) if lm.startswith("mism=") else {"mism": "?", "flag": "?"}
        pred = []
        for t in ([] if mm["mism"] in ("-", "?") else mm["mism"].split(",")):
            tag, idx = t.split(":")
            pred.append("<alpide missing>" if tag == "alpmissing" else names[tag][int(idx)])
        if (pred != mism and not muted) or (mm["flag"] == "1") != dnm:
            chk.disagreements.append(dict(desc, impl={"mismatches": mism, "did_not_match": dnm}, model=lm))
        elif len(dsamples) < 3 and mism:
            dsamples.append(dict(desc, mismatches=mism, model=lm))
    chk.add_stream("input-drift", nd, ddist, dsamples, distribution={"changed_inputs": len(dj)})
    shutil.rmtree(tmp, ignore_errors=True)
    chk.cov["rule"] = ("inputs: conforming / corrupted / multi-link / stave-level with ALPIDE data; modes sanity, all, all its, all its-stave, sanity its; JSON and TOML; "
                       "mute on/off; file and pipe. roundtrip: write over an old longer file and to a fresh path (must be identical), re-run with -i (no mismatch, "
                       "same exit status as without -i). perturb-leaf: EVERY leaf of the written file changed one at a time within its type (thorough; quick: every "
                       "leaf for a third of the files, 12 random leaves for the rest): a mismatch naming it + exit status N, except is_finalized and ALPIDE values the "
                       "run does not collect; the reported field names in order = the model's prediction. input-drift: one header field of the input changed; "
                       "mismatch iff the statistics written for the changed input differ from the file. distinct = class tuples")
    return core.finish(chk, TRUSTED)
