"""C01 -- conforming data is accepted by every check mode (no false alarms)."""
import json
import os
import random
import re
import shutil
import struct

from .. import canon, core, rawdata, streams
from . import c06

TRUSTED = [
    "Coq 8.16.1 kernel (coqc); vm_compute for the 4096-entry CRU-id / data-wrapper table and the non-vacuity example",
    "axioms: none (Print Assumptions: Closed under the global context for every C01 theorem)",
    "PROVED TIER: RDH level only (check sanity / check all without a target, Spec/Grammar.v). The ITS-payload and stave tiers of the statement are decided by "
    "correspondence: the generator's streams run through the rebuilt binary in all five modes, the real LinkValidator and the whole-run model; their local "
    "acceptance lemmas are those of C09 / C11 / C12 / C13, not composed into one invariant proof",
    "gen/extract_facts.py: RDH constants (header size, FEE-id masks and bounds, BC maximum, trigger spare mask, detector-field mask)",
    "extraction (ExtrOcamlBasic only) + OCaml driver (`grammar` stream: description -> rendered RDHs and wf; `cli` / `link` streams); fp_harness; the rebuilt binary",
    "the conforming-stream generator fvlib/streams.py (Python mirror of the protocol grammar): its RDHs are re-rendered by the Coq grammar on every run and must be "
    "byte-identical, its payload level is trusted as the reading of the documentation (DESIGN.md appendix D)",
]

ANSI = re.compile(r"\x1b\[[0-9;]*m")
MODES = [["check", "sanity"], ["check", "all"], ["check", "sanity", "its"], ["check", "all", "its"], ["check", "all", "its-stave"]]


def desc_line(pk, with_payload=False):
    """one link's packets [(rdh, payload)] -> the `grammar` stream line (the description the Coq grammar renders);
    with_payload: the `grammarits` line, whose pages carry their payload bytes"""
    r0 = pk[0][0]
    fee = struct.unpack_from("<H", r0, 2)[0]
    cruid_dw = struct.unpack_from("<H", r0, 14)[0]
    head = "%d %d %d %d %d %d %d" % (r0[12], fee, r0[0], r0[5], r0[24], cruid_dw & 0xFFF, cruid_dw >> 12)
    hbfs, cur = [], []
    for r, p in pk:
        cur.append((r, p))
        if r[38] == 1:
            hbfs.append(cur)
            cur = []
    if cur:
        hbfs.append(cur)
    parts = []
    for h in hbfs:
        r = h[0][0]
        f = "%d,%d,%d,%d" % (struct.unpack_from("<I", r, 20)[0], struct.unpack_from("<I", r, 16)[0] & 0xFFF, struct.unpack_from("<I", r, 32)[0],
                             struct.unpack_from("<I", r, 48)[0])
        if with_payload:
            pg = lambda x: "%s.%d.%d" % (x[1].hex().upper() or "-", x[0][13], struct.unpack_from("<H", x[0], 52)[0])
        else:
            pg = lambda x: "%d.%d.%d" % (len(x[1]), x[0][13], struct.unpack_from("<H", x[0], 52)[0])
        parts.append("%s:%s:%s" % (f, ",".join(pg(x) for x in h[:-1]), pg(h[-1])))
    return head + " ; " + " ; ".join(parts)


def run(tier, seed):
    chk = core.Check("C01", tier, seed)
    rng = random.Random(seed)
    gen = core.step_gen()
    chk.cov["gen"] = gen["log"]
    chk.cov["gen_facts"] = {k: v for k, v in gen["facts"].items() if k in ("rdh_header_size", "fee_reserved_mask", "fee_stave_max", "fee_layer_max", "rdh_bc_max",
                                                                             "trigger_spare_mask", "detfield_reserved_mask", "its_system_id")}
    chk.proof = core.step_coq("Props/C01.v")
    core.step_model()
    h = core.step_harness()
    b = core.step_cli() if h["ok"] else h
    if not h["ok"] or not b["ok"]:
        chk.disagreements.append({"stream": "build", "detail": "harness / binary does not build against /repo", "log": (h.get("log") or b.get("log", ""))[-1500:]})
        return core.finish(chk, TRUSTED)
    deep = tier == "thorough" or not chk.proof["ok"]
    tmp = core.scratch_dir("c01")
    nst = 150 if deep else 24
    jobs, glines, gmeta = [], [], []
    for s in range(nst):
        stave = s % 3 == 0
        nl = rng.choice([1, 2, 3, 5, 12]) if not stave else rng.choice([1, 2, 3])
        nh = rng.choice([1, 2, 3]) if nl < 6 else rng.choice([1, 2])
        if s % 11 == 5:
            nl, nh = 6, 5        # beyond one 100-packet batch
        fmt = rng.choice([0, 2])
        # calibration runs: a CDW leads the data of every page: members of the CDW-extended word-level grammar (Spec/GrammarItsCdw.v,
        # theorems C01_its_tier_calibration / C01_stave_tier_calibration)
        calib = s % 7 == 3 or s % 12 == 6
        _m, per = streams.conforming(rng, nlinks=nl, nhbf=nh, stave_level=stave, fmt=fmt, version=rng.choice([7, 7, 6]), calib=calib)
        layout = rng.choice(["contiguous", "round-robin", "random-1"])
        cd, _r = c06.place(per, c06.layouts(rng, per)[layout])
        data = b"".join(r + p for _o, r, p in cd)
        path = os.path.join(tmp, "in%d.raw" % s)
        open(path, "wb").write(data)
        for pk in per:
            glines.append(desc_line(pk))
            gmeta.append({"s": s, "pk": pk, "stave": stave, "calib": calib})
        for mode in MODES:
            if mode[-1] == "its-stave" and not stave:
                continue
            opts = rng.choice([[], ["-m"], ["-E", str(rng.randrange(1, 256))], ["-m", "-E", "3"]])
            jobs.append({"s": s, "path": path, "data": data, "mode": mode, "opts": opts, "src": rng.choice(["file", "pipe"]), "stave": stave, "npk": len(cd), "nl": nl, "fmt": fmt,
                         "layout": layout})
    # ---- the generator's RDHs are what the Coq grammar renders, and the grammar's side conditions hold for them
    gres = core.run_lines(core.FPMODEL, "grammar", glines, shards=core.NCPU)
    gd = set()
    for m, line, out in zip(gmeta, glines, gres):
        want = ",".join(r.hex().upper() for r, _p in m["pk"])
        gd.add((len(m["pk"]) > 6, m["pk"][0][0][24], m["pk"][0][0][0]))
        if not out.startswith("wf=1 ") or out[5:] != want:
            k = next((i for i, (a, b_) in enumerate(zip(out[5:].split(","), want.split(","))) if a != b_), -1)
            chk.disagreements.append({"stream": "grammar", "description": line[:600], "wf": out[:4], "first_different_rdh": k,
                                      "detail": "the generator's RDH sequence is not the rendering of its description by Spec/Grammar.v (or wf_link_rdh is false)"})
    chk.add_stream("grammar", len(glines), gd, [], distribution={"links": len(glines)})
    # ---- ... and every generated link is a member of the WORD-level grammar (Spec/GrammarIts.v) that the ITS-tier theorem quantifies
    #      over: the extracted membership test (sound by C01_membership_test_sound) accepts it, and rendering it gives the bytes back
    imeta = gmeta
    ilines = [desc_line(m["pk"], with_payload=True) for m in imeta]
    ires = core.run_lines(core.FPMODEL, "grammarits", ilines, shards=core.NCPU)
    idist = set()
    members = 0
    stave_links = 0
    stave_members = 0
    calib_links = 0
    calib_members = 0
    stave_calib_links = 0
    stave_calib_members = 0
    for m, line, out in zip(imeta, ilines, ires):
        want = ",".join((r + p_).hex().upper() for r, p_ in m["pk"])
        npages = len(m["pk"])
        idist.add((npages > 6, m["pk"][0][0][24], out[:10]))
        if out.startswith("wf=1 its=1 "):
            members += 1
        head, _, body = out.partition(" stave=")
        stave_flag, _, body = body.partition(" ")
        cdw_flag, _, body = body.partition(" ")
        scdw_flag, _, rendered = body.partition(" ")
        if m["calib"] and m.get("stave"):
            stave_calib_links += 1
            if scdw_flag == "scdw=1":
                stave_calib_members += 1
            else:
                chk.disagreements.append({"stream": "grammar-its", "description": line[:800], "verdict": out[:34],
                                          "detail": "a generated stave-level calibration link is not accepted by the stave-level membership test for calibration runs "
                                                    "(Spec/GrammarStaveCdwCheck.v stave_witness_cdw)"})
        if m["calib"]:
            # a calibration link: a member of the CDW-extended grammar (C01_its_tier_calibration applies); the plain and the
            # stave-level grammar have no CDW production
            calib_links += 1
            if cdw_flag == "cdw=1" and out.startswith("wf=1 ") and rendered == want:
                calib_members += 1
            else:
                chk.disagreements.append({"stream": "grammar-its", "description": line[:800], "verdict": out[:26],
                                          "detail": "a generated calibration link is not accepted by the membership test of the CDW-extended grammar "
                                                    "(Spec/GrammarItsCdwCheck.v link_witness_cdw), or its rendering differs from the generated bytes"})
            continue
        if cdw_flag != "cdw=1":
            chk.disagreements.append({"stream": "grammar-its", "description": line[:800], "verdict": out[:26],
                                      "detail": "a link of the plain grammar is not accepted by the CDW-extended membership test (which contains it)"})
        if m.get("stave"):
            stave_links += 1
            if stave_flag == "1":
                stave_members += 1
            else:
                chk.disagreements.append({"stream": "grammar-its", "description": line[:800], "verdict": out[:19],
                                          "detail": "a generated stave-level conforming link is not accepted by the stave-level membership test "
                                                    "(Spec/GrammarStaveCheck.v stave_witness)"})
        if head != "wf=1 its=1" or rendered != want:
            chk.disagreements.append({"stream": "grammar-its", "description": line[:800], "verdict": out[:19],
                                      "detail": "a generated conforming link is not accepted by the membership test of the word-level grammar "
                                                "(Spec/GrammarItsCheck.v link_witness), or its rendering differs from the generated bytes"})
    chk.add_stream("grammar-its", len(ilines), idist, [{"description": ilines[0][:200] + "...", "verdict": ires[0][:11]}] if ilines else [],
                   distribution={"links": len(ilines), "calibration_links": calib_links, "members_of_the_cdw_extended_grammar": calib_members, "stave_level_calibration_links": stave_calib_links,
                                 "members_of_the_stave_level_calibration_grammar": stave_calib_members, "members_of_the_word_level_grammar": members,
                                 "stave_level_links": stave_links, "members_of_the_stave_level_grammar": stave_members})

    # ---- every mode is silent
    def work(j):
        sp = os.path.join(tmp, "st_%d.json" % id(j))
        args = j["mode"] + j["opts"] + ["-S", sp, "-D", "json"]
        if j["src"] == "file":
            rc, so, se, dt = core.run_cli([j["path"]] + args, timeout=180)
        else:
            rc, so, se, dt = core.run_cli(args, stdin_bytes=j["data"], timeout=180)
        st = None
        if os.path.exists(sp):
            try:
                st = json.load(open(sp))["error_stats"]
            except Exception:
                pass
            os.remove(sp)
        return rc, ANSI.sub("", so.decode("utf8", "replace")), ANSI.sub("", se.decode("utf8", "replace")), st
    res = core.par_map(work, jobs)
    distinct, samples = set(), []
    for j, (rc, so, se, st) in zip(jobs, res):
        desc = {"stream": "cli-silent", "args": " ".join(j["mode"] + j["opts"]), "input": j["src"], "links": j["nl"], "packets": j["npk"], "data_format": j["fmt"], "layout": j["layout"],
                "stave_level_data": j["stave"], "input_hex": j["data"].hex().upper() if len(j["data"]) <= 2500 else "(stream %d of seed %d, %d bytes)" % (j["s"], seed, len(j["data"]))}
        distinct.add((tuple(j["mode"]), tuple(j["opts"][:1]), j["src"], j["nl"] > 3, j["npk"] > 100, j["fmt"], j["stave"]))
        errs = [l for l in se.split("\n") if l.startswith("ERROR") or "panicked at" in l]
        mt = re.search(r"Total Errors\s+(\d+)", so)
        total = int(mt.group(1)) if mt else None
        reported = (st or {}).get("reported_errors") or []
        if errs or rc != 0 or (total not in (None, 0)) or reported or (st or {}).get("fatal_error") or (st or {}).get("custom_checks_stats_errors"):
            chk.spec_violations.append(dict(desc, exit=rc, total_errors=total, messages=(errs or reported)[:4],
                                            what="a conforming stream draws an error message / a non-zero error total / a non-zero exit status"))
        if len(samples) < 3:
            samples.append(dict(desc, exit=rc, total_errors=total))
    chk.add_stream("cli-silent", len(jobs), distinct, samples, distribution={"streams": nst, "runs": len(jobs)})
    # ---- the whole-run model agrees (its and no-target modes; stave mode through the validator stream of C13/C06)
    mj = [j for j in jobs if j["mode"][-1] != "its-stave" and len(j["data"]) < 400000][: (300 if deep else 40)]
    mlines = ["%s %s - %d 0 - %s - - - %s %s" % (j["mode"][1], j["mode"][2] if len(j["mode"]) > 2 else "none", int("-m" in j["opts"]),
                                                  j["opts"][j["opts"].index("-E") + 1] if "-E" in j["opts"] else "-", j["src"], j["data"].hex().upper()) for j in mj]
    for j, lm in zip(mj, core.run_lines(core.FPMODEL, "cli", mlines, shards=core.NCPU) if mlines else []):
        if not lm.startswith("exit=0 ") or " total=0 " not in lm + " ":
            chk.disagreements.append({"stream": "cli-silent", "args": " ".join(j["mode"] + j["opts"]), "model": lm[:300], "detail": "the whole-run model reports something on a conforming stream"})
    # stave mode: real LinkValidator and model on the stave-level links
    slines = []
    for m in gmeta:
        if m["pk"] and any(j["s"] == m["s"] and j["stave"] for j in jobs[:1] + jobs):
            cd, _r = c06.place([m["pk"]], [(0, k) for k in range(len(m["pk"]))], start=0)
            slines.append(rawdata.link_line("all stave - -", cd))
    slines = slines[: (200 if deep else 30)]
    if slines:
        impl = core.run_lines(core.HARNESS_BIN, "link", slines, shards=core.NCPU, extra_env={"FV_MUTE": "1"})
        mod = core.run_lines(core.FPMODEL, "link", slines, shards=core.NCPU)
        for line, a, b_ in zip(slines, impl, mod):
            ca = canon.canon_link(a)
            if ca != b_.strip():
                chk.disagreements.append({"stream": "stave-validator", "case": line[:3000], "impl": ca[:300], "model": b_[:300]})
            if any(t.startswith("E:") for t in ca.split(" ")) or ca == "PANIC":
                chk.spec_violations.append({"stream": "stave-validator", "case": line[:6000], "messages": [t for t in ca.split(" ") if t.startswith("E:")][:4],
                                            "what": "the stave-level validator reports an error on a conforming link"})
        chk.add_stream("stave-validator", len(slines), set(), [], distribution={"links": len(slines)})
    shutil.rmtree(tmp, ignore_errors=True)
    chk.cov["rule"] = ("streams from the grammar generator: 1..12 links contiguous / round-robin / randomly interleaved, inner / middle / outer staves, data formats 0 and 2, HBFs of 2..k "
                       "pages, packets continued over pages, no-data TDHs, internal and physics triggers, 0..15 padding bytes, arbitrary orbits / BCs / trigger bits, ALPIDE lanes "
                       "with random hits (stave-level streams), more than 100 packets; x the five check modes x {-, -m, -E n, -m -E 3} x file / pipe: no ERROR line, Total Errors 0, "
                       "empty error lists in the statistics file, exit 0. grammar: every generated link's RDHs = render_link of its description (Coq, extracted) with wf_link_rdh "
                       "= true. The whole-run model and the real stave-level validator are silent on the same streams. distinct = class tuples")
    return core.finish(chk, TRUSTED)
