"""C20 -- user-configured checks are enforced exactly."""
import itertools
import json
import os
import random
import re
import shutil
import struct

from .. import canon, core, itsgen, rawdata, streams
from . import c06, c13

TRUSTED = [
    "Coq 8.16.1 kernel (coqc); vm_compute for one closed arithmetic witness",
    "axioms: none (Print Assumptions: Closed under the global context for every C20 theorem)",
    "gen/extract_facts.py: tdh_max_bc (tdh.rs), the RDH constants of C10, the facts of the collector and frame models",
    "extraction (ExtrOcamlBasic only) + OCaml driver (`link` / `linkt` streams with custom-check JSON and period; `cli` stream for cdps / triggers_pht); fp_harness (real LinkValidator with MockConfig); the rebuilt binary",
    "TOML parsing of the custom-checks file (toml + serde; exercised with absent / commented keys, not modelled)",
    "the independent oracles of fvlib/props/c20.py (packet and PhT counts from the RDHs, BC distances from the TDH words, chip lists from the encoder plans)",
    "bunch crossings above 3563 (12-bit field) are outside the period theorem (u16 wrap, witnessed by C20_period_out_of_range)",
]

ANSI = re.compile(r"\x1b\[[0-9;]*m")
ORDERS = [[0, 1, 2, 3, 4, 5, 6], [8, 9, 10, 11, 12, 13, 14]]


class PeriodLink(c13.PlannedLink):
    """stave-level link whose TDH bunch crossings follow a given schedule: one HBF per orbit"""

    def hbf_orbit(self, trigs):
        """trigs: [(bc, internal)] of one orbit, ascending bc -> [(rdh, payload)]"""
        rng = self.rng
        bc0 = trigs[0][0] if trigs else rng.randrange(3564)
        trig_rdh = rng.choice([0x6A03, 0x4813, 0x0893, 0x4893]) if (trigs and trigs[0][1]) else 0x4813
        pages, cur = [], [itsgen.ihw(self.lanes_mask)]
        for k, (bc, internal) in enumerate(trigs):
            ttype = (trig_rdh & 0xFFF) if k == 0 else 0x010
            data = self.frame_words(0)
            cur.append(itsgen.tdh(trigger_type=ttype, internal=internal, no_data=0, continuation=0, bc=bc, orbit=self.orbit))
            if len(data) > 3 and rng.random() < 0.3:
                cut = rng.randrange(1, len(data))
                cur += data[:cut]
                cur.append(itsgen.tdt(packet_done=0))
                pages.append(cur)
                cur = [itsgen.ihw(self.lanes_mask), itsgen.tdh(trigger_type=ttype, internal=internal, no_data=0, continuation=1, bc=bc, orbit=self.orbit)]
                cur += data[cut:]
            else:
                cur += data
            cur.append(itsgen.tdt(packet_done=1))
            if k + 1 < len(trigs) and rng.random() < 0.3:
                pages.append(cur)
                cur = [itsgen.ihw(self.lanes_mask)]
        pages.append(cur)
        out = []
        for i, ws in enumerate(pages):
            p = itsgen.payload(ws, self.fmt)
            out.append((self.rdh(len(p), i, 0, bc0, trig_rdh), p))
        p = itsgen.payload([itsgen.ddw0()], self.fmt)
        out.append((self.rdh(len(p), len(pages), 1, bc0, trig_rdh), p))
        self.orbit = (self.orbit + 1) & 0xFFFFFFFF
        return out


def tdh_walk(cd):
    """[(offset, bc, internal, continuation)] of every TDH, by an independent walk"""
    out = []
    for off, r, p in cd:
        step = 16 if r[24] == 0 else 10
        for i in range(0, len(p) - 9, step):
            w = p[i:i + 10]
            if w[9] == 0xE8:
                out.append((off + 64 + i, (w[2] | (w[3] << 8)) & 0xFFF, (w[1] >> 4) & 1, (w[1] >> 6) & 1))
            if step == 10 and w[9] == 0xFF:
                break
    return out


def expected_e45(cd, period):
    last = None
    out = []
    for off, bc, internal, cont in tdh_walk(cd):
        if not cont and internal and last is not None and (bc - last) % 3564 != period:
            out.append(off)
        if internal:
            last = bc
    return out


def legal_plans(rng, layer, n, chips_variant=None):
    ib = layer <= 2
    base = [0x20 + l for l in rng.choice(c13.IB_GROUPS)] if ib else (rng.choice(c13.ML_SETS) if layer <= 4 else rng.choice(c13.OL_SETS))
    plans = []
    for _ in range(n):
        bc = rng.randrange(256)
        lanes = []
        for idb in base:
            ln = c13.lane_number(idb, ib)
            if ib:
                chips = [ln & 0xF]
            elif chips_variant is not None:
                chips = chips_variant(rng)
            else:
                chips = list(range(7)) if rng.random() < 0.6 else list(range(8, 15))
            lanes.append((idb, [("chip", c, bc, rng.random() < 0.3, rng.choice([0, 1, 2, 4]), 0) for c in chips]))
        plans.append(lanes)
    return plans


def toml_text(keys, rng):
    """custom-checks TOML with the given keys; the others absent or commented out"""
    lines = ["# custom checks written by the C20 check"]
    for k in ("cdps", "triggers_pht", "rdh_version", "chip_orders_ob", "chip_count_ob"):
        if k in keys:
            v = keys[k]
            lines.append("%s = %s" % (k, json.dumps(v)))
        elif rng.random() < 0.5:
            lines.append("#%s = None [ u32 ] # (Uncomment and set to enable)" % k)
    return "\n".join(lines) + "\n"


def run(tier, seed):
    chk = core.Check("C20", tier, seed)
    rng = random.Random(seed)
    gen = core.step_gen()
    chk.cov["gen"] = gen["log"]
    chk.cov["gen_facts"] = {k: v for k, v in gen["facts"].items() if k in ("tdh_max_bc", "rdh_header_size")}
    chk.proof = core.step_coq("Props/C20.v")
    core.step_model()
    h = core.step_harness()
    b = core.step_cli() if h["ok"] else h
    if not h["ok"] or not b["ok"]:
        chk.disagreements.append({"stream": "build", "detail": "harness / binary does not build against /repo", "log": (h.get("log") or b.get("log", ""))[-1500:]})
        return core.finish(chk, TRUSTED)
    deep = tier == "thorough" or not chk.proof["ok"]
    # ------------------------------------------------------------------ stream 1: trigger period
    np_ = 300 if deep else 50
    plines, pmeta = [], []
    for s in range(np_):
        layer = rng.randrange(7)
        period = rng.choice([198, 198, 891, 1782, 3563, 1, 2, 100, 3000, 3564, rng.randrange(1, 3564)])
        cfg_period = period + rng.choice([0, 0, 0, 1, -1]) if period > 1 else period
        if period == 3564:
            cfg_period = rng.choice([0, 0, 1])     # one internal trigger per orbit at the same bunch crossing: distance 0 modulo 3564
        elif rng.random() < 0.08:
            cfg_period = 0                         # a configured period of 0 is a period like any other: every other distance is reported
        n = rng.randrange(3, 14)
        orbit0 = 0
        bc = rng.randrange(3564)
        sched = []      # (orbit, bc, internal)
        o = orbit0
        for k in range(n):
            sched.append([o, bc, 1])
            nb = bc + period
            o += nb // 3564
            bc = nb % 3564
        kind = rng.choice(["periodic", "periodic", "one-late", "one-early", "physics-between", "missing-one"])
        if kind == "one-late" and n > 3:
            j = rng.randrange(1, n)
            if sched[j][1] + 1 < 3564 and (j + 1 == n or sched[j + 1][0] > sched[j][0] or sched[j][1] + 1 < sched[j + 1][1]):
                sched[j][1] += 1
        elif kind == "one-early" and n > 3:
            j = rng.randrange(1, n)
            if sched[j][1] > 0 and (sched[j - 1][0] < sched[j][0] or sched[j - 1][1] < sched[j][1] - 1):
                sched[j][1] -= 1
        elif kind == "physics-between":
            extra = []
            for a, b_ in zip(sched, sched[1:]):
                if a[0] == b_[0] and b_[1] - a[1] > 2 and rng.random() < 0.5:
                    extra.append([a[0], rng.randrange(a[1] + 1, b_[1]), 0])
            sched = sorted(sched + extra)
        elif kind == "missing-one" and n > 3:
            sched.pop(rng.randrange(1, n - 1))
        plans = legal_plans(rng, layer, len(sched))
        link = PeriodLink(rng, rng.randrange(12), layer, 3, rng.choice([0, 2]), plans, rng.choice([0, 1, 2]))
        pk = []
        orbits = sorted(set(x[0] for x in sched))
        base_orbit = link.orbit
        for ob in range(orbits[0], orbits[-1] + 1):
            link.orbit = (base_orbit + ob) & 0xFFFFFFFF
            trigs = [(x[1], x[2]) for x in sched if x[0] == ob]
            if trigs:
                pk += link.hbf_orbit(trigs)
        cd, _r = c06.place([pk], [(0, k) for k in range(len(pk))], start=0)
        plines.append(rawdata.link_line("all stave %d -" % cfg_period, cd))
        pmeta.append({"cd": cd, "period": cfg_period, "true_period": period, "kind": kind, "layer": layer, "n": len(sched)})
    env = {"FV_MUTE": "1"}
    p_impl = core.run_lines(core.HARNESS_BIN, "link", plines, shards=core.NCPU, extra_env=env)
    p_model = core.run_lines(core.FPMODEL, "link", plines, shards=core.NCPU)
    pdist, psamples = set(), []
    for line, m, raw, mod in zip(plines, pmeta, p_impl, p_model):
        got = canon.canon_link(raw)
        desc = {"stream": "period", "kind": m["kind"], "configured_period": m["period"], "generated_with": m["true_period"], "layer": m["layer"], "case": line if len(line) < 5000 else line[:5000] + "..."}
        if got != mod.strip():
            chk.disagreements.append(dict(desc, impl=got[:500], model=mod[:500]))
        if got == "PANIC":
            continue
        toks = [] if got == "-" else got.split(" ")
        e45 = sorted(int(t.split(":")[1], 16) for t in toks if t.startswith("E:") and t.split(":")[2] == "45")
        others = [t for t in toks if t.startswith("E:") and t.split(":")[2] != "45"]
        exp = sorted(expected_e45(m["cd"], m["period"]))
        pdist.add((m["kind"], m["period"] == m["true_period"], len(exp) > 0, any(a[1] > b_[1] for a, b_ in zip(tdh_walk(m["cd"]), tdh_walk(m["cd"])[1:]))))
        if e45 != exp:
            chk.spec_violations.append(dict(desc, expected_E45_at=["%X" % x for x in exp], reported_E45_at=["%X" % x for x in e45],
                                            tdhs=[("%X" % a, b_, c_, d_) for a, b_, c_, d_ in tdh_walk(m["cd"])][:40],
                                            what="[E45] is not reported for exactly the consecutive internal-trigger TDHs whose bunch-crossing distance modulo 3564 differs from the configured period"))
        if others and m["kind"] in ("periodic",):
            chk.spec_violations.append(dict(desc, messages=others[:5], what="a conforming periodic stream draws other errors (generator or C01 matter)", **{"class": "generator"}))
        if len(psamples) < 3 and exp:
            psamples.append(dict(desc, e45=["%X" % x for x in e45], case=line[:300]))
    chk.add_stream("period", len(plines), pdist, psamples, distribution={"streams": np_})
    # ------------------------------------------------------------------ stream 2: custom keys through the validator (version, chips)
    nl = 240 if deep else 40
    llines, lmeta = [], []
    for s in range(nl):
        layer = rng.choice([3, 4, 5, 6, 3, 4, 0])
        ib = layer <= 2
        variant = rng.choice(["ok", "count-6", "count-8", "order-swap", "order-second-set"])
        scripted = s < 6
        if scripted:
            # chip orders configured WITHOUT a chip count: a lane that carries a configured order followed by one more chip, and a lane
            # that is a strict prefix of a configured order, are judged by the order rule alone
            layer = [3, 5, 6, 4, 5, 3][s]
            ib = False
            variant = ["count-8", "count-8", "count-6", "count-8", "order-second-set", "count-6"][s]

        def chips_variant(r, variant=variant):
            if variant == "count-6":
                return list(range(6))
            if variant == "count-8":
                return list(range(8))
            if variant == "order-swap":
                c = list(range(7))
                c[2], c[5] = c[5], c[2]
                return c
            if variant == "order-second-set":
                return list(range(8, 15))
            return list(range(7))
        plans = legal_plans(rng, layer, rng.randrange(1, 4), chips_variant)
        version = rng.choice([7, 7, 6])
        link = c13.PlannedLink(rng, rng.randrange(12), layer, 2, rng.choice([0, 2]), plans, rng.choice([0, 1, 2]))
        link.version = version
        pk = []
        while link.k < len(plans):
            pk += link.hbf(nslots=min(len(plans) - link.k, rng.randrange(1, 3)))
        cd, _r = c06.place([pk], [(0, k) for k in range(len(pk))], start=0)
        keys = {}
        if rng.random() < 0.6:
            keys["rdh_version"] = version + rng.choice([0, 0, 1, -1])
        if rng.random() < 0.6:
            keys["chip_count_ob"] = rng.choice([6, 7, 7, 8])
        if rng.random() < 0.6:
            keys["chip_orders_ob"] = rng.choice([ORDERS, [ORDERS[0]], [ORDERS[1]], [[6, 5, 4, 3, 2, 1, 0]]])
        mode = rng.choice(["all stave", "all stave", "all its", "sanity its", "all none"])
        if scripted:
            keys = {"chip_orders_ob": [ORDERS, [ORDERS[0]], ORDERS, [ORDERS[0], ORDERS[1]], [ORDERS[1]], [ORDERS[0]]][s]}
            mode = "all stave"
        head = "%s - %s" % (mode, json.dumps(keys, separators=(",", ":")) if keys else "-")
        llines.append(rawdata.link_line(head, cd))
        lmeta.append({"cd": cd, "keys": keys, "mode": mode, "version": version, "variant": variant, "layer": layer, "plans": plans, "npk": len(cd)})
    l_impl = core.run_lines(core.HARNESS_BIN, "link", llines, shards=core.NCPU)
    l_model = core.run_lines(core.FPMODEL, "linkt", llines, shards=core.NCPU)
    ldist, lsamples = set(), []
    for line, m, raw, mod in zip(llines, lmeta, l_impl, l_model):
        got = c13.canon_linkt(raw)
        desc = {"stream": "custom-validator", "mode": m["mode"], "custom": m["keys"], "data_version": m["version"], "chips": m["variant"], "layer": m["layer"],
                "case": line if len(line) < 5000 else line[:5000] + "..."}
        if got != mod.strip():
            chk.disagreements.append(dict(desc, impl=got[:500], model=mod[:500]))
        if got == "PANIC":
            chk.spec_violations.append(dict(desc, detail=raw[:300], what="the validator crashes under a well-formed custom configuration: no verdict for the stream"))
            continue
        toks = [] if got == "-" else got.split(" ")
        # rdh_version: every RDH flagged on its header id (tag 1) iff the data version differs from the configured one
        hid = sorted(int(t.split(":")[1], 16) for t in toks if t.startswith("E:") and t.split(":")[2] == "10" and "1" in t.split(":")[4].split(","))
        want = sorted(o for o, _r, _p in m["cd"]) if ("rdh_version" in m["keys"] and m["keys"]["rdh_version"] != m["version"]) else []
        if hid != want:
            chk.spec_violations.append(dict(desc, expected_at=["%X" % x for x in want][:12], reported_at=["%X" % x for x in hid][:12],
                                            what="with rdh_version configured, the header-id error does not appear at exactly the RDHs whose version differs"))
        # chips: lane tags of the E75 messages
        ib = m["layer"] <= 2
        stave = m["mode"] == "all stave"
        e4 = e5 = 0
        for t in toks:
            f = t.split(":")
            if f[0] == "E" and f[2] in ("74", "75") and f[3] == "-":
                for tag in [int(x) for x in f[4].split(",") if x]:
                    if tag != 4096:
                        e4 += (tag >> 2) & 1
                        e5 += (tag >> 1) & 1
        x4 = x5 = 0
        if stave and not ib:
            for lanes in m["plans"]:
                for _idb, sk in lanes:
                    ids = []
                    for it in sk:
                        if it[1] not in ids:
                            ids.append(it[1])
                    bad4 = "chip_count_ob" in m["keys"] and len(ids) != m["keys"]["chip_count_ob"]
                    bad5 = (not bad4) and "chip_orders_ob" in m["keys"] and ids not in m["keys"]["chip_orders_ob"]
                    x4 += bad4
                    x5 += bad5
        ldist.add((m["mode"], tuple(sorted(m["keys"])), m["variant"], x4 > 0, x5 > 0, bool(want)))
        if (e4, e5) != (x4, x5):
            chk.spec_violations.append(dict(desc, expected={"E9004_lanes": x4, "E9005_lanes": x5}, reported={"E9004_lanes": e4, "E9005_lanes": e5},
                                            what="chip count / chip order errors are not reported for exactly the outer-barrel lanes that differ from the configured values"))
        if len(lsamples) < 3 and (x4 or x5 or want):
            lsamples.append(dict(desc, e9004=e4, e9005=e5, header_id_errors=len(hid), case=line[:300]))
    chk.add_stream("custom-validator", len(llines), ldist, lsamples, distribution={"streams": nl})
    # ------------------------------------------------------------------ stream 3: the binary with TOML files
    tmp = core.scratch_dir("c20")
    nc = 60 if deep else 12
    jobs = []
    for s in range(nc):
        stave = s % 2 == 0
        layer = rng.choice([3, 4, 5, 6]) if stave else rng.randrange(7)
        if stave:
            plans = legal_plans(rng, layer, rng.randrange(2, 5), lambda r: list(range(7)))
            link = c13.PlannedLink(rng, rng.randrange(12), layer, 1, rng.choice([0, 2]), plans, 1)
            pk = []
            while link.k < len(plans):
                pk += link.hbf(nslots=min(len(plans) - link.k, rng.randrange(1, 3)))
            per = [pk]
        else:
            _m, per = streams.conforming(rng, nlinks=rng.choice([1, 2, 3]), nhbf=rng.choice([1, 2, 3]), stave_level=False)
        cd, _r = c06.place(per, c06.layouts(rng, per)["random-1"])
        data = b"".join(r + p for _o, r, p in cd)
        path = os.path.join(tmp, "in%d.raw" % s)
        open(path, "wb").write(data)
        truth = {"cdps": len(cd), "triggers_pht": sum(1 for _o, r, _p in cd if (struct.unpack_from("<I", r, 32)[0] >> 4) & 1), "rdh_version": cd[0][1][0],
                 "chip_count_ob": 7, "chip_orders_ob": ORDERS}
        modes = [["check", "all", "its-stave"]] if stave else [["check", "sanity"], ["check", "sanity", "its"], ["check", "all"], ["check", "all", "its"]]
        subsets = [()] + [c for k in range(1, 6) for c in itertools.combinations(sorted(truth), k)]
        picks = subsets if deep else [(), tuple(sorted(truth))] + rng.sample(subsets[1:-1], 5)
        for sub in picks:
            keys = {}
            off_key = rng.choice(sub) if sub and rng.random() < 0.7 else None
            for k in sub:
                v = truth[k]
                if k == off_key:
                    v = [ORDERS[1]] if k == "chip_orders_ob" else v + rng.choice([1, -1]) if v > 0 else v + 1
                keys[k] = v
            jobs.append({"s": s, "path": path, "data": data, "mode": rng.choice(modes), "keys": keys, "off": off_key, "truth": truth, "stave": stave, "npk": len(cd), "nofile": False})
        jobs.append({"s": s, "path": path, "data": data, "mode": modes[0], "keys": None, "off": None, "truth": truth, "stave": stave, "npk": len(cd), "nofile": True})

    def work(j):
        args = [j["path"]] + j["mode"] + ["-E", "77"]
        if not j["nofile"]:
            tp = os.path.join(tmp, "cc_%d.toml" % id(j))
            open(tp, "w").write(toml_text(j["keys"], random.Random(id(j))))
            args += ["-c", tp]
        rc, so, se, dt = core.run_cli(args, timeout=120)
        return rc, ANSI.sub("", so.decode("utf8", "replace")), ANSI.sub("", se.decode("utf8", "replace"))
    res = core.par_map(work, jobs)
    cdist, csamples = set(), []
    nofile = {}
    for j, (rc, so, se) in zip(jobs, res):
        lines_ = [l for l in se.split("\n") if l.startswith("ERROR ")]
        if j["nofile"]:
            nofile[(j["s"], tuple(j["mode"]))] = (rc, lines_)
    for j, (rc, so, se) in zip(jobs, res):
        if j["nofile"] or "panicked at" in se:
            continue
        errs = [l for l in se.split("\n") if l.startswith("ERROR ")]
        desc = {"stream": "cli-toml", "args": " ".join(j["mode"]), "custom": j["keys"], "changed_key": j["off"], "truth": {k: v for k, v in j["truth"].items() if k != "chip_orders_ob"},
                "input_hex": j["data"].hex().upper() if len(j["data"]) <= 1500 else "(stream %d of seed %d, %d bytes)" % (j["s"], seed, len(j["data"]))}
        k, t = j["keys"], j["truth"]
        exp = {"9001": int("cdps" in k and k["cdps"] != t["cdps"]), "9002": int("triggers_pht" in k and k["triggers_pht"] != t["triggers_pht"]),
               "hid": j["npk"] if ("rdh_version" in k and k["rdh_version"] != t["rdh_version"]) else 0}
        got = {"9001": sum("[E9001]" in l for l in errs), "9002": sum("[E9002]" in l for l in errs), "hid": sum("[E10]" in l and "Header ID" in l for l in errs)}
        if j["stave"]:
            exp["9004"] = int("chip_count_ob" in k and k["chip_count_ob"] != 7)
            exp["9005"] = int(not exp["9004"] and "chip_orders_ob" in k and ORDERS[0] not in k["chip_orders_ob"])
            got["9004"] = int(any("[E9004]" in l for l in se.split("\n")))
            got["9005"] = int(any("[E9005]" in l for l in se.split("\n")))
        cdist.add((tuple(j["mode"]), tuple(sorted(k)), j["off"]))
        if got != exp:
            chk.spec_violations.append(dict(desc, expected=exp, reported=got, what="a configured custom check does not report its documented code exactly when the observed value differs"))
        anything = any(exp.values())
        other = [l for l in errs if not any(x in l for x in ("[E9001]", "[E9002]", "[E10]", "[E74]", "[E75]"))]
        if not other and rc != (77 if anything else 0):
            chk.spec_violations.append(dict(desc, exit=rc, expected_exit=77 if anything else 0, what="exit status does not follow the custom-check errors"))
        if not k:
            # all keys absent / commented: identical to running without a file
            base = nofile.get((j["s"], tuple(j["mode"])))
            if base is not None and (base[0] != rc or base[1] != errs):
                chk.spec_violations.append(dict(desc, with_default_file={"exit": rc, "errors": errs[:4]}, without_file={"exit": base[0], "errors": base[1][:4]},
                                                what="an all-default custom-checks file changes the result"))
        if len(csamples) < 3 and anything:
            csamples.append(dict(desc, exit=rc, reported=got))
    # cdps / triggers_pht also against the whole-run model
    mj = [j for j in jobs if not j["nofile"] and not j["stave"] and len(j["mode"]) >= 2][: (200 if deep else 40)]
    mlines = ["%s %s - 0 0 - 77 %s %s - file %s" % (j["mode"][1], j["mode"][2] if len(j["mode"]) > 2 else "none",
                                                    j["keys"].get("cdps", "-"), j["keys"].get("triggers_pht", "-"), j["data"].hex().upper())
              for j in mj if "rdh_version" not in j["keys"]]
    mjj = [j for j in mj if "rdh_version" not in j["keys"]]
    if mlines:
        byid = {id(j): r for j, r in zip(jobs, res)}
        for j, lm in zip(mjj, core.run_lines(core.FPMODEL, "cli", mlines, shards=core.NCPU)):
            rc, so, se = byid[id(j)]
            if lm.startswith("exit="):
                mm = dict(x.split("=", 1) for x in lm.split(" "))
                mt = re.search(r"Total Errors\s+(\d+)", so)
                if str(rc) != mm["exit"] or (mt and mt.group(1) != mm["total"]):
                    chk.disagreements.append({"stream": "cli-toml", "args": " ".join(j["mode"]), "custom": j["keys"], "impl": {"exit": rc, "total": mt.group(1) if mt else None}, "model": lm[:200]})
    # ---- the same two end-of-run checks in the runs that print no report (views, filtered data to stdout, a check writing its data to
    #      stdout): observed through the exit status and the statistics file (seed C20-G)
    rjobs = []
    for j in [j for j in jobs if j["nofile"] and not j["stave"]][: (20 if deep else 6)]:
        t = j["truth"]
        link = j["data"][12]
        for key in ("cdps", "triggers_pht"):
            for dv in (0, 1, -1):
                v = t[key] + dv
                if v < 0:
                    continue
                for mode in (["view", "rdh"], ["-f", str(link)], ["check", "sanity", "-f", str(link), "-o", "stdout"]):
                    if key == "triggers_pht" and mode[0] != "view":
                        continue    # trigger types are counted over the ANALYSED packets: none without a sub-command, the filtered ones with a filter
                    rjobs.append({"path": j["path"], "data": j["data"], "mode": mode, "key": key, "value": v, "truth": t[key], "s": j["s"]})

    def rwork(j):
        tp = os.path.join(tmp, "rl_%d.toml" % id(j))
        sp = os.path.join(tmp, "rl_%d.json" % id(j))
        open(tp, "w").write("%s = %d\n" % (j["key"], j["value"]))
        rc, so, se, dt = core.run_cli([j["path"]] + j["mode"] + ["-c", tp, "-E", "77", "-S", sp, "-D", "json"], timeout=120)
        st = None
        if os.path.exists(sp):
            try:
                st = json.load(open(sp))
            except Exception:
                st = None
            os.remove(sp)
        return rc, st, ANSI.sub("", se.decode("utf8", "replace"))
    for j, (rc, st, se) in zip(rjobs, core.par_map(rwork, rjobs)):
        if "panicked at" in se:
            continue
        code = "9001" if j["key"] == "cdps" else "9002"
        want = j["value"] != j["truth"]
        stored = st is not None and any("[E%s]" % code in m for m in st.get("error_stats", {}).get("custom_checks_stats_errors", []))
        cdist.add(("report-less", tuple(j["mode"][:2]), j["key"], want))
        if stored != want or rc != (77 if want else 0):
            chk.spec_violations.append({"stream": "cli-toml", "args": " ".join(j["mode"]), "custom": {j["key"]: j["value"]}, "truth": j["truth"],
                                        "exit": rc, "expected_exit": 77 if want else 0, "error_in_statistics_file": stored,
                                        "input_hex": j["data"].hex().upper() if len(j["data"]) <= 1500 else "(stream %d of seed %d, %d bytes)" % (j["s"], seed, len(j["data"])),
                                        "what": "a run that prints no report (view / data to stdout) does not enforce the configured packet / PhT count exactly"})
    chk.add_stream("cli-toml", len(jobs) + len(rjobs), cdist, csamples, distribution={"inputs": nc, "runs": len(jobs), "report_less_runs": len(rjobs)})
    shutil.rmtree(tmp, ignore_errors=True)
    chk.cov["rule"] = ("period: stave-level conforming links whose internal-trigger TDHs follow bc_{k+1} = bc_k + P (mod 3564, orbit carried; P in 0..3563 incl. 0 (one trigger per orbit), divisors of 3564 and "
                       "3563), run with P and P+-1, one trigger moved by +-1 BC, physics-only TDHs in between, one trigger missing; frames split over pages (continuation TDHs); "
                       "[E45] offsets = oracle from an independent TDH walk; model `link` = real LinkValidator. custom-validator: rdh_version at the data version and +-1, "
                       "chip_count_ob 6/7/8, chip_orders_ob variants x lanes with 6/7/8 chips, swapped and second-set orders x modes; header-id errors at exactly the RDHs that "
                       "differ, [E9004]/[E9005] lane counts = oracle; model `linkt` = real validator. cli-toml: all (thorough) / sampled subsets of the five keys, one key off "
                       "truth by +-1, absent / commented keys, all-default file vs no file, five modes, exit status with -E; whole-run model for cdps / triggers_pht. "
                       "distinct = class tuples")
    return core.finish(chk, TRUSTED)
