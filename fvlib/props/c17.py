"""C17 -- Early stop is orderly: signals, closed pipes, error cap, fatal errors.

Decided by: Coq theorems about the protocol LTS (Props/C17.v) instantiated with the structural facts
regenerated from the sources (G8), tied to the code by
  * the G8 facts themselves (re-read on every run),
  * S-trace: event traces of real runs (hook H2), projected onto each thread and replayed through the
    extracted LTS step function with the thread's observations (thread-local path inclusion), plus the
    global orderly-end conditions read off the trace,
  * S-scen: scenario runs of the real binary -- signal at a random instant, stdout closed after k bytes,
    error cap, fatal error in mid-stream -- with schedule perturbation that fills or drains the queues,
    file and endless piped input; a hang, an abort/panic, a partial packet in the -o file, a thread missing
    at exit or reading on after the stop are failing inputs (replays).
"""
import os
import random
import signal
import struct
import subprocess
import threading
import time

from .. import core, rawdata, streams

TRUSTED = [
    "Coq 8.16.1 kernel (vm_compute only for eq_refl on regenerated facts); no axioms (Print Assumptions: closed)",
    "gen/facts_proto.py: regex translator for the structural facts G8 (which loops poll the stop flag, where the receiver clone is dropped, which write errors are unwrapped, channel capacities)",
    "Model/Protocol.v is a hand-written abstraction of the thread/channel protocol: data reduced to message kinds, control exact; crossbeam/flume channel semantics (FIFO, bounded send blocks until space or no receiver, recv fails once empty and no sender) are assumed, as is the ctrlc handler storing the flag",
    "extraction (ExtrOcamlBasic only) + ocaml/driver.ml `proto` stream for the trace replay",
    "hook H2 (event trace, schedule perturbation) compiled into the binary under --cfg crambl_fastpasta_verif",
    "wall-clock bounds of scenario runs (process must end within the limit after the stop condition) are runtime observations, not theorems: OS scheduling, signal delivery, EPIPE are outside the model",
]

SITES = {"r.top": "rt", "r.eof": "re", "r.sent": "rs", "r.senderr": "rx", "a.top": "at", "a.disc": "ad",
         "a.stats": "as", "a.exit": "aq", "w.disc": "wd", "w.stop": "ws", "w.push": "wp", "w.fail": "wf", "w.drop": "wq",
         "m.droprecv": "md", "m.forwarded": "mf", "m.joinC": "mc", "m.joinS": "ms", "c.finish": "cf", "c.exit": "cq"}


def parse_trace(path):
    """-> (events in log order [(thread, site, a, b)], per-thread token lists)"""
    evs = []
    try:
        with open(path) as f:
            for line in f:
                p = line.split()
                if len(p) == 4:
                    evs.append((p[0], p[1], int(p[2]), int(p[3])))
    except OSError:
        pass
    th = {"Reader": [], "Analysis": [], "Writer": [], "main": [], "stats_thread": []}
    for t, site, a, b in evs:
        if t not in th:
            continue
        if site in SITES:
            th[t].append(SITES[site])
        elif site == "r.batch":
            th[t].append("rb:%d:%d" % (a, b))
        elif site == "r.exit":
            th[t].append("rq:%d:%d" % (a, b))
        elif site == "a.recv":
            th[t].append("ar:%d" % a)
        elif site == "a.worked":
            th[t].append("aw:%d" % a)
        elif site == "a.join":
            th[t].append("aj:%d" % a)
        elif site == "w.recv":
            th[t].append("wr:%d" % a)
        elif site == "c.recv":
            th[t].append("cr:%d:%d" % (a, b))
    return evs, th


def trace_global(evs, rc):
    """orderly-end conditions read off the trace of a run that exited normally; returns list of problems"""
    probs = []
    idx = {}
    for i, (t, site, a, b) in enumerate(evs):
        idx.setdefault((t, site), []).append(i)
    last = lambda k: idx[k][-1] if k in idx else None
    if ("main", "m.joinS") not in idx:
        if ("main", "m.droprecv") in idx:
            # the workers were started, but the process ended by itself without main ever joining them
            probs.append("the process exited while its worker threads were still running (main never reached its final join)")
        return probs            # otherwise the run ended before any worker was started (init error): nothing to check
    mj = last(("main", "m.joinS"))
    # every thread that logged anything must have logged its exit before main's final join
    ends = {"Reader": "r.exit", "Analysis": "a.exit", "stats_thread": "c.exit", "Writer": "w.drop"}
    threads = set(t for t, _, _, _ in evs)
    for t in threads:
        if t.startswith("Validator"):
            e = last((t, "v.exit"))
        elif t in ends:
            e = last((t, ends[t]))
        else:
            continue
        if e is None or e > mj:
            probs.append("thread %s has not finished when main exits" % t)
    return probs


def after_stop_counts(evs):
    """how much each polling loop still did after the stop flag was up (first sig.stop or controller store)"""
    stop_i = None
    for i, (t, site, a, b) in enumerate(evs):
        if site == "sig.stop" or (site == "c.recv" and b == 1):
            stop_i = i
            break
    if stop_i is None:
        return None
    res = {"r.batch": 0, "a.recv": 0, "w.push": 0}
    for t, site, a, b in evs[stop_i + 1:]:
        if site in res:
            res[site] += 1
    sent = sum(1 for t, site, a, b in evs[:stop_i] if site == "r.sent")
    taken = sum(1 for t, site, a, b in evs[:stop_i] if site in ("a.recv", "w.recv"))
    res["data_queue_at_stop"] = sent - taken
    res["reader_blocked_at_stop"] = any(site == "r.send" for t, site, a, b in evs[max(0, stop_i - 400):stop_i][-1:]) or (sent - taken >= 100)
    return res


# ---------------------------------------------------------------------------------------- inputs
def rdh_stream(rng, npk, links=3, bad_every=0, sysid=0x20):
    """RDH-only packets (empty or tiny payloads), sanity-clean unless bad_every"""
    out = []
    pages = {}
    orbit = {}
    for i in range(npk):
        l = i % links
        pg = pages.get(l, 0)
        ob = orbit.get(l, 1000 + l)
        stop = 1 if pg == 3 else 0
        stopbit = stop
        if bad_every and i % bad_every == bad_every - 1:
            stopbit = 2        # invalid stop bit: E10 + E11
        out.append(rawdata.mk_rdh(link=l, fee=(l << 8) | (l + 1) if False else (0x0100 * (l % 7)) + l, pages=pg, stop=stopbit,
                                  orbit=ob, payload_len=0, sysid=sysid, fmt=2, pktcnt=i & 0xFF))
        if stop:
            pages[l] = 0
            orbit[l] = ob + 1
        else:
            pages[l] = pg + 1
    return out


def whole_packet_prefix(out_bytes, expected_pkts):
    """is out_bytes the concatenation of a prefix of expected_pkts?"""
    pos = 0
    for p in expected_pkts:
        if pos == len(out_bytes):
            return True, pos
        if out_bytes[pos:pos + len(p)] != p:
            return False, pos
        pos += len(p)
    return pos == len(out_bytes), pos


# ---------------------------------------------------------------------------------------- one scenario run
class Scn:
    def __init__(self, name, args, data, stdin_mode, sched, action, out_file=None, expect_pkts=None, stdout_mode="null"):
        self.name = name
        self.args = args
        self.data = data              # bytes (pipe modes) or path (file mode)
        self.stdin_mode = stdin_mode  # "file" | "pipe" | "endless"
        self.sched = sched
        self.action = action          # ("signal", signum, delay_s) | ("close", nbytes) | ("none",)
        self.out_file = out_file
        self.expect_pkts = expect_pkts
        self.stdout_mode = stdout_mode  # "null" | "drain" | "close"


import re as _re
STOP_RE = _re.compile(rb" c\.recv \d 1\n")
TMAX = 20.0       # seconds a run may take after its stop condition (generous: loaded machine)
TCAP = 240.0      # cap on the time granted for the sleeps injected by the schedule perturbation


def run_scn(s, scr, idx):
    trace = os.path.join(scr, "trace_%d.txt" % idx)
    try:
        os.unlink(trace)
    except OSError:
        pass
    env = dict(os.environ, RUST_BACKTRACE="1", FASTPASTA_VERIF_TRACE=trace)
    if s.sched:
        env["FASTPASTA_VERIF_SCHED"] = s.sched
    env.pop("NO_COLOR", None)
    args = [core.FASTPASTA] + list(s.args)
    stdin = subprocess.DEVNULL
    if s.stdin_mode == "file":
        args = [core.FASTPASTA, s.data] + list(s.args)
    else:
        stdin = subprocess.PIPE
    stdout = subprocess.DEVNULL if s.stdout_mode == "null" else subprocess.PIPE
    t0 = time.time()
    p = subprocess.Popen(args, stdin=stdin, stdout=stdout, stderr=subprocess.PIPE, env=env)
    err_chunks = []
    out_n = [0]
    fed = [0]

    def feed():
        try:
            if s.stdin_mode == "pipe":
                p.stdin.write(s.data)
            else:
                while True:
                    p.stdin.write(s.data)
                    fed[0] += 1
        except (BrokenPipeError, OSError, ValueError):
            pass
        try:
            p.stdin.close()
        except (BrokenPipeError, OSError, ValueError):
            pass

    def rd_err():
        for chunk in iter(lambda: p.stderr.read(65536), b""):
            if sum(len(c) for c in err_chunks) < (1 << 20):
                err_chunks.append(chunk)

    def rd_out():
        limit = s.action[1] if s.action[0] == "close" else None
        try:
            while True:
                want = 65536 if limit is None else min(65536, max(1, limit - out_n[0]))
                if limit is not None and out_n[0] >= limit:
                    break
                chunk = p.stdout.read(want)
                if not chunk:
                    break
                out_n[0] += len(chunk)
        finally:
            if limit is not None:
                stop_t[0] = time.time()
                p.stdout.close()

    stop_t = [None]
    sent_after_stop = [False]
    ths = []
    if stdin == subprocess.PIPE:
        ths.append(threading.Thread(target=feed, daemon=True))
    ths.append(threading.Thread(target=rd_err, daemon=True))
    if stdout == subprocess.PIPE:
        ths.append(threading.Thread(target=rd_out, daemon=True))
    for t in ths:
        t.start()
    if s.action[0] == "stop_then_signal":
        # wait until the controller has raised the stop flag (event `c.recv <kind> 1`), then deliver ONE signal
        seen = False
        pos = 0
        tail = b""
        t_wait = time.time()
        while p.poll() is None and time.time() - t_wait < 40:
            try:
                with open(trace, "rb") as tf:
                    tf.seek(pos)
                    chunk = tf.read()
            except OSError:
                chunk = b""
            if chunk:
                pos += len(chunk)
                buf = tail + chunk
                if STOP_RE.search(buf):
                    seen = True
                    break
                tail = buf[-40:]
            else:
                time.sleep(0.001)
        if seen and p.poll() is None:
            time.sleep(s.action[2])
            if p.poll() is None:
                stop_t[0] = time.time()
                try:
                    p.send_signal(s.action[1])
                    sent_after_stop[0] = True
                except ProcessLookupError:
                    pass
    if s.action[0] == "signal":
        time.sleep(s.action[2])
        if p.poll() is None:
            stop_t[0] = time.time()
            try:
                p.send_signal(s.action[1])
            except ProcessLookupError:
                pass
    hang = False
    # the process has to end: TMAX after the stop condition; a run on finite input without stop condition: 60 s.
    # The schedule perturbation is our own doing: every event at a perturbed site sleeps up to D microseconds, so a run
    # is granted D (+ 200 us of sleep overhead) for every such event it goes through (after the stop condition for the
    # first limit, since the start for the second).  Only events that are really logged extend the limit, so a process
    # that makes no progress is still reported after TMAX; the extension is capped at TCAP.
    deadline_total = 60.0
    slow = []
    if s.sched:
        for item in s.sched.split(":", 1)[-1].split(","):
            if "=" in item:
                site, us = item.split("=", 1)
                slow.append((site.encode(), (int(us) + 200) * 1e-6))
    tpos = [0]
    ttail = [b""]
    granted = [0.0]           # seconds granted since the start

    def grant():
        if not slow:
            return
        try:
            with open(trace, "rb") as tf:
                tf.seek(tpos[0])
                chunk = tf.read(1 << 26)
        except OSError:
            return
        if not chunk:
            return
        tpos[0] += len(chunk)
        buf = ttail[0] + chunk
        cut = buf.rfind(b"\n") + 1
        ttail[0] = buf[cut:]
        for site, cost in slow:
            granted[0] += buf.count(b" " + site, 0, cut) * cost

    granted_at_stop = None
    while True:
        try:
            p.wait(timeout=0.25)
            break
        except subprocess.TimeoutExpired:
            now = time.time()
            grant()
            if stop_t[0] is not None and granted_at_stop is None:
                granted_at_stop = granted[0]
            extra_stop = min(TCAP, granted[0] - granted_at_stop) if granted_at_stop is not None else 0.0
            if (stop_t[0] is not None and now - stop_t[0] > TMAX + extra_stop) or now - t0 > deadline_total + min(TCAP, granted[0]):
                hang = True
                # evidence for the replay: where are the threads?
                p.kill()
                p.wait()
                break
    t_exit = time.time()
    for t in ths:
        t.join(timeout=5)
    rc = p.returncode
    stderr = b"".join(err_chunks).decode("utf8", "replace")
    evs, th = parse_trace(trace)
    res = {"name": s.name, "args": " ".join(s.args), "stdin": s.stdin_mode, "sched": s.sched or "-", "action": list(map(str, s.action)),
           "rc": rc, "hang": hang, "wall_s": round(t_exit - t0, 3),
           "after_stop_s": round(t_exit - stop_t[0], 3) if stop_t[0] else None, "granted_for_injected_sleeps_s": round(granted[0], 2),
           "stdout_bytes": out_n[0], "trace_events": len(evs)}
    viol = []
    if hang:
        viol.append("hang: process still running %.0f s after the stop condition (killed)" % TMAX if granted[0] == 0 else
                    "hang: process still running %.0f s (+ %.1f s granted for the sleeps injected at %s) after the stop condition (killed)" % (TMAX, granted[0], s.sched))
    elif rc is not None and rc < 0 and s.action[0] == "signal" and -rc == int(s.action[1]):
        # the signal arrived before the handler was installed (process start-up): the default action ended the
        # process -- bounded, no panic; the -o file is still checked below
        res["ended_by_default_signal_action"] = True
    elif rc is not None and rc < 0 and -rc not in (signal.SIGKILL,):
        viol.append("terminated by signal %d (%s)" % (-rc, "abort: panic in a thread" if -rc == signal.SIGABRT else "crash"))
    elif rc == 101:
        viol.append("exit status 101 (panic)")
    res["signal_after_controller_stop"] = sent_after_stop[0]
    if s.action[0] in ("signal", "stop_then_signal") and "ungraceful shutdown" in stderr:
        viol.append("ungraceful shutdown (process::exit with running workers) after a single signal")
    if "panicked at" in stderr or "Well, this is embarrassing" in stderr:
        viol.append("panic text on stderr: " + " ".join(l for l in stderr.split("\n") if "panicked at" in l or "embarrassing" in l)[:300])
    if s.out_file:
        try:
            ob = open(s.out_file, "rb").read()
        except OSError:
            ob = b""
        okp, pos = whole_packet_prefix(ob, s.expect_pkts)
        res["out_file_bytes"] = len(ob)
        if not okp:
            viol.append("the -o file (%d bytes) is not a sequence of whole matching packets (first deviation at byte %d)" % (len(ob), pos))
    if not hang and rc is not None and rc >= 0:
        viol.extend(trace_global(evs, rc))
    res["violations"] = viol
    res["threads"] = th
    res["after_stop"] = after_stop_counts(evs)
    res["stderr_tail"] = stderr[-600:] if viol else ""
    try:
        os.unlink(trace)
    except OSError:
        pass
    return res


def model_mode(args):
    if "view" in args:
        return "view"
    if "check" in args:
        return "check"
    return "write"


def proto_lines(res, cfg):
    """(thread, line) pairs for the replay"""
    mode, cap, sso, wso = cfg
    head = "%s %d %d %d" % (mode, cap, sso, wso)
    out = []
    for t, toks in res["threads"].items():
        if toks:
            out.append((t, head + " ; " + " ".join(toks)))
    return out


# ---------------------------------------------------------------------------------------- the check
def run(tier, seed):
    chk = core.Check("C17", tier, seed)
    rng = random.Random(seed * 7919 + 17)
    g = core.step_gen()
    facts = g["facts"]
    chk.cov["gen_facts"] = {k: v for k, v in facts.items() if k.startswith("proto_")}
    fb = [k for k, v in facts.items() if k.startswith("proto_") and v["status"] == "fallback"]
    if fb:
        chk.notes.append("G8 facts not located in the sources (snapshot values used, correspondence is the tie): " + " ".join(fb))
    chk.proof = core.step_coq("Props/C17.v", timeout=2400)
    model_ok = True
    try:
        core.step_model()
    except RuntimeError as e:
        model_ok = False
        chk.notes.append("model extraction failed: " + str(e)[-400:])
    b = core.step_cli()
    if not b["ok"]:
        chk.spec_violations.append({"stream": "build", "what": "fastpasta does not build", "log": b["log"][-1500:]})
        return core.finish(chk, TRUSTED)
    scr = core.scratch_dir("c17")
    try:
        _scenarios(chk, rng, tier, scr, model_ok, facts)
    finally:
        import shutil
        shutil.rmtree(scr, ignore_errors=True)
    chk.cov["rule"] = ("every scenario run must end within %.0f s of its stop condition with a normal exit status, no panic text, "
                       "every thread finished before main exits, a -o file made of whole matching packets; every thread's event "
                       "sequence must be a path of the extracted protocol LTS under the thread's own observations" % TMAX)
    return core.finish(chk, TRUSTED, partial_theorems=[
        "partial: the theorems are about the protocol LTS (abstract data, exact control); signal delivery, EPIPE, panics inside "
        "library code and real time are observed by the scenario runs, not proved"])


def _scenarios(chk, rng, tier, scr, model_ok, facts):
    quick = tier == "quick"
    td = os.path.join(core.REPO, "tests", "test-data")
    its = open(os.path.join(td, "12_links_2hbf.raw"), "rb").read()           # 78 RDHs, conforming ITS data
    bad = open(os.path.join(td, "1_hbf_bad_its_payload.raw"), "rb").read()   # ITS data with payload errors
    # inputs
    nbig = 12000 if quick else 30000
    pk_clean = rdh_stream(rng, nbig, links=4)
    pk_err = rdh_stream(rng, nbig, links=4, bad_every=7)
    f_clean = os.path.join(scr, "clean.raw")
    f_err = os.path.join(scr, "err.raw")
    f_its = os.path.join(scr, "its.raw")
    open(f_clean, "wb").write(b"".join(pk_clean))
    open(f_err, "wb").write(b"".join(pk_err))
    its_rep = its * (25 if quick else 80)
    open(f_its, "wb").write(its_rep)
    # a fatal framing error in mid-stream: offset_to_next = 0 at packet i
    def with_fatal(pkts, i):
        q = list(pkts)
        b = bytearray(q[i])
        struct.pack_into("<H", b, 8, 0)
        q[i] = bytes(b)
        return b"".join(q)
    scheds = [None, "0:a.recv=3000", "0:v.recv=300", "0:r.send=2000", "0:c.recv=100", "0:w.recv=3000",
              "%d:a.recv=4000,v.recv=200" % rng.randrange(1, 1 << 30), "%d:d.send=50,c.recv=30" % rng.randrange(1, 1 << 30)]
    scns = []
    n_sig = 10 if quick else 60
    modes = [(["check", "sanity"], f_clean, pk_clean), (["check", "all"], f_err, pk_err), (["check", "all", "its"], f_its, None),
             (["check", "all", "its-stave"], f_its, None), (["view", "rdh"], f_clean, pk_clean),
             (["view", "its-readout-frames"], f_its, None)]
    # A. a signal at a random instant
    for i in range(n_sig):
        args, path, pk = modes[i % len(modes)]
        sig = signal.SIGINT if rng.random() < 0.6 else signal.SIGTERM
        delay = rng.choice([0.0, 0.005, 0.02, 0.05, 0.1, 0.2, 0.4]) * (1 + rng.random())
        sched = scheds[(i // len(modes) + i) % len(scheds)]
        smode = rng.choice(["file", "endless", "endless", "pipe"])
        if smode != "endless" and sched is None:
            sched = "0:a.recv=3000"      # a finite input is over in a few ms: slow the consumer so that the signal lands in mid-run
        data = path if smode == "file" else open(path, "rb").read()
        scns.append(Scn("signal", args, data, smode, sched, ("signal", sig, delay), stdout_mode="drain" if "view" in args else "null"))
    # A'. a signal while filtered data is written to a file: whole packets only
    for i in range(4 if quick else 24):
        link = rng.randrange(0, 4)
        outp = os.path.join(scr, "out_%d.raw" % i)
        exp = [p for p in pk_clean if p[12] == link]
        sched = rng.choice([None, "0:w.recv=2000", "0:r.send=1000", "%d:w.recv=3000" % rng.randrange(1, 1 << 30)])
        smode = rng.choice(["file", "endless"])
        if smode == "endless":
            exp = exp * 4000
        scns.append(Scn("signal-write", ["--filter-link", str(link), "-o", outp], f_clean if smode == "file" else b"".join(pk_clean), smode, sched,
                        ("signal", rng.choice([signal.SIGINT, signal.SIGTERM]), rng.choice([0.0, 0.01, 0.05, 0.15, 0.3])),
                        out_file=outp, expect_pkts=exp))
    # B. the reader of stdout goes away after k bytes
    ks = [0, 1, 200, 5000, 70000, 300000]
    nb = 8 if quick else 40
    for i in range(nb):
        k = ks[i % len(ks)]
        which = i % 4
        smode = rng.choice(["file", "endless"])
        sched = rng.choice([None, "0:a.recv=2000", "0:c.recv=50"])
        if which == 0:
            scns.append(Scn("close-view", ["view", "rdh"], f_clean if smode == "file" else b"".join(pk_clean), smode, sched, ("close", k), stdout_mode="close"))
        elif which == 1:
            scns.append(Scn("close-view", ["view", "its-readout-frames-data"], f_its if smode == "file" else its_rep, smode, sched, ("close", k), stdout_mode="close"))
        elif which == 2:
            scns.append(Scn("close-write", ["--filter-link", "1"], f_clean if smode == "file" else b"".join(pk_clean), smode,
                            rng.choice([None, "0:w.recv=1000"]), ("close", k), stdout_mode="close"))
        else:
            scns.append(Scn("close-stats", ["check", "sanity", "--output-stats", "stdout", "--stats-format", "json"], f_clean, "file", None,
                            ("close", min(k, 200)), stdout_mode="close"))
    # C. the error cap, behind full queues, on endless input: must end by itself
    for i in range(4 if quick else 24):
        cap = rng.choice([1, 2, 5, 50, 500])
        sched = rng.choice([None, "0:v.recv=200", "0:c.recv=200", "0:a.recv=2000"])
        smode = rng.choice(["endless", "file"])
        scns.append(Scn("cap", ["check", "all", "-e", str(cap)], f_err if smode == "file" else b"".join(pk_err), smode, sched, ("none",)))
    # D. a fatal error in mid-stream
    for i in range(4 if quick else 24):
        at = rng.choice([0, 1, 99, 100, 101, 250, 1000, 5000])
        sched = rng.choice([None, "0:a.recv=2000", "0:v.recv=200"])
        if i % 2 == 0:
            data = with_fatal(pk_clean, at)
            scns.append(Scn("fatal-offset", ["check", "all"], data, "pipe", sched, ("none",)))
        else:
            # an unknown system id (reported as a fatal error by the input-statistics forwarder): the run must end by
            # itself although the input never does
            data = b"".join(rdh_stream(rng, 3000, links=4, sysid=0x7F))
            scns.append(Scn("fatal-sysid", ["check", "sanity"], data, "endless", sched, ("none",)))
    # E. the stop condition behind a FULL data queue (reader blocked in send), on every arm of `process`:
    #    consumer slowed down, endless input, stop after the queue has filled
    outx = os.path.join(scr, "ignored_out.raw")
    fo = ["--filter-link", "1", "-o", outx]     # an output destination needs a filter; it is ignored (with a warning) when a check or view is set
    arms = [["check", "sanity"], ["check", "sanity"] + fo, ["view", "rdh"], ["view", "rdh"] + fo,
            ["check", "all", "-e", "3"], ["check", "all", "-e", "3"] + fo]
    proof_broken = not (chk.proof or {}).get("ok", False)
    nfull = len(arms) if (proof_broken or not quick) else 3
    for i in range(nfull):
        a = arms[(i + rng.randrange(len(arms))) % len(arms)] if (quick and not proof_broken) else arms[i]
        data = b"".join(pk_err) if "-e" in a else b"".join(pk_clean)
        if "-e" in a:
            scns.append(Scn("full-queue-cap", a, data, "endless", "0:a.recv=20000,c.recv=300", ("none",)))
        elif "view" in a:
            scns.append(Scn("full-queue-close", a, data, "endless", "0:a.recv=20000", ("close", 30000), stdout_mode="close"))
        else:
            scns.append(Scn("full-queue-signal", a, data, "endless", "0:a.recv=20000", ("signal", signal.SIGINT, 1.5)))
    # F. ONE signal after the controller has already raised the stop flag (fatal error / cap), while the workers wind down
    npk_big = 3000 if quick else 16000
    big = []
    for i in range(npk_big):
        big.append(rawdata.mk_rdh(link=2, fee=0x0102, pages=0, stop=0, orbit=7 + i, payload_len=8047, pktcnt=i & 0xFF) + bytes([(i * 7 + 1) & 0xFF]) * 8047)
    f_big = os.path.join(scr, "big_fatal.raw")
    bad_tail = bytearray(rawdata.mk_rdh(link=2, fee=0x0102, payload_len=0))
    struct.pack_into("<H", bad_tail, 8, 0)
    with open(f_big, "wb") as f:
        f.write(b"".join(big))
        f.write(bytes(bad_tail))
        f.write(bytes(4096))
    for i in range(3 if quick else 16):
        outp = os.path.join(scr, "outbig_%d.raw" % i)
        d = [0.0, 0.002, 0.01, 0.03, 0.0005, 0.005][i % 6]
        scns.append(Scn("stop-then-signal-write", ["--filter-link", "2", "-o", outp], f_big, "file", None,
                        ("stop_then_signal", rng.choice([signal.SIGINT, signal.SIGTERM]), d), out_file=outp, expect_pkts=big))
    for i in range(2 if quick else 10):
        d = [0.0, 0.003, 0.02][i % 3]
        scns.append(Scn("stop-then-signal-cap", ["check", "all", "-e", "3"], b"".join(pk_err), "endless", rng.choice([None, "0:v.recv=200", "0:a.recv=3000"]),
                        ("stop_then_signal", signal.SIGINT, d)))
    # G. a signal while errors keep arriving BELOW a (huge) error cap, on endless erroneous input: the collector handles the cap on
    #    every error message and must never take the stop request back (seed C17-G)
    pk_sparse = b"".join(rdh_stream(rng, 4000, links=4, bad_every=40))     # a few errors per reader batch: the event trace stays small
    for i in range(2 if quick else 8):
        capv = rng.choice([300000, 1000000])      # far above what the run reaches; the extracted LTS counts the cap in unary
        a = [["check", "all", "-e", str(capv), "-m"], ["check", "sanity", "-e", str(capv), "-m"]][i % 2]
        scns.append(Scn("signal-below-cap", a, pk_sparse, "endless", None,      # no injected sleeps: nothing to grant, 20 s after the signal is the limit
                        ("signal", rng.choice([signal.SIGINT, signal.SIGTERM]), [0.2, 0.4, 0.1, 0.3][i % 4])))
    # run (scenario runs are timing-sensitive: a few at a time)
    results = core.par_map(lambda t: run_scn(t[1], scr, t[0]), list(enumerate(scns)), workers=4)
    # verdicts
    dist = {}
    distinct = []
    samples = []
    lines = []
    owners = []
    for s, r in zip(scns, results):
        dist[s.name] = dist.get(s.name, 0) + 1
        key = (s.name, r["args"], r["stdin"], r["sched"].split(":")[-1].split("=")[0], r["rc"], bool(r["after_stop"]))
        distinct.append(key)
        for v in r["violations"]:
            chk.spec_violations.append({"stream": "scenario/" + s.name, "what": v.split(":")[0], "detail": v,
                                        "cmd": "fastpasta " + r["args"], "stdin": r["stdin"], "sched": r["sched"], "action": r["action"],
                                        "rc": r["rc"], "stderr_tail": r["stderr_tail"],
                                        "how": "re-run the command with FASTPASTA_VERIF_SCHED=<sched> and the action (signal after delay / close stdout after k bytes)"})
        # bounded work after the stop flag: at most the batch in flight (+1 for the race between the load and the log line)
        a = r["after_stop"]
        if a and facts.get("proto_reader_polls", {}).get("value", True) and a["r.batch"] > 2:
            chk.spec_violations.append({"stream": "scenario/" + s.name, "what": "reader keeps reading after the stop flag is up",
                                        "detail": "%d batches read after the stop event" % a["r.batch"], "cmd": "fastpasta " + r["args"],
                                        "sched": r["sched"], "action": r["action"]})
        if a and a["a.recv"] > 2:
            chk.spec_violations.append({"stream": "scenario/" + s.name, "what": "analysis keeps receiving after the stop flag is up",
                                        "detail": "%d batches received after the stop event" % a["a.recv"], "cmd": "fastpasta " + r["args"],
                                        "sched": r["sched"], "action": r["action"]})
        if a and a["w.push"] > 2:
            chk.spec_violations.append({"stream": "scenario/" + s.name, "what": "writer keeps writing after the stop flag is up",
                                        "detail": "%d batches pushed after the stop event" % a["w.push"], "cmd": "fastpasta " + r["args"],
                                        "sched": r["sched"], "action": r["action"]})
        if model_ok and not r["hang"] and r["rc"] is not None and r["rc"] >= 0:
            cap = 0
            if "-e" in s.args:
                cap = int(s.args[s.args.index("-e") + 1])
            cfg = (model_mode(s.args), cap, 1 if "--output-stats" in s.args else 0, 1 if (model_mode(s.args) == "write" and "-o" not in s.args) else 0)
            for t, ln in proto_lines(r, cfg):
                lines.append(ln)
                owners.append((s, r, t))
        if len(samples) < 6:
            samples.append({k: r[k] for k in ("name", "args", "stdin", "sched", "action", "rc", "wall_s", "after_stop_s", "after_stop", "trace_events")})
    occ = [r["after_stop"]["data_queue_at_stop"] for r in results if r["after_stop"]]
    dist["stop_condition_landed_in_mid_run"] = len(occ)
    dist["data_queue_occupancy_at_stop"] = {"0": sum(1 for o in occ if o <= 0), "1-49": sum(1 for o in occ if 1 <= o < 50),
                                            "50-98": sum(1 for o in occ if 50 <= o < 99), "full(99-101)": sum(1 for o in occ if o >= 99)}
    chk.add_stream("scenarios", len(scns), distinct, samples, distribution=dist)
    if lines:
        if os.environ.get("FV_KEEP_LINES"):
            with open(os.environ["FV_KEEP_LINES"], "w") as f:
                f.write("\n".join(lines) + "\n")
        outs = core.run_lines(core.FPMODEL, "proto", lines, shards=min(8, max(1, len(lines) // 50)))
        rej = 0
        for (s, r, t), ln, o in zip(owners, lines, outs):
            if o != "ok":
                rej += 1
                toks = ln.split(" ; ")[1].split()
                i = int(o.split()[1]) if o.startswith("rej") else -1
                chk.disagreements.append({"stream": "trace-replay", "thread": t, "verdict": o, "cmd": "fastpasta " + r["args"],
                                          "sched": r["sched"], "action": r["action"],
                                          "events_around": toks[max(0, i - 4): i + 3], "config": ln.split(" ; ")[0]})
        chk.add_stream("trace-replay", len(lines), [(o, ln.split(" ; ")[0], ln.split()[5] if len(ln.split()) > 5 else "") for ln, o in zip(lines, outs)],
                       [{"thread": owners[0][2], "line": lines[0][:300], "verdict": outs[0]}], distribution={"rejected": rej, "threads_replayed": len(lines)})
