"""C19 -- views show exactly what is in the data."""
import os
import random
import re
import shutil
import struct

from .. import core, itsgen, rawdata, scangen, streams
from . import c06

TRUSTED = [
    "Coq 8.16.1 kernel (coqc); vm_compute for the 256-value byte tables of the lane-status theorem and the 11 x 256 x 4 table of C19_agrees_with_checker",
    "axioms: none (Print Assumptions: Closed under the global context for every C19 theorem)",
    "gen/facts_view.py: trigger masks and their priority, word padding / payload start of the position formula, which data format positions are computed with, "
    "the TDH / TDT / lane-status byte masks of status_words/util.rs, the detector-field masks; from_id patterns and word ids (facts of C09/C11)",
    "extraction (ExtrOcamlBasic only) + OCaml driver (`view` stream: scanner + views -> row records); the rebuilt binary",
    "the text layout of the rows (column order and widths, ANSI styling) is parsed by this check, not modelled: rows are compared as records "
    "(offset, kind, bytes, attributes); the ANSI-stripping regular expression",
    "the independent decoder of fvlib/props/c19.py (documented bit fields from the file bytes at the shown offset)",
    "FEE ids of layer 7 crash the frame views (finding F6, a C04 matter) and are not generated here",
]

ANSI = re.compile(r"\x1b\[[0-9;]*m")
RDH_W = [6, 7, 7, 6, 8, 6, 10, 5, 12, 11, 10, 9, 5]
TRIG = {"SOC": 0, "SOT": 1, "HB": 2, "PhT": 3, "Other": 4}
LSTAT = {"Fatal": 3, "Error": 2, "Warning": 1, "Missing": 4, "-": 0}
TDHTRIG = {"SOC     ": 0, "Internal": 1, "PhT     ": 2, "Other   ": 3}
DATA_IDS = list(range(0x20, 0x29)) + list(range(0x40, 0x47)) + list(range(0x48, 0x4F)) + list(range(0x50, 0x57)) + list(range(0x58, 0x5F))


def num(s):
    s = s.strip()
    return int(s, 16) if s.lower().startswith("0x") else int(s)


def parse_rows(text):
    """stdout of a view (styled or not) -> row tokens in the format of the model's `view` stream; unparsable lines are kept as ?:..."""
    out = []
    for line in ANSI.sub("", text).split("\n"):
        if not line.strip():
            continue
        m = re.match(r"^\s*([0-9A-F]+):\s?(.*)$", line)
        if not m:
            continue            # header text
        off, rest = int(m.group(1), 16), m.group(2)
        m2 = re.match(r"^RDH v(\d+) stop=(\d+) stave: L(\d+)_(\d+)\s+(SOC|SOT|HB|PhT|Other)\s+#\s*(\d+)\s+(Fatal|Error|Warning|Missing|-)\s+(\d+)_\s*(\d+)\s*$", rest)
        if m2:
            g = m2.groups()
            out.append("H:%X:%s" % (off, ",".join(str(x) for x in [int(g[0]), int(g[1]), int(g[2]), int(g[3]), TRIG[g[4]], int(g[5]), LSTAT[g[6]], int(g[7]), int(g[8])])))
            continue
        m3 = re.match(r"^(IHW|TDH|TDT|DDW|CDW|DATA) \[((?:[0-9A-F]{2} ){9}[0-9A-F]{2})\](.*)$", rest)
        if m3:
            kind, hx, tail = m3.group(1), m3.group(2).replace(" ", ""), m3.group(3)
            attrs = []
            if kind == "TDH":
                t = re.match(r"^ (SOC     |Internal|PhT     |Other   )  (Cont\.|     )        (No data|Data!  )\s+(\d+)_\s*(\d+)\s*$", tail)
                if not t:
                    out.append("?:%s" % line.strip()[:120])
                    continue
                attrs = [TDHTRIG[t.group(1)], int(t.group(2) == "Cont."), int(t.group(3) == "No data"), int(t.group(4)), int(t.group(5))]
            elif kind == "TDT":
                t = re.match(r"^\s+(Complete|Split)\s+(Fatal|Error|Warning|-)\s*$", tail)
                if not t:
                    out.append("?:%s" % line.strip()[:120])
                    continue
                attrs = [int(t.group(1) == "Complete"), LSTAT[t.group(2)]]
            elif kind == "DDW":
                t = re.match(r"^\s+(Fatal|Error|Warning|-)\s*$", tail)
                if not t:
                    out.append("?:%s" % line.strip()[:120])
                    continue
                attrs = [LSTAT[t.group(1)]]
            elif tail.strip():
                out.append("?:%s" % line.strip()[:120])
                continue
            out.append("W:%X:%s:%s:%s" % (off, kind, hx, ",".join(str(a) for a in attrs)))
            continue
        # view rdh row: fixed column widths (a 10-character trigger type fills its column completely)
        body = rest.lstrip(" ") if rest.startswith(" ") else rest
        vals, pos, ok = [], 0, True
        for wd in RDH_W:
            cell = body[pos:pos + wd]
            pos += wd
            try:
                vals.append(num(cell))
            except ValueError:
                ok = False
                break
        if ok:
            try:
                vals.append(num(body[pos:]))
            except ValueError:
                ok = False
        if ok:
            out.append("R:%X:%s" % (off, ",".join(str(v) for v in vals)))
        else:
            out.append("?:%s" % line.strip()[:120])
    return out


def parse_unknown(stderr_text):
    out = []
    for line in ANSI.sub("", stderr_text).split("\n"):
        m = re.match(r"^ERROR\s+([0-9A-F]+): Unknown ITS Payload Word ID: 0x[0-9A-Fa-f]+ found in: \[((?:[0-9A-F]{2} ){9}[0-9A-F]{2})\]", line)
        if m:
            out.append("U:%X:%s" % (int(m.group(1), 16), m.group(2).replace(" ", "")))
    return out


# ------------------------------------------------------------------ independent decoding of the documented layout
def oracle_rdh(off, r):
    (hid, hs, fee, _prio, sysid, _res0, offset, _mem, link, pktcnt, _cru, bc_res, orbit, fmt_res, trigger, pages, stop, _r2, _res1, det, _par, _r3, _res2) = \
        struct.unpack("<BBHBBHHHBBHIIQIHBBQIHHQ", r)
    return "R:%X:%s" % (off, ",".join(str(v) for v in [hid, hs, fee, sysid, offset, link, pktcnt, bc_res & 0xFFF, orbit, fmt_res & 0xFF, trigger, pages, stop, det]))


def oracle_frdh(off, r):
    (hid, _hs, fee, _prio, _sysid, _res0, _offset, _mem, link, _pktcnt, _cru, bc_res, orbit, _fmt, trigger, _pages, stop, _r2, _res1, det, _par, _r3, _res2) = \
        struct.unpack("<BBHBBHHHBBHIIQIHBBQIHHQ", r)
    trig = 0 if trigger & 0x200 else 1 if trigger & 0x80 else 2 if trigger & 0x2 else 3 if trigger & 0x10 else 4
    lane = 3 if det & 8 else 2 if det & 4 else 1 if det & 2 else 4 if det & 1 else 0
    return "H:%X:%s" % (off, ",".join(str(v) for v in [hid, stop, (fee >> 12) & 7, fee & 0x3F, trig, link, lane, orbit, bc_res & 0xFFF]))


def lane_worst(w):
    v = int.from_bytes(w[:7], "little")
    st = [(v >> (2 * i)) & 3 for i in range(28)]
    return 3 if 3 in st else 2 if any(s >= 2 for s in st) else 1 if any(s & 1 for s in st) else 0


def oracle_word(pos, w, data_view):
    """documented decoding of one 10-byte word -> token or None (no row) or U token"""
    idb = w[9]
    v = int.from_bytes(w, "little")
    hx = w.hex().upper()
    if idb in DATA_IDS:
        return "W:%X:DATA:%s:" % (pos, hx) if data_view else None
    if idb == 0xE8:
        trig = 0 if (v >> 9) & 1 else 1 if (v >> 12) & 1 else 2 if (v >> 4) & 1 else 3
        return "W:%X:TDH:%s:%d,%d,%d,%d,%d" % (pos, hx, trig, (v >> 14) & 1, (v >> 13) & 1, (v >> 32) & 0xFFFFFFFF, (v >> 16) & 0xFFF)
    if idb == 0xF0:
        return "W:%X:TDT:%s:%d,%d" % (pos, hx, (v >> 64) & 1, lane_worst(w))
    if idb == 0xE0:
        return "W:%X:IHW:%s:" % (pos, hx)
    if idb == 0xE4:
        return "W:%X:DDW:%s:%d" % (pos, hx, lane_worst(w))
    if idb == 0xF8:
        return "W:%X:CDW:%s:" % (pos, hx)
    return "U:%X:%s" % (pos, hx)


def random_word(rng):
    k = rng.random()
    if k < 0.2:
        return itsgen.ihw(rng.getrandbits(28), rng.choice([0, 0, rng.getrandbits(32)]))
    if k < 0.45:
        w = bytearray(itsgen.tdh(trigger_type=rng.choice([rng.getrandbits(12), 0x010, 0x200, 0x003, 0]), internal=rng.randrange(2), no_data=rng.randrange(2),
                                 continuation=rng.randrange(2), bc=rng.getrandbits(12), orbit=rng.choice([0, rng.getrandbits(32), 0xFFFFFFFF])))
        return bytes(w)
    if k < 0.65:
        ls = rng.choice([0, 0, 1 << (2 * rng.randrange(28)), 2 << (2 * rng.randrange(28)), 3 << (2 * rng.randrange(28)), rng.getrandbits(56),
                         (1 << (2 * rng.randrange(24, 28))) | (2 << (2 * rng.randrange(0, 4)))])
        return itsgen.tdt(packet_done=rng.randrange(2), lane_status=ls, b7=rng.choice([0, 0, rng.getrandbits(8)]), b8_extra=rng.choice([0, 0, rng.getrandbits(8)]))
    if k < 0.8:
        ls = rng.choice([0, 1 << (2 * rng.randrange(28)), 2 << (2 * rng.randrange(28)), 3 << (2 * rng.randrange(28)), rng.getrandbits(56)])
        return itsgen.ddw0(index=rng.choice([0, 0, rng.randrange(16)]), lane_status=ls, b8_extra=rng.choice([0, rng.getrandbits(4)]))
    if k < 0.87:
        return itsgen.cdw(rng.getrandbits(24), rng.getrandbits(48))
    if k < 0.97:
        return itsgen.data_word(rng.choice(DATA_IDS), bytes(rng.getrandbits(8) for _ in range(9)))
    return itsgen.data_word(rng.choice([0x00, 0x29, 0x47, 0x5F, 0x60, 0xE1, 0xFE, 0xA0]), bytes(rng.getrandbits(8) for _ in range(9)))


def random_stream(rng, mixed_formats):
    """well-framed packets with arbitrary header values and word sequences -> [(rdh, payload, words, fmt)]"""
    n = rng.choice([1, 2, 3, 5, 8, 13, 30, 101, 130]) if rng.random() < 0.3 else rng.randrange(1, 9)
    fmt0 = rng.choice([0, 2])
    links = [(rng.randrange(32), (rng.randrange(7) << 12) | (rng.randrange(4) << 8) | rng.randrange(48)) for _ in range(rng.randrange(1, 4))]
    out = []
    for _ in range(n):
        fmt = rng.choice([0, 2]) if mixed_formats else fmt0
        words = [random_word(rng) for _ in range(rng.choice([0, 1, 2, 3, 5, 8, 20]))]
        if fmt == 2 and words and words[-1][9] == 0xFF:
            words[-1] = itsgen.ihw()
        if fmt == 2 and len(words) >= 2 and all(b == 0 for b in words[1][0:6]):
            words[1] = itsgen.tdt(packet_done=1, lane_status=1)     # a format-2 payload whose bytes 10..15 are zero reads as format 0 (finding F12 of C12)
        if fmt == 0 and words and any(b != 0 for b in words[0][0:0]):
            pass
        p = itsgen.payload(words, fmt, ff=(rng.randrange(0, 16) if fmt == 2 and words and rng.random() < 0.3 else None))
        if fmt == 2 and words and words[-1][9] != 0xFF:
            pass
        if fmt == 2 and not words:
            p = b""
        link, fee = rng.choice(links)
        r = rawdata.mk_rdh(version=rng.choice([7, 7, 6, rng.randrange(256)]), fee=fee, link=link, payload_len=len(p), pktcnt=rng.getrandbits(8),
                           orbit=rng.choice([0, rng.getrandbits(32), 0xFFFFFFFF]), bc=rng.getrandbits(12), trigger=rng.choice([0x6A03, 0x10, 0x80, 0x2, 0, rng.getrandbits(32), 0xFFFFFFFF]),
                           pages=rng.choice([0, 1, rng.getrandbits(16)]), stop=rng.choice([0, 1, rng.getrandbits(8)]), fmt=fmt,
                           detfield=rng.choice([0, 1, 2, 4, 8, 3, 12, rng.getrandbits(32)]), cru=rng.getrandbits(12), sysid=rng.choice([32, 32, rng.randrange(256)]),
                           hsize=rng.choice([0x40, 0x40, rng.randrange(256)]))
        out.append((r, p, words, fmt))
    return out


def run(tier, seed):
    chk = core.Check("C19", tier, seed)
    rng = random.Random(seed)
    gen = core.step_gen()
    chk.cov["gen"] = gen["log"]
    chk.cov["gen_facts"] = {k: v for k, v in gen["facts"].items() if k.startswith("view_") or k.startswith("pin_util_t")}
    chk.proof = core.step_coq("Props/C19.v")
    core.step_model()
    b = core.step_cli()
    if not b["ok"]:
        chk.disagreements.append({"stream": "build", "detail": "the binary does not build against /repo", "log": b.get("log", "")[-1500:]})
        return core.finish(chk, TRUSTED)
    deep = tier == "thorough" or not chk.proof["ok"]
    tmp = core.scratch_dir("c19")
    nin = 200 if deep else 36
    jobs = []
    for s in range(nin):
        kind = ["arbitrary", "arbitrary-mixed-formats", "conforming", "arbitrary"][s % 4]
        if kind == "conforming":
            _m, per = streams.conforming(rng, nlinks=rng.choice([1, 2, 3]), nhbf=rng.choice([1, 2]), stave_level=rng.random() < 0.4)
            cd, _r = c06.place(per, c06.layouts(rng, per)["random-1"])
            pk = []
            for _o, r, p in cd:
                step = 16 if r[24] == 0 else 10
                ws = []
                for i in range(0, len(p) - 9, step):
                    if step == 10 and p[i + 9] == 0xFF:
                        break
                    ws.append(p[i:i + 10])
                pk.append((r, p, ws, r[24]))
        else:
            pk = random_stream(rng, kind.endswith("mixed-formats"))
        data = bytearray(b"".join(r + p for r, p, _w, _f in pk))
        if len(data) < 64:
            continue
        # the first RDH0 must be recognisable for the run to start
        data[1] = 0x40
        data[4] = 0
        data[5] = 0x20
        data[0] = data[0] if data[0] in (6, 7) else 7
        pk[0] = (bytes(data[0:64]), pk[0][1], pk[0][2], pk[0][3])
        data = bytes(data)
        path = os.path.join(tmp, "in%d.raw" % s)
        open(path, "wb").write(data)
        ids = [(r[12], struct.unpack_from("<H", r, 2)[0]) for r, _p, _w, _f in pk]
        for which in ("rdh", "frames", "data"):
            flt = scangen.pick_filter(rng, ids) if rng.random() < 0.4 else "-"
            if flt.startswith("stave"):
                flt = "-"
            for styled in (False, True):
                jobs.append({"s": s, "kind": kind, "pk": pk, "data": data, "path": path, "which": which, "flt": flt, "styled": styled,
                             "src": rng.choice(["file", "pipe"])})

    def work(j):
        args = ["view", {"rdh": "rdh", "frames": "its-readout-frames", "data": "its-readout-frames-data"}[j["which"]]]
        if not j["styled"]:
            args.append("-d")
        if j["flt"] != "-":
            k, v = j["flt"].split(":")
            args += {"link": ["-f", v], "fee": ["-F", v]}[k]
        if j["src"] == "file":
            return core.run_cli([j["path"]] + args, timeout=120)
        return core.run_cli(args, stdin_bytes=j["data"], timeout=120)
    res = core.par_map(work, jobs)
    mlines = ["%s %s %s %s" % (j["which"], j["src"], j["flt"], j["data"].hex().upper()) for j in jobs]
    model = core.run_lines(core.FPMODEL, "view", mlines, shards=core.NCPU)
    distinct, samples = set(), []
    unstyled = {}
    for j, (rc, so, se, dt), lm in zip(jobs, res, model):
        se = se.decode("utf8", "replace")
        desc = {"stream": "views", "view": j["which"], "styled": j["styled"], "filter": j["flt"], "input": j["src"], "kind": j["kind"],
                "input_hex": j["data"].hex().upper() if len(j["data"]) <= 1500 else "(stream %d of seed %d, %d bytes)" % (j["s"], seed, len(j["data"]))}
        if "panicked at" in se or not isinstance(rc, int) or rc < 0:
            continue            # crashes are C04's subject
        rows = parse_rows(so.decode("utf8", "replace"))
        unk = parse_unknown(se)
        mt = lm.split(" ") if lm.strip() else []
        m_end = [t for t in mt if t.startswith("END:")]
        m_rows = [t for t in mt if t[0] in "RHW"]
        m_unk = [t for t in mt if t.startswith("U:")]
        distinct.add((j["which"], j["styled"], j["flt"] != "-", j["kind"], len(rows) > 0, bool(m_unk), bool(m_end)))
        bad = [r for r in rows if r.startswith("?:")]
        if bad:
            chk.spec_violations.append(dict(desc, rows=bad[:3], what="a printed row cannot be decoded back into offset, word type, bytes and attributes"))
            continue
        if m_end:
            # the view of a batch ends at a payload that cannot be cut into words: only the rows before it are comparable
            if rows != m_rows[:len(rows)] and rows[:len(m_rows)] != m_rows:
                chk.disagreements.append(dict(desc, impl=rows[:6], model=m_rows[:6], detail="rows before the payload error differ"))
            continue
        if rows != m_rows or unk != m_unk:
            k = next((i for i, (a, b_) in enumerate(zip(rows, m_rows)) if a != b_), min(len(rows), len(m_rows)))
            chk.disagreements.append(dict(desc, first_difference_at_row=k, impl=rows[k:k + 3], model=m_rows[k:k + 3], impl_rows=len(rows), model_rows=len(m_rows),
                                          impl_unknown=unk[:3], model_unknown=m_unk[:3]))
        # independent expectation from the generator's packets
        exp, exp_unk = [], []
        off = 0
        for r, p, ws, fmt in j["pk"]:
            if scangen.matches(j["flt"], r):
                if j["which"] == "rdh":
                    exp.append(oracle_rdh(off, r))
                else:
                    exp.append(oracle_frdh(off, r))
                    step = 16 if r[24] == 0 else 10
                    for i, w in enumerate(ws):
                        t = oracle_word(off + 64 + i * step, w, j["which"] == "data")
                        if t is None:
                            continue
                        (exp_unk if t.startswith("U:") else exp).append(t)
            off += 64 + len(p)
        if rows != exp or unk != exp_unk:
            k = next((i for i, (a, b_) in enumerate(zip(rows, exp)) if a != b_), min(len(rows), len(exp)))
            chk.spec_violations.append(dict(desc, first_difference_at_row=k, shown=rows[k:k + 3], in_the_data=exp[k:k + 3], shown_rows=len(rows), expected_rows=len(exp),
                                            what="a view does not show one row per RDH / word with the offset, bytes and decoded attributes that are in the data"))
        key = (j["s"], j["which"], j["flt"], j["src"])
        if not j["styled"]:
            unstyled[(j["s"], j["which"], j["flt"])] = rows
        else:
            base = unstyled.get((j["s"], j["which"], j["flt"]))
            if base is not None and base != rows:
                chk.spec_violations.append(dict(desc, what="styled and unstyled output carry different content", styled_rows=len(rows), unstyled_rows=len(base)))
        if len(samples) < 4 and rows and j["which"] != "rdh":
            samples.append(dict(desc, rows=rows[:4]))
    shutil.rmtree(tmp, ignore_errors=True)
    chk.add_stream("views", len(jobs), distinct, samples, distribution={"inputs": nin, "runs": len(jobs)})
    chk.cov["rule"] = ("well-framed inputs: (a) arbitrary header values (versions, sizes, FEE ids of layers 0..6, orbits, triggers up to 0xFFFFFFFF, detector-field status "
                       "bits) with payloads of random word sequences -- IHW, TDH / TDT / DDW0 with all flag combinations and lane status in every one of the 28 lanes, CDW, data "
                       "words of every legal id, unknown ids -- in data format 0 or 2, also mixed within one input, 0..15 padding bytes; (b) conforming streams. x view rdh / "
                       "its-readout-frames / its-readout-frames-data x styled / -d x link or FEE filter x file / pipe. Every printed row is parsed back into a record and compared "
                       "(1) with the model's row list, (2) with an independent decoding of the input bytes at the shown offset (one row per RDH and word, in order), (3) styled "
                       "with unstyled. distinct = class tuples")
    return core.finish(chk, TRUSTED)
