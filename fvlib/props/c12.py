"""C12 -- payloads are cut into words correctly; padding is never a word."""
import random

from .. import core, canon, itsgen, rawdata

TRUSTED = [
    "Coq 8.16.1 kernel (coqc); no native_compute",
    "axioms: none (Print Assumptions: Closed under the global context for every C12 theorem)",
    "gen/extract_facts.py: padding limits 15/9, slot sizes 16/10, format-detection window (bytes 10..15) pinned from the current source",
    "extraction with ExtrOcamlBasic only; OCaml driver ocaml/driver.ml",
    "fp_harness streams `prep` (preprocess_payload) and `link` (LinkValidator run on the calling thread)",
    "canonicalisation of error messages to (offset, code, quoted bytes) (fvlib/canon.py)",
    "the hand-written control flow of Model/Payload.v and Model/CdpRunning.v between the sampled correspondence points",
]


def rand_word(rng, last=False):
    b = bytearray(rng.randrange(256) for _ in range(10))
    if rng.random() < 0.3:
        b[9] = rng.choice([0xE0, 0xE8, 0xF0, 0xE4, 0x20, 0x46, 0x5E])
    return bytes(b)


def classify_f12_f13(fmt, ws, p):
    """known-finding classes of a (format, words, padding) description; None = the guards of
    theorems C12_fmt2 / C12_fmt0 hold"""
    body = b"".join(ws)
    if fmt == 2:
        full = body + b"\xFF" * p
        if len(full) >= 16 and full[10:16] == b"\x00" * 6:
            return "F12-format-detected-from-payload-bytes"
        if body and body[-1] == 0xFF:
            # the finding is about trailing 0xFF runs of MORE than 9 bytes (word end + padding): a shorter run is never cut off by
            # the unchanged code, so a word lost there is a new violation (seeds C12-F / C12-G)
            t = len(body) - len(body.rstrip(b"\xFF"))
            if t + p > 9:
                return "F13-last-word-ends-in-FF"
        return None
    return None


def gen_prep_cases(tier, rng):
    """(line, description) ; description = (fmt, words, p, slotpad_ok)"""
    cases = []
    counts = list(range(0, 40)) + [99, 100, 101, 159, 160, 161, 625, 700]
    if tier == "quick":
        counts = list(range(0, 12)) + rng.sample(counts[12:], 8)
    for fmt in (2, 0):
        for n in counts:
            pads = range(0, 41) if n < 6 or tier != "quick" else [0, 1, 5, 6, 9, 10, 14, 15, 16, 17, 31, 40]
            for p in pads:
                ws = [rand_word(rng) for _ in range(n)]
                if ws and rng.random() < 0.7 and ws[-1][9] == 0xFF:
                    ws[-1] = ws[-1][:9] + b"\xF0"
                if fmt == 2:
                    pl = b"".join(ws) + b"\xFF" * p
                else:
                    pl = b"".join(w + b"\x00" * 6 for w in ws) + b"\xFF" * p
                cases.append((itsgen.hexs(pl) or "-", (fmt, ws, p, True)))
    # format 0 with non-zero slot padding in the first slot (finding F12b), later slots, and
    # format 2 whose bytes 10..15 are zero (F12a), last byte 0xFF (F13)
    for _ in range(60 if tier == "quick" else 600):
        n = rng.randrange(2, 20)
        ws = [rand_word(rng) for _ in range(n)]
        k = rng.randrange(n)
        pl = b"".join(w + (b"\x00" * 5 + b"\x01" if i == k else b"\x00" * 6) for i, w in enumerate(ws))
        cases.append((itsgen.hexs(pl), (0, ws, 0, k != 0)))
        ws2 = list(ws)
        ws2[1] = b"\x00" * 6 + ws2[1][6:]
        cases.append((itsgen.hexs(b"".join(ws2) + b"\xFF" * rng.randrange(0, 16)), (2, ws2, None, True)))
        ws3 = list(ws)
        ws3[-1] = ws3[-1][:9] + b"\xFF"
        p = rng.randrange(0, 16)
        cases.append((itsgen.hexs(b"".join(ws3) + b"\xFF" * p), (2, ws3, p, True)))
    # raw random payloads of every small length (model vs code only)
    for n in list(range(0, 70)) + [rng.randrange(70, 3000) for _ in range(40 if tier == "quick" else 2000)]:
        pl = bytes(rng.choice([0, 0xFF, rng.randrange(256)]) for _ in range(n))
        cases.append((itsgen.hexs(pl) or "-", None))
    return cases


def expected_words(desc):
    fmt, ws, p, slotpad_ok = desc
    if p is not None and p > 15:
        return "err"
    if not ws:
        return "ok 0 -"
    return "ok %d %s" % (16 if fmt == 0 else 10, ",".join(itsgen.hexs(w) for w in ws))


def run(tier, seed):
    chk = core.Check("C12", tier, seed)
    rng = random.Random(seed)
    gen = core.step_gen()
    chk.cov["gen"] = gen["log"]
    chk.cov["gen_facts"] = {k: v for k, v in gen["facts"].items() if k in ("ff_padding_max", "ff_padding_word_threshold", "pin_chunk_sizes", "pin_detect_format")}
    chk.proof = core.step_coq("Props/C12.v")
    core.step_model()
    h = core.step_harness()
    if not h["ok"]:
        chk.disagreements.append({"stream": "build", "detail": "harness does not build against /repo", "log": h["log"][-1500:]})
        return core.finish(chk, TRUSTED)
    deep = tier == "thorough" or not chk.proof["ok"]
    # ------------------------------------------------------------ stream 1: preprocess_payload
    cases = gen_prep_cases("thorough" if deep else "quick", rng)
    lines = [c[0] for c in cases]
    impl = core.run_lines(core.HARNESS_BIN, "prep", lines)
    model = core.run_lines(core.FPMODEL, "prep", lines)
    distinct = set()
    dist = {"fmt2": 0, "fmt0": 0, "raw": 0, "too_much_padding": 0, "known_class": 0}
    samples = []
    for (line, desc), li, lm in zip(cases, impl, model):
        if li.startswith("PANIC") or li.startswith("DIED"):
            chk.spec_violations.append({"stream": "prep", "payload": line[:400], "impl": li[:200], "what": "preprocess_payload panicked"})
            continue
        if li != lm:
            chk.disagreements.append({"stream": "prep", "payload": line[:600], "impl": li[:300], "model": lm[:300]})
        nwords = 0 if li in ("err", "ok 0 -") else li.count(",") + 1
        if desc is None:
            dist["raw"] += 1
            distinct.add(("raw", li[:5], min(nwords, 50)))
            continue
        fmt, ws, p, slotpad_ok = desc
        dist["fmt%d" % fmt] += 1
        distinct.add((fmt, len(ws) if len(ws) < 50 else 50, p, li[:5]))
        if p is not None and p > 15:
            dist["too_much_padding"] += 1
        cls = None
        if fmt == 2:
            if p is None:
                cls = "F12-format-detected-from-payload-bytes"
            else:
                cls = classify_f12_f13(fmt, ws, p)
        elif ws and not slotpad_ok:
            cls = "F12-format-detected-from-payload-bytes"
        exp = expected_words((fmt, ws, p if p is not None else 0, slotpad_ok))
        if li != exp:
            v = {"stream": "prep", "format": fmt, "words": len(ws), "ff_padding": p, "payload": line[:600],
                 "impl": li[:300], "spec": exp[:300], "class": cls,
                 "what": "payload not cut into the words its data format prescribes"}
            chk.spec_violations.append(v)
            if cls:
                dist["known_class"] += 1
        if len(samples) < 4 and ws and len(ws) < 4:
            samples.append({"format": fmt, "ff_padding": p, "payload": line, "impl": li, "model": lm, "spec": exp})
    chk.add_stream("prep", len(cases), distinct, samples, distribution=dist)

    # ------------------------------------------------------------ stream 2: packets through LinkValidator
    W_IHW = itsgen.ihw()
    lcases = []
    meta = []
    npk = 400 if deep else 60
    for _ in range(npk):
        fmt = rng.choice([0, 2])
        n = rng.randrange(1, 30)
        # a word list that is mostly legal: IHW TDH data.. TDT ; with a wrong id at a chosen index
        ws = [W_IHW, itsgen.tdh(orbit=7)] + [itsgen.data_word(0x40 + rng.randrange(7), bytes(rng.randrange(256) for _ in range(9))) for _ in range(n)] + [itsgen.tdt(1)]
        k = rng.randrange(len(ws))
        bad = bytearray(ws[k])
        bad[9] = rng.choice([0x01, 0x99, 0xAB, 0x3F])
        ws[k] = bytes(bad)
        ff = None if fmt == 2 else 0
        r1, p1 = itsgen.packet(ws, fmt=fmt, ff=ff, orbit=7, fee=0x502A, pages=0)
        if rng.random() < 0.35:
            # the header-size byte of the RDH0 claims something else than 64 (reported by the RDH sanity check at the RDH position): the
            # payload still starts 64 bytes behind the RDH -- that is where the reader cut it -- and the words keep their true offsets
            r1 = bytearray(r1)
            r1[1] = rng.choice([0x00, 0x20, 0x3F, 0x41, 0x50, 0x80, 0xFF])
            r1 = bytes(r1)
        cd = itsgen.layout([(r1, p1)], start=rng.choice([0, 0x40, 0x1000, 0xABCDE0]))
        mode = rng.choice(["sanity", "all"])
        lcases.append(rawdata.link_line("%s its - -" % mode, cd))
        meta.append(("bad-id", fmt, k, len(ws), cd[0][0]))
    # prefix packets that leave the protocol FSM in each of its waiting states
    PREFIXES = [
        [],                                                                   # initial
        [W_IHW, itsgen.tdh(orbit=7), itsgen.data_word(0x41), itsgen.tdt(0)],   # c_IHW (continuation pending)
        [W_IHW, itsgen.tdh(orbit=7), itsgen.data_word(0x41), itsgen.tdt(1)],   # after a complete packet
        [W_IHW, itsgen.tdh(orbit=7, no_data=1)],                               # after a no-data TDH
        [W_IHW, itsgen.tdh(orbit=7), itsgen.data_word(0x41)],                  # inside the data phase
        [W_IHW],                                                              # TDH expected
        [W_IHW, itsgen.tdh(orbit=7), itsgen.tdt(0), W_IHW],                    # c_TDH
    ]
    for it in range(npk):
        # too much padding, followed by a packet that must be judged from the initial state
        fmt = rng.choice([0, 2])
        p = rng.randrange(16, 60)
        n = rng.randrange(0, 12)
        mode = rng.choice(["sanity", "all"])
        pre = PREFIXES[it % len(PREFIXES)]
        pk = []
        if pre:
            pk.append(itsgen.packet(pre, fmt=fmt, ff=None if fmt == 2 else 0, orbit=7, pages=0))
        ws = [W_IHW, itsgen.tdh(orbit=7)] + [itsgen.data_word(0x41) for _ in range(n)]
        if rng.random() < 0.5:
            ws = [itsgen.data_word(0x41) for _ in range(n + 1)]
        pk.append(itsgen.packet(ws, fmt=fmt, ff=p, orbit=7, pages=len(pk)))
        ws2 = [W_IHW, itsgen.tdh(orbit=7, continuation=rng.randrange(2)), itsgen.data_word(0x42), itsgen.tdt(1)]
        pk.append(itsgen.packet(ws2, fmt=fmt, ff=None if fmt == 2 else 0, orbit=7, pages=len(pk)))
        cd = itsgen.layout(pk)
        lcases.append(rawdata.link_line("%s its - -" % mode, cd))
        meta.append(("padding", fmt, p, it % len(PREFIXES), cd[-1][0], cd[-2][0]))
        # reference: the last packet alone
        lcases.append(rawdata.link_line("%s its - -" % mode, [cd[-1]]))
        meta.append(("padding-ref", fmt, p, n, cd[-1][0], 0))
    impl = [canon.canon_link(x) for x in core.run_lines(core.HARNESS_BIN, "link", lcases)]
    model = [x.strip() for x in core.run_lines(core.FPMODEL, "link", lcases)]
    d2 = set()
    samples2 = []
    for i, (c, m, li, lm) in enumerate(zip(lcases, meta, impl, model)):
        if li == "PANIC":
            chk.spec_violations.append({"stream": "link-packets", "case": c[:1500], "what": "validator panicked"})
            continue
        if li != lm:
            chk.disagreements.append({"stream": "link-packets", "case": c[:1500], "impl": li[:600], "model": lm[:600]})
        toks = [] if li == "-" else li.split()
        if m[0] == "bad-id":
            _, fmt, k, n, off = m
            slot = 16 if fmt == 0 else 10
            want = off + 64 + k * slot
            offs = [int(t.split(":")[1], 16) for t in toks]
            d2.add(("bad-id", fmt, k if k < 4 else 4, len(toks) > 0))
            if want not in offs:
                chk.spec_violations.append({"stream": "link-packets", "case": c[:1500], "impl": li[:600],
                                            "spec": "an error at 0x%X (word %d of the payload, slot %d)" % (want, k, slot),
                                            "what": "word with an illegal identifier not reported at its own offset"})
            if len(samples2) < 2:
                samples2.append({"kind": "bad-id", "word_index": k, "format": fmt, "impl": li[:200], "model": lm[:200]})
        elif m[0] == "padding":
            _, fmt, p, n, off2, offp = m
            # messages of the over-padded packet (payload-level: the RDH-level running messages depend on history)
            first = [t for t in toks if offp <= int(t.split(":")[1], 16) < off2 and t.split(":")[2] not in ("10", "11")]
            rest = [t for t in toks if int(t.split(":")[1], 16) > off2]
            ref = " ".join(t for t in ([] if impl[i + 1] == "-" else impl[i + 1].split()) if int(t.split(":")[1], 16) > off2) or "-"
            d2.add(("padding", fmt, p, n))
            if len(first) != 1 or first[0].split(":")[2] != "0":
                chk.spec_violations.append({"stream": "link-packets", "case": c[:1500], "impl": li[:600],
                                            "spec": "exactly one `Payload error following RDH` message for the over-padded packet",
                                            "what": "over-padded payload not reported exactly once / words of it examined"})
            if " ".join(rest) != ("" if ref == "-" else ref):
                chk.spec_violations.append({"stream": "link-packets", "case": c[:1500], "impl": li[:600], "spec": ref[:600],
                                            "what": "packet after an over-padded payload is not judged from the initial state"})
            if len(samples2) < 4:
                samples2.append({"kind": "padding", "ff": p, "format": fmt, "impl": li[:200], "alone": ref[:200]})
    chk.add_stream("link-packets", len(lcases), d2, samples2, distribution={"bad-id": npk, "padding": npk})
    chk.cov["rule"] = ("prep: both formats x word counts (0..39, 99..101, 159..161, 625, 700) x trailing 0xFF runs 0..40, crafted "
                       "F12/F13 classes, random raw payloads of every small length; distinct = (format, #words, padding, verdict). "
                       "link-packets: packets with an illegal identifier at a chosen word index (offset must be reported) and "
                       "over-padded packets followed by a packet that must be judged from the initial state; distinct = class tuples")
    return core.finish(chk, TRUSTED)
