"""C16 -- exit status and error accounting follow the documented contract."""
import os
import random
import re
import shutil
import struct

from .. import core, streams
from . import c06

TRUSTED = [
    "Coq 8.16.1 kernel (coqc); no vm_compute beyond the non-vacuity example; no native_compute",
    "axioms: none (Print Assumptions: Closed under the global context for every C16 theorem)",
    "gen/extract_facts.py: fatal_sets_any_errors_flag (controller.rs run) and the facts of the scanner / collector models",
    "extraction (ExtrOcamlBasic only) + OCaml driver (`cli` stream = the whole-run model run_check); the rebuilt binary",
    "clap argument parsing, the report table and the log line prefixes (parsed, not modelled); custom-checks TOML parsing",
    "with an error cap (-e) or a fatal error the set of messages collected before the stop is schedule dependent: only the documented "
    "bounds are checked there (at most N shown; exit status), not equality with the model",
]

ANSI = re.compile(r"\x1b\[[0-9;]*m")


def shown_of(stderr_text):
    out = []
    fatal = 0
    for line in ANSI.sub("", stderr_text).split("\n"):
        if line.startswith("ERROR "):
            m = re.match(r"ERROR\s+(?:0x([0-9A-Fa-f]+):\s*)?\[E(\d+)\]", line)
            if m:
                out.append("%X.%s" % (int(m.group(1), 16) if m.group(1) else 0, m.group(2)))
            elif re.match(r"ERROR\s+0x([0-9A-Fa-f]+): Payload error following RDH", line):
                out.append("%X.-" % int(re.match(r"ERROR\s+0x([0-9A-Fa-f]+):", line).group(1), 16))
            elif line.startswith("ERROR FATAL") or "FATAL:" in line or "Failed to parse system ID" in line:
                fatal += 1
            elif line.startswith("ERROR Init processing failed"):
                pass
            else:
                out.append("?." + line[6:30])
    return out, fatal


def run(tier, seed):
    chk = core.Check("C16", tier, seed)
    rng = random.Random(seed)
    gen = core.step_gen()
    chk.cov["gen"] = gen["log"]
    chk.cov["gen_facts"] = {k: v for k, v in gen["facts"].items() if k in ("fatal_sets_any_errors_flag", "error_sort_when_muted")}
    chk.proof = core.step_coq("Props/C16.v")
    core.step_model()
    h = core.step_harness()
    b = core.step_cli() if h["ok"] else h
    if not h["ok"] or not b["ok"]:
        chk.disagreements.append({"stream": "build", "detail": "harness / binary does not build against /repo", "log": (h.get("log") or b.get("log", ""))[-1500:]})
        return core.finish(chk, TRUSTED)
    deep = tier == "thorough" or not chk.proof["ok"]
    tmp = core.scratch_dir("c16")
    jobs = []
    ninputs = 30 if deep else 8
    for s in range(ninputs):
        kind = ["clean", "errors", "errors", "fatal-midstream", "unknown-sysid", "non-alice", "errors", "clean"][s % 8]
        _m, per = streams.conforming(rng, nlinks=rng.choice([1, 2, 3]), nhbf=rng.choice([1, 2]), stave_level=False)
        if kind == "errors":
            per = [c06.corrupt(rng, pk, rng.choice([0.1, 0.3, 0.6])) for pk in per]
        cd, _r = c06.place(per, c06.layouts(rng, per)["random-1"])
        data = bytearray(b"".join(r + p for _o, r, p in cd))
        data[4] = 0     # the first RDH0 stays recognisable
        if kind == "fatal-midstream" and len(cd) > 2:
            off = cd[rng.randrange(1, len(cd))][0]
            struct.pack_into("<H", data, off + 8, rng.choice([0, 63, 10065, 0xFFFF]))
        elif kind == "unknown-sysid":
            data[5] = rng.choice([0, 1, 2, 99])
        elif kind == "non-alice":
            data = bytearray(rng.randrange(256) for _ in range(rng.randrange(64, 400)))
            data[1] = 0x13
        data = bytes(data)
        path = os.path.join(tmp, "in%d.raw" % s)
        open(path, "wb").write(data)
        npk = len(cd)
        pht = sum(1 for _o, r, _p in cd if (struct.unpack_from("<I", r, 32)[0] >> 4) & 1)
        for v in range(10 if deep else 6):
            mode = rng.choice([("all", "its"), ("sanity", "its"), ("all", "none"), ("sanity", "none")])
            ee = rng.choice([None, None, rng.randrange(1, 256)])
            opts = {"mute": 0, "cap": 0, "w": None, "cdps": None, "pht": None}
            o = rng.random()
            if v == 0:
                pass                                    # no display option: total == shown
            elif o < 0.2:
                opts["mute"] = 1
            elif o < 0.5:
                opts["w"] = rng.sample([1, 10, 11, 100, 101, 30, 40, 4, 44, 444, 445, 50, 60, 70, 7, 99, 990, 991, 992, 9001, 9002, 12, 110], rng.randrange(1, 5))
            elif o < 0.65:
                opts["cap"] = rng.choice([1, 2, 3, 5, 50])
                if rng.random() < 0.6:
                    opts["w"] = rng.sample([10, 11, 30, 40, 44, 444, 445, 50, 60, 70, 99, 990, 991, 992, 12, 110, 111], rng.randrange(1, 4))
            elif o < 0.9:
                opts["cdps"] = rng.choice([npk, npk + 1, max(0, npk - 1)])
                if rng.random() < 0.5:
                    opts["pht"] = rng.choice([pht, pht + 1])
            jobs.append({"s": s, "kind": kind, "path": path, "data": data, "mode": mode, "ee": ee, "opts": opts, "inp": rng.choice(["file", "pipe"])})
    # targeted -w/-e combinations: from the model's prediction of the error list, list a code whose first message lies
    # beyond the first `cap` messages -- it must still be shown
    binputs = {}
    for j in jobs:
        binputs.setdefault((j["s"], j["mode"]), j)
    bkeys = list(binputs)
    blines = ["%s %s - 0 0 - - - - - %s %s" % (k[1][0], k[1][1], binputs[k]["inp"], binputs[k]["data"].hex().upper()) for k in bkeys]
    for k, lm in zip(bkeys, core.run_lines(core.FPMODEL, "cli", blines, shards=core.NCPU)):
        if not lm.startswith("exit=") or "fatal=1" in lm:
            continue
        ms = [x for x in dict(x.split("=", 1) for x in lm.split(" "))["shown"].split(";") if x]
        codes = [x.split(".")[1] for x in ms]
        for i in range(1, len(codes)):
            if codes[i] != "-" and codes[i] not in codes[:i]:
                bj = binputs[k]
                jobs.append({"s": bj["s"], "kind": bj["kind"] + "+targeted", "path": bj["path"], "data": bj["data"], "mode": bj["mode"], "ee": None,
                             "opts": {"mute": 0, "cap": rng.randrange(1, i + 1), "w": [int(codes[i])], "cdps": None, "pht": None}, "inp": bj["inp"]})
                break
    # unreadable inputs and invalid option combinations
    special = [
        ("missing-file", [os.path.join(tmp, "does_not_exist.raw"), "check", "sanity"], None),
        ("empty-input", ["check", "sanity"], b""),
        ("short-input", ["check", "all", "its"], b"\x07\x40\x2a"),
        ("invalid:sanity-its-stave", ["PATH", "check", "sanity", "its-stave"], None),
        ("invalid:period-without-stave", ["PATH", "check", "all", "its", "-p", "5"], None),
        ("invalid:period-without-check", ["PATH", "view", "rdh", "-p", "5"], None),
        ("invalid:exit-code-0", ["PATH", "check", "sanity", "-E", "0"], None),
        ("invalid:input-stats-missing", ["PATH", "check", "sanity", "-i", os.path.join(tmp, "nope.json")], None),
        ("invalid:input-stats-extension", ["PATH", "check", "sanity", "-i", "EXT"], None),
    ] + [("invalid:input-stats-extension-%s" % e, ["PATH", "check", "sanity", "-i", "EXT:" + e], None)
         for e in ("ndjson", "geojson", "xtoml", "json.bak", "JSON", "toml~", "jsonl", "yaml")]
    # an invalid combination stays invalid whatever valid, orthogonal options accompany it
    extras = [["-m"], ["-E", "3"], ["-e", "2"], ["--filter-its-stave", "L0_12"], ["--its-trigger-period", "5", "--filter-its-stave", "L0_12"],
              ["-m", "-E", "7", "--its-trigger-period", "1", "--filter-its-stave", "L0_12"],
              # ... also the request to write a custom-checks template: a rejected invocation writes NOTHING, anywhere (seed C16-J)
              ["--generate-checks-toml"]]
    for name, args, inp in list(special):
        if name.startswith("invalid:"):
            for k, ex in enumerate(extras):
                if "-p" in args and "--its-trigger-period" in ex:
                    continue
                if "-E" in args and "-E" in ex:
                    continue
                special.append(("%s+%d" % (name, k), args + ex, inp))
    okpath = os.path.join(tmp, "in0.raw")
    extp = os.path.join(tmp, "stats.txt")
    open(extp, "w").write("{}")

    def ext_file(e):
        # an existing file whose extension is neither json nor toml although its name may END in these letters (seed C16-G)
        pth = os.path.join(tmp, "stats." + e)
        if not os.path.exists(pth):
            open(pth, "w").write("{}")
        return pth

    def work(j):
        args = ["check", j["mode"][0]] + ([] if j["mode"][1] == "none" else [j["mode"][1]])
        if j["ee"] is not None:
            args += ["-E", str(j["ee"])]
        o = j["opts"]
        if o["mute"]:
            args.append("-m")
        if o["cap"]:
            args += ["-e", str(o["cap"])]
        if o["w"]:
            args += ["-w"] + [str(x) for x in o["w"]]
        if o["cdps"] is not None or o["pht"] is not None:
            tp = os.path.join(tmp, "cc_%d.toml" % id(j))
            with open(tp, "w") as f:
                if o["cdps"] is not None:
                    f.write("cdps = %d\n" % o["cdps"])
                if o["pht"] is not None:
                    f.write("triggers_pht = %d\n" % o["pht"])
            args += ["-c", tp]
        sp = os.path.join(tmp, "st_%d.json" % id(j))
        sargs = args + ["-S", sp, "-D", "json"]
        if j["inp"] == "file":
            rc, so, se, dt = core.run_cli([j["path"]] + sargs, timeout=120)
        else:
            rc, so, se, dt = core.run_cli(sargs, stdin_bytes=j["data"], timeout=120)
        j["collected"] = None
        if os.path.exists(sp):
            try:
                import json
                e = json.load(open(sp))["error_stats"]
                j["collected"] = e["reported_errors"] + ([e["fatal_error"]] if e["fatal_error"] else []) + e["custom_checks_stats_errors"]
            except Exception:
                pass
            os.remove(sp)
        return rc, ANSI.sub("", so.decode("utf8", "replace")), se.decode("utf8", "replace"), args
    res = core.par_map(work, jobs)
    mlines = []
    for j in jobs:
        o = j["opts"]
        mlines.append("%s %s - %d %d %s %s %s %s - %s %s" % (
            j["mode"][0], j["mode"][1], o["mute"], o["cap"], ",".join(map(str, o["w"])) if o["w"] else "-",
            j["ee"] if j["ee"] is not None else "-", o["cdps"] if o["cdps"] is not None else "-", o["pht"] if o["pht"] is not None else "-",
            j["inp"], j["data"].hex().upper()))
    model = core.run_lines(core.FPMODEL, "cli", mlines, shards=core.NCPU)
    distinct = set()
    samples = []
    for j, (rc, so, se, args), lm in zip(jobs, res, model):
        o = j["opts"]
        desc = {"stream": "cli-contract", "kind": j["kind"], "args": " ".join(a if not a.startswith(tmp) else os.path.basename(a) for a in args), "input": j["inp"],
                "input_hex": j["data"].hex().upper() if len(j["data"]) <= 900 else "(stream %d of seed %d, %d bytes)" % (j["s"], seed, len(j["data"]))}
        if not isinstance(rc, int) or rc < 0 or "panicked at" in se:
            continue    # crashes are C04's subject
        shown, nfatal = shown_of(se)
        mt = re.search(r"Total Errors\s+(\d+)", so)
        total = int(mt.group(1)) if mt else None
        unrec = "Init processing failed" in se
        n = j["ee"]
        distinct.add((j["kind"], rc if rc in (0, 1) else "N", bool(o["mute"]), bool(o["cap"]), bool(o["w"]), o["cdps"] is not None))
        # --- exit status contract
        if unrec:
            if rc == 0:
                chk.spec_violations.append(dict(desc, exit=rc, what="unrecognisable input but exit status 0"))
        else:
            reported = (total or 0) > 0 or nfatal > 0 or len(shown) > 0
            exp = (n if (n is not None and reported) else 0)
            if rc != exp:
                chk.spec_violations.append(dict(desc, exit=rc, expected=exp, total_errors=total, fatal_messages=nfatal,
                                                **{"class": "F11-fatal-error-does-not-set-any-errors-status" if (nfatal > 0 and (total or 0) == 0 and rc == 0) else None},
                                                what="exit status differs from the documented contract (N iff anything was reported, else 0)"))
        # --- accounting
        if not unrec and total is not None:
            if not o["mute"] and not o["cap"] and not o["w"] and nfatal == 0 and total != len(shown):
                chk.spec_violations.append(dict(desc, total_errors=total, messages_shown=len(shown),
                                                what="error total differs from the number of messages shown (no display option active)"))
            if o["mute"] and shown:
                chk.spec_violations.append(dict(desc, messages_shown=shown[:5], what="messages shown although errors are muted"))
            if o["cap"] and len(shown) > o["cap"]:
                chk.spec_violations.append(dict(desc, cap=o["cap"], messages_shown=len(shown), what="more messages shown than the error cap"))
            if o["w"]:
                bad = [x for x in shown if x.split(".")[1] not in [str(c) for c in o["w"]]]
                if bad:
                    chk.spec_violations.append(dict(desc, listed=o["w"], shown_but_not_listed=bad[:5], what="a message whose code is not listed passed the error-code filter"))
            if (o["cap"] or o["w"]) and not o["mute"] and j.get("collected") is not None and nfatal == 0:
                # what must be shown, from the messages the run itself collected (statistics file): listed ones, first `cap`
                coll = []
                for m_ in j["collected"]:
                    mm_ = re.match(r"(?:0x([0-9A-Fa-f]+):\s*)?\[E(\d+)\]", m_)
                    if mm_:
                        coll.append("%X.%s" % (int(mm_.group(1), 16) if mm_.group(1) else 0, mm_.group(2)))
                    elif "Payload error following RDH" in m_:
                        coll.append("%X.-" % int(m_.split(":")[0], 16))
                if o["w"]:
                    coll = [x for x in coll if x.split(".")[1] in [str(c) for c in o["w"]]]
                if o["cap"]:
                    coll = coll[:o["cap"]]
                if coll != shown:
                    chk.spec_violations.append(dict(desc, expected_shown=coll[:8], shown=shown[:8],
                                                    what="shown messages are not the listed ones among those collected, in order, up to the cap"))
        # --- model vs code (deterministic runs only)
        if lm.startswith("exit=") and not o["cap"] and nfatal == 0 and "fatal=1" not in lm and not unrec:
            mm = dict(x.split("=", 1) for x in lm.split(" "))
            ms = [x for x in mm["shown"].split(";") if x]
            if str(rc) != mm["exit"] or (total is not None and str(total) != mm["total"]) or sorted(ms) != sorted(shown):
                chk.disagreements.append(dict(desc, impl={"exit": rc, "total": total, "shown": shown[:12]}, model=lm[:400]))
            elif o["w"]:
                # with a code filter, the listed messages of the unfiltered model run must all be shown
                pass
        elif lm.startswith("UNRECOGNISED") != unrec and not lm.startswith("SHORT"):
            chk.disagreements.append(dict(desc, impl={"exit": rc, "unrecognised": unrec}, model=lm[:200]))
        if len(samples) < 4 and shown and (o["w"] or o["cdps"] is not None):
            samples.append(dict(desc, exit=rc, total=total, shown=shown[:6], model=lm[:160]))
    # the filter must not LOSE listed messages: compare -w runs with the unfiltered run of the same input/mode
    base = {}
    for j, (rc, so, se, args) in zip(jobs, res):
        o = j["opts"]
        if not o["mute"] and not o["cap"] and not o["w"] and o["cdps"] is None and o["pht"] is None:
            base.setdefault((j["s"], j["mode"]), shown_of(se)[0])
    for j, (rc, so, se, args) in zip(jobs, res):
        o = j["opts"]
        if o["w"] and not o["cap"] and (j["s"], j["mode"]) in base and j["kind"] not in ("fatal-midstream",):
            want = sorted(x for x in base[(j["s"], j["mode"])] if x.split(".")[1] in [str(c) for c in o["w"]])
            got = sorted(shown_of(se)[0])
            if want != got:
                chk.spec_violations.append({"stream": "cli-contract", "args": " ".join(args[-8:]), "listed": o["w"], "expected_shown": want[:8], "shown": got[:8],
                                            "input": "(stream %d of seed %d)" % (j["s"], seed),
                                            "what": "with an error-code filter not exactly the messages with the listed codes are shown"})
    # special cases
    sj = []
    for name, args, stdin in special:
        a = [okpath if x == "PATH" else (extp if x == "EXT" else (ext_file(x[4:]) if x.startswith("EXT:") else x)) for x in args]
        sp = os.path.join(tmp, "sp_%s.json" % name.replace(":", "_"))
        sj.append((name, a + ["-S", sp, "-D", "json"], stdin, sp))

    def swork(x):
        name, a, stdin, sp = x
        # every special case runs in its own empty working directory: whatever appears there was written by the run
        wd = os.path.join(tmp, "wd_%s" % name.replace(":", "_").replace("+", "_"))
        os.makedirs(wd, exist_ok=True)
        rc, so, se, dt = core.run_cli(a, stdin_bytes=stdin, timeout=60, cwd=wd)
        left = sorted(os.listdir(wd))
        return rc, so, se, (os.path.exists(sp) or bool(left))
    for (name, a, stdin, sp), (rc, so, se, wrote) in zip(sj, core.par_map(swork, sj)):
        distinct.add(("special", name, rc if rc in (0, 1, 2) else "other"))
        if "panicked at" in se.decode("utf8", "replace") or not isinstance(rc, int) or rc < 0:
            if name.startswith("invalid"):
                # an invalid combination must be REJECTED (non-zero status before any output); ending in a crash is not a rejection
                chk.spec_violations.append({"stream": "cli-contract", "case": name, "args": " ".join(os.path.basename(x) if x.startswith(tmp) else x for x in a), "exit": rc,
                                            "stdout": so.decode("utf8", "replace")[:200], "stats_file_written": wrote,
                                            "what": "invalid option combination not rejected: the run went on and crashed"})
            continue
        if rc == 0:
            chk.spec_violations.append({"stream": "cli-contract", "case": name, "args": " ".join(os.path.basename(x) if x.startswith(tmp) else x for x in a), "exit": rc,
                                        "what": "unreadable input / invalid option combination accepted with exit status 0"})
        if name.startswith("invalid") and (wrote or so.strip()):
            chk.spec_violations.append({"stream": "cli-contract", "case": name, "stats_file_written": wrote, "stdout": so.decode("utf8", "replace")[:200],
                                        "what": "output written although the option combination is invalid"})
    # ---- the start-up validation: model (Model/Args.v, extracted) vs the binary on option combinations, valid and invalid
    def args_line(a):
        """command-line arguments (after the input path) -> the model's description of the combination"""
        ck, tg, per, ex, sf = "-", "none", "-", "-", "-"
        if "check" in a:
            i = a.index("check")
            ck = a[i + 1]
            if i + 2 < len(a) and a[i + 2] in ("its", "its-stave"):
                tg = "its" if a[i + 2] == "its" else "stave"
        for flag in ("-p", "--its-trigger-period"):
            if flag in a:
                per = a[a.index(flag) + 1]
        if "-E" in a:
            ex = a[a.index("-E") + 1]
        if "-i" in a:
            pth = a[a.index("-i") + 1]
            base = os.path.basename(pth)
            if not os.path.isfile(pth):
                sf = "missing"
            elif "." not in base.lstrip("."):
                sf = "noext"
            else:
                sf = "ext:" + base.rsplit(".", 1)[1].encode().hex().upper()
        return "%s %s %s %s %s" % (ck, tg, per, ex, sf)
    valid_extra = [["check", "all", "its-stave", "--its-trigger-period", "7", "--filter-its-stave", "L0_12"], ["check", "sanity", "its", "-E", "9"],
                   ["view", "rdh"], ["check", "all", "-E", "255", "-m"], ["check", "sanity", "-i", "EXT:json"], ["check", "sanity", "-i", "EXT:toml"]]
    aj = [(name, a) for (name, a, stdin, sp) in sj if stdin is None and a and a[0] == okpath]
    for k, extra in enumerate(valid_extra):
        aj.append(("valid-%d" % k, [okpath] + [ext_file(x[4:]) if x.startswith("EXT:") else x for x in extra] + ["-S", os.path.join(tmp, "av_%d.json" % k), "-D", "json"]))
    alines = [args_line(a[1:]) for _n, a in aj]
    amodel = core.run_lines(core.FPMODEL, "args", alines)

    def awork(x):
        rc, so, se, dt = core.run_cli(x[1], timeout=60)
        # rejected by validate_args (`Invalid config`, exit 1) or already by the argument parser (usage error, exit 2: e.g. a trigger
        # period without the stave filter it requires)
        return rc, ("Invalid config" in se.decode("utf8", "replace")) or rc == 2, so
    for (name, a), line, lm, (rc, rejected, so) in zip(aj, alines, amodel, core.par_map(awork, aj)):
        distinct.add(("args", line.split()[0], line.split()[1], lm))
        if (lm == "rej") != rejected:
            chk.disagreements.append({"stream": "args", "case": name, "args": " ".join(os.path.basename(x) if x.startswith(tmp) else x for x in a[1:]),
                                      "model_line": line, "model": lm, "impl": "rejected (Invalid config)" if rejected else "accepted (exit %s)" % rc})
        if lm == "rej" and (rc == 0 or so.strip()):
            chk.spec_violations.append({"stream": "args", "case": name, "args": " ".join(os.path.basename(x) if x.startswith(tmp) else x for x in a[1:]), "exit": rc,
                                        "stdout": so.decode("utf8", "replace")[:200],
                                        "what": "an option combination that is invalid by the contract (C16_invalid_combinations_rejected) is not rejected before output"})
    # ---- a statistics file that disagrees with the run in the error section only: a reported mismatch -> exit N, muted or not
    import json as _json
    mj = []
    for s in range(ninputs):
        jb = next((j for j in jobs if j["s"] == s), None)
        if jb is None or jb["kind"] in ("non-alice", "fatal-midstream", "unknown-system-id"):
            continue
        mj.append({"s": s, "kind": jb["kind"], "data": jb["data"], "mode": rng.choice([["check", "sanity"], ["check", "all"], ["check", "all", "its"]]),
                   "ee": rng.choice([3, 57, 255]), "edit": rng.choice(["total_errors", "unique_error_codes"])})
    mj = mj[: (24 if deep else 6)]

    def mwork(x):
        ip = os.path.join(tmp, "m%d.raw" % x["s"])
        open(ip, "wb").write(x["data"])
        sp = os.path.join(tmp, "m%d.json" % x["s"])
        rc0, _so, se0, _dt = core.run_cli([ip] + x["mode"] + ["-S", sp, "-D", "json"], timeout=60)
        if not os.path.exists(sp):
            return None
        st = _json.load(open(sp))
        es = st.get("error_stats")
        if not isinstance(es, dict) or "total_errors" not in es:
            return None
        if x["edit"] == "total_errors":
            es["total_errors"] = int(es["total_errors"]) + 1
        else:
            es["unique_error_codes"] = list(es.get("unique_error_codes") or []) + ["999"]
        sp2 = os.path.join(tmp, "m%de.json" % x["s"])
        _json.dump(st, open(sp2, "w"))
        out = []
        for extra in ([], ["-m"]):
            rc, _so, se, _dt = core.run_cli([ip] + x["mode"] + ["-i", sp2, "-E", str(x["ee"])] + extra, timeout=60)
            out.append((rc, se.decode("utf8", "replace")))
        return out
    nmm = 0
    for x, r in zip(mj, core.par_map(mwork, mj)):
        if r is None:
            continue
        nmm += 1
        for extra, (rc, se) in zip(("", "-m"), r):
            distinct.add(("stats-mismatch", x["edit"], extra, rc if rc in (0, 1) else "N"))
            if "panicked at" in se:
                continue
            if rc != x["ee"]:
                chk.spec_violations.append({"stream": "cli-contract", "case": "stats-mismatch%s" % (" muted" if extra else ""), "mode": " ".join(x["mode"]), "edited": x["edit"],
                                            "configured_exit": x["ee"], "exit": rc, "input": "(stream %d of seed %d, %s)" % (x["s"], seed, x["kind"]),
                                            "stderr_tail": se[-300:],
                                            "what": "a statistics file that disagrees with the run in its error section is not answered with the configured exit status"})
    # ---- the modes that print no report (views; filtered data to stdout): the exit status still follows what was collected
    rj = []
    for s in range(ninputs):
        jb = next((j for j in jobs if j["s"] == s), None)
        if jb is None or jb["kind"] in ("non-alice",):
            continue
        data = jb["data"]
        variants = [("as-is", data)]
        if len(data) > 200:
            variants.append(("cut-in-last-payload", data[:len(data) - rng.randrange(1, 9)]))
        for vname, d in variants:
            for mode in (["view", "rdh"], ["view", "its-readout-frames"], ["view", "its-readout-frames-data"], ["-f", str(d[12])], ["-f", str(d[12]), "-o", "OUTFILE"],
                         ["view", "rdh", "-c", "TOML"]):
                if not deep and rng.random() < 0.5:
                    continue
                rj.append({"s": s, "kind": jb["kind"] + "/" + vname, "data": d, "mode": mode, "ee": rng.choice([3, 57, 255]), "inp": rng.choice(["file", "pipe"]), "id": len(rj)})

    def rwork(x):
        ip = os.path.join(tmp, "r%d.raw" % x["id"])
        open(ip, "wb").write(x["data"])
        sp = os.path.join(tmp, "r%d.json" % x["id"])
        toml = os.path.join(tmp, "r%d.toml" % x["id"])
        open(toml, "w").write("cdps = %d\n" % 1000003)          # a custom check that cannot hold
        args = [a if a != "OUTFILE" else os.path.join(tmp, "r%d.out" % x["id"]) for a in x["mode"]]
        args = [a if a != "TOML" else toml for a in args] + ["-E", str(x["ee"]), "-S", sp, "-D", "json"]
        if x["inp"] == "file":
            rc, so, se, _ = core.run_cli([ip] + args, timeout=60)
        else:
            rc, so, se, _ = core.run_cli(args, stdin_bytes=x["data"], timeout=60)
        st = None
        if os.path.exists(sp):
            try:
                st = _json.load(open(sp))
            except Exception:
                st = None
        return rc, se.decode("utf8", "replace"), st
    rres = core.par_map(rwork, rj)
    # the report-less run model (Model/SystemView.v run_reportless, extracted): exit status predicted from the input alone
    def rl_line(x):
        mode = x["mode"]
        kind = {"rdh": "rdh", "its-readout-frames": "frames", "its-readout-frames-data": "data"}.get(mode[1], None) if mode[0] == "view" else "write"
        flt = "-" if mode[0] == "view" else "link:%s" % mode[1]
        cdps = "1000003" if "TOML" in mode else "-"
        return "%s %s %s %d %s %s" % (kind, x["inp"], flt, x["ee"], cdps, x["data"].hex().upper() or "-")
    rmodel = core.run_lines(core.FPMODEL, "reportless", [rl_line(x) for x in rj], shards=core.NCPU) if rj else []
    for x, (rc, se, st), lm in zip(rj, rres, rmodel):
        if isinstance(rc, int) and rc >= 0 and "panicked at" not in se and lm.startswith("exit="):
            mm = dict(y.split("=", 1) for y in lm.split(" "))
            # a run that stopped on a fatal error is compared on the exit status only (what is counted after the stop depends on the schedule)
            if str(rc) != mm["exit"]:
                chk.disagreements.append({"stream": "cli-contract", "mode": " ".join(x["mode"]) + " -E %d" % x["ee"], "input": x["inp"], "input_kind": x["kind"],
                                          "impl_exit": rc, "model": lm[:120], "input_hex": x["data"].hex().upper()[:3000]})
        elif isinstance(rc, int) and rc >= 0 and lm.startswith("UNRECOGNISED") != ("Init processing failed" in se) and not lm.startswith("SHORT"):
            chk.disagreements.append({"stream": "cli-contract", "mode": " ".join(x["mode"]), "impl_exit": rc, "model": lm[:120], "input_kind": x["kind"]})
    for x, (rc, se, st) in zip(rj, rres):
        if "panicked at" in se or not isinstance(rc, int) or rc < 0 or "Init processing failed" in se or st is None:
            continue
        es = st.get("error_stats", {})
        nerr = es.get("total_errors", 0) or 0
        fatal = es.get("fatal_error") is not None
        want = x["ee"] if (nerr > 0 or fatal) else 0
        distinct.add(("report-less", " ".join(a for a in x["mode"] if not a.isdigit())[:24], x["kind"].split("/")[1], nerr > 0, fatal))
        if rc != want:
            chk.spec_violations.append({"stream": "cli-contract", "mode": " ".join(x["mode"]) + " -E %d" % x["ee"], "input": x["inp"], "input_kind": x["kind"],
                                        "input_hex": x["data"].hex().upper() if len(x["data"]) <= 3000 else "(stream %d of seed %d, %s)" % (x["s"], seed, x["kind"]),
                                        "collected_total_errors": nerr, "collected_fatal": fatal, "exit": rc, "expected_exit": want,
                                        "what": "exit status is not the configured any-errors status although an error / fatal error was collected "
                                                "(or is not 0 although none was), in a mode that prints no report"})
    shutil.rmtree(tmp, ignore_errors=True)
    chk.add_stream("cli-contract", len(jobs) + len(sj) + len(rj), distinct, samples, distribution={"inputs": ninputs, "runs": len(jobs), "special_cases": len(sj), "report_less_runs": len(rj), "stats_mismatch_inputs": nmm})
    chk.cov["rule"] = ("inputs: clean / corrupted (k errors) / mid-stream fatal offset / unknown system id / non-ALICE bytes; options: -E n, -m, "
                       "-w code lists incl. prefixes of each other (1,10,100,4,44,444), -e around small counts, custom checks cdps / triggers_pht "
                       "at truth and truth+-1; file and pipe; plus missing file, empty and short input and every invalid option combination. "
                       "Checked: exit status vs the decision table, total == shown without display options, mute / cap / filter semantics "
                       "(incl. nothing listed is lost vs the unfiltered run), no output before rejection; whole-run model vs binary where the "
                       "run is deterministic; the three views, filtered data to stdout / to a file and a view with a failing custom check, each with -E n on the inputs "
                       "as they are and cut inside the last payload: exit status n iff the statistics written by the run count an error or a fatal error. "
                       "distinct = class tuples")
    return core.finish(chk, TRUSTED)
