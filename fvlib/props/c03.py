"""C03 -- scanning follows the RDH chain exactly in every input mode."""
import random

from .. import core, scangen, rawdata

TRUSTED = [
    "Coq 8.16.1 kernel (coqc); vm_compute for witnesses and the batch constant; no native_compute",
    "axioms: none (Print Assumptions: Closed under the global context for every C03 theorem)",
    "gen/extract_facts.py: offset window, layer/stave filter mask, batch size CAP, and the structural fact "
    "`cdp_offset_sampled_after` (where load_cdp samples the packet offset) are read from the current sources",
    "extraction with ExtrOcamlBasic only; OCaml driver ocaml/driver.ml (streams scan / scanfixed, CRC-32 of bytes)",
    "fp_harness `scan` stream: the real InputScanner + spawn_reader over io::BufReader<File> (temporary file) and over "
    "StdInReaderSeeker<Stdin> (child process); results compared through CRC-32 of header+payload bytes and of the decoded field list",
    "the independent chain walk and header decoding of fvlib/scangen.py (the specification side of the comparison)",
    "reader model: a file may be positioned past its end, a pipe seek is read-and-discard (bufreader_wrapper.rs, stdin_reader.rs)",
]


def gen_cases(tier, rng):
    """-> [(line, kind, pkts or None, flt, skip)]"""
    cases = []
    counts = [1, 2, 3, 5, 99, 100, 101, 199, 200, 201, 300]
    reps = 1
    if tier == "quick":
        counts = [1, 2, 3, 7, 99, 100, 101, 200, 201]
    else:
        reps = 6
        counts += [400, 1000]
    for _ in range(reps):
        for n in counts:
            pkts, ids = scangen.rand_stream(rng, n, big=(n < 20))
            data = scangen.serialize(pkts)
            for src in ("file", "pipe"):
                for skip in (0, 1):
                    flt = scangen.pick_filter(rng, ids)
                    cases.append((scangen.hexline(src, flt, skip, data), "wellframed", pkts, flt, skip))
    # long runs of packets that do not match the filter (the property: any packet count, 10^5): one matching packet, a run of
    # 60 000 (thorough: 100 000) header-only packets of another link, matching packets again; also a filter value that is absent
    nlong = 60000 if tier == "quick" else 100000
    ra = rawdata.mk_rdh(fee=0x1003, link=3, payload_len=0, stop=1, pages=0)
    rb = rawdata.mk_rdh(fee=0x2011, link=7, payload_len=0, stop=1, pages=0)
    longp = [(ra, b"")] + [(rb, b"")] * nlong + [(ra, b""), (rb, b""), (ra, b"")]
    longd = scangen.serialize(longp)
    for src, flt, skip in (("file", "link:3", 1), ("pipe", "fee:4099", 0), ("file", "link:9", 1)):
        cases.append((scangen.hexline(src, flt, skip, longd), "long-run", longp, flt, skip))
    nrand = 60 if tier == "quick" else 1500
    for _ in range(nrand):
        n = rng.choice([1, 2, 3, 4, 6, 10, 30])
        pkts, ids = scangen.rand_stream(rng, n, big=True)
        data = scangen.serialize(pkts)
        flt = scangen.pick_filter(rng, ids)
        cases.append((scangen.hexline(rng.choice(["file", "pipe"]), flt, rng.randrange(2), data), "wellframed", pkts, flt, None))
    # malformed: truncated, inconsistent offsets, random (model vs code only)
    for _ in range(nrand):
        n = rng.choice([1, 2, 3, 5, 12])
        pkts, ids = scangen.rand_stream(rng, n)
        data = bytearray(scangen.serialize(pkts))
        kind = rng.choice(["truncated", "bad-offset", "bad-memsize", "random"])
        if kind == "truncated":
            data = data[:rng.randrange(8, len(data) + 1)]
        elif kind in ("bad-offset", "bad-memsize"):
            # pick a packet and change its offset_to_next / memory_size
            k = rng.randrange(n)
            off = sum(64 + len(p) for _, p in pkts[:k])
            pos = off + (8 if kind == "bad-offset" else 10)
            v = rng.choice([0, 1, 63, 64, 65, 10064, 10065, 0xFFFF, rng.randrange(65536)])
            data[pos] = v & 0xFF
            data[pos + 1] = v >> 8
        else:
            data = bytearray(rng.randrange(256) for _ in range(rng.randrange(8, 400)))
            if rng.random() < 0.5 and len(data) >= 12:
                data[8] = 64 + rng.randrange(60)
                data[9] = 0
        flt = scangen.pick_filter(rng, ids)
        cases.append((scangen.hexline(rng.choice(["file", "pipe"]), flt, rng.randrange(2), bytes(data)), kind, None, flt, None))
    return cases


def fix_skip(cases):
    out = []
    for line, kind, pkts, flt, skip in cases:
        if skip is None:
            skip = int(line.split()[2])
        out.append((line, kind, pkts, flt, skip))
    return out


def run(tier, seed):
    chk = core.Check("C03", tier, seed)
    rng = random.Random(seed)
    gen = core.step_gen()
    chk.cov["gen"] = gen["log"]
    chk.cov["gen_facts"] = {k: v for k, v in gen["facts"].items()
                            if k in ("offset_window_lo", "offset_window_hi", "layer_stave_mask", "batch_cap", "cdp_offset_sampled_after")}
    chk.proof = core.step_coq("Props/C03.v")
    core.step_model()
    h = core.step_harness()
    if not h["ok"]:
        chk.disagreements.append({"stream": "build", "detail": "harness does not build against /repo", "log": h["log"][-1500:]})
        return core.finish(chk, TRUSTED)
    deep = tier == "thorough" or not chk.proof["ok"]
    cases = fix_skip(gen_cases("thorough" if deep else "quick", rng))
    lines = [c[0] for c in cases]
    impl = core.run_lines(core.HARNESS_BIN, "scan", lines, shards=core.NCPU)
    # the extracted model keeps the input as a list (each read walks it): the long-run cases are compared with the independent
    # chain walk only
    msel = [i for i, c in enumerate(cases) if c[1] != "long-run"]
    mres = core.run_lines(core.FPMODEL, "scan", [lines[i] for i in msel], shards=core.NCPU)
    model = list(impl)
    for i, r in zip(msel, mres):
        model[i] = r
    distinct = set()
    dist = {}
    samples = []
    for (line, kind, pkts, flt, skip), li, lm in zip(cases, impl, model):
        src = line.split()[0]
        dist[kind] = dist.get(kind, 0) + 1
        short = line if len(line) < 1500 else line[:1500] + "...(%d chars)" % len(line)
        if li.startswith("PANIC") or li.startswith("DIED"):
            chk.spec_violations.append({"stream": "scan", "case": short, "impl": li[:300], "what": "scanner / reader thread panicked"})
            continue
        if li != lm:
            chk.disagreements.append({"stream": "scan", "kind": kind, "case": short, "impl": li[:600], "model": lm[:600]})
        ib, _, istats = li.partition(" | ")
        ncdp = 0 if ib == "-" else len(ib.replace(" / ", " ").split())
        distinct.add((kind, src, flt.split(":")[0], skip, min(ncdp, 3) if ncdp < 99 else ncdp // 100 * 100 + min(ncdp % 100, 2)))
        if pkts is None:
            continue
        eb, est = scangen.expected(pkts, flt, skip)
        if ib != eb:
            # locate the first differing CDP
            it = ib.replace(" / ", " ").split()
            et = eb.replace(" / ", " ").split()
            k = next((i for i, (a, b) in enumerate(zip(it, et)) if a != b), min(len(it), len(et)))
            chk.spec_violations.append({
                "stream": "scan", "source": src, "filter": flt, "skip_payload": skip, "packets": len(pkts), "case": short,
                "first_difference_at_cdp": k,
                "impl": (it[k] if k < len(it) else "(missing)") if ib != "-" else "-",
                "spec": (et[k] if k < len(et) else "(none expected)"),
                "impl_batches": [len(b.split()) for b in ib.split(" / ")] if ib != "-" else [],
                "spec_batches": [len(b.split()) for b in eb.split(" / ")] if eb != "-" else [],
                "what": "packets handed on differ from the chain walk (token = offset:payload length:crc32(header+payload):crc32(decoded fields))"})
        st = scangen.parse_stats(istats)
        for key in ("seen", "filtered", "payload", "links", "fees"):
            if st[key] != est[key]:
                chk.spec_violations.append({"stream": "scan", "source": src, "filter": flt, "skip_payload": skip, "case": short,
                                            "statistic": key, "impl": st[key], "spec": est[key],
                                            "what": "scanner statistics differ from the recount over the chain"})
                break
        if st["errors"] or st["fatal"]:
            chk.spec_violations.append({"stream": "scan", "case": short, "impl": istats[:300],
                                        "what": "error/fatal message on a well-framed input"})
        if len(samples) < 4 and len(pkts) <= 3 and flt != "-":
            samples.append({"case": short[:700], "impl": li[:300], "model": lm[:300], "spec_batches": eb[:200]})
    chk.cov["rule"] = ("well-framed streams: packet counts 1,2,3,..,99,100,101,199,200,201,300 (thorough: 400,1000), payload sizes "
                       "0..400 and 5000/9999/10000, 1..12 links/FEE ids interleaved, filters none/link/fee/stave with present and absent "
                       "values, payload loaded/skipped, file and pipe; malformed: truncated, inconsistent offset_to_next / memory_size, "
                       "random bytes (model vs code only); long-run: one matching packet, 60 000 (100 000) header-only packets of another link, matching packets again, under a link / FEE filter and an absent value, file and pipe (code vs chain walk only). distinct = (kind, source, filter kind, skip, CDP-count class)")
    chk.add_stream("scan", len(cases), distinct, samples, distribution=dist)
    return core.finish(chk, TRUSTED)
