"""C14 -- statistics equal ground truth computed from the input."""
import json
import os
import random
import re
import shutil
import struct

from .. import core, scangen, streams
from . import c05, c06

TRUSTED = [
    "Coq 8.16.1 kernel (coqc); vm_compute for the non-vacuity example; no native_compute",
    "axioms: none (Print Assumptions: Closed under the global context for every C14 theorem)",
    "gen/extract_facts.py: the structural facts of C03/C18, the system-id table, ITS system id",
    "extraction (ExtrOcamlBasic only) + OCaml driver (`stats` stream); the rebuilt binary (statistics file JSON and TOML, report table)",
    "the independent recount of fvlib/props/c14.py (Python chain walk over the input bytes) -- the specification side",
    "serde_json / toml serialisation of the collector and the report table layout (parsed, not modelled)",
    "u32 accumulator wrap (flush on equality with u32::MAX) is modelled; the theorem is stated below that limit",
]

ANSI = re.compile(r"\x1b\[[0-9;]*m")
SYSNAME = {3: "TPC", 4: "TRD", 5: "TOF", 6: "HMP", 7: "PHS", 8: "CPV", 10: "MCH", 15: "ZDC", 17: "TRG", 18: "EMC", 19: "TST", 32: "ITS",
           33: "FDD", 34: "FT0", 35: "FV0", 36: "MFT", 37: "MID", 38: "DCS", 39: "FOC", 255: "Unloaded"}
TRIG = [("orbit", 0), ("hb", 1), ("hbr", 2), ("hc", 3), ("pht", 4), ("pp", 5), ("cal", 6), ("sot", 7), ("eot", 8), ("soc", 9), ("eoc", 10),
        ("tf", 11), ("fe_rst", 12), ("rt", 13), ("rs", 14), ("lhc_gap1", 27), ("lhc_gap2", 28), ("tpc_sync", 29), ("tpc_rst", 30), ("tof", 31)]


def recount(pkts, flt, analysed):
    """ground truth from the packets alone"""
    sel = [(r, p) for r, p in pkts if scangen.matches(flt, r)]
    links, fees = [], []
    for r, _ in pkts:
        fee = struct.unpack_from("<H", r, 2)[0]
        if r[12] not in links:
            links.append(r[12])
        if fee not in fees:
            fees.append(fee)
    r0 = pkts[0][0]
    gt = {"rdhs_seen": len(pkts), "rdhs_filtered": len(sel) if flt != "-" else 0, "payload_size": sum(len(p) for _, p in sel),
          "links": sorted(links), "fee_id": fees, "rdh_version": r0[0], "data_format": r0[24], "system_id": SYSNAME.get(r0[5]),
          "run_trigger_type": struct.unpack_from("<I", r0, 32)[0]}
    if analysed:
        gt["hbfs_seen"] = sum(1 for r, _ in sel if r[38] == 1)
        trig = {}
        for name, bit in TRIG:
            trig[name] = sum(1 for r, _ in sel if (struct.unpack_from("<I", r, 32)[0] >> bit) & 1)
        gt["trigger_stats"] = trig
        ls = []
        if sel and sel[0][0][5] == 32:
            for r, _ in sel:
                fee = struct.unpack_from("<H", r, 2)[0]
                x = [(fee >> 12) & 7, fee & 0x3F]
                if x not in ls:
                    ls.append(x)
        gt["layer_staves_seen"] = ls
    return gt


def from_stats_file(d):
    r = d["rdh_stats"]
    out = {k: r[k] for k in ("rdhs_seen", "rdhs_filtered", "payload_size", "links", "fee_id", "rdh_version", "data_format", "system_id", "hbfs_seen")}
    out["run_trigger_type"] = r["run_trigger_type"][0] if r["run_trigger_type"] else None
    out["trigger_stats"] = r["trigger_stats"]
    out["layer_staves_seen"] = r["its_stats"]["layer_staves_seen"]
    return out


def run(tier, seed):
    chk = core.Check("C14", tier, seed)
    rng = random.Random(seed)
    gen = core.step_gen()
    chk.cov["gen"] = gen["log"]
    chk.cov["gen_facts"] = {k: v for k, v in gen["facts"].items() if k in ("system_id_table", "its_system_id", "batch_cap", "cdp_offset_sampled_after")}
    chk.proof = core.step_coq("Props/C14.v")
    core.step_model()
    h = core.step_harness()
    b = core.step_cli() if h["ok"] else h
    if not h["ok"] or not b["ok"]:
        chk.disagreements.append({"stream": "build", "detail": "harness / binary does not build against /repo", "log": (h.get("log") or b.get("log", ""))[-1500:]})
        return core.finish(chk, TRUSTED)
    deep = tier == "thorough" or not chk.proof["ok"]
    tmp = core.scratch_dir("c14")
    jobs = []
    counts = [1, 3, 60, 100, 101, 150, 201, 250] if not deep else [1, 2, 3, 50, 99, 100, 101, 150, 199, 200, 201, 300, 450, 1000]
    MODES = [(["check", "sanity"], True), (["check", "all"], True), (["check", "sanity", "its"], True), (["view", "rdh"], True), ([], False)]
    sid = 0
    for rep in range(1 if not deep else 4):
        for n in counts:
            kind = rng.choice(["scan", "scan", "its"])
            if kind == "its" and n <= 300:
                merged, per = streams.conforming(rng, nlinks=rng.choice([2, 3]), nhbf=max(1, n // 12), stave_level=False)
                pkts = merged
                ids = [(p[0][0][12], struct.unpack_from("<H", p[0][0], 2)[0]) for p in per]
            else:
                pkts, ids = scangen.rand_stream(rng, n, big=(n < 10))
                while n > 2 and len(set(i[0] for i in ids)) < 2:
                    pkts, ids = scangen.rand_stream(rng, n, big=(n < 10))
                # recognisable input: ITS (or another known) system id on every header, legal first RDH0
                sysid = rng.choice([32, 32, 32, 36, 3])
                pkts = [(bytes(bytearray(r[:4]) + bytes([0, sysid, 0, 0]) + r[8:]), p) for r, p in pkts]
                if sid % 2 == 0 and len(set(i[0] for i in ids)) >= 2:
                    # the same FEE id on two different links
                    fee = ids[0][1]
                    other = [i[0] for i in ids if i[0] != ids[0][0]][0]
                    pkts = [((bytes(bytearray(r[:2]) + struct.pack("<H", fee) + r[4:]) if r[12] == other else r), p) for r, p in pkts]
                if sid % 3 == 1 and len(pkts) > 2:
                    # FEE ids that name no stave of the detector (layer 7, stave number above 47) on packets behind the first: unusual,
                    # well framed, reported by the RDH check -- and counted like any other in the statistics of what was analysed
                    odd = rng.choice([0x7005, 0x1030, 0x603F, 0x7000, 0x2035, 0x703F])
                    first_link = pkts[0][0][12]
                    victims = [i[0] for i in ids if i[0] != first_link] or [first_link]
                    vl = rng.choice(victims)
                    pkts = [((bytes(bytearray(r[:2]) + struct.pack("<H", odd) + r[4:]) if (k > 0 and r[12] == vl) else r), p) for k, (r, p) in enumerate(pkts)]
                    ids = [i for i in ids if i[0] != vl] or ids
                # plenty of stop-bit packets spread over the whole stream
                pkts = [((bytes(bytearray(r[:38]) + bytes([1 if rng.random() < 0.5 else 0]) + r[39:])), p) for r, p in pkts]
            data = scangen.serialize(pkts)
            path = os.path.join(tmp, "in%d.raw" % sid)
            open(path, "wb").write(data)
            for mode, analysed in (MODES if deep else rng.sample(MODES, 3)):
                flt = scangen.pick_filter(rng, ids) if (mode == [] or rng.random() < 0.4) else "-"
                if mode == [] and flt == "-":
                    flt = "link:%d" % ids[0][0]
                fargs = []
                if flt != "-":
                    k, v = flt.split(":")
                    fargs = {"link": ["-f", v], "fee": ["-F", v], "stave": ["-s", "L%d_%d" % ((int(v) >> 12) & 7, int(v) & 0x3F)]}[k]
                fmtk = rng.choice(["json", "toml"]) if deep else "json"
                jobs.append({"sid": sid, "path": path, "pkts": pkts, "mode": mode, "analysed": analysed, "flt": flt, "fargs": fargs,
                             "fmt": fmtk, "data": data, "inp": rng.choice(["file", "pipe"])})
            sid += 1

    # stave-level streams whose consecutive readout frames break DIFFERENT lane rules: the frame messages share their leading code
    # ([E74] / [E75]) and differ in the nested ones ([E9003] / [E9004] / [E9005]) -- every code of every stored message is a distinct
    # error code of the run (seed C14-H)
    from . import c13
    for rep in range(2 if not deep else 8):
        layer = rng.choice([0, 1, 2, 0, 5])
        ib = layer <= 2
        base = [0x20 + l for l in rng.choice(c13.IB_GROUPS)] if ib else rng.choice(c13.OL_SETS)
        kinds = rng.choice([["chip-id-wrong", "chip-count", "legal", "chip-count", "chip-id-wrong"], ["chip-count", "chip-id-wrong", "dup-chip"],
                            ["bc-lane-differs", "chip-count", "chip-id-wrong", "legal"]]) if ib else ["bc-chip-differs", "dup-chip", "legal", "bc-lane-differs"]
        plans = [c13.plan_frame(rng, layer, base, k, rng.randrange(256)) for k in kinds]
        link = c13.PlannedLink(rng, rng.randrange(12), layer, 5, rng.choice([0, 2]), plans, 0)
        pk = []
        while link.k < len(plans):
            pk += link.hbf(nslots=min(len(plans) - link.k, rng.choice([2, 3, 5])))
        data = scangen.serialize(pk)
        path = os.path.join(tmp, "in%d.raw" % sid)
        open(path, "wb").write(data)
        jobs.append({"sid": sid, "path": path, "pkts": pk, "mode": ["check", "all", "its-stave"], "analysed": True, "flt": "-", "fargs": [],
                     "fmt": "json", "data": data, "inp": rng.choice(["file", "pipe"]), "nomodel": True})
        sid += 1

    def work(j):
        sp = os.path.join(tmp, "st_%d_%d.%s" % (j["sid"], id(j), j["fmt"]))
        args = j["fargs"] + j["mode"] + ["-S", sp, "-D", j["fmt"]]
        if j["mode"] == []:
            args += ["-o", os.path.join(tmp, "o_%d_%d.raw" % (j["sid"], id(j)))]
        if j["inp"] == "file":
            rc, so, se, dt = core.run_cli([j["path"]] + args, timeout=120)
        else:
            rc, so, se, dt = core.run_cli(args, stdin_bytes=j["data"], timeout=120)
        txt = open(sp).read() if os.path.exists(sp) else None
        for f in (sp, os.path.join(tmp, "o_%d_%d.raw" % (j["sid"], id(j)))):
            if os.path.exists(f):
                os.remove(f)
        return rc, txt, ANSI.sub("", so.decode("utf8", "replace")), se.decode("utf8", "replace")
    res = core.par_map(work, jobs)
    mlines = [scangen.hexline(j["inp"], j["flt"], 0 if (j["mode"] == [] or "its" in j["mode"]) else 1, j["data"]).replace(" ", " ", 1) for j in jobs]
    mlines = ["%s %s %s %d %s" % (l.split()[0], l.split()[1], l.split()[2], 1 if j["analysed"] else 0, l.split()[3]) for l, j in zip(mlines, jobs)]
    model = core.run_lines(core.FPMODEL, "stats", mlines, shards=core.NCPU)
    distinct = set()
    samples = []
    for j, (rc, txt, so, se), lm in zip(jobs, res, model):
        desc = {"stream": "cli-stats", "mode": " ".join(j["mode"]) or "(filtered writing)", "filter": j["flt"], "input": j["inp"], "packets": len(j["pkts"]),
                "stats_format": j["fmt"],
                "input_hex": j["data"].hex().upper() if len(j["data"]) <= 900 else "(stream %d of seed %d, %d packets, %d bytes)" % (j["sid"], seed, len(j["pkts"]), len(j["data"]))}
        if not isinstance(rc, int) or rc < 0 or txt is None or "panicked at" in se:
            chk.spec_violations.append(dict(desc, rc=str(rc), stderr_tail=ANSI.sub("", se)[-400:], what="run failed / no statistics file written"))
            continue
        if j["fmt"] == "json":
            d = json.loads(txt)
        else:
            import tomllib
            d = tomllib.loads(txt)
            d.setdefault("error_stats", {}).setdefault("fatal_error", None)
            d["rdh_stats"].setdefault("run_trigger_type", None)
        got = from_stats_file(d)
        gt = recount(j["pkts"], j["flt"], j["analysed"])
        distinct.add((desc["mode"], j["flt"].split(":")[0], j["inp"], min(len(j["pkts"]) // 100, 3), j["fmt"]))
        for k, v in gt.items():
            g = got.get(k)
            if k == "trigger_stats":
                bad = {n: (g.get(n), v[n]) for n in v if g.get(n) != v[n]}
                if bad:
                    chk.spec_violations.append(dict(desc, statistic="trigger_stats", differing=bad, what="statistics file value differs from the recount over the input"))
            elif g != v:
                chk.spec_violations.append(dict(desc, statistic=k, statistics_file=g, ground_truth=v,
                                                **{"class": "F7-stats-file-not-finalised-in-view-mode" if (k == "links" and j["mode"][:1] == ["view"] and sorted(g or []) == v) else None},
                                                what="statistics file value differs from the recount over the input"))
        # internal consistency of the error accounting
        e = d["error_stats"]
        ntot = len(e["reported_errors"]) + len(e["custom_checks_stats_errors"])
        if e["total_errors"] != ntot:
            chk.spec_violations.append(dict(desc, statistic="total_errors", statistics_file=e["total_errors"], messages=ntot,
                                            what="total_errors differs from the number of stored error messages"))
        codes = []
        for m in e["reported_errors"] + e["custom_checks_stats_errors"]:
            for cde in re.findall(r"\[E(\d{2,4})\]", m):
                if cde not in codes:
                    codes.append(cde)
        if d.get("is_finalized") and sorted(e["unique_error_codes"]) != sorted(codes):
            chk.spec_violations.append(dict(desc, statistic="unique_error_codes", statistics_file=e["unique_error_codes"], recount=codes,
                                            what="distinct error codes differ from those in the stored messages"))
        # the report table (not printed in view mode / when data goes to stdout)
        m = re.search(r"Total RDHs\s+(\d+)", so)
        if m and int(m.group(1)) != gt["rdhs_seen"]:
            chk.spec_violations.append(dict(desc, statistic="report: Total RDHs", report=int(m.group(1)), ground_truth=gt["rdhs_seen"],
                                            what="report value differs from the recount"))
        m = re.search(r"Total HBFs\s+(\d+)", so)
        if m and j["analysed"] and int(m.group(1)) != gt["hbfs_seen"]:
            chk.spec_violations.append(dict(desc, statistic="report: Total HBFs", report=int(m.group(1)), ground_truth=gt["hbfs_seen"],
                                            what="report value differs from the recount"))
        # model vs code on the collected statistics
        try:
            ci = c05.canon_json(json.dumps(d)) if j["fmt"] == "json" else None
        except Exception:
            ci = None
        if ci is not None and not e["reported_errors"] and d.get("is_finalized"):
            strip = lambda s: re.sub(r" (E|T|U|W|Z|X):\S*", "", s)
            if strip(ci) != strip(lm):
                chk.disagreements.append(dict(desc, impl=strip(ci)[:500], model=strip(lm)[:500]))
        if len(samples) < 3:
            samples.append(dict(desc, statistics={k: got[k] for k in ("rdhs_seen", "rdhs_filtered", "payload_size", "links", "hbfs_seen")}))
    shutil.rmtree(tmp, ignore_errors=True)
    chk.add_stream("cli-stats", len(jobs), distinct, samples, distribution={"streams": sid, "runs": len(jobs)})
    chk.cov["rule"] = ("recognisable well-framed streams (1..250, thorough ..1000 packets; random and conforming ITS; same FEE id on two links; "
                       "stop-bit packets in every batch; payload totals beyond 2^16) through the binary in check sanity / check all / check "
                       "sanity its / view rdh / filtered writing, with and without filters, file and pipe, JSON and TOML statistics files: "
                       "every statistic of the file (and Total RDHs / Total HBFs of the report) compared with an independent recount, "
                       "error totals and distinct codes with the stored messages, and the collected counters with the model. "
                       "distinct = (mode, filter kind, input, size class, format)")
    return core.finish(chk, TRUSTED)
