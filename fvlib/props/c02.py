"""C02 -- every documented violation is detected with its code and location."""
import os
import random
import re
import shutil
import struct

from .. import core, itsgen, streams
from . import c06

TRUSTED = [
    "Coq 8.16.1 kernel (coqc)",
    "axioms: none (Print Assumptions: Closed under the global context for every C02 theorem)",
    "gen/extract_facts.py: tdh_after_done_checks_continuation (cdp_running.rs) and the facts of the RDH / word / FSM / payload models (C09-C12)",
    "extraction (ExtrOcamlBasic only) + OCaml driver (`cli` stream: whole-run model); the rebuilt binary",
    "the fault catalogue of fvlib/props/c02.py: one or more mutations per bullet of doc/checks_list.md and per error-code family of README.md, with the documented "
    "mode table (RDH sanity: all modes; RDH running: check all; word rules: target its / its-stave; state-dependent word rules: check all its / its-stave)",
    "the conforming-stream generator fvlib/streams.py; RDH0 faults are applied to non-first headers (a fault in the first RDH0 makes the input unrecognisable: C16); "
    "layer-7 FEE ids are not used in stave mode (crash, finding F6 / C04)",
]

ANSI = re.compile(r"\x1b\[[0-9;]*m")
MODES = {"sanity": ["check", "sanity"], "all": ["check", "all"], "sanity-its": ["check", "sanity", "its"], "all-its": ["check", "all", "its"],
         "all-stave": ["check", "all", "its-stave"]}
ALLM = list(MODES)
ITS = ["sanity-its", "all-its", "all-stave"]
RUN = ["all", "all-its", "all-stave"]
RUN_ITS = ["all-its", "all-stave"]


def words_of(r, p):
    """[(position in payload, word bytes)]"""
    step = 16 if r[24] == 0 else 10
    out = []
    for i in range(0, len(p) - 9, step):
        if step == 10 and p[i + 9] == 0xFF:
            break
        out.append((i, p[i:i + 10]))
    return out


def set_word(p, pos, w):
    b = bytearray(p)
    b[pos:pos + 10] = w
    return bytes(b)


def rdh_mut(fn):
    """fault on one RDH: fn(rng, bytearray rdh, context) -> None or False when not applicable"""
    def apply(rng, per, li, k):
        r, p = per[li][k]
        b = bytearray(r)
        if fn(rng, b, {"per": per, "li": li, "k": k}) is False:
            return None
        per[li][k] = (bytes(b), p)
        return ("rdh", li, k, 0)
    return apply


def word_mut(select, fn):
    """fault on one payload word chosen by `select(word bytes, index, words, rdh)`"""
    def apply(rng, per, li, k):
        r, p = per[li][k]
        ws = words_of(r, p)
        cand = [(i, pos, w) for i, (pos, w) in enumerate(ws) if select(w, i, ws, r)]
        if not cand:
            return None
        i, pos, w = rng.choice(cand)
        nw = fn(rng, bytearray(w), {"r": r, "ws": ws, "i": i})
        if nw is None:
            return None
        per[li][k] = (r, set_word(p, pos, bytes(nw)))
        return ("word", li, k, 64 + pos)
    return apply


def bit(b, idx, mask, val=None):
    def f(rng, rdh, ctx):
        rdh[idx] = (rdh[idx] | mask) if val is None else val
    return f


def is_id(idb):
    return lambda w, i, ws, r: w[9] == idb


def first_tdh_of_page(w, i, ws, r):
    return w[9] == 0xE8 and i == 1 and not (w[1] >> 6) & 1


def tdh_after_done(w, i, ws, r):
    return w[9] == 0xE8 and i >= 2 and ws[i - 1][1][9] == 0xF0 and ws[i - 1][1][8] & 1 and not (w[1] >> 6) & 1


def _prev_tdh_bc(ws, i):
    prev = [x for _p, x in ws[:i] if x[9] == 0xE8]
    return ((prev[-1][2] | (prev[-1][3] << 8)) & 0xFFF) if prev else None


def tdh_after_done_late(w, i, ws, r):
    """a TDH behind a complete packet whose previous TDH lies in the second half of the orbit (bunch crossing >= 1783)"""
    pbc = _prev_tdh_bc(ws, i)
    return tdh_after_done(w, i, ws, r) and pbc is not None and pbc >= 1783


def tdh_far_smaller_bc(rng, w, ctx):
    """more than half an orbit back: within one heartbeat frame the bunch crossing cannot wrap, the rule is broken all the same (seed C02-G)"""
    pbc = _prev_tdh_bc(ctx["ws"], ctx["i"])
    nbc = rng.choice([0, 1, pbc - 1782, pbc - 1783, rng.randrange(0, pbc - 1781)])
    w[2] = nbc & 0xFF
    w[3] = (w[3] & 0xF0) | (nbc >> 8)
    return w


def cont_tdh(w, i, ws, r):
    return w[9] == 0xE8 and (w[1] >> 6) & 1


def setb(idx, orv=0, andv=0xFF, xor=0):
    def f(rng, w, ctx):
        w[idx] = ((w[idx] & andv) | orv) ^ xor
        return w
    return f


def tdh_smaller_bc(rng, w, ctx):
    prev = [x for _p, x in ctx["ws"][:ctx["i"]] if x[9] == 0xE8]
    if not prev:
        return None
    pbc = (prev[-1][2] | (prev[-1][3] << 8)) & 0xFFF
    if pbc == 0:
        return None
    # any smaller value breaks the rule: a step back of one, of half an orbit and more (1781 / 1782 / 1783), to 0
    nbc = rng.choice([rng.randrange(0, pbc), pbc - 1, 0, max(0, pbc - 1781), max(0, pbc - 1782), max(0, pbc - 1783), pbc // 2])
    if nbc >= pbc:
        nbc = pbc - 1
    w[2] = nbc & 0xFF
    w[3] = (w[3] & 0xF0) | (nbc >> 8)
    return w


def stop_page_only(fn):
    def f(rng, rdh, ctx):
        if rdh[38] != 1:
            return False
        return fn(rng, rdh, ctx)
    return f


def data_page_not0(fn):
    def f(rng, rdh, ctx):
        if rdh[38] != 0 or struct.unpack_from("<H", rdh, 36)[0] == 0:
            return False
        return fn(rng, rdh, ctx)
    return f


def same_orbit_as_prev_stop(rng, rdh, ctx):
    k, pk = ctx["k"], ctx["per"][ctx["li"]]
    if k == 0 or pk[k - 1][0][38] != 1 or struct.unpack_from("<H", rdh, 36)[0] != 0:
        return False
    rdh[20:24] = pk[k - 1][0][20:24]


def padding_too_long(rng, per, li, k):
    r, p = per[li][k]
    if not p:
        return None
    # both data formats: the limit is documented for the payload as such (in format 0 the padding follows the last 16-byte slot)
    np_ = p + b"\xFF" * rng.choice([16, 16, 17, 26, 32])
    b = bytearray(r)
    struct.pack_into("<H", b, 8, 64 + len(np_))
    struct.pack_into("<H", b, 10, 64 + len(np_))
    per[li][k] = (bytes(b), np_)
    return ("rdh", li, k, 0)


def cdw_rule_broken(rng, per, li, k):
    """calibration streams: a CDW that is not the link's first one gets other user fields than the CDW before it AND a word index
    other than 0 (whichever of the two it lacked)"""
    seen = 0
    for q in range(k):
        seen += sum(1 for _pos, w in words_of(*per[li][q]) if w[9] == 0xF8)
    r, p = per[li][k]
    cand = [(pos, w) for pos, w in words_of(r, p) if w[9] == 0xF8]
    if not cand or not seen:
        return None
    pos, w = cand[0]
    prevs = [w2 for q in range(k) for _p2, w2 in words_of(*per[li][q]) if w2[9] == 0xF8]
    w = bytearray(w)
    if bytes(w[0:6]) == bytes(prevs[-1][0:6]):
        w[rng.randrange(6)] ^= 1 << rng.randrange(8)      # user fields = bits 47:0
    # word index = bits 71:48: any value but 0, the boundaries of the three bytes first
    idx = rng.choice([1, 1, 2, 0xFF, 0x100, 0xFFFF, 0x10000, 0xFFFFFF, rng.randrange(1, 1 << 24)])
    w[6], w[7], w[8] = idx & 0xFF, (idx >> 8) & 0xFF, idx >> 16
    per[li][k] = (r, set_word(p, pos, bytes(w)))
    return ("word", li, k, 64 + pos)


def cdw_not_first(rng, per, li, k):
    """calibration streams: the CDW changes place with the data word behind it -- a CDW is only legal as the first data word of a packet"""
    r, p = per[li][k]
    ws = words_of(r, p)
    for i, (pos, w) in enumerate(ws[:-1]):
        nxt_pos, nxt = ws[i + 1]
        if w[9] == 0xF8 and 0x20 <= nxt[9] <= 0x5E:
            per[li][k] = (r, set_word(set_word(p, pos, nxt), nxt_pos, w))
            return ("word", li, k, 64 + nxt_pos)
    return None


# name -> (mutator, documented families, modes in which the rule is documented as active, "running only" for the sanity exclusion)
CATALOGUE = {
    "rdh0 header_size": (rdh_mut(bit(None, 1, 0, val=0x41)), [10], ALLM),
    "rdh0 fee reserved bit": (rdh_mut(bit(None, 3, 0x80)), [10], ALLM),
    "rdh0 fee stave > 47": (rdh_mut(lambda rng, b, c: b.__setitem__(2, (b[2] & 0xC0) | 48)), [10], ALLM),
    "rdh0 priority bit": (rdh_mut(bit(None, 4, 1)), [10], ALLM),
    "rdh0 reserved": (rdh_mut(bit(None, 6, 1)), [10], ALLM),
    "rdh0 version differs from first": (rdh_mut(lambda rng, b, c: b.__setitem__(0, 6 if b[0] == 7 else 7)), [10], ALLM),
    "rdh0 system id (ITS)": (rdh_mut(bit(None, 5, 0, val=0x21)), [10], ITS),
    "rdh1 bc > 0xDEB": (rdh_mut(lambda rng, b, c: struct.pack_into("<H", b, 16, (struct.unpack_from("<H", b, 16)[0] & 0xF000) | rng.choice([0xDEC, 0xFFF]))), [10], ALLM),
    "rdh1 reserved": (rdh_mut(bit(None, 18, 1)), [10], ALLM),
    "rdh2 stop_bit = 2": (rdh_mut(stop_page_only(bit(None, 38, 0, val=2))), [10], ALLM),
    "rdh2 trigger_type = 0": (rdh_mut(lambda rng, b, c: b.__setitem__(slice(32, 36), b"\0\0\0\0")), [10], ALLM),
    "rdh2 trigger spare bit": (rdh_mut(bit(None, 34, 0x01)), [10], ALLM),
    "rdh2 reserved": (rdh_mut(bit(None, 39, 1)), [10], ALLM),
    "rdh3 reserved": (rdh_mut(bit(None, 54, 1)), [10], ALLM),
    "rdh3 detector field reserved bit": (rdh_mut(bit(None, 49, 0x10)), [10], ALLM),
    "rdh dw = 2": (rdh_mut(lambda rng, b, c: b.__setitem__(15, (b[15] & 0x0F) | 0x20)), [10], ALLM),
    "running: pages_counter + 1": (rdh_mut(lambda rng, b, c: struct.pack_into("<H", b, 36, (struct.unpack_from("<H", b, 36)[0] + 1) & 0xFFFF)), [11], RUN),
    "running: same orbit after stop": (rdh_mut(same_orbit_as_prev_stop), [11], RUN),
    "running: orbit changes inside HBF": (rdh_mut(data_page_not0(lambda rng, b, c: b.__setitem__(20, b[20] ^ 1))), [11], RUN),
    "running: trigger changes inside HBF": (rdh_mut(data_page_not0(lambda rng, b, c: b.__setitem__(33, b[33] ^ 0x08))), [11], RUN),
    "ihw reserved": (word_mut(is_id(0xE0), setb(5, orv=1)), [30], ITS),
    "ihw id": (word_mut(lambda w, i, ws, r: w[9] == 0xE0 and i == 0, setb(9, andv=0, orv=0xE1)), [30, 992, 990], ITS),   # E30 where only an IHW can stand, E992 in the choice state after a complete packet, E990 in the choice state after a no-data TDH that ended the page before
    "tdh reserved": (word_mut(is_id(0xE8), setb(8, orv=1)), [40], ITS),
    "tdh no trigger": (word_mut(lambda w, i, ws, r: w[9] == 0xE8 and not (w[1] >> 6) & 1 and i > 1, lambda rng, w, c: (w.__setitem__(0, 0), w.__setitem__(1, w[1] & 0xE0), w)[2]), [40], ITS),
    "tdt reserved": (word_mut(is_id(0xF0), setb(8, orv=4)), [50], ITS),
    "ddw0 reserved": (word_mut(is_id(0xE4), setb(7, orv=1)), [60], ITS),
    "ddw0 index": (word_mut(is_id(0xE4), setb(8, orv=0x10)), [60], ITS),
    "data word id invalid": (word_mut(lambda w, i, ws, r: 0x20 <= w[9] <= 0x5E, setb(9, andv=0, orv=0x3A)), [70, 991], ITS),
    "cdw user fields change with index != 0": (cdw_rule_broken, [81], RUN_ITS),
    "cdw behind a data word": (cdw_not_first, [70, 991], ITS),
    "identifier unknown after TDT": (word_mut(tdh_after_done, setb(9, andv=0, orv=0x11)), [992, 990], ITS),
    "padding > 15 bytes": (padding_too_long, [0], ITS),
    "ddw0 on page 0": (rdh_mut(stop_page_only(lambda rng, b, c: struct.pack_into("<H", b, 36, 0))), [111, 11], RUN_ITS),
    "tdh continuation set after ihw": (word_mut(first_tdh_of_page, setb(1, orv=0x40)), [42], RUN_ITS),
    "tdh continuation clear on continuation page": (word_mut(cont_tdh, setb(1, andv=0xBF)), [41], RUN_ITS),
    "tdh continuation with other bc": (word_mut(cont_tdh, setb(2, xor=1)), [441], RUN_ITS),
    "tdh continuation set after complete packet": (word_mut(tdh_after_done, setb(1, orv=0x40)), [42], RUN_ITS),
    "tdh bc smaller after complete packet": (word_mut(tdh_after_done, tdh_smaller_bc), [440], RUN_ITS),
    "tdh bc far smaller after complete packet (second half of the orbit)": (word_mut(tdh_after_done_late, tdh_far_smaller_bc), [440], RUN_ITS),
    "tdh orbit differs from rdh": (word_mut(first_tdh_of_page, setb(4, xor=1)), [444], RUN_ITS),
}
RUNNING_ONLY = {"running: pages_counter + 1", "running: same orbit after stop", "running: orbit changes inside HBF", "running: trigger changes inside HBF"}


def findings(stderr_text):
    out = []
    for line in ANSI.sub("", stderr_text).split("\n"):
        m = re.match(r"^ERROR\s+0x([0-9A-Fa-f]+):\s*(?:\[E(\d+)\])?", line)
        if m:
            code = int(m.group(2)) if m.group(2) else (0 if "Payload error following RDH" in line else -1)
            out.append((int(m.group(1), 16), code))
            # secondary codes named in the same message (e.g. several RDH sub-rules)
            for c in re.findall(r"\[E(\d+)\]", line)[1:]:
                out.append((int(m.group(1), 16), int(c)))
    return out


def coq_examples(chk):
    """the byte-level Example of Props/C02.v (C02_end_to_end_example), evaluated by the kernel, replayed on the real binary: the input bytes
    and the (offset, code) list + exit status are printed by coqc from the compiled development; the binary must report the same"""
    import subprocess
    src = ("From Coq Require Import List NArith.\nFrom FP Require Import Model.Base Model.System Spec.Framing Props.C02.\nImport ListNotations.\nOpen Scope N_scope.\n"
           "Eval vm_compute in serialize e2e_pkts.\nEval vm_compute in view_run (run_check true e2e_cfg (serialize e2e_pkts)).\n")
    path = os.path.join(core.COQ, "fv_examples_tmp.v")
    try:
        with open(path, "w") as f:
            f.write(src)
        p = subprocess.run(["coqc", "-Q", ".", "FP", "-w", "-notation-overridden", "fv_examples_tmp.v"], cwd=core.COQ, capture_output=True, timeout=600)
        out = p.stdout.decode("utf8", "replace")
    finally:
        for ext in (".v", ".vo", ".vok", ".vos", ".glob"):
            try:
                os.remove(os.path.join(core.COQ, "fv_examples_tmp" + ext))
            except OSError:
                pass
        try:
            os.remove(os.path.join(core.COQ, ".fv_examples_tmp.aux"))
        except OSError:
            pass
    blocks = [b for b in out.split("     = ")[1:]]
    if len(blocks) != 2:
        chk.disagreements.append({"stream": "coq-examples", "detail": "the example could not be evaluated", "coqc": (out + p.stderr.decode("utf8", "replace"))[-600:]})
        return
    data = bytes(int(x) for x in re.findall(r"\d+", blocks[0].split(": list")[0]))
    pairs = [(int(a), int(b)) for a, b in re.findall(r"\((\d+),\s*(\d+)\)", blocks[1])]
    mexit = int(re.findall(r"\],\s*(\d+)\)", blocks[1])[-1])
    tmp = core.scratch_dir("c02ex")
    fpath = os.path.join(tmp, "example.raw")
    open(fpath, "wb").write(data)
    rc, so, se, dt = core.run_cli([fpath, "check", "all", "its", "-E", str(mexit)], timeout=60)
    got = []
    for l in ANSI.sub("", se.decode("utf8", "replace")).split("\n"):
        m = re.match(r"ERROR\s+0x([0-9A-Fa-f]+):\s*\[E(\d+)\]", l)
        if m:
            got.append((int(m.group(1), 16), int(m.group(2))))
    shutil.rmtree(tmp, ignore_errors=True)
    chk.add_stream("coq-examples", 1, {("C02_end_to_end_example", len(data), len(pairs))}, [{"input_bytes": len(data), "model": pairs, "binary": got, "exit": rc}])
    if got != pairs or rc != mexit:
        chk.disagreements.append({"stream": "coq-examples", "example": "C02_end_to_end_example", "input_hex": data.hex().upper(), "model": pairs, "model_exit": mexit,
                                  "impl": got, "impl_exit": rc})


def run(tier, seed):
    chk = core.Check("C02", tier, seed)
    rng = random.Random(seed)
    gen = core.step_gen()
    chk.cov["gen"] = gen["log"]
    chk.cov["gen_facts"] = {k: v for k, v in gen["facts"].items() if k in ("tdh_after_done_checks_continuation",)}
    chk.proof = core.step_coq("Props/C02.v")
    core.step_model()
    b = core.step_cli()
    if not b["ok"]:
        chk.disagreements.append({"stream": "build", "detail": "the binary does not build against /repo", "log": b.get("log", "")[-1500:]})
        return core.finish(chk, TRUSTED)
    deep = tier == "thorough" or not chk.proof["ok"]
    tmp = core.scratch_dir("c02")
    reps = 12 if deep else 2
    jobs = []
    names = list(CATALOGUE)
    for name in names:
        mut, fam, modes = CATALOGUE[name]
        done = 0
        tries = 0
        while done < reps and tries < 60:
            tries += 1
            stave = rng.random() < 0.35
            fmt = [0, 2][(done + names.index(name)) % 2]     # every entry is applied to both data formats, in turn
            # calibration runs (a CDW leads the data of every page) for the CDW rules and for a fifth of the other streams
            calib = name.startswith("cdw") or rng.random() < 0.2
            _m, per = streams.conforming(rng, nlinks=rng.choice([1, 2, 3]), nhbf=rng.choice([2, 3]), stave_level=stave, fmt=fmt, calib=calib)
            per = [list(pk) for pk in per]
            # RDH rules do not depend on the payload: a third of their streams carry arbitrary payload sizes incl. none at all (modes without a target only)
            rdh_only = fam[0] in (10, 11) and name != "rdh0 system id (ITS)" and rng.random() < 0.35
            if rdh_only:
                for pk in per:
                    for q, (r, p) in enumerate(pk):
                        np_ = b"" if rng.random() < 0.4 else bytes(rng.randrange(256) for _ in range(rng.choice([16, 32, 160])))
                        b2 = bytearray(r)
                        struct.pack_into("<H", b2, 8, 64 + len(np_))
                        struct.pack_into("<H", b2, 10, 64 + len(np_))
                        pk[q] = (bytes(b2), np_)
            li = rng.randrange(len(per))
            # position classes: first (non-first-of-input) / middle / last packet of the link
            pos_class = rng.choice(["first", "middle", "last", "any"])
            ks = list(range(len(per[li])))
            cand = {"first": ks[1:3], "middle": ks[len(ks) // 3: 2 * len(ks) // 3 + 1], "last": ks[-2:], "any": ks[1:]}[pos_class] or ks[1:]
            rng.shuffle(cand)
            hit = None
            for k in cand:
                hit = mut(rng, per, li, k)
                if hit:
                    break
            if not hit:
                continue
            # link li first in the file would make packet 0 the first RDH of the input; the mutated packet is never packet 0 of the input
            order = c06.layouts(rng, per)[rng.choice(["contiguous", "round-robin", "random-1"])]
            if order[0] == (hit[1], hit[2]):
                continue
            cd, _r = c06.place(per, order)
            off = next(o for (o, _r2, _p), (i, k2) in zip(cd, order) if (i, k2) == (hit[1], hit[2])) + hit[3]
            data = b"".join(r + p for _o, r, p in cd)
            path = os.path.join(tmp, "f%d.raw" % len(jobs))
            open(path, "wb").write(data)
            done += 1
            toml = None
            if rng.random() < 0.3:
                # an orthogonal option: a custom-checks file that agrees with the data must not switch any rule off
                toml = os.path.join(tmp, "cc%d.toml" % len(jobs))
                open(toml, "w").write("rdh_version = %d\n" % per[0][0][0][0])
                if name == "rdh0 version differs from first":
                    toml = None
            for mode in ALLM:
                if mode == "all-stave" and not stave:
                    continue
                if rdh_only and mode not in ("sanity", "all"):
                    continue
                jobs.append({"toml": toml, "name": name, "fam": fam, "active": mode in modes, "mode": mode, "path": path, "data": data, "off": off, "pos": pos_class, "stave": stave,
                             "kind": hit[0], "ee": rng.choice([57, 1, 255])})

    def work(j):
        rc, so, se, dt = core.run_cli([j["path"]] + MODES[j["mode"]] + ["-E", str(j["ee"])] + (["-c", j["toml"]] if j["toml"] else []), timeout=120)
        return rc, se.decode("utf8", "replace")
    res = core.par_map(work, jobs)
    distinct, samples = set(), []
    covered = {}
    for j, (rc, se) in zip(jobs, res):
        desc = {"stream": "fault-catalogue", "fault": j["name"], "documented_families": j["fam"], "at_offset": "%X" % j["off"], "position": j["pos"], "mode": " ".join(MODES[j["mode"]]) + (" --checks-toml {rdh_version = data version}" if j["toml"] else ""),
                "input_hex": j["data"].hex().upper() if len(j["data"]) <= 2500 else "(generated, %d bytes)" % len(j["data"])}
        if "panicked at" in se or not isinstance(rc, int) or rc < 0:
            continue
        f = findings(se)
        at = [c for o, c in f if o == j["off"]]
        distinct.add((j["name"], j["mode"], j["active"], j["pos"]))
        if j["active"]:
            covered[j["name"]] = covered.get(j["name"], 0) + 1
            if not any(c in j["fam"] for c in at) or rc != j["ee"]:
                cls = "F15-continuation-after-complete-packet-not-checked" if j["name"] == "tdh continuation set after complete packet" and not any(c == 42 for c in at) else None
                chk.spec_violations.append(dict(desc, exit=rc, expected_exit=j["ee"], codes_at_offset=at, all_findings=[("%X" % o, c) for o, c in f][:8], **{"class": cls},
                                                what="a broken documented rule is not reported with its error-code family at the offending offset (or the any-errors status is not returned)"))
        elif j["name"] in RUNNING_ONLY and j["mode"] in ("sanity", "sanity-its"):
            if any(c == 11 for _o, c in f):
                chk.spec_violations.append(dict(desc, findings=[("%X" % o, c) for o, c in f][:8], what="a purely stateful (running) violation is reported by `check sanity`"))
        elif j["mode"] in ("sanity", "sanity-its") and CATALOGUE[j["name"]][2] is RUN_ITS:
            # the state-dependent word rules (documented under `ITS payload running checks`: CDW index, TDH continuation / bc / orbit, DDW0
            # page) are as stateful as the RDH running rules: `check sanity` -- with or without the its target -- reports none of them (seed C02-J)
            if any(c in j["fam"] for c in at):
                chk.spec_violations.append(dict(desc, codes_at_offset=at, findings=[("%X" % o, c) for o, c in f][:8],
                                                what="a purely stateful (running) ITS word rule is reported by `check sanity`"))
        if len(samples) < 4 and j["active"] and at:
            samples.append(dict(desc, exit=rc, codes_at_offset=at))
    missing = [n for n in names if covered.get(n, 0) == 0]
    if missing:
        chk.disagreements.append({"stream": "fault-catalogue", "detail": "catalogue entries that could not be applied to any generated stream", "entries": missing})
    shutil.rmtree(tmp, ignore_errors=True)
    if chk.proof.get("ok"):
        coq_examples(chk)
    chk.add_stream("fault-catalogue", len(jobs), distinct, samples, distribution={"catalogue_entries": len(names), "faulted_streams_per_entry": reps, "runs": len(jobs)})
    chk.cov["rule"] = ("%d catalogue entries (RDH0..RDH3 sanity rules incl. ITS system id, the four running rules, IHW / TDH / TDT / DDW0 identifier and reserved-bit rules, data word ids, "
                       "unknown identifiers in choice states, the padding limit, the two CDW rules on calibration streams, DDW0 page rules, the TDH continuation / bunch-crossing / orbit rules) x positions first / middle / "
                       "last / any non-first packet on a random link of 1..3 interleaved links, formats 0 and 2, stave-level and plain streams x the five modes: where the rule is "
                       "documented as active an error of its family must be located at the offending RDH / word and the -E status returned; running-only faults must not produce "
                       "[E11] under check sanity. distinct = (entry, mode, active, position class)" % len(CATALOGUE))
    return core.finish(chk, TRUSTED)
