"""C18 -- input truncated at any byte is handled; the intact prefix is still analysed."""
import os
import random
import re
import shutil

from .. import core, scangen, streams

TRUSTED = [
    "Coq 8.16.1 kernel (coqc); vm_compute for the refutation witness; no native_compute",
    "axioms: none (Print Assumptions: Closed under the global context for every C18 theorem)",
    "gen/extract_facts.py: structural facts cdp_offset_sampled_after and batch_kept_on_invalid_input (get_array_batch's match arms) "
    "plus the constants of C03, re-read from the current sources",
    "extraction (ExtrOcamlBasic only) + OCaml driver; fp_harness `scan` stream (real InputScanner + spawn_reader over a file and over a pipe)",
    "the rebuilt `fastpasta` binary for the end-to-end cuts (exit status / signal, stderr findings)",
    "Python cut decomposition and chain walk (specification side); ANSI stripping of stderr",
    "reader model as in C03; runtime behaviour of a stalled pipe is outside the model",
]

ANSI = re.compile(r"\x1b\[[0-9;]*m")
ERR = re.compile(r"^(?:ERROR|FATAL)?\s*(?:0x([0-9A-Fa-f]+):\s*)?\[E(\d+)\]")


def findings(stderr_text):
    """(offset, code) pairs of ERROR lines; fatal / panic markers"""
    out = []
    fatal = []
    for line in ANSI.sub("", stderr_text).split("\n"):
        if line.startswith("ERROR "):
            m = re.match(r"ERROR\s+0x([0-9A-Fa-f]+):\s*(?:\[E(\d+)\])?", line)
            if m:
                out.append((int(m.group(1), 16), int(m.group(2)) if m.group(2) else 0))
        elif line.startswith("FATAL"):
            fatal.append(line[:200])
    return out, fatal


def cut_decomp(pkts, k):
    """-> (number of complete packets inside the first k bytes, offset of the packet the cut falls in, bytes of it present)"""
    off = 0
    n = 0
    for r, p in pkts:
        sz = 64 + len(p)
        if off + sz <= k:
            off += sz
            n += 1
        else:
            break
    return n, off, k - off


def run(tier, seed):
    chk = core.Check("C18", tier, seed)
    rng = random.Random(seed)
    gen = core.step_gen()
    chk.cov["gen"] = gen["log"]
    chk.cov["gen_facts"] = {k: v for k, v in gen["facts"].items() if k in ("cdp_offset_sampled_after", "batch_kept_on_invalid_input", "batch_cap", "offset_window_hi")}
    chk.proof = core.step_coq("Props/C18.v")
    core.step_model()
    h = core.step_harness()
    b = core.step_cli() if h["ok"] else h
    if not h["ok"] or not b["ok"]:
        chk.disagreements.append({"stream": "build", "detail": "harness / binary does not build against /repo", "log": (h.get("log") or b.get("log", ""))[-1500:]})
        return core.finish(chk, TRUSTED)
    deep = tier == "thorough" or not chk.proof["ok"]

    # ------------------------------------------------------------ stream 1: scanner, every cut position
    cases = []
    nstreams = 14 if deep else 5
    for s in range(nstreams):
        n = rng.choice([2, 3, 4, 5])
        pkts = []
        ids = [(rng.randrange(4), (rng.randrange(7) << 12) | rng.randrange(48)) for _ in range(rng.choice([1, 2, 3]))]
        for i in range(n):
            link, fee = rng.choice(ids)
            pl = bytes(rng.randrange(256) for _ in range(rng.choice([0, 0, 1, 5, 16, 40, 70])))
            from .. import rawdata
            pkts.append((rawdata.mk_rdh(link=link, fee=fee, payload_len=len(pl), pages=i, orbit=s), pl))
        data = scangen.serialize(pkts)
        for src in ("file", "pipe"):
            flt = scangen.pick_filter(rng, ids)
            skip = rng.randrange(2)
            step = 1 if (deep or len(data) < 400) else 3
            for k in list(range(8, len(data) + 1, step)):
                cases.append((scangen.hexline(src, flt, skip, data[:k]), pkts, flt, skip, k, src))
    # longer streams, cuts around batch boundaries
    for n in ([99, 100, 101, 201] if deep else [100, 101]):
        pkts, ids = scangen.rand_stream(rng, n)
        data = scangen.serialize(pkts)
        offs = streams.offsets(pkts)
        for src in ("file", "pipe"):
            flt = scangen.pick_filter(rng, ids)
            for _ in range(30 if deep else 8):
                i = rng.choice([0, 1, 98, 99, 100, n - 1, rng.randrange(n)]) % n
                k = offs[i] + rng.choice([1, 63, 64, 65, 64 + len(pkts[i][1]) - 1, 64 + len(pkts[i][1])])
                k = max(8, min(k, len(data)))
                cases.append((scangen.hexline(src, flt, rng.randrange(2), data[:k]), pkts, flt, None, k, src))
    # a stream longer than the reader's 50 KiB buffer, cut exactly at packet boundaries on both sides of that mark
    pkts, ids = scangen.rand_stream(rng, 420)
    data = scangen.serialize(pkts)
    offs = streams.offsets(pkts) + [len(data)]
    near = [o for o in offs if 49000 <= o <= 54000]
    for k in (near if deep else near[::2]) + [offs[-1]]:
        for src, skip in (("file", 1), ("file", 0), ("pipe", 1)):
            cases.append((scangen.hexline(src, "-" if rng.random() < 0.6 else scangen.pick_filter(rng, ids), skip, data[:k]), pkts, None, skip, k, src))
    cases = [(c[0], c[1], c[0].split()[1], c[3], c[4], c[5]) for c in cases]
    lines = [c[0] for c in cases]
    impl = core.run_lines(core.HARNESS_BIN, "scan", lines, shards=core.NCPU)
    model = core.run_lines(core.FPMODEL, "scan", lines, shards=core.NCPU)
    d1 = set()
    samples = []
    for (line, pkts, flt, skip, k, src), li, lm in zip(cases, impl, model):
        if skip is None:
            skip = int(line.split()[2])
        short = line if len(line) < 1400 else line[:1400] + "...(%d chars)" % len(line)
        if li.startswith("PANIC") or li.startswith("DIED"):
            chk.spec_violations.append({"stream": "scan-cut", "case": short, "impl": li[:200], "what": "scanner panicked on a truncated input"})
            continue
        if li != lm:
            chk.disagreements.append({"stream": "scan-cut", "case": short, "impl": li[:500], "model": lm[:500]})
        ncomp, offc, have = cut_decomp(pkts, k)
        eb, _ = scangen.expected(pkts[:ncomp], flt, skip)
        et = [] if eb == "-" else eb.replace(" / ", " ").split()
        ib = li.partition(" | ")[0]
        it = [] if ib == "-" else ib.replace(" / ", " ").split()
        kind = "between" if have == 0 else ("header" if have < 64 else "payload")
        d1.add((src, flt.split(":")[0], skip, kind, min(ncomp, 3)))
        ok = it[:len(et)] == et and len(it) - len(et) <= 1
        if ok and len(it) == len(et) + 1:
            x = it[-1].split(":")
            ok = (have >= 64 and have < 64 + len(pkts[ncomp][1]) and int(x[0], 16) == offc and x[1] == "0" and scangen.matches(flt, pkts[ncomp][0]))
        if not ok:
            chk.spec_violations.append({"stream": "scan-cut", "source": src, "filter": flt, "skip_payload": skip, "cut_at_byte": k,
                                        "complete_packets_before_cut": ncomp, "cut_falls_in": kind, "case": short,
                                        "impl": it[-4:], "spec_prefix": et[-3:], "impl_count": len(it), "spec_count": len(et),
                                        "what": "packets handed on for a truncated input are not the complete packets before the cut (+ at most the cut packet's header)"})
        if len(samples) < 3 and kind == "payload" and flt != "-":
            samples.append({"case": short[:300], "cut": k, "impl": li[:200], "model": lm[:200]})
    chk.add_stream("scan-cut", len(cases), d1, samples, exhaustive=True,
                   distribution={"streams": nstreams, "every_cut_position_of_short_streams": True})

    # ------------------------------------------------------------ stream 2: the binary, every cut position
    tmp = core.scratch_dir("c18")
    jobs = []
    MODES = [["check", "all", "its"], ["check", "sanity", "its"], ["check", "all"], ["check", "sanity"], ["view", "rdh"], ["check", "all", "its-stave"],
             ["view", "its-readout-frames"], ["view", "its-readout-frames-data"]]
    ncli = 5 if deep else 3
    for s in range(ncli):
        pkts, per = streams.conforming(rng, nlinks=rng.choice([1, 2]), nhbf=1, stave_level=True)
        data = bytearray(streams.serialize(pkts))
        offs = streams.offsets(pkts)
        # a few faults so that the intact prefix has findings of its own
        for _ in range(rng.randrange(1, 4)):
            i = rng.randrange(max(1, len(pkts) // 2))
            if len(pkts[i][1]) >= 10:
                data[offs[i] + 64 + 9] = 0x01        # first word's id
            data[offs[rng.randrange(len(pkts))] + 4] = 1 if rng.random() < 0.3 else 0   # priority bit
        data = bytes(data)
        full = os.path.join(tmp, "full%d.raw" % s)
        open(full, "wb").write(data)
        step = 2 if deep else 7
        ks = sorted(set(list(range(0, 12)) + list(range(12, len(data), step)) + [o + d for o in offs for d in (-1, 0, 1, 63, 64, 65)] + [len(data) - 1]))
        ks = [k for k in ks if 0 <= k < len(data)]
        for mode in (MODES if deep else rng.sample(MODES[:6], 3) + [rng.choice(MODES[6:])]):
            jobs.append({"s": s, "k": len(data), "mode": mode, "data": data, "pkts": pkts, "inp": "file", "full": True})
            for k in ks:
                jobs.append({"s": s, "k": k, "mode": mode, "data": data[:k], "pkts": pkts, "inp": rng.choice(["file", "pipe"]), "full": False})

    # cuts at packet boundaries that are reader-batch boundaries too (100 packets per batch): the input ends cleanly after 100*k packets --
    # there is no incomplete packet, so nothing but the findings of the complete packets may be reported (seed C18-H)
    bpk, _bper = streams.conforming(rng, nlinks=2, nhbf=60 if deep else 45, stave_level=False)
    while len(bpk) < 230:
        more, _ = streams.conforming(rng, nlinks=2, nhbf=30, stave_level=False)
        bpk = bpk + more
    bdata = bytearray(streams.serialize(bpk))
    boffs = streams.offsets(bpk)
    for i in (3, 57, 101, 150, 199):
        bdata[boffs[i] + 4] = 1          # priority bit: findings of their own before and behind the boundaries
    bdata = bytes(bdata)
    for mode in (["check", "sanity"], ["check", "all", "its"], ["view", "rdh"]):
        jobs.append({"s": ncli, "k": len(bdata), "mode": mode, "data": bdata, "pkts": bpk, "inp": "file", "full": True})
        for npk in (99, 100, 101, 199, 200, 201):
            for d in (0, 1, 64, -1):
                k = boffs[npk] + d
                jobs.append({"s": ncli, "k": k, "mode": mode, "data": bdata[:k], "pkts": bpk, "inp": rng.choice(["file", "pipe"]), "full": False})

    def work(j):
        if j["inp"] == "file":
            path = os.path.join(tmp, "c_%d_%d_%s.raw" % (j["s"], j["k"], "_".join(j["mode"])))
            open(path, "wb").write(j["data"])
            rc, so, se, dt = core.run_cli([path] + j["mode"], timeout=30)
            os.remove(path)
        else:
            rc, so, se, dt = core.run_cli(j["mode"], stdin_bytes=j["data"], timeout=30)
        return rc, so.decode("utf8", "replace"), se.decode("utf8", "replace"), dt

    res = core.par_map(work, jobs)
    fulls = {}
    for j, r in zip(jobs, res):
        if j["full"]:
            fulls[(j["s"], tuple(j["mode"]))] = r
    d2 = set()
    samples2 = []
    for j, (rc, so, se, dt) in zip(jobs, res):
        if j["full"]:
            continue
        desc = {"stream": "cli-cut", "mode": " ".join(j["mode"]), "input": j["inp"], "cut_at_byte": j["k"],
                "input_hex": j["data"].hex().upper() if len(j["data"]) <= 700 else "(first %d bytes of stream %d, seed %d)" % (j["k"], j["s"], seed)}
        ncomp, offc, have = cut_decomp(j["pkts"], j["k"])
        kind = "tiny(<8)" if j["k"] < 8 else ("between" if have == 0 else ("header" if have < 64 else "payload"))
        d2.add((j["mode"][-1], j["inp"], kind, rc if isinstance(rc, int) else str(rc)))
        if not isinstance(rc, int) or rc < 0 or rc not in (0, 1) or "panicked at" in se:
            chk.spec_violations.append(dict(desc, rc=str(rc), stderr_tail=ANSI.sub("", se)[-400:],
                                            **{"class": "F2-input-shorter-than-8-bytes" if j["k"] < 8 else None},
                                            what="truncated input does not end normally (panic / signal / unexpected status)"))
            continue
        frc, fso, fse, _ = fulls[(j["s"], tuple(j["mode"]))]
        if j["mode"][0] == "check":
            fc, fatal_c = findings(se)
            ff, _ = findings(fse)
            before = sorted(x for x in fc if x[0] < offc)
            expect = sorted(x for x in ff if x[0] < offc)
            later = [x for x in fc if x[0] >= offc]
            if j["mode"][-1] == "its-stave":
                # frame-level messages are emitted when the frame closes: compare only those of frames closed before the cut,
                # i.e. require inclusion instead of equality
                okp = all(x in expect for x in before)
            else:
                okp = before == expect
            if not okp:
                chk.spec_violations.append(dict(desc, findings_before_cut=before[:10], findings_in_full_run_before_cut=expect[:10],
                                                what="findings for the complete packets before the cut differ from the untruncated run"))
            # anything else must concern the incomplete final packet (offset at or after its start)
            limit = offc + 64 + (len(j["pkts"][ncomp][1]) if ncomp < len(j["pkts"]) else 0)
            if any(x[0] > limit for x in later):
                chk.spec_violations.append(dict(desc, later=later[:10], what="message located beyond the incomplete final packet"))
            if have == 0 and later and j["mode"][-1] != "its-stave":
                chk.spec_violations.append(dict(desc, later=later[:10], complete_packets=ncomp,
                                                what="the input ends exactly at a packet boundary (no incomplete packet), yet a message that concerns no complete packet is reported"))
        elif j["mode"][1] != "rdh":
            pass        # frame views of a cut input: judged on `ends normally, no panic` above (their rows are C19's matter)
        else:
            rows_c = [l for l in ANSI.sub("", so).split("\n") if re.match(r"^\s*[0-9A-F]+:", l)]
            rows_f = [l for l in ANSI.sub("", fso).split("\n") if re.match(r"^\s*[0-9A-F]+:", l)]
            exp_rows = ncomp + (1 if have >= 64 else 0)
            if "Init processing failed" in fse:
                # the input is not recognised (its first RDH0 fails the preliminary check, D9): nothing is visited, cut or not
                if rows_c:
                    chk.spec_violations.append(dict(desc, rows=len(rows_c), what="rows printed for an input that is rejected when complete"))
            elif rows_c[:ncomp] != rows_f[:ncomp] or not (ncomp <= len(rows_c) <= exp_rows):
                chk.spec_violations.append(dict(desc, rows=len(rows_c), complete_packets=ncomp,
                                                what="`view rdh` rows of the complete packets differ from the untruncated run"))
        if len(samples2) < 3 and kind == "payload" and j["mode"][0] == "check":
            samples2.append(dict(desc, rc=rc, findings=findings(se)[0][:5]))
    # ------------------------------------------------------------ search after a broken correspondence
    # model and code disagree on some truncated inputs but no failing input has been seen yet: replay exactly those inputs
    # (plus one RDH-level fault so that the run has findings of its own) through the binary in the check modes
    if chk.disagreements and not chk.spec_violations:
        sj = []
        for dis in [x for x in chk.disagreements if x.get("stream") == "scan-cut"][:120]:
            toks = dis["case"].split()
            if len(toks) < 4 or toks[3].endswith(")"):
                continue
            try:
                raw = bytearray(bytes.fromhex(toks[3]))
            except ValueError:
                continue
            if len(raw) >= 64:
                raw[39] = 1          # RDH2 reserved byte of the first header: an [E10] finding at offset 0
            for mode in (["check", "sanity"], ["check", "all", "its"]):
                sj.append({"data": bytes(raw), "mode": mode, "inp": toks[0]})

        def swork(j):
            if j["inp"] == "file":
                path = os.path.join(tmp, "s_%d.raw" % id(j))
                open(path, "wb").write(j["data"])
                r = core.run_cli([path] + j["mode"], timeout=30)
                os.remove(path)
            else:
                r = core.run_cli(j["mode"], stdin_bytes=j["data"], timeout=30)
            return r
        for j, (rc, so, se, dt) in zip(sj, core.par_map(swork, sj)):
            se = se.decode("utf8", "replace")
            if not isinstance(rc, int) or rc not in (0, 1) or "panicked at" in se:
                chk.spec_violations.append({"stream": "search-after-disagreement", "mode": " ".join(j["mode"]), "input": j["inp"],
                                            "input_hex": j["data"].hex().upper()[:1600], "rc": str(rc), "stderr_tail": ANSI.sub("", se)[-500:],
                                            "what": "truncated input does not end normally (panic / signal / unexpected status)"})
        chk.cov["search_after_disagreement_runs"] = len(sj)
    shutil.rmtree(tmp, ignore_errors=True)
    chk.add_stream("cli-cut", len(jobs), d2, samples2, distribution={"streams": ncli, "runs": len(jobs)})
    chk.cov["rule"] = ("scan-cut: short well-framed streams, EVERY cut position from byte 8 (exhaustive; step 3 above 400 bytes in the quick tier), "
                       "file and pipe, random filter / skip; longer streams cut around batch boundaries; compared with the model and with "
                       "the Python cut decomposition. cli-cut: conforming ITS streams with injected faults through the rebuilt binary in "
                       "check / view modes, every cut position incl. 0..11 bytes (quick: every 7th + all packet boundaries +-1), file and "
                       "pipe; exit status, panic text, findings below the cut vs the untruncated run. distinct = class tuples")
    return core.finish(chk, TRUSTED)
