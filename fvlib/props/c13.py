"""C13 -- stave-level ALPIDE frame checks are exact and ignore hit content."""
import json
import os
import random
import re
import shutil

from .. import canon, core, itsgen, rawdata, streams
from . import c06

TRUSTED = [
    "Coq 8.16.1 kernel (coqc); vm_compute for the 256-entry byte-class table (cls_table, low4_table) and the witnesses",
    "axioms: none (Print Assumptions: Closed under the global context for every C13 theorem)",
    "gen/extract_facts.py: ALPIDE word constants, lane-count constants, fatal_lanes_added_after_lane_check / fatal_lanes_deduplicated (readout_frame.rs)",
    "extraction (ExtrOcamlBasic only) + OCaml driver (`linkt` stream: whole link validator in stave mode, frame messages with lane tags); fp_harness (real LinkValidator); the rebuilt binary",
    "the independent ALPIDE encoder and frame-rule oracle of fvlib/props/c13.py (specification side; Spec/AlpideEnc.v is its Coq counterpart)",
    "message text parsing (lane numbers, [E9003..5] sub-codes, 'Bunch counter already set', 'Mismatching bunch counters between lanes')",
    "lanes without any chip header and without a fatal extension crash the decoder (finding F8, a C04 matter) and are not generated here",
]

IB_GROUPS = [[0, 1, 2], [3, 4, 5], [6, 7, 8]]
ML_SETS = [[0x43, 0x44, 0x45, 0x46, 0x48, 0x49, 0x4A, 0x4B], [0x53, 0x54, 0x55, 0x56, 0x58, 0x59, 0x5A, 0x5B]]
OL_SETS = [[0x40 + i for i in range(7)] + [0x48 + i for i in range(7)], [0x50 + i for i in range(7)] + [0x58 + i for i in range(7)]]
FILL = [0xF0, 0xF1, 0xF2, 0xF3, 0xFD, 0xFE, 0xFF]
FATAL = list(range(0xF4, 0xFD))
NASTY = [0xA0, 0xA5, 0xAF, 0xB0, 0xB4, 0xBF, 0xE0, 0xE7, 0xF4, 0xF8, 0xFC, 0x00, 0xC0, 0xDF, 0xF0, 0xF1, 0x40, 0x7F, 0xFF]
CUSTOM = {"chip_count_ob": 7, "chip_orders_ob": [[0, 1, 2, 3, 4, 5, 6], [8, 9, 10, 11, 12, 13, 14]]}


def lane_number(idb, ib):
    return idb & 0x1F if ib else streams.ob_lane(idb)


# ------------------------------------------------------------------ independent encoder
def encode_lane(skel, rng, style):
    """skel: list of ('chip', id, bc, empty?, trailer flags, fatal inside?) | ('fatal', byte).  style 0: no hits, no filler;
    1: ordinary hits; 2: adversarial hit bytes, filler words and idle bytes everywhere they are legal"""
    out = bytearray()

    def filler(inside):
        if style == 2 and rng.random() < 0.5:
            out.append(rng.choice(FILL))
        if style == 2 and not inside and rng.random() < 0.4:
            out.extend(b"\x00" * rng.randrange(1, 4))
    for it in skel:
        filler(False)
        if it[0] == "fatal":
            out.append(it[1])
            continue
        _, cid, bc, empty, tr, fin = it
        if empty:
            out += bytes([0xE0 | cid, bc])
            continue
        out += bytes([0xA0 | cid, bc])
        if fin:
            out.append(fin)
        if style:
            for _ in range(rng.randrange(0, 4)):
                filler(True)
                out.append(0xC0 | rng.randrange(32))
                for _ in range(rng.randrange(0, 4)):
                    filler(True)
                    pick = (lambda: rng.choice(NASTY)) if style == 2 else (lambda: rng.randrange(256))
                    if rng.random() < 0.5:
                        out += bytes([0x40 | rng.randrange(64), pick()])
                    else:
                        out += bytes([rng.randrange(64) if style == 1 else rng.choice([0, 0, rng.randrange(64)]), pick(), pick()])
        filler(True)
        out.append(0xB0 | tr)
    filler(False)
    return bytes(out)


def lane_words(idb, data):
    return [itsgen.data_word(idb, data[i:i + 9]) for i in range(0, max(len(data), 1), 9)]


def interleave(per_lane_words, rng, style):
    if style == 0:
        return [w for ws in per_lane_words for w in ws]
    idx = [0] * len(per_lane_words)
    out = []
    while any(idx[i] < len(per_lane_words[i]) for i in range(len(per_lane_words))):
        i = rng.choice([i for i in range(len(per_lane_words)) if idx[i] < len(per_lane_words[i])])
        # keep the first word of every lane in lane order so that the order of the lanes in the frame is the same in every variant
        first_pending = [k for k in range(len(per_lane_words)) if idx[k] == 0]
        if first_pending and idx[i] == 0 and i != first_pending[0]:
            i = first_pending[0]
        out.append(per_lane_words[i][idx[i]])
        idx[i] += 1
    return out


# ------------------------------------------------------------------ frame plans
def plan_frame(rng, layer, base_ids, kind, bc, special_id=None):
    """-> list of (id byte, skeleton); special_id: the lane the frame's special treatment (e.g. the FATAL announcement) goes to"""
    ib = layer <= 2
    ids = list(base_ids)
    if kind == "missing-lane":
        ids.pop(rng.randrange(len(ids)))
    elif kind == "extra-lane":
        pool = [0x20 + l for l in range(9)] if ib else sorted(set(sum(ML_SETS + OL_SETS, [])))
        if layer >= 5 and 0x58 in ids:
            pool = pool + [0x5F, 0x5F, 0x5F]      # input 7 of the last connector: reported at the word ([E73]), and one lane too many
        extra = [x for x in pool if x not in ids]
        ids.insert(rng.randrange(len(ids) + 1), rng.choice(extra))
    elif kind == "wrong-group" and ib:
        other = [0x20 + l for l in range(9) if 0x20 + l not in ids]
        ids[rng.randrange(len(ids))] = rng.choice(other)
    elif kind == "other-group" and ib:
        # the same positions of another fixed group: legal when the group is complete, a grouping error when lanes are left out
        g = (ids[0] - 0x20) // 3
        g2 = rng.choice([x for x in range(3) if x != g])
        ids = [0x20 + 3 * g2 + (i - 0x20) % 3 for i in ids]
    elif kind == "high-lanes" and ib:
        k0 = rng.choice([9, 12, 15, 18, 21, 24, 27])
        ids = [0x20 + k0 + j for j in range(len(ids))]
    elif kind == "fatal-high-lane" and ib:
        # an extra data word id that is no inner barrel lane (lane numbers 9..31) whose lane announces FATAL
        high = rng.choice([0x29, 0x2A, 0x30, 0x3E, 0x3F, 0x20 + rng.randrange(9, 32)])
        ids.insert(rng.randrange(len(ids) + 1), high)
    if kind == "shuffled" or rng.random() < 0.3:
        rng.shuffle(ids)
    lanes = []
    special = rng.randrange(len(ids))
    if special_id is not None and special_id in ids:
        special = ids.index(special_id)
    for k, idb in enumerate(ids):
        ln = lane_number(idb, ib)
        chips = [ln & 0xF] if ib else (list(range(7)) if rng.random() < 0.7 else list(range(8, 15)))
        sk = [("chip", c, bc, rng.random() < 0.3, rng.choice([0, 0, 1, 2, 4, 8, 12, 14, 15, 6]), 0) for c in chips]
        if kind == "fatal-high-lane" and ib and ln > 8:
            sk = [("fatal", rng.choice(FATAL))]
        elif k == special:
            if kind == "bc-lane-differs":
                sk = [(t, c, (bc + 1) & 0xFF, e, tr, f) for t, c, _b, e, tr, f in sk]
            elif kind == "bc-chip-differs" and not ib:
                j = rng.randrange(len(sk))
                sk[j] = sk[j][:2] + ((bc + 7) & 0xFF,) + sk[j][3:]
            elif kind == "chip-id-wrong" and ib:
                sk = [sk[0][:1] + ((ln + 1 + rng.randrange(8)) % 16,) + sk[0][2:]]
                if sk[0][1] == ln:
                    sk = [sk[0][:1] + ((ln + 1) % 16,) + sk[0][2:]]
            elif kind == "chip-count":
                if ib:
                    sk = sk + [("chip", (ln + 3) % 16, bc, False, 0, 0)]
                else:
                    sk = sk[:-1] if rng.random() < 0.5 else sk + [("chip", 7, bc, False, 0, 0)]
            elif kind == "chip-order" and not ib:
                i, j = rng.sample(range(len(sk)), 2)
                sk[i], sk[j] = sk[j], sk[i]
            elif kind == "dup-chip":
                sk = sk + [sk[rng.randrange(len(sk))]]
            elif kind == "fatal-announce":
                pos = rng.randrange(len(sk) + 1)
                if pos < len(sk) and rng.random() < 0.5 and not sk[pos][3]:
                    sk[pos] = sk[pos][:5] + (rng.choice(FATAL),)
                else:
                    sk.insert(pos, ("fatal", rng.choice(FATAL)))
        lanes.append((idb, sk))
    return lanes


def oracle_frame(layer, lanes, known_fatal, custom):
    """documented verdict of one frame -> (tokens {code: tags}, flags[7], newly fatal lanes, ambiguous?)"""
    ib = layer <= 2
    present = [lane_number(i, ib) for i, _ in lanes]
    flags = [0] * 7
    errs, valid, new_fatal = [], [], []
    for idb, sk in lanes:
        ln = lane_number(idb, ib)
        chips, dup, fatal = [], False, False
        for it in sk:
            if it[0] == "fatal":
                fatal = True
                continue
            _, cid, bc, empty, tr, fin = it
            if any(c == cid for c, _ in chips):
                dup = True
            else:
                chips.append((cid, bc))
            if fin:
                fatal = True
            if not empty:
                t = 0xB0 | tr
                flags[0] += 1
                if t == 0xB8:
                    flags[1] += 1
                elif t == 0xBC:
                    flags[2] += 1
                elif t == 0xBE:
                    flags[3] += 1
                else:
                    flags[4] += (t >> 2) & 1
                    flags[5] += (t >> 1) & 1
                    flags[6] += t & 1
        if fatal:
            new_fatal.append(ln)
            continue
        bcs = []
        for _, b in chips:
            if b not in bcs:
                bcs.append(b)
        e3 = len(bcs) > 1
        ids = [c for c, _ in chips]
        if ib:
            e4 = len(ids) != 1
            e5 = (not e4) and ids[0] != ln
        else:
            e4 = custom is not None and len(ids) != custom["chip_count_ob"]
            e5 = (not e4) and custom is not None and ids not in custom["chip_orders_ob"]
        if e3 or e4 or e5 or dup:
            errs.append(ln * 16 + 8 * e3 + 4 * e4 + 2 * e5 + dup)
        else:
            valid.append(bcs[0])
    toks = {}
    vb = []
    for b in valid:
        if b not in vb:
            vb.append(b)
    if errs or len(vb) > 1:
        toks[74 if ib else 75] = errs + ([4096] if len(vb) > 1 else [])
    exp_n = {True: 3}.get(ib, 8 if layer <= 4 else 14)
    kf = sorted(set(known_fatal))
    ambiguous = any(p in kf for p in present)
    if len(present) != exp_n - len(kf):
        toks[72 if ib else 73] = [1]
    elif ib and sorted(present) not in [[x for x in g if x not in kf] for g in IB_GROUPS]:
        toks[72] = [2]
    return toks, flags, new_fatal, ambiguous


class PlannedLink(streams.Link):
    def __init__(self, rng, link_id, layer, stave, fmt, plans, style, omit=None):
        super().__init__(rng, link_id, layer, stave, fmt=fmt, version=7, stave_level=True)
        self.plans = list(plans)
        self.style = style
        self.k = 0
        mask = 0
        for lanes in plans:
            for idb, _ in lanes:
                mask |= 1 << lane_number(idb, layer <= 2)
        if omit is not None:
            # the IHW does not list a lane that sends data: each of its words is reported ([E71] lane not active), the readout
            # frame still carries the lane -- its verdict is the one of the lanes present (seed C13-G)
            mask &= ~(1 << lane_number(omit, layer <= 2))
        self.lanes_mask = mask or self.lanes_mask

    def frame_words(self, _bc):
        lanes = self.plans[self.k]
        self.k += 1
        per = [lane_words(idb, encode_lane(sk, self.rng, self.style)) for idb, sk in lanes]
        return interleave(per, self.rng, self.style)


def frame_tags(msg):
    code = canon.parse_error(msg)[1][0]
    if code in (72, 73):
        return [1] if "Invalid number of lanes" in msg else ([2] if "Invalid lane grouping" in msg else [])
    tags = []
    for sec in msg.split("\n\tLane ")[1:]:
        m = re.match(r"(\d+) errors: ", sec)
        if m:
            tags.append(int(m.group(1)) * 16 + 8 * ("[E9003]" in sec) + 4 * ("[E9004]" in sec) + 2 * ("[E9005]" in sec) + ("Bunch counter already set" in sec))
        elif "Mismatching bunch counters between lanes" in sec:
            tags.append(4096)
    return tags


def canon_linkt(line):
    """harness `link` output (errors not muted) -> the tokens of the model's `linkt` stream"""
    if line == "-":
        return "-"
    if line.startswith("DIED"):
        return "PANIC"
    out = []
    for t in line.split(" || "):
        c = canon.canon_stat(t)
        if c == "PANIC":
            return "PANIC"
        f = c.split(":")
        if f[0] == "E" and f[2] in ("72", "73", "74", "75") and f[3] == "-":
            c = ":".join(f[:4]) + ":" + ",".join(str(x) for x in frame_tags(canon.unesc(t.partition(" ")[2])))
        out.append(c)
    return " ".join(out)


def frame_starts(cd):
    """offsets of the TDH words (continuation = 0) that open a frame, by an independent walk over the packets"""
    out = []
    for off, r, p in cd:
        step = 16 if r[24] == 0 else 10
        for i in range(0, len(p) - 9, step):
            w = p[i:i + 10]
            if w[9] == 0xE8 and not (w[1] >> 6) & 1 and not (w[1] >> 5) & 1:
                out.append(off + 64 + i)
            if step == 10 and w[9] == 0xFF:
                break
    return out


KINDS = ["legal", "legal", "shuffled", "missing-lane", "extra-lane", "wrong-group", "other-group", "high-lanes", "bc-lane-differs", "bc-chip-differs", "chip-id-wrong",
         "chip-count", "chip-order", "dup-chip", "fatal-announce", "fatal-high-lane", "empty"]


def run(tier, seed):
    chk = core.Check("C13", tier, seed)
    rng = random.Random(seed)
    gen = core.step_gen()
    chk.cov["gen"] = gen["log"]
    chk.cov["gen_facts"] = {k: v for k, v in gen["facts"].items() if k.startswith("fatal_lanes") or "alpide" in k or "lane_count" in k}
    chk.proof = core.step_coq("Props/C13.v")
    core.step_model()
    h = core.step_harness()
    b = core.step_cli() if h["ok"] else h
    if not h["ok"] or not b["ok"]:
        chk.disagreements.append({"stream": "build", "detail": "harness / binary does not build against /repo", "log": (h.get("log") or b.get("log", ""))[-1500:]})
        return core.finish(chk, TRUSTED)
    deep = tier == "thorough" or not chk.proof["ok"]
    nstreams = 400 if deep else 60
    cases = []
    for s in range(nstreams):
        layer = rng.choice([0, 1, 2, 3, 4, 5, 6])
        ib = layer <= 2
        base = [0x20 + l for l in rng.choice(IB_GROUPS)] if ib else (rng.choice(ML_SETS) if layer <= 4 else rng.choice(OL_SETS))
        custom = CUSTOM if (not ib and rng.random() < 0.5) else None
        nfr = rng.randrange(1, 6)
        plans, kinds = [], []
        fatal_gone = []     # lanes that announced fatal: legal later frames leave them out
        # scripted sequence (a tenth of the streams): lane X announces FATAL, then another lane Y, then X AGAIN (it was still
        # transmitting), then frames without both -- the list of fatal lanes is a set however often and in whatever order lanes announce
        script = None
        if s % 10 == 4 and len(base) >= 3:
            x_, y_ = rng.sample(base, 2)
            script = [("fatal-announce", list(base), x_), ("fatal-announce", [i for i in base if i != x_ or rng.random() < 0.5], y_),
                      ("fatal-announce", [i for i in base if i != y_], x_), ("legal", [i for i in base if i not in (x_, y_)], None),
                      (rng.choice(["missing-lane", "legal", "shuffled"]) if len(base) > 3 else "legal", [i for i in base if i not in (x_, y_)], None)]
            nfr = len(script)
        for f in range(nfr):
            kind = rng.choice(KINDS)
            if script:
                kind, ids_s, sp_ = script[f]
                bc = rng.randrange(256)
                lanes = plan_frame(rng, layer, ids_s, kind, bc, special_id=sp_)
                plans.append(lanes)
                kinds.append(kind + "*")
                continue
            if kind in ("wrong-group", "chip-id-wrong", "other-group", "high-lanes", "fatal-high-lane") and not ib:
                kind = "chip-order"
            if kind in ("bc-chip-differs", "chip-order") and ib:
                kind = "bc-lane-differs"
            if kind == "chip-order" and custom is None:
                kind = "legal"
            # boundary bunch counters are over-represented: 0x00 is also the padding byte, 0xFF the other filler
            bc = rng.choice([0, 0, 0, 255, 1, 0xA0, 0xB0, 0xE0, 0xF0]) if rng.random() < 0.45 else rng.randrange(256)
            if kind == "empty":
                lanes = []
            else:
                ids = [i for i in base if lane_number(i, ib) not in fatal_gone or rng.random() < 0.15]
                # lanes known as fatal that are none of the stave's lanes still lower the expected lane count: most later frames
                # come with as many lanes fewer
                nhigh = len(set(x for x in fatal_gone if ib and x > 8))
                if nhigh and rng.random() < 0.7:
                    for _ in range(min(nhigh, max(0, len(ids) - 1))):
                        ids.pop(rng.randrange(len(ids)))
                lanes = plan_frame(rng, layer, ids, kind, bc)
            for idb, sk in lanes:
                if any(it[0] == "fatal" or (it[0] == "chip" and it[5]) for it in sk) and rng.random() < 0.8:
                    fatal_gone.append(lane_number(idb, ib))
            plans.append(lanes)
            kinds.append(kind)
        fmt = rng.choice([0, 2])
        variants = []
        vseed = rng.randrange(1 << 30)
        sending = sorted(set(idb for lanes in plans for idb, _ in lanes))
        omit = rng.choice(sending) if (not ib and sending and rng.random() < 0.25) else None
        if omit is not None:
            kinds.append("ihw-omits-lane-%02X" % omit)
        for style in (0, 1, 2):
            lrng = random.Random(vseed)      # same packet structure decisions where possible
            link = PlannedLink(lrng, rng.randrange(12) if style == 0 else variants[0]["link"], layer, 5, fmt, plans, style, omit=omit)
            if style:
                link.fee, link.orbit = variants[0]["fee"], variants[0]["orbit"]
            fee0, orbit0 = link.fee, link.orbit
            pk = []
            while link.k < len(plans):
                remaining = len(plans) - link.k
                pk += link.hbf(nslots=min(remaining, lrng.randrange(1, 4)))
            cd, _r = c06.place([pk], [(0, k) for k in range(len(pk))], start=rng.choice([0, 0x2000]))
            variants.append({"cd": cd, "style": style, "link": link.link, "fee": fee0, "orbit": orbit0})
        cases.append({"s": s, "layer": layer, "custom": custom, "plans": plans, "kinds": kinds, "variants": variants})
    lines = []
    for c in cases:
        head = "all stave - %s" % (json.dumps(c["custom"], separators=(",", ":")) if c["custom"] else "-")
        for v in c["variants"]:
            lines.append(rawdata.link_line(head, v["cd"]))
    impl = core.run_lines(core.HARNESS_BIN, "link", lines, shards=core.NCPU)
    model = core.run_lines(core.FPMODEL, "linkt", lines, shards=core.NCPU)
    distinct = set()
    samples = []
    k = 0
    nframes = 0
    for c in cases:
        ib = c["layer"] <= 2
        per_variant = []
        for v in c["variants"]:
            line, raw, mod = lines[k], impl[k], model[k].strip()
            k += 1
            got = canon_linkt(raw)
            if mod.startswith("PANIC:"):
                mod = "PANIC"        # the site is compared by the C04 check; here: both crash or neither
            desc = {"stream": "frames", "layer": c["layer"], "kinds": c["kinds"], "style": v["style"], "custom": c["custom"], "case": line if len(line) < 6000 else line[:6000] + "..."}
            if got != mod:
                chk.disagreements.append(dict(desc, impl=got[:600], model=mod[:600]))
            if got == "PANIC":
                per_variant.append(None)
                chk.spec_violations.append(dict(desc, what="the validator crashes on this stream: its frames get no verdict", detail=raw[:300]))
                continue
            starts = frame_starts(v["cd"])
            toks = [] if got == "-" else got.split(" ")
            by_frame = {}
            stats = [0] * 7
            for t in toks:
                f = t.split(":")
                if f[0] == "A":
                    stats = [a + int(x) for a, x in zip(stats, f[1].split(","))]
                elif f[0] == "E" and f[3] == "-" and f[2] in ("72", "73", "74", "75", "701"):
                    off = int(f[1], 16)
                    if off not in starts:
                        chk.spec_violations.append(dict(desc, message=t, frame_starts=["%X" % x for x in starts],
                                                        what="a frame-level error is not reported at the start offset of a frame"))
                        continue
                    by_frame.setdefault(starts.index(off), {})[int(f[2])] = [int(x) for x in f[4].split(",") if x]
            per_variant.append((by_frame, stats))
            # documented verdict, frame by frame
            known = []
            exp_stats = [0] * 7
            if len(starts) != len(c["plans"]):
                chk.disagreements.append(dict(desc, detail="generator: %d frames planned, %d frame starts found" % (len(c["plans"]), len(starts))))
                continue
            for fi, lanes in enumerate(c["plans"]):
                nframes += 1
                if not lanes:
                    exp = {701: []}
                    amb = False
                    newf = []
                else:
                    exp, fl, newf, amb = oracle_frame(c["layer"], lanes, known, c["custom"])
                    exp_stats = [a + x for a, x in zip(exp_stats, fl)]
                gotf = by_frame.get(fi, {})
                distinct.add((c["layer"] // 3 if ib else (1 if c["layer"] <= 4 else 2), c["kinds"][fi], tuple(sorted(exp)), bool(known), v["style"]))
                announcing = bool(newf)
                cmp_exp, cmp_got = dict(exp), dict(gotf)
                if amb:
                    cmp_exp.pop(72, None), cmp_exp.pop(73, None), cmp_got.pop(72, None), cmp_got.pop(73, None)
                if cmp_exp != cmp_got:
                    cls = None
                    if {k2: v2 for k2, v2 in cmp_exp.items() if k2 not in (72, 73)} == {k2: v2 for k2, v2 in cmp_got.items() if k2 not in (72, 73)}:
                        if announcing and (72 in cmp_got or 73 in cmp_got) and not (72 in cmp_exp or 73 in cmp_exp):
                            cls = "F10-announcing-frame-gets-lane-count-error"
                        elif len(known) != len(set(known)):
                            cls = "F9-repeated-fatal-announcement-counted-twice"
                    chk.spec_violations.append(dict(desc, frame=fi, frame_kind=c["kinds"][fi], lanes=[lane_number(i, ib) for i, _ in lanes], known_fatal_lanes=known,
                                                    expected=cmp_exp, reported=cmp_got, **{"class": cls},
                                                    what="the verdict of a readout frame differs from the documented rules (codes at the frame start; tags: lane*16+8*E9003+4*E9004+2*E9005+dup, 4096 = lanes disagree on BC; 72/73: 1 count, 2 grouping)"))
                known = known + newf
            if stats != exp_stats:
                chk.spec_violations.append(dict(desc, expected=exp_stats, reported=stats, what="ALPIDE readout-flag counters differ from the counts over the chip trailers of the frames"))
            if len(samples) < 4 and by_frame and v["style"] == 2:
                samples.append(dict(desc, frames={str(a): b_ for a, b_ in by_frame.items()}, stats=stats, case=line[:400]))
        # hit content is irrelevant: the three variants share the skeleton
        ok = [x for x in per_variant if x is not None]
        if len(ok) == 3 and not (ok[0] == ok[1] == ok[2]):
            chk.spec_violations.append({"stream": "frames", "layer": c["layer"], "kinds": c["kinds"], "what": "verdict or readout-flag counters change with the hit content / filler / word interleaving of the lanes",
                                        "no_hits": str(ok[0])[:300], "ordinary_hits": str(ok[1])[:300], "adversarial": str(ok[2])[:300],
                                        "case": lines[k - 1][:6000]})
    chk.add_stream("frames", len(lines), distinct, samples, distribution={"streams": nstreams, "variants_per_stream": 3, "frames_judged": nframes})
    # ---- the same through the binary (its-stave target needs a stave filter): verdict lines + alpide_stats in the statistics file
    tmp = core.scratch_dir("c13")
    cj = [c for c in cases if c["custom"] is None]
    cj = ([c for c in cj if "bc-lane-differs" in c["kinds"]][: (10 if deep else 3)] + [c for c in cj if "bc-lane-differs" not in c["kinds"]])[: (40 if deep else 8)]

    def work(c):
        v = c["variants"][2]
        data = b"".join(r + p for _o, r, p in v["cd"])
        path = os.path.join(tmp, "c%d.raw" % c["s"])
        sp = os.path.join(tmp, "c%d.json" % c["s"])
        open(path, "wb").write(data)
        rc, so, se, dt = core.run_cli([path, "check", "all", "its-stave", "-S", sp, "-D", "json", "-E", "9"], timeout=120)
        st = None
        if os.path.exists(sp):
            st = json.load(open(sp))
        # the same run with the messages muted: the option hides texts, the verdict (error total, codes, staves, exit status) stays
        spm = os.path.join(tmp, "c%dm.json" % c["s"])
        rcm, _so, sem, _dt = core.run_cli([path, "check", "all", "its-stave", "-S", spm, "-D", "json", "-E", "9", "-m"], timeout=120)
        stm = json.load(open(spm)) if os.path.exists(spm) else None
        return rc, se.decode("utf8", "replace"), st, (rcm, sem.decode("utf8", "replace"), stm)
    ncli = 0
    def verdict(rc_, st_):
        e = (st_ or {}).get("error_stats") or {}
        # (the list of unique codes is not compared: the lane sub-codes E9003..E9005 are read from the context text, which -m drops)
        return {"exit": rc_, "total_errors": e.get("total_errors"), "frame_codes": sorted(x for x in (e.get("unique_error_codes") or []) if len(str(x)) <= 3),
                "staves": sorted(str(x) for x in (e.get("staves_with_errors") or []))}
    nmuted = 0
    for c, (rc, se, st, (rcm, sem, stm)) in zip(cj, core.par_map(work, cj)):
        if st is None or "panicked at" in se:
            continue
        ncli += 1
        if stm is not None and "panicked at" not in sem:
            nmuted += 1
            if verdict(rc, st) != verdict(rcm, stm):
                chk.spec_violations.append({"stream": "cli-stave", "layer": c["layer"], "kinds": c["kinds"], "expected": verdict(rc, st), "reported": verdict(rcm, stm),
                                            "what": "the verdict of the run (error total, frame-level codes, staves with errors, exit status under -E 9) changes when the messages are muted (-m)",
                                            "input_hex": b"".join(r + p for _o, r, p in c["variants"][2]["cd"]).hex().upper()[:8000]})
        base0 = c["variants"][2]["cd"][0][0]
        rf = (st.get("alpide_stats") or {}).get("readout_flags")
        exp = [0] * 7
        for lanes in c["plans"]:
            if lanes:
                exp = [a + x for a, x in zip(exp, oracle_frame(c["layer"], lanes, [], None)[1])]
        got = None if rf is None else [rf[k2] for k2 in ("chip_trailers_seen", "busy_violations", "data_overrun", "transmission_in_fatal", "flushed_incomplete", "strobe_extended", "busy_transitions")]
        if got != exp:
            chk.spec_violations.append({"stream": "cli-stave", "layer": c["layer"], "kinds": c["kinds"], "expected": exp, "reported": got,
                                        "what": "alpide_stats of the statistics file differ from the counts over the chip trailers",
                                        "input_hex": b"".join(r + p for _o, r, p in c["variants"][2]["cd"]).hex().upper()[:8000]})
    chk.add_stream("cli-stave", ncli, set(), [], distribution={"runs": len(cj), "muted_reruns_compared": nmuted})
    shutil.rmtree(tmp, ignore_errors=True)
    chk.cov["rule"] = ("streams of 1..5 readout frames of one stave (layers 0..6; IB groups, the two ML and OL lane sets), each frame planned as: legal / lane order shuffled / a lane "
                       "missing / an extra lane / wrong IB group / one lane with another bunch counter / one chip with another bunch counter / wrong IB chip id / chip count / "
                       "chip order (custom chip_count_ob + chip_orders_ob on half of the OB streams) / a chip twice / a lane announcing FATAL (later frames mostly without it) / an extra word id that is no inner barrel lane announcing FATAL (later frames with as many lanes fewer) / "
                       "no data words; every stream encoded three times by the independent encoder: without hits, with ordinary hits, with adversarial hit bytes (values that "
                       "look like headers, trailers, protocol extensions, idle), filler words and idle bytes, lane words interleaved at random, frames split over packets by the "
                       "HBF builder, data formats 0 and 2. Judged per frame: codes E72..E75/E701 with lane/sub-check tags at the frame's start offset = documented verdict "
                       "(lane-count rule against the lanes that announced FATAL in EARLIER frames; frames that still carry such a lane are not judged on E72/E73), readout-flag "
                       "counters = counts over the trailers, the three encodings agree, model `linkt` = real LinkValidator token by token; plus alpide_stats through the binary, and the same binary run with -m: same error total, codes, staves, exit status. "
                       "distinct = (barrel, frame kind, expected codes, fatal lanes known, encoding style)")
    return core.finish(chk, TRUSTED)
