"""C09 -- ITS payload words are classified as the documented state machine says."""
import random

from .. import core, ctxstream

TRUSTED = [
    "Coq 8.16.1 kernel; vm_compute for the complete 11 states x 256 ids x 4 flag-combination product",
    "axioms: none (Print Assumptions: Closed under the global context)",
    "gen/extract_facts.py: word identifiers, the data-id pattern of each `advance` arm and the sm! transition table are read from the current source into the model",
    "hook H1 (verif_state_id, read-only) in its_payload_fsm_cont.rs; fp_harness `fsm` stream",
    "extraction (ExtrOcamlBasic only) and ocaml/driver.ml",
    "Spec/Diagram.v is our reading of doc/ITS_payload_fsm_continuous_mode.puml (DESIGN.md D3, D12) incl. the recovery rule after an illegal word",
]

IHW = "FF3F00000000000000E0"
TDH = "031A00000000000000E8"
TDH_ND = "033A00000000000000E8"
DATA = "00000000000000000046"
TDT_DONE = "000000000000000001F0"
TDT_SPLIT = "000000000000000000F0"
DDW0 = "000000000000000000E4"
TDH_C = "035A00000000000000E8"

PATHS = {
    0: [],
    1: [IHW, TDH, TDT_DONE, DDW0],
    2: [IHW],
    3: [IHW, TDH],
    4: [IHW, TDH, DATA],
    5: [IHW, TDH_ND],
    6: [IHW, TDH, TDT_DONE],
    7: [IHW, TDH, TDT_SPLIT],
    8: [IHW, TDH, TDT_SPLIT, IHW],
    9: [IHW, TDH, TDT_SPLIT, IHW, TDH_C],
    10: [IHW, TDH, TDT_SPLIT, IHW, TDH_C, DATA],
}


def mkword(idb, nd, pd, rng, filler):
    b = [0] * 9
    if filler:
        b = [rng.randrange(256) for _ in range(9)]
    b[1] = (b[1] & ~0x20) | (0x20 if nd else 0)
    b[8] = (b[8] & ~0x01) | (0x01 if pd else 0)
    return "".join("%02X" % x for x in b + [idb])


LEGALISH = [0xE0, 0xE8, 0xE8, 0xF0, 0xF0, 0xE4, 0xF8, 0x20, 0x28, 0x40, 0x46, 0x48, 0x4E, 0x50, 0x56, 0x58, 0x5E, 0x43, 0x22]


def run(tier, seed):
    chk = core.Check("C09", tier, seed)
    rng = random.Random(seed)
    gen = core.step_gen()
    chk.cov["gen"] = gen["log"]
    chk.cov["gen_facts"] = {k: v for k, v in gen["facts"].items() if k.startswith("fsm_") or k in ("sm_transitions", "from_id_data_pat", "ihw_id", "tdh_id", "tdt_id", "ddw0_id", "cdw_id")}
    chk.proof = core.step_coq("Props/C09.v")
    core.step_model()
    h = core.step_harness()
    if not h["ok"]:
        chk.disagreements.append({"stream": "build", "detail": "harness does not build against /repo", "log": h["log"][-1500:]})
        return core.finish(chk, TRUSTED)
    deep = tier == "thorough" or not chk.proof["ok"]
    abs_tab = {}
    for tok in core.run_lines(core.FPMODEL, "fsm", ["abs_table x"], shards=1)[0].split(" | ")[0].split():
        a, b = tok.split(":")
        abs_tab[int(a)] = int(b)
    # ---- (1) exhaustive product: every state x every id x no_data x packet_done x fillers
    nfill = 8 if deep else 2
    cases = []
    meta = []
    for s, path in PATHS.items():
        for idb in range(256):
            for nd in (0, 1):
                for pd in (0, 1):
                    for f in range(nfill):
                        w = mkword(idb, nd, pd, rng, f > 0)
                        cases.append(",".join(path + [w]))
                        meta.append((s, idb, nd, pd))
    impl = core.run_lines(core.HARNESS_BIN, "fsm", cases)
    model = core.run_lines(core.FPMODEL, "fsm", cases)
    cells = set()
    trans = set()
    samples = []
    reached = set()
    for c, m, li, lm in zip(cases, meta, impl, model):
        mres, _, sres = lm.partition(" | ")
        isteps = li.split()
        if li.startswith("PANIC") or li.startswith("DIED"):
            chk.spec_violations.append({"stream": "fsm-product", "case": c, "impl": li[:200], "what": "advance panicked"})
            continue
        # did the canonical path reach the intended state?
        st_before = int(isteps[-2].split(":")[1]) if len(isteps) >= 2 else 0
        reached.add(st_before)
        if st_before != m[0]:
            chk.disagreements.append({"stream": "fsm-product", "case": c, "impl": li, "detail": "canonical path did not reach state %d" % m[0]})
            continue
        last = isteps[-1]
        r, s2 = [int(x) for x in last.split(":")]
        cells.add(m)
        trans.add((m[0], s2, r))
        if li != mres:
            chk.disagreements.append({"stream": "fsm-product", "state": m[0], "id": m[1], "no_data": m[2], "packet_done": m[3],
                                      "case": c, "impl": li, "model": mres})
        # implementation vs diagram: abs(impl state) and verdict must be the diagram's
        ssteps = sres.split()
        sv, sd = [int(x) for x in ssteps[-1].split(":")]
        if abs_tab.get(s2) != sd or r != sv:
            chk.spec_violations.append({"stream": "fsm-product", "state": m[0], "id": "0x%02X" % m[1], "no_data": m[2],
                                        "packet_done": m[3], "case": c,
                                        "impl": {"result": r, "next_state": s2, "abs_next": abs_tab.get(s2)},
                                        "spec": {"verdict": sv, "next": sd},
                                        "what": "classification or successor differs from the documented diagram"})
        if len(samples) < 4 and m[1] in (0xE8, 0x47, 0xF0) and m[0] in (3, 5, 6):
            samples.append({"state": m[0], "word": c.split(",")[-1], "impl": last, "model": mres.split()[-1], "diagram": ssteps[-1]})
    chk.add_stream("fsm-product", len(cases), ["%d/%d/%d/%d" % x for x in cells], samples,
                   distribution={"states_reached": sorted(reached), "distinct_transitions": len(trans), "fillers_per_cell": nfill},
                   exhaustive=True)
    # ---- (2) random walks over many packets
    nwalk, wlen = (30000, 300) if deep else (1500, 200)
    cases = []
    for _ in range(nwalk):
        ws = []
        for _ in range(rng.randrange(1, wlen)):
            idb = rng.choice(LEGALISH) if rng.random() < 0.85 else rng.randrange(256)
            ws.append(mkword(idb, rng.random() < 0.3, rng.random() < 0.6, rng, rng.random() < 0.5))
        cases.append(",".join(ws))
    impl = core.run_lines(core.HARNESS_BIN, "fsm", cases)
    model = core.run_lines(core.FPMODEL, "fsm", cases)
    wk = set()
    nsteps = 0
    for c, li, lm in zip(cases, impl, model):
        mres, _, sres = lm.partition(" | ")
        nsteps += len(li.split())
        if li != mres:
            chk.disagreements.append({"stream": "fsm-walk", "case": c[:2000], "impl": li[:500], "model": mres[:500]})
            continue
        isteps = li.split()
        ssteps = sres.split()
        for k, (a, b) in enumerate(zip(isteps, ssteps)):
            r, s2 = [int(x) for x in a.split(":")]
            sv, sd = [int(x) for x in b.split(":")]
            wk.add((r, s2))
            if abs_tab.get(s2) != sd or r != sv:
                chk.spec_violations.append({"stream": "fsm-walk", "case": ",".join(c.split(",")[:k + 1])[-1200:], "step": k,
                                            "impl": a, "spec": b, "what": "walk leaves the documented diagram"})
                break
    chk.add_stream("fsm-walk", len(cases), ["%d>%d" % x for x in wk],
                   [{"walk": cases[0][:200] + "...", "impl": impl[0][:80] + "..."}],
                   distribution={"words_stepped": nsteps})
    ctxstream.run(chk, rng, deep)
    chk.cov["states"] = 11
    chk.cov["transitions"] = len(trans)
    chk.cov["exhaustive"] = True
    chk.cov["rule"] = ("product: each of the 11 sm! variants (driven there by a canonical word path, confirmed through hook H1) x all 256 "
                       "identifiers x TDH no_data x TDT packet_done x filler bit patterns; distinct = distinct (state,id,nd,pd) cells; "
                       "walks: random word sequences (85% protocol identifiers), distinct = distinct (result,next state) pairs")
    return core.finish(chk, TRUSTED)
