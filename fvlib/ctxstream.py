"""Stream `words-in-context` (used by C09, C11): random ITS word sequences over consecutive packets of
one link through the real LinkValidator, compared (a) with the model and (b) word by word with the
specification: the class the documented diagram assigns and the documented sanity verdict for that class
decide exactly which codes must appear at the word's offset in `check sanity its`."""
from . import core, canon, itsgen, rawdata

STATUS_IDS = [0xE0, 0xE8, 0xF0, 0xE4, 0xF8]
DATA_IDS = [0x20, 0x28, 0x40, 0x46, 0x48, 0x4E, 0x50, 0x56, 0x58, 0x5E, 0x43, 0x22]


def rand_word(rng, corrupt):
    """a mostly sensible word; with probability `corrupt` some reserved/flag bit or the id is disturbed"""
    k = rng.random()
    if k < 0.18:
        w = bytearray(itsgen.ihw(lanes=rng.choice([0x0FFFFFFF, 0x3FFF, 0x1FF, rng.randrange(1 << 28)])))
    elif k < 0.45:
        w = bytearray(itsgen.tdh(trigger_type=rng.choice([0x003, 0x010, 0, 0x893]), internal=rng.randrange(2), no_data=int(rng.random() < 0.25),
                                 continuation=int(rng.random() < 0.25), bc=rng.randrange(0xDEC), orbit=rng.randrange(4)))
    elif k < 0.65:
        w = bytearray(itsgen.tdt(packet_done=int(rng.random() < 0.65), lane_status=rng.choice([0, 0, rng.randrange(1 << 56)])))
    elif k < 0.72:
        w = bytearray(itsgen.ddw0(lane_status=rng.choice([0, rng.randrange(1 << 56)])))
    elif k < 0.76:
        w = bytearray(itsgen.cdw(index=rng.randrange(3), user=rng.randrange(1 << 48)))
    else:
        w = bytearray(itsgen.data_word(rng.choice(DATA_IDS), bytes(rng.randrange(256) for _ in range(9))))
    if rng.random() < corrupt:
        r = rng.random()
        if r < 0.6:
            i = rng.randrange(72)
            w[i // 8] ^= 1 << (i % 8)
        elif r < 0.8:
            w[9] = rng.randrange(256)
        else:
            for _ in range(3):
                i = rng.randrange(80)
                w[i // 8] ^= 1 << (i % 8)
    return bytes(w)


def gen_case(rng, mode, corrupt):
    npk = rng.randrange(1, 6)
    fmt = rng.choice([0, 2])
    pkts = []
    meta = []   # per packet: (offset, slot, nwords)
    off = rng.choice([0, 0x1000, 0x7FFF0])
    calib = rng.random() < 0.15
    users = [rng.randrange(1 << 48), rng.randrange(1 << 48)]
    if rng.random() < 0.5:
        users[1] = users[0] ^ (1 << rng.randrange(48))      # differing in one bit only
    for pg in range(npk):
        if rng.random() < 0.3:
            fmt = 2 - fmt      # the format may change between packets of a link
        n = rng.randrange(1, 14)
        ws = [rand_word(rng, corrupt) for _ in range(n)]
        if calib:
            # a calibration-run shaped page: IHW TDH CDW ...; user fields from a pool of two (same / different both occur), word
            # index at the boundaries of its 24 bits -- the [E81] rule compares with the CDW of the page before
            ws = [itsgen.ihw(lanes=0x0FFFFFFF), itsgen.tdh(trigger_type=0x010, internal=1, no_data=0, continuation=0, bc=10 + pg, orbit=1),
                  itsgen.cdw(index=rng.choice([0, 0, 1, 2, 0xFF, 0x100, 0xFFFF, 0x10000, 0xFFFFFF]), user=rng.choice(users))] + ws[:rng.randrange(0, 5)] + [itsgen.tdt(packet_done=1)]
        # keep the payload inside the guards of C12 (no 0xFF last byte, bytes 10..15 not all zero for format 2) ...
        ffpad = None
        if ws[-1][9] == 0xFF:
            ws[-1] = ws[-1][:9] + b"\x00"
        # ... except for this boundary: the LAST word of a format-2 page carries the (illegal) identifier 0xFF and is followed by so little
        # padding that the trailing 0xFF run stays within 9 bytes -- the unchanged code examines the word like any other (seed C09-H;
        # longer runs are the class of known finding F13)
        if fmt == 2 and not calib and rng.random() < 0.08:
            ws[-1] = ws[-1][:8] + bytes([rng.randrange(0, 255), 0xFF])
            ffpad = rng.randrange(0, 9)
        if fmt == 2 and len(ws) > 1 and ws[1][:6] == b"\x00" * 6:
            ws[1] = b"\x01" + ws[1][1:]
        # the RDH's page counter / stop bit are not inputs of the word classification: any values, in particular a packet that
        # claims to open a heartbeat frame (page 0, no stop) while the state machine is in the middle of one
        pages = rng.choice([pg, pg, 0, 0, rng.randrange(4)])
        stop = rng.choice([0, 0, 0, 1])
        r, p = itsgen.packet(ws, fmt=fmt, ff=(ffpad if fmt == 2 else 0), orbit=1, pages=pages, stop=stop, fee=0x502A, link=3)
        pkts.append((off, r, p))
        meta.append((off, 16 if fmt == 0 else 10, ws))
        off += 64 + len(p)
    return rawdata.link_line("%s its - -" % mode, pkts), meta


SANITY_CODE = {0: 30, 1: 30, 2: 40, 3: 40, 4: 40, 5: 50, 8: 60, 10: 40, 12: 60}
AMB_CODE = {10: 990, 11: 991, 12: 992}
VALID_DATA = set(list(range(0x20, 0x29)) + list(range(0x40, 0x47)) + list(range(0x48, 0x4F)) + list(range(0x50, 0x57)) + list(range(0x58, 0x5F)))


def expected_codes(cls, ok, word, start_of_data=True):
    exp = []
    if cls == 6 and not start_of_data:
        # D3: a CDW is legal only as the first data-phase word of a packet; elsewhere it is an invalid data word
        exp.append(70)
    if cls in AMB_CODE:
        exp.append(AMB_CODE[cls])
    if cls in SANITY_CODE and ok == "0":
        exp.append(SANITY_CODE[cls])
    if cls == 11 and word[9] not in VALID_DATA and word[9] != 0xF8:
        exp.append(70)
    return sorted(exp)


def run(chk, rng, deep, name="words-in-context"):
    ncase = 6000 if deep else 700
    cases = []
    for i in range(ncase):
        mode = "sanity" if i % 3 else "all"
        line, meta = gen_case(rng, mode, rng.choice([0.0, 0.1, 0.3]))
        cases.append((line, meta, mode))
    lines = [c[0] for c in cases]
    impl = [canon.canon_link(x) for x in core.run_lines(core.HARNESS_BIN, "link", lines)]
    model = [x.strip() for x in core.run_lines(core.FPMODEL, "link", lines)]
    spec = core.run_lines(core.FPMODEL, "wordspec", lines)
    distinct = set()
    nwords = 0
    samples = []
    for (line, meta, mode), li, lm, sp in zip(cases, impl, model, spec):
        if li == "PANIC":
            chk.spec_violations.append({"stream": name, "case": line[:1500], "what": "validator panicked"})
            continue
        if li != lm:
            chk.disagreements.append({"stream": name, "case": line[:1500], "impl": li[:600], "model": lm[:600]})
        by_off = {}
        for t in ([] if li == "-" else li.split()):
            f = t.split(":")
            by_off.setdefault(int(f[1], 16), []).append((int(f[2]), f[3]))
        lanes = None
        for (off, slot, ws), pk in zip(meta, sp.split(" / ")):
            if pk in ("P", "-"):
                continue
            sod = True
            for i, (w, tok) in enumerate(zip(ws, pk.split())):
                cls, ok = tok.split(":")
                cls = int(cls)
                woff = off + 64 + i * slot
                got = by_off.get(woff, [])
                codes = sorted(c for c, _ in got)
                exp = expected_codes(cls, ok, w, sod)
                if cls in (0, 1):
                    # the IHW that governs the data words from here on (also the IHW of a continuation page): lanes = bits 27:0
                    lanes = int.from_bytes(w[0:4], "little") & 0x0FFFFFFF
                lane_exp = None
                if mode == "all" and (cls in (7, 11) or (cls == 6 and not sod)) and w[9] in VALID_DATA and lanes is not None:
                    # documented lane rules under `check all`: the word's lane is active in the governing IHW ([E72] inner barrel,
                    # [E71] outer barrels), an outer-barrel input number is at most 6 ([E73])
                    from . import streams as _st
                    if w[9] >> 5 == 1:
                        lane_exp = [] if (lanes >> (w[9] & 0x1F)) & 1 else [72]
                    else:
                        lane_exp = ([] if (lanes >> _st.ob_lane(w[9])) & 1 else [71]) + ([73] if (w[9] & 7) > 6 else [])
                if cls in (6, 7, 11):
                    sod = False
                nwords += 1
                distinct.add((cls, ok, tuple(exp)))
                bad_quote = [q for _, q in got if q not in ("-", itsgen.hexs(w))]
                if mode == "sanity":
                    wrong = codes != exp
                else:
                    fam = {30, 40, 50, 60, 70, 990, 991, 992}
                    wrong = sorted(c for c in codes if c in fam) != exp
                    if lane_exp is not None and sorted(c for c in codes if c in (71, 72, 73)) != sorted(lane_exp):
                        wrong = True
                        exp = sorted(exp + lane_exp)
                if wrong or bad_quote:
                    chk.spec_violations.append({
                        "stream": name, "mode": mode, "case": line[:1500], "word_offset": "0x%X" % woff, "word": itsgen.hexs(w),
                        "class_by_diagram": cls, "documented_sanity_verdict": ok, "impl_codes": codes, "spec_codes": exp,
                        "quoted": bad_quote,
                        "what": "codes reported at a word differ from what its class in the documented diagram and its documented sanity verdict prescribe"})
                    break
        if len(samples) < 3 and li != "-":
            samples.append({"case": line[:300] + "...", "impl": li[:200], "wordspec": sp[:120]})
    chk.add_stream(name, len(cases), ["%d/%s/%s" % (a, b, ",".join(map(str, c))) for a, b, c in distinct], samples,
                   distribution={"words": nwords, "cases_sanity": sum(1 for c in cases if c[2] == "sanity"), "cases_all": sum(1 for c in cases if c[2] == "all")})
