"""Conforming ITS streams (Python mirror of the protocol grammar, DESIGN.md appendix D) and fault injection.
A stream is a list of (rdh bytes, payload bytes); links are generated separately and merged."""
import struct

from . import itsgen, rawdata

IB_GROUPS = [[0, 1, 2], [3, 4, 5], [6, 7, 8]]


def alpide_lane(chip_ids, bc, rng, hits=True):
    """bytes of one lane for one readout frame: for every chip either an empty frame or header .. trailer"""
    out = bytearray()
    for cid in chip_ids:
        if rng.random() < 0.3:
            out += bytes([0xE0 | cid, bc])                    # chip empty frame
        else:
            out += bytes([0xA0 | cid, bc])                    # chip header + bunch counter
            if hits:
                for _ in range(rng.randrange(0, 3)):
                    out += bytes([0xC0 | rng.randrange(32)])  # region header
                    for _ in range(rng.randrange(1, 3)):
                        if rng.random() < 0.5:
                            out += bytes([0x40 | rng.randrange(64), rng.randrange(256)])                      # data short
                        else:
                            out += bytes([rng.randrange(64), rng.randrange(256), rng.randrange(128)])          # data long
            out += bytes([0xB0 | rng.choice([0, 0, 1, 2, 4])])  # chip trailer with readout flags
    return bytes(out)


def lane_words(idb, data):
    """split lane bytes over 9-byte data words (zero padded)"""
    ws = []
    for i in range(0, max(len(data), 1), 9):
        ws.append(itsgen.data_word(idb, data[i:i + 9]))
    return ws


def status_flags(rng):
    """the fields of a TDT / DDW0 that carry detector status, not protocol: lane status (bits 55:0), the three timeout bits of a
    TDT (63:61), transmission timeout (65), lane starts violation (67) -- any value is conforming"""
    if rng.random() < 0.6:
        return {}
    return {"lane_status": rng.choice([0, rng.getrandbits(56), 3 << (2 * rng.randrange(28))]), "b8_extra": rng.choice([0, 0x02, 0x08, 0x0A])}


class Link:
    def __init__(self, rng, link_id, layer, stave, fmt=2, version=7, stave_level=False, calib=False):
        self.rng = rng
        # calibration run: every page's data starts with a calibration data word (CDW); the word index counts up while the user
        # fields stay the same and restarts at 0 when they change (checks_list.md, [E81])
        self.calib = calib
        self.cdw_user = None
        self.cdw_index = 0
        self.link = link_id
        self.layer = layer
        self.stave = stave
        self.fee = (layer << 12) | (rng.randrange(4) << 8) | stave
        self.fmt = fmt
        self.version = version
        self.orbit = rng.choice([rng.randrange(1, 1 << 31), rng.randrange(1 << 32), 0xFFFFFFFF, 0xFFFFFFFE, 0, rng.randrange(1, 1 << 16) << 16])
        self.pktcnt = 0
        self.stave_level = stave_level
        if layer <= 2:
            self.group = rng.choice(IB_GROUPS)
            self.lane_ids = [0x20 + l for l in self.group]
            self.lanes_mask = sum(1 << l for l in self.group)
        elif layer <= 4:
            ids = [0x43, 0x44, 0x45, 0x46, 0x48, 0x49, 0x4A, 0x4B] if rng.random() < 0.5 else [0x53, 0x54, 0x55, 0x56, 0x58, 0x59, 0x5A, 0x5B]
            self.lane_ids = ids
            self.lanes_mask = sum(1 << ob_lane(i) for i in ids)
        else:
            ids = [0x40 + i for i in range(7)] + [0x48 + i for i in range(7)]
            if rng.random() < 0.5:
                ids = [0x50 + i for i in range(7)] + [0x58 + i for i in range(7)]
            self.lane_ids = ids
            self.lanes_mask = sum(1 << ob_lane(i) for i in ids)

    def rdh(self, payload_len, pages, stop, bc, trigger, detfield=0):
        r = rawdata.mk_rdh(version=self.version, fee=self.fee, link=self.link, payload_len=payload_len, pktcnt=self.pktcnt & 0xFF,
                           orbit=self.orbit, bc=bc, trigger=trigger, pages=pages, stop=stop, fmt=self.fmt, detfield=detfield, cru=0x18)
        self.pktcnt += 1
        return r

    def frame_words(self, bc_alpide):
        rng = self.rng
        ws = []
        if self.layer <= 2:
            for idb in self.lane_ids:
                lane = idb & 0x1F
                ws += lane_words(idb, alpide_lane([lane], bc_alpide, rng))
        else:
            for idb in self.lane_ids:
                ws += lane_words(idb, alpide_lane(list(range(7)) if rng.random() < 0.7 else [0, 1, 2, 3, 4, 5, 6], bc_alpide, rng))
        if not self.stave_level and rng.random() < 0.3:
            ws = ws[:rng.randrange(1, len(ws) + 1)]
        return ws

    def hbf(self, nslots=None):
        """one heartbeat frame: data pages + stop page.  returns [(rdh, payload)]"""
        rng = self.rng
        nslots = nslots if nslots is not None else rng.randrange(1, 5)
        # bunch crossing 0 and orbits that are multiples of 65536 are over-represented: the first TDH of such a page has zero bytes where
        # the code looks for the padding of a 16-byte slot
        # ... and the whole range of LHC bunch crossings is used (the frame's last TDH stays below 3564): rules that compare bunch
        # crossings must hold in the second half of an orbit too (seed C02-G)
        r_ = rng.random()
        bc0 = 0 if r_ < 0.15 else (rng.randrange(0, 0x100) if r_ < 0.45 else (rng.randrange(0x100, 3364) if r_ < 0.85 else rng.randrange(3300, 3364)))
        trig_rdh = rng.choice([0x6A03, 0x4813, 0x0893, 0x4893])    # ORBIT|HB(|SOC...)|PHT variants with bit 4 or not
        pages = []
        cur = [itsgen.ihw(self.lanes_mask)]
        bc = bc0
        first = True

        def with_cdw(page, words):
            """the data words that go on `page`, led by a CDW when they are the page's first data words (calibration runs)"""
            if not self.calib or not words or any(w[9] not in (0xE0, 0xE8, 0xF0) for w in page):
                return words
            if self.cdw_user is None:
                self.cdw_user, self.cdw_index = self.rng.getrandbits(48), self.rng.randrange(1 << 24)
            elif self.rng.random() < 0.25:
                self.cdw_user, self.cdw_index = (self.cdw_user + 1 + self.rng.getrandbits(47)) & ((1 << 48) - 1), 0
            else:
                self.cdw_index = (self.cdw_index + 1) & 0xFFFFFF
            return [itsgen.cdw(self.cdw_index, self.cdw_user)] + words
        for s in range(nslots):
            internal = 1
            ttype = (trig_rdh & 0xFFF) if first else rng.choice([0x010, 0x001 | 0x010, 0x010])
            nd = 1 if (rng.random() < 0.25 and not self.stave_level) else 0
            cur.append(itsgen.tdh(trigger_type=ttype, internal=internal, no_data=nd, continuation=0, bc=bc, orbit=self.orbit))
            if not nd:
                data = self.frame_words(rng.choice([0, rng.randrange(256), rng.randrange(256), 255]))
                if len(data) > 3 and rng.random() < 0.4:
                    # the packet is continued over 2..5 pages: TDT(packet_done=0) closes a page, the next one opens with
                    # IHW + TDH(continuation=1, same trigger) and carries on with the data
                    ncuts = min(len(data) - 1, rng.choice([1, 1, 2, 3, 4]))
                    cuts = sorted(rng.sample(range(1, len(data)), ncuts))
                    prev = 0
                    for k in cuts:
                        cur += with_cdw(cur, data[prev:k])
                        cur.append(itsgen.tdt(packet_done=0, b7=rng.choice([0, 0, 0x20, 0x40, 0x80, 0xE0]), **status_flags(rng)))
                        pages.append(cur)
                        cur = [itsgen.ihw(self.lanes_mask),
                               itsgen.tdh(trigger_type=ttype, internal=internal, no_data=0, continuation=1, bc=bc, orbit=self.orbit)]
                        prev = k
                    cur += with_cdw(cur, data[prev:])
                else:
                    cur += with_cdw(cur, data)
                cur.append(itsgen.tdt(packet_done=1, b7=rng.choice([0, 0, 0x20, 0x40, 0x80, 0xE0]), **status_flags(rng)))
            first = False
            bc += rng.randrange(1, 40)
            if s + 1 < nslots and rng.random() < 0.3:
                pages.append(cur)
                cur = [itsgen.ihw(self.lanes_mask)]
        pages.append(cur)
        out = []
        for i, ws in enumerate(pages):
            p = itsgen.payload(ws, self.fmt)
            out.append((self.rdh(len(p), i, 0, bc0, trig_rdh), p))
        p = itsgen.payload([itsgen.ddw0(**status_flags(rng))], self.fmt)
        out.append((self.rdh(len(p), len(pages), 1, bc0, trig_rdh), p))
        # the next heartbeat frame carries a DIFFERENT orbit (checks_list.md); it usually is the next one, but nothing says it has to be
        # larger: wrap-around of the 32-bit counter, concatenated time frames
        prev = self.orbit
        self.orbit = rng.choice([(prev + 1) & 0xFFFFFFFF] * 3 + [rng.randrange(1 << 32), (prev - rng.randrange(1, 1000)) & 0xFFFFFFFF,
                                 (((prev >> 16) + 1) << 16) & 0xFFFFFFFF])
        if self.orbit == prev:
            self.orbit = (prev + 1) & 0xFFFFFFFF
        return out


def ob_lane(idb):
    if idb <= 0x46:
        return idb % 0x40
    if idb <= 0x4E:
        return 7 + idb % 0x48
    if idb <= 0x56:
        return 14 + idb % 0x50
    return 21 + idb % 0x58


def conforming(rng, nlinks=None, nhbf=None, stave_level=False, fmt=None, version=7, calib=False):
    """-> (packets [(rdh, payload)] merged in a random interleaving, per-link lists)"""
    nlinks = nlinks or rng.choice([1, 1, 2, 3])
    fmt = fmt if fmt is not None else rng.choice([0, 2])
    used = set()
    links = []
    for i in range(nlinks):
        while True:
            layer, stave, lid = rng.randrange(7), rng.randrange(12), rng.randrange(24)
            if (layer, stave) not in used and lid not in [l.link for l in links]:
                used.add((layer, stave))
                break
        links.append(Link(rng, lid, layer, stave, fmt=fmt, version=version, stave_level=stave_level, calib=calib))
    per = []
    for l in links:
        pk = []
        for _ in range(nhbf or rng.randrange(1, 4)):
            pk += l.hbf()
        per.append(pk)
    # random interleaving preserving per-link order
    idx = [0] * len(per)
    merged = []
    while any(idx[i] < len(per[i]) for i in range(len(per))):
        i = rng.choice([i for i in range(len(per)) if idx[i] < len(per[i])])
        merged.append(per[i][idx[i]])
        idx[i] += 1
    return merged, per


def serialize(pkts):
    return b"".join(r + p for r, p in pkts)


def offsets(pkts):
    out = []
    off = 0
    for r, p in pkts:
        out.append(off)
        off += 64 + len(p)
    return out


def reformat(rdh, payload):
    """the same words in the other data format (format 0 <-> 2), header fields updated accordingly"""
    fmt = rdh[24]
    slot = 16 if fmt == 0 else 10
    words = []
    i = 0
    while i + 10 <= len(payload):
        w = payload[i:i + 10]
        if fmt != 0 and w == b"\xFF" * 10:
            break
        words.append(w)
        i += slot
    if fmt != 0:
        # strip trailing 0xFF padding words that are not words
        n = len(payload) - len(payload.rstrip(b"\xFF"))
        if n > 9:
            words = words[:(len(payload) - n) // 10]
    newfmt = 2 if fmt == 0 else 0
    p = itsgen.payload(words, newfmt)
    r = bytearray(rdh)
    r[24] = newfmt
    struct.pack_into("<HH", r, 8, 64 + len(p), 64 + len(p))
    return bytes(r), p
