"""Core of the fastPASTA verification orchestrator: build steps, stream runners, evidence,
verdicts.  Python 3 stdlib only."""
import hashlib
import json
import os
import re
import shutil
import subprocess
import sys
import time

VERIF = os.path.dirname(os.path.dirname(os.path.abspath(__file__)))
REPO = os.environ.get("FV_REPO", "/repo")
CACHE = os.path.join(VERIF, ".cache")
COQ = os.path.join(VERIF, "coq")
OCAML_DIR = os.path.join(CACHE, "ocaml")
HARNESS_TARGET = os.path.join(CACHE, "target-harness")
HARNESS_BIN = os.path.join(HARNESS_TARGET, "release", "fp_harness")
CLI_BIN = os.path.join(HARNESS_TARGET, "release", "fastpasta_cli")
FPMODEL = os.path.join(OCAML_DIR, "fpmodel")
BIN_TARGET = os.path.join(CACHE, "target-bin")
FASTPASTA = os.path.join(BIN_TARGET, "release", "fastpasta")
GUARD = "crambl_fastpasta_verif"
NCPU = os.cpu_count() or 4

FORBIDDEN = re.compile(
    r"\b(Admitted|admit|Axiom|Axioms|Parameter|Parameters|Conjecture|Conjectures|Hypothesis|Hypotheses|Variable|Variables)\b"
    r"|Unset\s+Guard|bypass_check|type-in-type|impredicative-set|Admit\s+Obligations|Unset\s+Universe|Unset\s+Positivity")
STMT = re.compile(r"^\s*(?:Local\s+|Global\s+|#\[[^\]]*\]\s*)*(Lemma|Theorem|Corollary|Example|Fact|Remark|Proposition)\s+([A-Za-z0-9_']+)", re.M)


def log(msg):
    print("[fv] " + msg, flush=True)


def base_env():
    env = dict(os.environ)
    env["CARGO_NET_OFFLINE"] = "true"
    env["CARGO_TARGET_DIR"] = HARNESS_TARGET
    env["RUSTFLAGS"] = "--cfg " + GUARD
    env["RUST_BACKTRACE"] = "0"
    env.pop("VIRTUAL_ENV", None)
    return env


def sh(cmd, timeout=1200, cwd=None, env=None, inp=None, check=False):
    t0 = time.time()
    try:
        p = subprocess.run(cmd, cwd=cwd, env=env, input=inp, capture_output=True, timeout=timeout,
                           shell=isinstance(cmd, str))
        rc, out, err = p.returncode, p.stdout, p.stderr
    except subprocess.TimeoutExpired as e:
        rc, out, err = 124, e.stdout or b"", (e.stderr or b"") + b"\n[fv] TIMEOUT"
    if check and rc != 0:
        raise RuntimeError("command failed (%d): %s\n%s" % (rc, cmd, err.decode("utf8", "replace")[-4000:]))
    return rc, out, err, time.time() - t0


# ------------------------------------------------------------------------------ build steps
def step_gen():
    """regenerate coq/Gen/Facts.v from /repo's current sources"""
    rc, out, err, dt = sh([sys.executable, os.path.join(VERIF, "gen", "extract_facts.py")], timeout=120,
                          env=dict(os.environ, FV_REPO=REPO))
    txt = out.decode()
    if rc != 0:
        raise RuntimeError("gen failed: " + err.decode()[-2000:])
    with open(os.path.join(COQ, "Gen", "facts.json")) as f:
        facts = json.load(f)
    return {"facts": facts, "log": txt.strip(), "wall_s": dt}


def coq_makefile():
    mk = os.path.join(COQ, "Makefile")
    cp = os.path.join(COQ, "_CoqProject")
    if not os.path.exists(mk) or os.path.getmtime(mk) < os.path.getmtime(cp):
        sh(["coq_makefile", "-f", "_CoqProject", "-o", "Makefile"], cwd=COQ, check=True)


def coq_cone(vfile):
    """transitive FP dependencies of a .v file (relative paths inside coq/)"""
    seen = []
    todo = [vfile]
    while todo:
        f = todo.pop()
        if f in seen:
            continue
        seen.append(f)
        try:
            src = open(os.path.join(COQ, f)).read()
        except OSError:
            continue
        for m in re.finditer(r"From\s+FP\s+Require\s+(?:Import\s+|Export\s+)?((?:[A-Za-z_][A-Za-z0-9_]*(?:\.[A-Za-z_][A-Za-z0-9_]*)*\s*)+)\.(?:\s|$)", src):
            for mod in m.group(1).split():
                todo.append(mod.replace(".", "/") + ".v")
    return seen


def step_coq(prop_file, timeout=900):
    """build Props/<id>.vo and its cone with the kernel; returns obligations / discharged /
    assumptions / forbidden-token hits"""
    coq_makefile()
    target = prop_file[:-2] + ".vo"
    t0 = time.time()
    rc, out, err, _ = sh(["make", "-j%d" % NCPU, target], cwd=COQ, timeout=timeout)
    make_out = (out + err).decode("utf8", "replace")
    cone = coq_cone(prop_file)
    stmts = []
    forbidden = []
    for f in cone:
        try:
            src = open(os.path.join(COQ, f)).read()
        except OSError:
            continue
        nocom = re.sub(r"\(\*.*?\*\)", "", src, flags=re.S)
        for m in STMT.finditer(nocom):
            stmts.append((f, m.group(2)))
        for m in FORBIDDEN.finditer(nocom):
            # Variables inside Sections are not used in this development at all: forbid everywhere
            forbidden.append("%s: %s" % (f, m.group(0)))
        # `Context` declares an axiom when used outside a section: allow it only between Section .. End
        depth = 0
        for tok in re.finditer(r"^\s*(Section|Module|End|Context)\b", nocom, flags=re.M):
            if tok.group(1) == "Section":
                depth += 1
            elif tok.group(1) == "End":
                depth = max(0, depth - 1)
            elif tok.group(1) == "Context" and depth == 0:
                forbidden.append("%s: Context outside a section" % f)
    ok = rc == 0
    failed_at = None
    assumptions = ""
    if ok:
        # re-run the property file alone to capture Print Assumptions (file is tiny)
        rc2, out2, err2, _ = sh(["coqc", "-Q", ".", "FP", prop_file], cwd=COQ, timeout=300)
        assumptions = out2.decode("utf8", "replace")
        if rc2 != 0:
            ok = False
            make_out += err2.decode("utf8", "replace")
    if not ok:
        m = re.search(r'File "\./([^"]+)", line (\d+)', make_out)
        if m:
            failed_at = "%s:%s" % (m.group(1), m.group(2))
    axioms = []
    if assumptions:
        blocks = [b for b in assumptions.split("\n") if b.strip()]
        for b in blocks:
            if b.strip() != "Closed under the global context":
                axioms.append(b.strip())
    discharged = len(stmts) if ok else 0
    if not ok and failed_at:
        # count statements in files that did compile (their .vo is newer than the source)
        discharged = 0
        for f, _name in stmts:
            vo = os.path.join(COQ, f[:-2] + ".vo")
            v = os.path.join(COQ, f)
            if os.path.exists(vo) and os.path.getmtime(vo) >= os.path.getmtime(v) and not failed_at.startswith(f):
                discharged += 1
    chk_out = ""
    if ok and os.environ.get("FV_TIER") == "thorough":
        # independent re-check of the compiled cone, with the axioms it relies on
        mod = "FP." + prop_file[:-2].replace("/", ".")
        rc3, out3, err3, _ = sh(["coqchk", "-silent", "-o", "-Q", ".", "FP", mod], cwd=COQ, timeout=3000)
        chk_out = (out3 + err3).decode("utf8", "replace")[-1500:]
        if rc3 != 0:
            ok = False
            make_out += "\ncoqchk failed:\n" + chk_out
        elif "Axioms: <none>" not in chk_out and "* Axioms:" in chk_out:
            ax = chk_out.split("* Axioms:")[1].split("*")[0].strip()
            if ax and ax != "<none>":
                axioms.append("coqchk: " + ax)
    return {"ok": ok and not forbidden and not axioms, "compiled": ok, "obligations": len(stmts), "coqchk": chk_out,
            "discharged": discharged, "cone": cone, "failed_at": failed_at,
            "make_tail": make_out[-3000:] if not ok else "", "assumptions": assumptions.strip(),
            "axioms": axioms, "forbidden": forbidden, "wall_s": time.time() - t0,
            "checker_cmd": "cd coq && make -j%d %s && coqc -Q . FP %s  (Coq 8.16.1 kernel)" % (NCPU, target, prop_file)}


def step_model():
    """extract Model+Spec to OCaml and build the driver `fpmodel` (only Model/Gen/Spec needed)"""
    coq_makefile()
    os.makedirs(OCAML_DIR, exist_ok=True)
    t0 = time.time()
    # dependencies of Extract.v
    deps = [d for d in coq_cone("Extract/Extract.v") if d != "Extract/Extract.v"]
    rc, out, err, _ = sh(["make", "-j%d" % NCPU] + [d[:-2] + ".vo" for d in deps], cwd=COQ, timeout=900)
    if rc != 0:
        raise RuntimeError("model does not compile: " + (out + err).decode()[-3000:])
    rc, out, err, _ = sh(["coqc", "-Q", COQ, "FP", os.path.join(COQ, "Extract", "Extract.v")], cwd=OCAML_DIR, timeout=600)
    if rc != 0:
        raise RuntimeError("extraction failed: " + (out + err).decode()[-3000:])
    h = hashlib.sha256()
    for fn in ("model.ml", "model.mli"):
        h.update(open(os.path.join(OCAML_DIR, fn), "rb").read())
    h.update(open(os.path.join(VERIF, "ocaml", "driver.ml"), "rb").read())
    stamp = os.path.join(OCAML_DIR, "stamp")
    cur = h.hexdigest()
    old = open(stamp).read() if os.path.exists(stamp) else ""
    if cur != old or not os.path.exists(FPMODEL):
        shutil.copy(os.path.join(VERIF, "ocaml", "driver.ml"), os.path.join(OCAML_DIR, "driver.ml"))
        rc, out, err, _ = sh(["ocamlfind", "ocamlopt", "-w", "-a", "model.mli", "model.ml", "driver.ml", "-o",
                              "fpmodel"], cwd=OCAML_DIR, timeout=600)
        if rc != 0:
            raise RuntimeError("ocaml build failed: " + (out + err).decode()[-3000:])
        open(stamp, "w").write(cur)
    return {"wall_s": time.time() - t0}


def step_harness():
    """(re)build fp_harness and the CLI twin against /repo's working tree, hooks on"""
    hdir = os.path.join(VERIF, "harness")
    lock = os.path.join(hdir, "Cargo.lock")
    if not os.path.exists(lock):
        shutil.copy(os.path.join(REPO, "Cargo.lock"), lock)
    rc, out, err, dt = sh(["cargo", "build", "--release", "--offline"], cwd=hdir, env=base_env(), timeout=1500)
    if rc != 0:
        return {"ok": False, "log": (out + err).decode("utf8", "replace")[-6000:], "wall_s": dt}
    return {"ok": True, "wall_s": dt}


def step_cli():
    """(re)build the real `fastpasta` binary from /repo's working tree (release semantics: panic=abort, no overflow
    checks; LTO off and 16 codegen units to keep the build short), hooks on"""
    env = base_env()
    env["CARGO_TARGET_DIR"] = BIN_TARGET
    rc, out, err, dt = sh(["cargo", "build", "--release", "--offline", "-p", "fastpasta", "--bin", "fastpasta",
                           "--config", "profile.release.lto=false", "--config", "profile.release.codegen-units=16"],
                          cwd=REPO, env=env, timeout=2400)
    if rc != 0:
        return {"ok": False, "log": (out + err).decode("utf8", "replace")[-6000:], "wall_s": dt}
    return {"ok": True, "wall_s": dt}


def run_cli(args, stdin_bytes=None, timeout=60, env_extra=None, cwd=None):
    """run the real binary; returns (returncode or -signal, stdout bytes, stderr bytes, wall seconds)"""
    env = dict(os.environ, RUST_BACKTRACE="1")
    env.pop("NO_COLOR", None)
    if env_extra:
        env.update(env_extra)
    t0 = time.time()
    try:
        p = subprocess.run([FASTPASTA] + list(args), input=stdin_bytes, capture_output=True, timeout=timeout, env=env, cwd=cwd,
                           stdin=None if stdin_bytes is not None else subprocess.DEVNULL)
        return p.returncode, p.stdout, p.stderr, time.time() - t0
    except subprocess.TimeoutExpired as e:
        return "TIMEOUT", e.stdout or b"", e.stderr or b"", time.time() - t0


def scratch_dir(name):
    """a scratch directory for input files of CLI runs (tmpfs when available), emptied on creation"""
    base = "/dev/shm" if os.path.isdir("/dev/shm") else os.path.join(CACHE, "tmp")
    d = os.path.join(base, "fv_%s_%d" % (name, os.getpid()))
    shutil.rmtree(d, ignore_errors=True)
    os.makedirs(d)
    return d


def par_map(fn, items, workers=None):
    from concurrent.futures import ThreadPoolExecutor
    with ThreadPoolExecutor(max_workers=workers or NCPU) as ex:
        return list(ex.map(fn, items))


# ------------------------------------------------------------------------------ streams
def _big_stack():
    import resource
    _soft, hard = resource.getrlimit(resource.RLIMIT_STACK)
    resource.setrlimit(resource.RLIMIT_STACK, (hard, hard))


def run_lines(binary, stream, lines, shards=None, timeout=1200, extra_env=None):
    """feed `lines` to `binary stream` (sharded over processes), return output lines in order"""
    if not lines:
        return []
    if shards is None:
        shards = min(NCPU, max(1, len(lines) // 2000))
    n = len(lines)
    per = (n + shards - 1) // shards
    procs = []
    env = dict(os.environ, RUST_BACKTRACE="0")
    if extra_env:
        env.update(extra_env)
    for i in range(shards):
        chunk = lines[i * per:(i + 1) * per]
        if not chunk:
            continue
        # the extracted model is structural recursion over the input as a list (not tail recursive): give it the whole stack
        # the system allows; the implementation under test keeps its default stack
        p = subprocess.Popen([binary, stream], stdin=subprocess.PIPE, stdout=subprocess.PIPE,
                             stderr=subprocess.PIPE, env=env, preexec_fn=(_big_stack if binary == FPMODEL else None))
        procs.append((p, chunk))
    # write inputs from threads to avoid pipe deadlocks
    import threading
    results = [None] * len(procs)

    def work(i, p, chunk):
        try:
            out, err = p.communicate(("\n".join(chunk) + "\n").encode(), timeout=timeout)
        except subprocess.TimeoutExpired:
            p.kill()
            out, err = p.communicate()
            err += b"\n[fv] TIMEOUT"
        results[i] = (p.returncode, out, err)

    ths = []
    for i, (p, chunk) in enumerate(procs):
        t = threading.Thread(target=work, args=(i, p, chunk))
        t.start()
        ths.append(t)
    for t in ths:
        t.join()
    out_lines = []
    for i, (p, chunk) in enumerate(procs):
        rc, out, err = results[i]
        ls = out.decode("utf8", "replace").split("\n")
        if ls and ls[-1] == "":
            ls.pop()
        if rc != 0 or len(ls) != len(chunk):
            # the process died in the middle (abort / crash): mark the missing cases
            tail = err.decode("utf8", "replace")[-300:].replace("\n", " ")
            while len(ls) < len(chunk):
                ls.append("DIED rc=%s %s" % (rc, tail))
            ls = ls[:len(chunk)]
        out_lines.extend(ls)
    return out_lines


# ------------------------------------------------------------------------------ evidence / verdict
class Check:
    """accumulates what a check run covered and decides the verdict"""

    def __init__(self, pid, tier, seed):
        self.pid = pid
        self.tier = tier
        self.seed = seed
        self.t0 = time.time()
        self.cov = {"evaluations": 0, "distinct_nontrivial": 0, "samples": [], "streams": {}}
        self.assumptions = []
        self.disagreements = []      # model vs implementation
        self.spec_violations = []    # implementation vs specification (real failing inputs)
        self.known_hits = []
        self.proof = None
        self.notes = []
        self.distinct = set()

    def add_stream(self, name, evaluations, distinct_keys, samples, distribution=None, exhaustive=None):
        self.cov["evaluations"] += evaluations
        for k in distinct_keys:
            self.distinct.add((name, k))
        ent = {"evaluations": evaluations, "distinct_nontrivial": len(set(distinct_keys))}
        if distribution is not None:
            ent["distribution"] = distribution
        if exhaustive is not None:
            ent["exhaustive"] = exhaustive
        self.cov["streams"][name] = ent
        self.cov["samples"].extend(samples[:3])


def load_known_findings():
    path = os.path.join(VERIF, "known_findings.txt")
    res = []
    if not os.path.exists(path):
        return res
    for line in open(path):
        line = line.strip()
        if not line or line.startswith("#"):
            continue
        m = re.match(r"^(finding|fixed):\s+property=(C\d+)\s+(?:id=(\S+)\s+)?(.*)$", line)
        if m:
            res.append({"kind": m.group(1), "property": m.group(2), "id": m.group(3), "text": m.group(4)})
    return res


def write_replay(pid, obj):
    d = os.path.join(VERIF, "replays")
    os.makedirs(d, exist_ok=True)
    n = 0
    while os.path.exists(os.path.join(d, "%s-%d.json" % (pid, n))):
        n += 1
    path = os.path.join(d, "%s-%d.json" % (pid, n))
    obj.setdefault("seed", int(os.environ.get("VERIF_SEED", "1")))
    obj.setdefault("tier", os.environ.get("FV_TIER", "quick"))
    with open(path, "w") as f:
        json.dump(obj, f, indent=1)
    return path


def finish(chk, trusted_base, level_text=None, partial_theorems=None):
    """write evidence, print verdict lines, return exit code"""
    pr = chk.proof or {}
    known = load_known_findings()
    violations = 0
    lines = []
    # 1. real failing inputs (implementation vs specification)
    unlisted = []
    for v in chk.spec_violations:
        hit = None
        for k in known:
            if k["kind"] == "finding" and k["property"] == chk.pid and k["id"] and k["id"] == v.get("class"):
                hit = k
        if hit:
            chk.known_hits.append(hit["id"])
        else:
            unlisted.append(v)
    for kid in sorted(set(chk.known_hits)):
        k = [x for x in known if x["id"] == kid and x["property"] == chk.pid][0]
        lines.append("KNOWN-FINDING: property=%s %s" % (chk.pid, k["text"]))
    if unlisted:
        v = unlisted[0]
        by_what = {}
        firsts = []
        for u in unlisted:
            key = "%s | %s" % (u.get("stream"), u.get("what"))
            if key not in by_what:
                firsts.append(u)
            by_what[key] = by_what.get(key, 0) + 1
        path = write_replay(chk.pid, {"property": chk.pid, "kind": "failing-input", "count": len(unlisted), "by_what": by_what,
                                      "first": v, "first_of_each_kind": firsts[1:8], "others": unlisted[1:6],
                                      "how_to_replay": "./fv replay <this file>"})
        lines.append("VIOLATION property=%s replay=%s" % (chk.pid, path))
        violations = len(unlisted)
    elif pr and not pr.get("ok", False):
        path = write_replay(chk.pid, {"property": chk.pid, "kind": "proof-obligation-broken",
                                      "failed_at": pr.get("failed_at"), "make_tail": pr.get("make_tail"),
                                      "axioms": pr.get("axioms"), "forbidden": pr.get("forbidden"),
                                      "model_vs_impl_disagreements": chk.disagreements[:5]})
        lines.append("VIOLATION property=%s replay=%s no-failing-input-found" % (chk.pid, path))
        violations = 1
    elif chk.disagreements:
        path = write_replay(chk.pid, {"property": chk.pid, "kind": "correspondence-broken",
                                      "count": len(chk.disagreements), "first": chk.disagreements[0],
                                      "others": chk.disagreements[1:10]})
        lines.append("VIOLATION property=%s replay=%s no-failing-input-found" % (chk.pid, path))
        violations = 1
    cov = chk.cov
    cov["distinct_nontrivial"] = len(chk.distinct)
    cov["obligations"] = pr.get("obligations", 0)
    cov["discharged"] = pr.get("discharged", 0)
    cov["checker_cmd"] = pr.get("checker_cmd", "")
    cov["trusted_base"] = trusted_base
    cov["assumptions_printed"] = pr.get("assumptions", "")
    cov["proof_cone"] = pr.get("cone", [])
    if pr.get("coqchk"):
        cov["coqchk"] = pr["coqchk"]
    cov["rule"] = cov.get("rule", "")
    cov["model_vs_impl_disagreements"] = len(chk.disagreements)
    cov["impl_vs_spec_violations"] = len(chk.spec_violations)
    cov["known_findings_hit"] = sorted(set(chk.known_hits))
    cov["traces_validated_against_impl"] = cov["evaluations"]
    if partial_theorems:
        cov["partial_theorems"] = partial_theorems
    if chk.notes:
        cov["notes"] = chk.notes
    if not cov["samples"]:
        cov["samples"] = ["(no correspondence cases in this run)"]
    ev = {"property_id": chk.pid, "tier": chk.tier, "seed": chk.seed, "level": "proof", "coverage": cov,
          "assumptions": chk.assumptions, "wall_s": round(time.time() - chk.t0, 2), "violations": violations}
    os.makedirs(os.path.join(VERIF, "evidence"), exist_ok=True)
    with open(os.path.join(VERIF, "evidence", chk.pid + ".json"), "w") as f:
        json.dump(ev, f, indent=1, default=str)
    for ln in lines:
        print(ln, flush=True)
    log("%s %s: obligations %d/%d, %d cases, %d distinct, %d model/impl disagreements, %d impl/spec violations, %.1fs" % (
        chk.pid, chk.tier, cov["discharged"], cov["obligations"], cov["evaluations"], cov["distinct_nontrivial"],
        len(chk.disagreements), len(chk.spec_violations), time.time() - chk.t0))
    return 1 if violations else 0
