"""Raw-data helpers: chain walk, RDH builder, CDP lines for the link/dispatch streams."""
import struct


def walk(data):
    """independent chain walk: list of (offset, rdh bytes, payload bytes)"""
    out = []
    off = 0
    n = len(data)
    while off + 64 <= n:
        rdh = data[off:off + 64]
        nxt, mem = struct.unpack_from("<HH", rdh, 8)
        psize = (mem - 64) & 0xFFFF
        payload = data[off + 64: off + 64 + psize]
        out.append((off, rdh, payload))
        if nxt < 64:
            break
        off += nxt
    return out


def mk_rdh(version=7, hsize=0x40, fee=0x502A, prio=0, sysid=0x20, res0=0, offset=None, memsize=None, link=0,
           pktcnt=0, cru=0x18, dw=0, bc=0, res1=0, orbit=0, fmt=2, res_fmt=0, trigger=0x6A03, pages=0, stop=0,
           res2=0, reserved1=0, detfield=0, par=0, res3=0, reserved2=0, payload_len=0):
    if memsize is None:
        memsize = 64 + payload_len
    if offset is None:
        offset = memsize
    b = bytearray(64)
    b[0] = version & 0xFF
    b[1] = hsize & 0xFF
    struct.pack_into("<H", b, 2, fee & 0xFFFF)
    b[4] = prio & 0xFF
    b[5] = sysid & 0xFF
    struct.pack_into("<H", b, 6, res0 & 0xFFFF)
    struct.pack_into("<HH", b, 8, offset & 0xFFFF, memsize & 0xFFFF)
    b[12] = link & 0xFF
    b[13] = pktcnt & 0xFF
    struct.pack_into("<H", b, 14, (cru & 0xFFF) | ((dw & 0xF) << 12))
    struct.pack_into("<I", b, 16, (bc & 0xFFF) | ((res1 & 0xFFFFF) << 12))
    struct.pack_into("<I", b, 20, orbit & 0xFFFFFFFF)
    struct.pack_into("<Q", b, 24, (fmt & 0xFF) | ((res_fmt & ((1 << 56) - 1)) << 8))
    struct.pack_into("<I", b, 32, trigger & 0xFFFFFFFF)
    struct.pack_into("<H", b, 36, pages & 0xFFFF)
    b[38] = stop & 0xFF
    b[39] = res2 & 0xFF
    struct.pack_into("<Q", b, 40, reserved1)
    struct.pack_into("<I", b, 48, detfield & 0xFFFFFFFF)
    struct.pack_into("<H", b, 52, par & 0xFFFF)
    struct.pack_into("<H", b, 54, res3 & 0xFFFF)
    struct.pack_into("<Q", b, 56, reserved2)
    return bytes(b)


def cdp_tok(off, rdh, payload):
    return "%X:%s:%s" % (off, rdh.hex().upper(), payload.hex().upper())


def link_line(head, cdps):
    return head + " ; " + " ".join(cdp_tok(o, r, p) for o, r, p in cdps)


def rdh_link(rdh):
    return rdh[12]


def rdh_fee(rdh):
    return struct.unpack_from("<H", rdh, 2)[0]
