"""Canonicalisation of implementation output (error messages -> records)."""
import re

OFF_RE = re.compile(r"^0x([0-9A-Fa-f]+): ")
CODE_RE = re.compile(r"\[E(\d+)\]")
BYTES_RE = re.compile(r"\[((?:[0-9A-F]{2} ){9}[0-9A-F]{2})\]\s*$")


def unesc(s):
    out = []
    i = 0
    while i < len(s):
        c = s[i]
        if c == "\\" and i + 1 < len(s):
            n = s[i + 1]
            out.append({"n": "\n", "t": "\t", "\\": "\\"}.get(n, n))
            i += 2
        else:
            out.append(c)
            i += 1
    return "".join(out)


def sanity_tags(msg):
    """sub-rule tags of a status-word sanity message"""
    t = ""
    if "ID is not" in msg:
        t += "I"
    if "reserved bits are not 0" in msg:
        t += "R"
    if "trigger type and internal trigger both 0" in msg:
        t += "T"
    if "index is not 0" in msg:
        t += "X"
    return t


def parse_error(msg):
    """message -> (offset or None, [codes], quoted word bytes or None)"""
    m = OFF_RE.match(msg)
    off = int(m.group(1), 16) if m else None
    codes = [int(c) for c in CODE_RE.findall(msg)]
    first_line = msg.split("\n")[0]
    b = BYTES_RE.search(first_line)
    word = b.group(1).replace(" ", "") if b else None
    return off, codes, word


# ---------------------------------------------------------------- link / dispatch streams
E10_SECTIONS = ["RDH0:", "RDH1:", "RDH2:", "RDH3:"]


def e10_tags(first_line):
    """sub-rule tag numbers (Model/RdhChecks.v rtag_id) named by an [E10] message"""
    body = first_line.split("RDH sanity check failed:", 1)[-1]
    # split into sections
    idx = [(body.find(s), s) for s in E10_SECTIONS if body.find(s) >= 0]
    idx.sort()
    secs = {}
    for k, (i, s) in enumerate(idx):
        j = idx[k + 1][0] if k + 1 < len(idx) else len(body)
        secs[s] = body[i:j]
    tags = []
    s0 = secs.get("RDH0:", "")
    if "Header ID =" in s0:
        tags.append(1)
    if "Header size =" in s0:
        tags.append(2)
    if "FEE ID = [" in s0:
        fee = s0[s0.find("FEE ID = ["):]
        fee = fee[:fee.find("]")]
        if "reserved bits =" in fee:
            tags.append(3)
        if "stave number =" in fee:
            tags.append(4)
        if "layer =" in fee:
            tags.append(5)
        s0 = s0.replace(fee, "")
    if "Priority bit =" in s0:
        tags.append(6)
    if "system_id =" in s0:
        tags.append(7)
    if "reserved0 =" in s0:
        tags.append(8)
    s1 = secs.get("RDH1:", "")
    if "reserved0 =" in s1:
        tags.append(9)
    if "BC =" in s1:
        tags.append(10)
    s2 = secs.get("RDH2:", "")
    if "reserved0 =" in s2:
        tags.append(11)
    if "stop bit =" in s2:
        tags.append(12)
    if "Spare bits set in trigger_type" in s2:
        tags.append(13)
    s3 = secs.get("RDH3:", "")
    if "reserved0 =" in s3:
        tags.append(14)
    if "detector_field =" in s3:
        tags.append(15)
    # dw / data format come after the last section; search the tail of the whole body
    tail = body
    if "dw = " in tail:
        tags.append(16)
    if "data format = " in tail:
        tags.append(17)
    return tags


def e11_tags(first_line):
    tags = []
    if "pages_counter =" in first_line:
        tags.append(20)
    if "stop_bit =" in first_line:
        tags.append(21)
    if "Orbit same as previous" in first_line:
        tags.append(22)
    if "Orbit changed from" in first_line:
        tags.append(23)
    if "Trigger type changed from" in first_line:
        tags.append(24)
    if "FeeId changed from" in first_line:
        tags.append(25)
    return tags


def canon_stat(tok):
    """one harness StatType token -> the model driver's token"""
    kind, _, rest = tok.partition(" ")
    if kind == "A":
        return "A:" + ",".join(rest.split())
    if kind == "PANIC":
        return "PANIC"
    if kind == "F":
        return "F:" + unesc(rest)[:60]
    if kind == "O":
        return "O:" + rest[:60]
    msg = unesc(rest)
    off, codes, word = parse_error(msg)
    first = msg.split("\n")[0]
    if "Payload error following RDH at this location" in first:
        return "E:%X:0:-:" % off
    code = codes[0] if codes else -1
    tags = []
    if code == 10:
        tags = e10_tags(first)
    elif code == 11:
        tags = e11_tags(first)
    return "E:%X:%d:%s:%s" % (off if off is not None else -1, code, word or "-", ",".join(str(t) for t in tags))


def canon_link(line):
    if line == "-":
        return "-"
    if line.startswith("DIED"):
        return "PANIC"
    toks = [canon_stat(t) for t in line.split(" || ")]
    if "PANIC" in toks:
        return "PANIC"
    return " ".join(toks)
