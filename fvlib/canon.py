"""Canonicalisation of implementation output (error messages -> records)."""
import re

OFF_RE = re.compile(r"^0x([0-9A-Fa-f]+): ")
CODE_RE = re.compile(r"\[E(\d+)\]")
BYTES_RE = re.compile(r"\[((?:[0-9A-F]{2} ){9}[0-9A-F]{2})\]\s*$")


def unesc(s):
    out = []
    i = 0
    while i < len(s):
        c = s[i]
        if c == "\\" and i + 1 < len(s):
            n = s[i + 1]
            out.append({"n": "\n", "t": "\t", "\\": "\\"}.get(n, n))
            i += 2
        else:
            out.append(c)
            i += 1
    return "".join(out)


def sanity_tags(msg):
    """sub-rule tags of a status-word sanity message"""
    t = ""
    if "ID is not" in msg:
        t += "I"
    if "reserved bits are not 0" in msg:
        t += "R"
    if "trigger type and internal trigger both 0" in msg:
        t += "T"
    if "index is not 0" in msg:
        t += "X"
    return t


def parse_error(msg):
    """message -> (offset or None, [codes], quoted word bytes or None)"""
    m = OFF_RE.match(msg)
    off = int(m.group(1), 16) if m else None
    codes = [int(c) for c in CODE_RE.findall(msg)]
    first_line = msg.split("\n")[0]
    b = BYTES_RE.search(first_line)
    word = b.group(1).replace(" ", "") if b else None
    return off, codes, word
