"""./fv replay <replay.json>: show a stored violation and re-run the check that produced it.

A replay file names the property, the kind of break (failing input / broken proof obligation / broken
correspondence) and the first failing case with everything needed to re-create it (command line, input bytes or
generator seed, schedule spec, action).  Inputs live in scratch directories that are removed after a run, so the
replay regenerates them by re-running the property's check with the recorded seed and tier: the same PRNG seed
re-creates the same cases; the verdict of that run is the verdict of the replay."""
import importlib
import json
import os
import sys


def main(path):
    with open(path) as f:
        r = json.load(f)
    pid = r.get("property", "?")
    print("replay of %s (%s)" % (pid, r.get("kind")))
    first = r.get("first") or {}
    for k in ("stream", "what", "detail", "cmd", "stdin", "sched", "action", "input_hex", "case", "failed_at"):
        v = first.get(k, r.get(k))
        if v is not None:
            print("  %-10s %s" % (k, str(v)[:2000]))
    if r.get("make_tail"):
        print("  proof obligation that no longer checks:\n" + r["make_tail"][-1500:])
    seed = int(os.environ.get("VERIF_SEED", r.get("seed", 1)))
    tier = os.environ.get("VERIF_TIER", r.get("tier", "quick"))
    print("re-running ./fv check %s --tier %s (seed %d)" % (pid, tier, seed), flush=True)
    mod = importlib.import_module("fvlib.props." + pid.lower())
    rc = mod.run(tier, seed)
    print("replay: violation %s" % ("reproduced" if rc else "NOT reproduced"))
    return 1 if rc else 0


if __name__ == "__main__":
    sys.exit(main(sys.argv[1]))
