"""Generators and the independent oracle for the scanner streams (C03, C08, C18, C14)."""
import struct
import zlib

from . import rawdata

LAYER_STAVE_MASK = 0b0111_0000_0011_1111


def field_sig(rdh):
    """independent decoding of the 64 header bytes (documented layout), same textual form as the harness"""
    (hid, hs, fee, prio, sysid, res0, offset, memsize, link, pktcnt, cruid_dw, bc_res, orbit, fmt_res, trigger, pages,
     stop, r2res, _res1, det, par, r3res, _res2) = struct.unpack("<BBHBBHHHBBHIIQIHBBQIHHQ", rdh)
    vals = [hid, hs, fee, prio, sysid, res0, offset, (memsize - 64) & 0xFFFF, link, pktcnt, cruid_dw & 0xFFF,
            (cruid_dw >> 12) & 0xF, bc_res & 0xFFF, bc_res >> 12, orbit, fmt_res & 0xFF, trigger, pages, stop, r2res, det,
            par, r3res]
    return ",".join(str(v) for v in vals)


def cdp_token(off, rdh, payload, skip):
    pl = b"" if skip else payload
    return "%X:%d:%08X:%08X" % (off, len(pl), zlib.crc32(rdh + pl) & 0xFFFFFFFF, zlib.crc32(field_sig(rdh).encode()) & 0xFFFFFFFF)


def matches(flt, rdh):
    if flt == "-":
        return True
    k, v = flt.split(":")
    v = int(v)
    fee = struct.unpack_from("<H", rdh, 2)[0]
    if k == "link":
        return rdh[12] == v
    if k == "fee":
        return fee == v
    return (fee & LAYER_STAVE_MASK) == (v & LAYER_STAVE_MASK)


def expected(pkts, flt, skip, cap=100):
    """pkts: [(rdh, payload)] well framed.  -> (batches string, stats string) the property prescribes"""
    off = 0
    toks = []
    links, fees = [], []
    seen = filt = pay = 0
    for rdh, payload in pkts:
        seen += 1
        fee = struct.unpack_from("<H", rdh, 2)[0]
        if rdh[12] not in links:
            links.append(rdh[12])
        if fee not in fees:
            fees.append(fee)
        if matches(flt, rdh):
            if flt != "-":
                filt += 1
            pay += len(payload)
            toks.append(cdp_token(off, rdh, payload, skip))
        off += 64 + len(payload)
    batches = [" ".join(toks[i:i + cap]) for i in range(0, len(toks), cap)]
    return (" / ".join(batches) if batches else "-"), {"seen": seen, "filtered": filt, "payload": pay, "links": links, "fees": fees}


def parse_stats(s):
    """stats tokens -> dict (accumulating S/R/P flushes)"""
    d = {"seen": 0, "filtered": 0, "payload": 0, "links": [], "fees": [], "errors": [], "fatal": [], "first": []}
    for t in s.split():
        k, v = t[0], t[1:]
        if k == "S":
            d["seen"] += int(v)
        elif k == "R":
            d["filtered"] += int(v)
        elif k == "P":
            d["payload"] += int(v)
        elif k == "L":
            d["links"].append(int(v))
        elif k == "F":
            d["fees"].append(int(v))
        elif k == "E":
            d["errors"].append(v)
        elif k == "X":
            d["fatal"].append(v)
        else:
            d["first"].append(t)
    return d


def rand_stream(rng, npk, big=False):
    """well-framed packets over a few links / FEE ids, interleaved"""
    nlinks = rng.choice([1, 1, 2, 3, 12])
    ids = []
    for i in range(nlinks):
        layer = rng.randrange(7)
        stave = rng.randrange(48)
        ids.append((rng.randrange(0, 24) if rng.random() < 0.8 else rng.randrange(256), (layer << 12) | (rng.randrange(4) << 8) | stave))
    if nlinks >= 2 and rng.random() < 0.35:
        # two staves of one outer layer whose numbers differ by 32 (both legal): they must not be confused by a stave filter
        layer, st = rng.choice([5, 6]), rng.randrange(16)
        ids[0] = (ids[0][0], (layer << 12) | st)
        ids[1] = (ids[1][0], (layer << 12) | (st + 32))
    elif nlinks >= 2 and rng.random() < 0.4:
        # one FEE id read out through two different links
        if ids[1][0] == ids[0][0]:
            ids[1] = ((ids[0][0] + 1) % 256, ids[0][1])
        else:
            ids[1] = (ids[1][0], ids[0][1])
    pkts = []
    seen_links, seen_fees = set(), set()       # the first packet of a link / FEE id opens every filtered output: it keeps a valid RDH0
    for k in range(npk):
        link, fee = rng.choice(ids)
        r = rng.random()
        if r < 0.15:
            n = 0
        elif r < 0.5:
            n = rng.choice([1, 10, 16, 32, 160])
        elif r < 0.97 or not big:
            n = rng.randrange(0, 400)
        else:
            n = rng.choice([9999, 10000, 5000])
        payload = bytes(rng.randrange(256) for _ in range(n)) if n < 600 else bytes([rng.randrange(256)]) * n
        rdh = rawdata.mk_rdh(version=rng.choice([6, 7]), fee=fee, link=link, payload_len=n, pktcnt=k & 0xFF, orbit=rng.randrange(1 << 32),
                             bc=rng.randrange(0xDEC), trigger=rng.randrange(1, 1 << 32), pages=rng.randrange(4), stop=rng.randrange(2),
                             fmt=rng.choice([0, 2]), detfield=rng.randrange(1 << 32), par=rng.randrange(1 << 16), cru=rng.randrange(4096),
                             dw=rng.randrange(16), res0=rng.choice([0, 0, 7]), sysid=rng.choice([32, 32, 3, 200]))
        if (link in seen_links and fee in seen_fees) and rng.random() < 0.12:
            # reserved bits of the FEE id (15, 11, 10, 7, 6) set: another FEE id value of the SAME layer and stave -- a stave filter
            # selects it, a FEE-id filter for the clean value does not (the filters compare what they document, nothing else)
            rdh = bytearray(rdh)
            v = struct.unpack_from("<H", rdh, 2)[0] | rng.choice([0x8000, 0x0800, 0x0400, 0x0080, 0x0040, 0x0C00])
            struct.pack_into("<H", rdh, 2, v)
            rdh = bytes(rdh)
        if (link in seen_links and fee in seen_fees) and rng.random() < 0.25:
            # framing depends on offset_to_next / memory_size only: the header-size byte of the RDH0 (vetted on the very first RDH
            # of an input only -- hence not varied on the packet that opens a link / FEE id, which opens the filtered outputs)
            # may claim anything -- the header is 64 bytes whatever it says
            rdh = bytearray(rdh)
            rdh[1] = rng.choice([0x00, 0x20, 0x3F, 0x41, 0x50, 0x80, 0xFF])
            rdh = bytes(rdh)
        seen_links.add(link)
        seen_fees.add(fee)
        pkts.append((rdh, payload))
    return pkts, ids


def pick_filter(rng, ids):
    r = rng.random()
    if r < 0.3:
        return "-"
    link, fee = rng.choice(ids)
    if r < 0.55:
        return "link:%d" % (link if rng.random() < 0.85 else (link + 1) % 256)
    if r < 0.8:
        return "fee:%d" % (fee if rng.random() < 0.85 else fee ^ 0x100)
    return "stave:%d" % ((fee & LAYER_STAVE_MASK) if rng.random() < 0.85 else ((fee + 1) & LAYER_STAVE_MASK))


def serialize(pkts):
    return b"".join(r + p for r, p in pkts)


def hexline(src, flt, skip, data):
    return "%s %s %d %s" % (src, flt, 1 if skip else 0, data.hex().upper() if data else "-")
