"""Regenerates MANIFEST.json from the table below (run: python3 -m fvlib.manifest)."""
import json
import os

VERIF = os.path.dirname(os.path.dirname(os.path.abspath(__file__)))

CLAIMED = {
    "C11": {
        "text": "Theorems C11_ihw/tdh/tdt/ddw0 (sanity check passes iff the documented identifier, reserved-bit and "
                "word-specific rules hold, for every 10-byte word = all 2^80 values) and C11_data_* (codes reported for a data "
                "word = documented verdict for all 256 identifiers and every active-lane mask) are proved in Coq about a "
                "hand-written model of the Rust accessors and validators; the model is tied to the code on every run by "
                "regenerated constants (identifiers, id ranges) and by a correspondence sweep that is the property's own "
                "quantifier (all ids, all 1-bit and sampled/all 2-bit patterns, random words, all ids x lane masks) run "
                "through the real StatusWordSanityChecker / CdpRunningValidator.",
        "note": "Trusted: Coq kernel + vm_compute; extraction (ExtrOcamlBasic) and OCaml driver; fp_harness; message-text "
                "canonicalisation; our reading of the word layouts (Spec/WordLayout.v). Model-to-code agreement is sampled "
                "(exhaustive over ids and single bits, sampled over the rest).",
        "technique": "Coq proof (bit-field lemmas + complete 256-id enumeration by vm_compute) + differential correspondence model vs code",
        "design_ref": "DESIGN.md section 8, C11",
    },
}

CLAIMED["C09"] = {
    "text": "Theorems C09_step / C09_step_legal / C09_step_illegal (for every implementation state and every word, the "
            "classification and the abstraction of the next state are exactly what the documented diagram, with its recovery rule, "
            "prescribes; an illegal word is never taken for a legal one) and C09_run (lockstep for every finite word sequence, by "
            "induction) are proved about a model of ItsPayloadFsmContinuous::advance whose identifiers, per-arm data-id patterns and "
            "sm! table are regenerated from the source. The model is tied to the compiled code by an EXHAUSTIVE product through "
            "hook H1: all 11 variants x 256 ids x no_data x packet_done (plus filler bits) and by random walks.",
    "note": "Trusted: Coq kernel + vm_compute; gen translator; hook H1; harness; extraction + driver; our reading of the puml diagram "
            "(Spec/Diagram.v, D3/D12). That an illegal word's error is actually emitted at that word is proved at the packet-validator "
            "level (CdpRunning model) once claimed there.",
    "technique": "Coq proof: reflective finite simulation check (vm_compute over the full product) + induction over word sequences; exhaustive correspondence via H1",
    "design_ref": "DESIGN.md section 8, C09",
}


CLAIMED["C10"] = {
    "text": "Theorems C10_sanity_iff / C10_sanity_first / C10_sanity_latch_stable (for every 64-byte header = all 2^512 values, the "
            "[E10] check passes iff every documented sanity condition holds, relative to the latched first header version or the "
            "configured one, plus the ITS system id with an ITS target) and C10_running_iff (for every history that begins at an HBF "
            "start and does not wrap the 16-bit page counter, [E11] is raised for the last RDH iff it breaks the documented "
            "page-counter / stop-bit / orbit / same-HBF rule; by an invariant over the history) are proved about a model of "
            "RdhCruSanityValidator and RdhCruRunningChecker whose masks and bounds are regenerated from the source. Tied to the code by "
            "a correspondence sweep through the real LinkValidator: every single-bit deviation of all 512 bits at positions of "
            "conforming histories, boundary values, random walks, random headers; each RDH's reported codes and offset are also "
            "compared with the specification's verdict.",
    "note": "Trusted: Coq kernel + vm_compute (per-byte facts); gen translator; harness; extraction + driver; message-text "
            "canonicalisation; our reading of doc/checks_list.md (Spec/RdhRules.v, D1 D2). Model-to-code agreement is sampled "
            "(exhaustive over single bits of the sampled histories).",
    "technique": "Coq proof (bit-field lemmas over the 512-bit header; history invariant by induction) + differential correspondence model vs code",
    "design_ref": "DESIGN.md section 8, C10",
}
CLAIMED["C12"] = {
    "text": "Theorems C12_fmt2 / C12_fmt0 (for every word list and padding length, a payload laid out as its format prescribes is cut "
            "into exactly those words with the right slot size, under the two guards the code needs), C12_chunk_at (chunk i is the "
            "slice at i*slot, wholly inside the payload: once each, in order, no overlap), C12_too_much_padding / C12_padding_ok, and "
            "the packet-level C12_packet_too_much_padding (one un-coded message at the RDH offset, no word examined, FSM back to the "
            "initial state), C12_packet_words, C12_words_in_order are proved over Model/Payload.v and Model/CdpRunning.v. The unguarded "
            "statement is refuted by C12_refuted_fmt2 / C12_refuted_fmt0 with witnesses (known findings F12/F13, listed in "
            "known_findings.txt and replayed on the real code on every run). Tied to the code by preprocess_payload and LinkValidator "
            "correspondence over both formats x word counts x padding lengths x residues.",
    "note": "Trusted: Coq kernel; gen translator (padding limits, slot sizes pinned); harness; extraction + driver; canonicalisation. "
            "The guards (payload bytes 10..15 not all zero for format 2 / zero slot padding for format 0 / last word not ending in 0xFF) "
            "are exactly the inputs on which the code departs from the property: recorded as findings, not hidden.",
    "technique": "Coq proof (list induction over chunks; refutation witnesses by computation) + differential correspondence model vs code",
    "design_ref": "DESIGN.md section 8, C12",
}

CLAIMED["C03"] = {
    "text": "Theorem C03_scan_exact: for EVERY well-framed packet list (any count, any payload sizes within the accepted range), every "
            "filter (none/link/FEE/layer-stave, present or absent value), payloads loaded or skipped, file or pipe, the scanner+reader "
            "model hands on exactly the selected packets of the chain, once each, in order, each with its true offset, decoded header "
            "and payload, in batches of CAP all full but the last (C03_batch_shape), ending normally; C03_fields ties every decoded "
            "field to the documented bit layout. Proved by induction over the packet list with an invariant on reader position and "
            "tracker (filter loop included, fuel shown sufficient). The model is the scanner the current source describes: the "
            "structural fact where load_cdp samples the packet offset is regenerated on every run and the proof term only type-checks "
            "for the correct placement (C03_refuted_when_offset_sampled_before is the witness for the other one: defect F1, repaired by "
            "a fix: commit). Tied to the code by the real InputScanner + spawn_reader over BufReader<File> and StdInReaderSeeker<Stdin>, "
            "compared CDP by CDP (offset, payload length, CRC of bytes, CRC of decoded fields) and statistic by statistic with the model "
            "and with an independent chain walk.",
    "note": "Trusted: Coq kernel; gen translator; harness (temporary files, child process for the pipe); extraction + driver; the Python "
            "chain walk; the reader model (file seek past EOF succeeds, pipe seek is read-discard). 2^64-byte inputs and u32 statistic "
            "wrap are outside the statement.",
    "technique": "Coq proof (induction over packets with a reader/tracker invariant; regenerated structural fact) + differential correspondence model vs code vs independent chain walk",
    "design_ref": "DESIGN.md section 8, C03",
}
CLAIMED["C08"] = {
    "text": "Theorems C08_exact (bytes written = concatenation in input order of all and only the matching packets, for every flush "
            "threshold, filter, source and packet list), C08_roundtrip (encode_rdh (decode_rdh b) = b for all 2^512 headers), "
            "C08_wellframed, C08_idempotent and C08_partition_count / C08_filter_is_key_selection (over the distinct key values the "
            "order-preserving selections have exactly the input's packets) are proved over Model/Scanner.v + Model/Writer.v on top of "
            "C03. Tied to the code by RdhCru::load/to_byte_slice round trips and by end-to-end runs of the rebuilt binary: every "
            "distinct value of a link/FEE/stave key plus an absent one, -o file and stdout, file and pipe input; outputs compared byte "
            "for byte with the specification and the model, re-filtered, and summed over the values.",
    "note": "Trusted: Coq kernel; gen translator; harness; the rebuilt binary as run by fvlib; extraction + driver; Python filter. The "
            "1 Mi-element flush threshold is a parameter of the theorem; memory growth is not modelled.",
    "technique": "Coq proof (byte-list round trip, writer invariant, list filter/partition lemmas, on top of the C03 scanner theorem) + end-to-end differential correspondence",
    "design_ref": "DESIGN.md section 8, C08",
}

CLAIMED["C18"] = {
    "text": "Theorem C18_scan_truncated: for EVERY well-framed packet list and EVERY cut position k (0..length), every filter, payloads "
            "loaded or skipped, file or pipe, the scanner+reader model hands on each complete packet before the cut exactly as for the "
            "untruncated input (same offset/header/payload; the untruncated result starts with the same CDPs) plus at most one CDP, the "
            "header of the packet whose payload was cut with an empty payload, and reading ends on its own (model fuel never exhausted); "
            "C18_cut_decomposition characterises the cut; C18_validator_prefix: validators are left folds, so findings for the packets "
            "before the cut are a prefix of the findings for any longer list. The proof term type-checks only for the reader the current "
            "source describes as keeping its batch on a pipe seek past the end (Gen.Facts.batch_kept_on_invalid_input; "
            "C18_refuted_when_batch_dropped is the witness for the other behaviour: defect F16, found by this model and repaired by a fix: "
            "commit, like F2). Tied to the code by the real scanner over file and pipe at every cut position of short streams and around "
            "batch boundaries, and by the rebuilt binary at every cut position (incl. 0..11 bytes) in check and view modes: exit status, "
            "panic text, findings below the cut against the untruncated run.",
    "note": "Trusted: Coq kernel; gen translator; harness; the rebuilt binary; extraction + driver; Python cut decomposition; ANSI stripping. "
            "Stave-level frame messages are attributed to the packet that closes the frame (inclusion instead of equality is checked there). "
            "A stalled pipe and wall-clock behaviour are outside the model.",
    "technique": "Coq proof (scanner invariant generalised to an arbitrary tail; fold prefix lemma; regenerated structural facts) + exhaustive cut-position correspondence on short streams",
    "design_ref": "DESIGN.md section 8, C18",
}

CLAIMED["C06"] = {
    "text": "Theorems C06_isolated (for EVERY packet sequence and configuration the dispatcher's id table / position lookup / push-on-miss "
            "bookkeeping hands each validator exactly the packets of its own dispatch id -- link id, FEE id in stave mode -- in arrival "
            "order, and the result for an id is one sequential pass over those packets alone), C06_alone, C06_independent (same own packet "
            "sequence => same reported result, whatever the other links carry and however they are interleaved) and C06_extraction (the "
            "id's packets stored alone) are proved by an invariant over the dispatcher fold. PARTIAL: that validators use packet offsets "
            "only as labels (re-basing between layouts) is not proved; it is decided on every run by the layout comparison. Tied to the "
            "code by the real ValidatorDispatcher (threads) on contiguous / round-robin / random merges against one sequential "
            "LinkValidator per link (messages re-based to packet index + delta), and by the binary on merged vs filtered vs extracted files.",
    "note": "Trusted: Coq kernel; harness; the rebuilt binary; extraction + driver; message canonicalisation and the attribution of a message "
            "to a link through the byte range of its offset. Thread scheduling inside the real dispatcher is whatever the OS does during the run "
            "(C05 treats schedules).",
    "technique": "Coq proof (invariant over the dispatcher's fold: NoDup id table, channel i = filter id_i) + differential correspondence across layouts; re-basing checked, not proved",
    "design_ref": "DESIGN.md section 8, C06",
}

CLAIMED["C07"] = {
    "text": "Theorems C07_packet (for EVERY packet, validator state and configuration: each message emitted while a payload is checked either "
            "quotes exactly the j-th word handed to the checker and is located at packet offset + 64 + j*slot with the slot of the HEADER's "
            "data format, or quotes nothing and is located at such a word position or at the position of the TDH that opened the readout "
            "frame being closed; never elsewhere), C07_quoted_bytes (the j-th word is the 10 payload bytes at j*detected slot -- with the "
            "property's layout proviso these are the bytes at the reported offset), C07_rdh_messages ([E10]/[E11] carry the packet's own "
            "offset) and C07_word are proved over Model/CdpRunning.v + Model/Link.v by case analysis of every word class and induction over "
            "the words (16-bit word counter and 64-bit position wrap-around handled by explicit bounds). Offsets of packets under filters "
            "come from C03. Tied to the code by re-checking EVERY error line the binary prints on corrupted multi-link streams, with and "
            "without filters, against the input bytes (offset legit, `[..]` dump, `current :` row), and by model-vs-code message lists.",
    "note": "Trusted: Coq kernel; harness; binary; extraction + driver; the parser of the tool's message format; the Python chain walk. The "
            "`current :` row text is compared in the CLI stream only (the model keeps header fields, not text). [E100]/[E101] labels are C18's.",
    "technique": "Coq proof (invariant on the word tracker through every branch of the packet validator; list induction) + every printed error line re-checked against the input",
    "design_ref": "DESIGN.md section 8, C07",
}

CLAIMED["C05"] = {
    "text": "Theorem C05_collector_schedule_independent: the collector receives one interleaving of the per-sender FIFO streams -- the only "
            "thing thread scheduling decides. For EVERY family of streams in which each ordered statistic has a single sender, no fatal "
            "error is sent and error messages with equal leading offset come from one sender (C07), and EVERY two interleavings, the "
            "finalised collector (what report, statistics file, displayed messages and exit status are computed from) is the same. Proved "
            "from: an n-ary interleaving relation with `the sub-sequence that lives in one stream is the same in every interleaving`, "
            "permutation invariance of the additive counters, and C05_stable_sort_determined (a stable sort by key is determined by the "
            "per-key sub-sequences). The proof term type-checks only for a collector that sorts also under --mute-errors, and "
            "C05_sort_is_the_codes pins that the source's sort is a stable one (both facts re-read from error_stats.rs on every run); "
            "C05_refuted_unsorted_when_muted is the witness for the pinned commit (defect F3, repaired by a fix: commit). PARTIAL: that "
            "the senders' own streams are schedule independent rests on C06 and on Rust's absence of shared mutable state; error cap and "
            "fatal errors are excluded as the property says. Tied to the code by the real StatsCollector under sequential / reverse / "
            "random bursty interleavings (serialised JSON must be byte-identical and equal the model) and by repeated concurrent runs of "
            "the binary.",
    "note": "Trusted: Coq kernel; gen translator; harness; binary; extraction + driver; std's stable sort; that channel arrival order is the "
            "only schedule-dependent input (no schedule-perturbation hook is installed: distinct arrival orders in the CLI runs are not counted).",
    "technique": "Coq proof (interleaving relation, permutation invariance, stable-sort determinism; regenerated structural facts) + real collector under adversarial interleavings + repeated runs",
    "design_ref": "DESIGN.md section 8, C05",
}

CLAIMED["C14"] = {
    "text": "Theorem C14_statistics_equal_ground_truth: for EVERY well-framed packet list below the u32 accumulator limits, every filter, "
            "payloads loaded or skipped, file or pipe, what the collector holds after the main thread's stream (RDH version + the reader's "
            "statistics forwarded in order) and, in check/view modes, the analysis thread's per-batch statistics equals the ground truth "
            "computed from the packets alone: RDHs visited (skipped links included), RDHs matching the filter, payload bytes of the returned "
            "packets, links and FEE ids in first-seen order, version / run trigger type / data format / system id of the first header (each "
            "recorded once), stop-bit packets and the 20 per-bit trigger counts of the analysed (= selected) packets. It rests on "
            "C14_scanner_statistics (the scanner proofs of C03 were extended to carry the statistics part of the state through the filter "
            "loop, with the flush-on-u32::MAX logic), on the collector's counters as sums, and on C03 for the batches. C14_finalize (links "
            "sorted, everything else kept) and C14_error_total complete it; distinct error codes are a function of the final list (C05). "
            "Tied to the code by the statistics file (JSON and TOML) and the report of the rebuilt binary against an independent recount "
            "and against the model, over modes x filters x counts beyond a batch x payload totals beyond 2^16. Defect F7 (view mode wrote "
            "an unfinalised file) was found by this check and repaired by a fix: commit.",
    "note": "Trusted: Coq kernel; gen translator; binary; extraction + driver; the Python recount; serde/toml and the report table (parsed). "
            "Layer/stave pairs are compared by the check only (not in the theorem); u32 wrap is outside the theorem (modelled).",
    "technique": "Coq proof (scanner statistics carried through the C03 induction; counters as vector sums; first-seen idempotence) + statistics file and report vs independent recount",
    "design_ref": "DESIGN.md section 8, C14",
}

CLAIMED["C16"] = {
    "text": "Theorems about the collector/controller/printer model, for EVERY collector state, display configuration and message list: "
            "C16_exit_table (exit status is 0 iff nothing was reported or no any-errors code is configured, else the configured code; the fatal "
            "flag counts as reported -- C16_fatal_is_reported is `Gen.Facts.fatal_sets_any_errors_flag = true`, regenerated from controller.rs), "
            "C16_total_counts_messages / C16_total_equals_shown (error total = reported + custom messages = number shown with no display option), "
            "C16_mute (nothing shown), C16_cap (at most N shown), C16_filter_selection / C16_unique_codes / C16_code_match (a message is shown "
            "under -w iff its bracketed code is one of the listed codes: exact match of the decimal code, not a prefix). Tied to the code by "
            "running the rebuilt fastpasta binary on clean / k-error / fatally truncated / non-ALICE / missing / empty inputs x option "
            "combinations (-E, -m, -w incl. prefixes, -e around the count, targeted -w/-e pairs predicted from the model, invalid combinations) "
            "and comparing exit status, shown messages, report and statistics-file totals with the extracted model and with an independent "
            "oracle; invalid combinations must leave no output file. Defect F11 (a fatal error alone left exit 0 under -E) was found by this "
            "check and repaired by a fix: commit.",
    "note": "Trusted: Coq kernel; gen translator; binary; extraction + driver; stderr/report parsing. Argument validation itself is compared "
            "by the check (table of invalid combinations), not proved; the stop flag's timing (how many errors are collected after the cap is "
            "hit) is a runtime race outside the model -- the oracle uses the collected list from the statistics file.",
    "technique": "Coq proof (invariant over collector updates, list lemmas on filter/take, exit table by case analysis on a regenerated fact) + CLI correspondence against the rebuilt binary",
    "design_ref": "DESIGN.md section 8, C16",
}

CLAIMED["C15"] = {
    "text": "The comparison (validate_fields! + every validate_other + StatsCollector::validate_other_stats) is modelled over lists the translator "
            "re-reads from the sources on every run: declared fields of the 7 statistics structs, macro argument lists, the struct literals "
            "rebuilt from `other` (field by field, accessors resolved), delegations to sub-structs, serde attributes. C15_field_lists_complete "
            "(`all_ok = true`, computed in Coq from those lists: every field is compared against the same field or delegated; only is_finalized is "
            "outside). C15_no_mismatch_iff_same_statistics: for EVERY leaf type with a correct equality, EVERY two trees of the right shape, no "
            "mismatch is reported IFF all collected statistics agree (ALPIDE part only when collected) -- drift detection for every leaf at once "
            "(C15_detects, C15_leaf_*) and acceptance (C15_reflexive). C15_mismatch_exit (mismatch -> any-errors flag -> exit N, flag fact "
            "regenerated), C15_finalized_first, C15_file_replaced, C15_roundtrip (any round-tripping serialiser, any previous file content), "
            "C15_same_input_any_schedule (with C05: the later run's tree under any thread schedule matches the earlier one). Tied to the code by "
            "the rebuilt binary: write JSON/TOML over an old longer file and fresh, re-read with -i, perturb EVERY leaf one at a time (reported "
            "field names in order = model's prediction via the extracted comparison), single-field input changes.",
    "note": "Trusted: Coq kernel; gen/facts_stats.py; binary; extraction + driver; serde_json/toml round trip of the concrete tree (premise of "
            "C15_roundtrip, exercised not proved); PartialEq of leaf types = equality; the check's TOML writer. A harmless reshaping of "
            "validate_other that the translator cannot read falls back to snapshot lists (reported in evidence) and is then covered by the leaf sweep only.",
    "technique": "Coq proof (generic iff-theorem over regenerated field lists decided by computation; refinement to C05 collector model) + CLI correspondence perturbing every leaf",
    "design_ref": "DESIGN.md section 8, C15",
}

CLAIMED["C13"] = {
    "text": "Theorems about the model of the stave-level code (byte-wise decoder, lane checks, frame checks, ItsReadoutFrameValidator): "
            "C13_decoder_recovers_skeleton (for EVERY lane produced by the independent encoder Spec/AlpideEnc.v -- any chips, bunch counters, "
            "trailer flags, any number of region headers, short/long hits with arbitrary 2nd/3rd bytes, busy and other one-byte words, idle "
            "bytes, fatal extensions -- the decoder keeps exactly the skeleton; by induction over items with a 256-entry byte-class table), "
            "C13_hits_irrelevant / C13_frame_hits_irrelevant (verdict and readout-flag counters of a frame are equal for frames that differ only "
            "in hit content), C13_flags_are_trailer_counts, C13_lane_bytes (lane bytes = concatenation of its words' data under any interleaving / "
            "packet split), C13_lane_ok_iff / C13_lane_errors_iff (a lane passes iff no documented lane rule is broken; which [E9003..5] are "
            "named), C13_lane_count_rule (lane count / IB grouping as documented, incl. the u64 wrap), C13_frame_verdict (messages only at the "
            "frame start; [E72/73] iff the lane rule fails against lanes that announced FATAL in EARLIER frames; [E74/75] iff a lane rule or the "
            "cross-lane bunch counter rule is broken; flags forwarded; fatal list extended after the check, duplicate-free -- two regenerated "
            "facts). Tied to the code by the real LinkValidator (harness) against the extracted model token by token (lane/sub-check tags) and "
            "against an independent Python encoder + rule oracle over 14 frame kinds x 3 encodings (no hits / hits / adversarial) x barrels. "
            "Defects F10/F9 (announcing frame flagged; repeated announcement counted twice) were found by this check and repaired by a fix: commit.",
    "note": "Trusted: Coq kernel + vm_compute (byte table); gen translator; harness; extraction + driver; the Python encoder/oracle; message "
            "parsing. Lanes with neither a chip nor a fatal word crash the decoder (F8): outside the theorems' hypothesis (lane_total), a C04 "
            "matter. Frames that still carry a lane known to be fatal are not judged on [E72/73] by the oracle (the documented rule is silent). "
            "[E701] (no data words) is compared model vs code and against the oracle, without a separate theorem.",
    "technique": "Coq proof (encoder/decoder simulation by induction, iff-theorems for lane and frame rules, regenerated ordering facts) + differential correspondence with the real validator and an independent oracle",
    "design_ref": "DESIGN.md section 8, C13",
}

CLAIMED["C20"] = {
    "text": "Theorems about the model: C20_cdps / C20_triggers_pht ([E9001]/[E9002] is among the custom-check errors IFF the key is configured and "
            "the collected count differs), C20_rdh_version (for EVERY sequence of RDHs, each one is flagged on its header id IFF its version "
            "differs from the configured one; by induction over the sequence with the latch invariant) and C20_rdh_version_default, C20_chips "
            "(outer-barrel lanes: [E9004] IFF the chip count differs, [E9005] IFF the count is right and the chip list is none of the configured "
            "orders; corollary of the C13 lane theorems), C20_default_* (absent keys change nothing), C20_period_distance (for all legal bunch "
            "crossings the computed distance is (cur + 3564 - prev) mod 3564; the constant is regenerated), C20_period_pairs ([E45] at a TDH IFF "
            "it and the last earlier internal-trigger TDH differ from P) and C20_period_bookkeeping (which TDH that is, after ANY TDH sequence). "
            "Tied to the code by the real LinkValidator (period streams with wrap-around over orbits, P and P+-1, moved / missing / physics-only "
            "triggers; rdh_version / chip_count_ob / chip_orders_ob variants) against the extracted model and independent oracles, and by the "
            "binary with generated TOML files (subsets of the five keys, one key off by one, commented keys, all-default file vs no file).",
    "note": "Trusted: Coq kernel; gen translator; harness; binary; extraction + driver; toml/serde parsing of the file; the Python oracles. "
            "Bunch crossings above 3563 are outside the period theorem (u16 wrap, witnessed). That the collected counts equal the input's is C14.",
    "technique": "Coq proof (iff-lemmas over the collector / RDH sanity / lane-check models, induction over RDH and TDH sequences, modular arithmetic by lia) + differential correspondence and CLI sweep of TOML configurations",
    "design_ref": "DESIGN.md section 8, C20",
}

CLAIMED["C19"] = {
    "text": "Theorems about the model of the three views (rows as records; the text layout is parsed by the check): C19_rdh_rows (one row per packet, "
            "in order, with offset and the 14 header values), C19_frame_rows (per packet one RDH row then its word rows, each placed with the data "
            "format of its OWN RDH -- regenerated fact), C19_word_rows / C19_row_per_word (every status word exactly one row, data words in the data "
            "view, unknown ids logged; offset and quoted bytes are those of the examined word), C19_word_position (payload start + index * slot, "
            "constants regenerated), C19_quoted_bytes (the quoted bytes are the payload slice at index * slot), C19_tdh_attributes / "
            "C19_tdt_packet_status / C19_lane_faults (for ALL 2^80 words the decoded trigger kind, continuation, no-data, orbit, BC, packet status "
            "and worst lane status of the 28 two-bit lanes equal the documented bit fields; byte masks regenerated from util.rs; 256-value byte "
            "tables), C19_agrees_with_checker (on every word legal where it stands the type shown = the type the checker's state machine assigns; "
            "complete 11 x 256 x 4 table). Tied to the code by running the rebuilt binary (3 views x styled / -d x filters x file / pipe) on "
            "arbitrary well-framed inputs incl. mixed data formats and on conforming streams: every printed row parsed back and compared with the "
            "extracted model, with an independent decoding of the input bytes, and styled with unstyled.",
    "note": "Trusted: Coq kernel + vm_compute; gen/facts_view.py; binary; extraction + driver; the row parser and ANSI-stripping regex (text layout "
            "itself is not modelled); the independent decoder. Layer-7 FEE ids crash the frame views (F6, C04). A payload that cannot be cut into "
            "words ends the view of its batch: rows before it are compared, later ones are not.",
    "technique": "Coq proof (bit-field lemmas over all words, byte tables, reflective FSM table, structural lemmas with regenerated facts) + CLI correspondence parsing every row back",
    "design_ref": "DESIGN.md section 8, C19",
}

CLAIMED["C01"] = {
    "text": "PROVED FOR ALL FIVE CHECK MODES, for every stream of producer-shaped grammars written from the documentation: (1) RDH level -- C01_rdh_tier: "
            "EVERY link description of Spec/Grammar.v (any number of heartbeat frames and pages, any orbits / bunch crossings / trigger types / detector-field "
            "status bits / packet counters / payload sizes within the documented ranges) and any placement of its packets in the input draws no message from "
            "`check sanity` / `check all`. (2) ITS level -- C01_its_tier: EVERY link whose pages carry payloads of the word-level grammar Spec/GrammarIts.v (IHW; "
            "trigger packets = TDH, data words of active lanes, TDT; no-data TDHs; packets continued over ANY number of pages; DDW0 on the stop page; data formats "
            "0 and 2; 0..15 bytes of padding; words given by their DOCUMENTED bit layout) draws no message from `check sanity its` / `check all its`. (3) stave "
            "level -- C01_stave_tier: if moreover every trigger packet is stave-conforming (Spec/GrammarStave.v: its data words grouped by lane are the bytes of "
            "ALPIDE lanes as the independent encoder of C13 produces them -- any hits, regions, busy words, idle bytes --, every lane with a chip, no fatal "
            "announcement, no chip twice, one bunch crossing for all chips of all lanes, inner-barrel lanes carrying the chip named like the lane, and the lane set "
            "is the barrel's: one inner group of 3 / 8 / 14) `check all its-stave` emits only ALPIDE statistics messages, no error. Proofs: silent-step lemmas per "
            "word kind over the packet-validator model (with the readout-frame validator's state in stave mode), induction over items, pages, heartbeat frames "
            "and the link, composed with the RDH invariants, the payload-cutting theorems of C12 and the frame theorems of C13. "
            "C01_membership_test_sound / C01_its_tier_checked / C01_stave_tier_checked: executable membership tests of the grammars (extracted; sound) are run "
            "on EVERY generated conforming link in every run: all are members (incl. all stave-level links of the three barrels), and rendering them gives the "
            "generated bytes back -- so the theorems apply to each stream on which binary, validator and whole-run model are then observed to be silent in "
            "all five modes with mute / -E options. NOT covered by the grammar: calibration data words.",
    "note": "Trusted: Coq kernel; gen translator; extraction + driver; harness; binary; our reading of the protocol documentation (Spec/Grammar.v, "
            "Spec/GrammarIts.v, Spec/GrammarStave.v, Spec/WordLayout.v, Spec/AlpideEnc.v). The model-to-code tie is the sampled correspondence (as for every property).",
    "technique": "Coq proof (producer grammars -> validator invariants by induction, all three tiers; sound executable membership tests run on every generated link) + five-mode silence of binary, validator and model on generated conforming streams",
    "design_ref": "DESIGN.md section 8, C01",
}

CLAIMED["C02"] = {
    "text": "Local detection theorems for EVERY validator state, header and word: C02_rdh_sanity_reported / C02_rdh_running_reported (a non-empty "
            "tag list -- characterised by the iff-theorems of C10 -- yields an [E10] / [E11] at the RDH's offset in every mode / in `check all`), "
            "C02_running_not_in_sanity (no [E11] under `check sanity`), C02_ihw/tdh/tdt/ddw0_rules (a word that breaks a rule of the word the state "
            "machine expects -- C11 iff -- is reported with that word's family at the word), C02_unrecognised_identifier ([E990..E992] in choice "
            "states), C02_padding_limit, the state-dependent rules of checks_list.md (C02_ddw0_page_rules, C02_ihw_stop_bit, C02_tdh_must_continue, "
            "C02_tdh_must_not_continue_after_ihw, C02_tdh_must_not_continue_after_complete_packet -- the last one type-checks only while the source "
            "performs the test, regenerated fact), C02_messages_never_retracted / C02_reported_in_run (a message emitted at packet p is in the "
            "validator's final output whatever follows), C02_exit. Tied to the code by a fault catalogue of 37 entries (one or more mutations per "
            "bullet of checks_list.md and per README family) applied at first / middle / last / any non-first packets of random links of generated "
            "conforming streams, through the rebuilt binary in all five modes (also with RDH-only streams with empty payloads and with a harmless "
            "custom-checks file): a message of the documented family must be at the offending offset with the -E status where the rule is active. "
            "Defect F15 (continuation bit after a complete packet not checked) was found by this check and repaired by a fix: commit.",
    "note": "Trusted: Coq kernel; gen translator; binary; the catalogue's reading of the documentation (families, mode table). The theorems are local "
            "(one step of the validator from an arbitrary state) plus monotonicity; the statement `for every conforming stream and position` "
            "quantifies over reachable states only, which the theorems cover a fortiori; that the prefix before the fault is silent is C01.",
    "technique": "Coq proof (one-step detection lemmas per rule family + monotonicity of the message list) + fault-catalogue sweep through the rebuilt binary",
    "design_ref": "DESIGN.md section 8, C02",
}

CLAIMED["C04"] = {
    "text": "PARTIAL (the sequential core): C04_no_panic_without_stave_target (for EVERY packet list and every mode other than `check all its-stave` the "
            "validator reaches no panic site: invariant `no readout-frame validator` through every word handler), C04_unreachable_hint_never_reached "
            "(for ANY byte sequence the ALPIDE decoder never takes the unreachable_unchecked branch: no byte decodes to the padding extension), "
            "C04_data_word_outside_frame_no_panic and C04_lane_without_chip_no_panic (type-check only while the source handles these cases: regenerated "
            "facts; they were the defects F5 and F8, found by this check and repaired by fix: commits), C04_site_invalid_layer (the one remaining "
            "stave-level site is reached exactly for FEE layer 7: recorded finding F6), C04_exit_range. Everything the model cannot exhibit -- "
            "termination of the scanner on arbitrary bytes, the unsafe reads, threads, wall-clock time -- is decided by running the shipped-profile "
            "binary on pure random bytes and structure-aware corruptions of conforming streams (12 corruption kinds, truncation) x all modes (five "
            "check modes, three views, filtered writing) x options x file / pipe: the process must end on its own within the limit, without panic / "
            "abort / signal, with exit status 0, 1 or the configured one; model and binary must agree on `hits a panic site`.",
    "note": "Partial proof, stated as such. A panic is attributed to the recorded finding F6 only by its site (words/its.rs `Invalid layer number`); any "
            "other crash, hang or exit status is a violation. Trusted: Coq kernel; gen translator; extraction + driver; binary; the generators.",
    "technique": "Coq proof (panic-site invariants of the validator model, decoder totality, regenerated handling facts) + robustness sweep of the shipped-profile binary",
    "design_ref": "DESIGN.md section 8, C04",
}

CLAIMED["C17"] = {
    "text": "PARTIAL (the protocol, not the runtime): theorems about a labelled transition system of the threads and channels of a run "
            "(Model/Protocol.v: main, reader, analysis + validators or writer, controller; bounded data and validator channels, unbounded "
            "statistics channels; the stop flag may be raised and stdout may go away at ANY step), instantiated with the structural facts "
            "re-read from the sources on every run (which loops poll the stop flag, that `process` drops its receiver clone on every non-writer "
            "arm, that the dispatcher clears its senders before joining, which write errors are handled rather than unwrapped, the channel "
            "capacities). For EVERY mode, input, interleaving, queue occupancy, number of validators and instant of the stop condition: "
            "C17_no_deadlock (some thread can move in every reachable non-final state, whichever validator the next CDP is routed to), "
            "C17_variant / C17_terminates (every step decreases an explicit variant: no livelock, executions are finite), "
            "C17_bounded_after_stop (once the flag is up the number of remaining steps is bounded by a quantity independent of the unread "
            "input: at most the batch being filled is still read), C17_fatal_raises_stop / C17_cap_raises_stop (a fatal message or cap-reaching "
            "errors in flight raise the flag by the time the controller has consumed them, for every interleaving), C17_stop_monotone, "
            "C17_all_joined (when main exits every worker has finished and every channel is empty and closed), C17_no_panic (a failing write to "
            "stdout is never unwrapped -- holds since the fix: commits d5169ec and 3c83aed, the defects F14a/F14b found by this check), "
            "C17_whole_packets_at_exit / C17_whole_packets_always (whatever number of batches the writer took before stopping and whatever the "
            "flush threshold, what reached the destination is the serialisation of a prefix of the packet sequence). The tie to the code: the "
            "regenerated facts; event traces of real runs (hook H2) replayed thread by thread through the extracted step function; scenario "
            "runs of the rebuilt binary (signal at a random instant, stdout closed after k bytes, error cap, fatal error, with schedule "
            "perturbation filling the queues, file and ENDLESS piped input) that must end within the limit, without panic/abort, all "
            "threads finished, the -o file made of whole packets, and no loop reading on after the stop.",
    "note": "Partial, stated as such: signal delivery, EPIPE, panics inside library code and wall-clock time are outside an executable Gallina "
            "model; they are observed by the scenario runs only (not proofs). The channel libraries (crossbeam, flume) are assumed FIFO with the "
            "documented disconnect semantics. A second stop signal (documented as ungraceful: std::process::exit) is out of scope. Trusted: Coq "
            "kernel; gen/facts_proto.py; extraction + driver; hook H2; the binary; OS timing of the scenario runs.",
    "technique": "Coq proof (invariant + variant over a protocol LTS parameterised by regenerated source facts) + thread-local trace replay through the extracted LTS + scenario runs of the rebuilt binary",
    "design_ref": "DESIGN.md section 8, C17",
}

ALL = ["C%02d" % i for i in range(1, 21)]
PENDING_REASON = "not claimed yet: the model/proof for this property is still under construction in this development (see DESIGN.md section 12 build order); no check is registered until its theorem file compiles without admits and its correspondence stream runs"


# additions of session 3 (appended to the level texts above)
EXTRA = {
    "C01": "ALSO PROVED, calibration runs -- C01_its_tier_calibration: the ITS tier for the CDW-extended grammar Spec/GrammarItsCdw.v (the data of a page optionally "
           "led by a calibration data word right behind the first TDH that announces data; user fields equal to those of the CDW before it on the link, or word index 0), "
           "proved on top of the ITS-tier lemmas by frame lemmas for the start-of-data flag and the remembered CDW that hold for EVERY state and word; its membership test "
           "(C01_calibration_membership_test_sound) is extracted and run on every generated calibration link. C01_stave_tier_calibration: the same for the stave tier "
           "(stave-conforming trigger packets + CDWs; a CDW is not lane data), with its own extracted membership test; C01_plain_grammar_is_contained.",
    "C02": "ALSO: C02_every_word_is_judged (no word crashes a validator -- C04 --, so the theorems for TDT rules and unrecognised identifiers carry no `unless it crashes` "
           "escape any more); C02_cdw_layout / C02_cdw_rule / C02_cdw_elsewhere_is_invalid_data (the CDW accessors read the documented fields; [E81] EXACTLY when the user "
           "fields change with a non-zero index against the remembered CDW; a 0xF8 word anywhere but at the start of a packet's data is an invalid data word [E70]); the "
           "catalogue has two CDW entries on calibration streams. IN-SYNC COMPOSITION (Proofs/C02_insync.v): C02_in_sync_position -- a link that conforms to the ITS grammar "
           "up to a data / TDT position of any page of any heartbeat frame (packets continued across pages included), ANY word there, ANY words behind it, ANY packets "
           "after it: the report of `check sanity|all its` opens with the messages for that word, judged in a data state at offset packet + 64 + index * slot; "
           "C02_in_sync_tdt_fault ([E50]) and C02_in_sync_unknown_identifier ([E991]) at that offset; C02_in_sync_example (non-vacuity on the C01 example link).",
    "C04": "ALSO (session 3): C04_fatal_lane_beyond_barrel_no_panic (defect F17, found while proving the next theorem, repaired by a fix: commit), "
           "C04_only_invalid_layer_site_reachable (EVERY mode incl. `check all its-stave`, every configuration, every packet list: a validator runs through or stops at "
           "Stave::from_feeid's site, and then a packet names layer 7 -- recorded finding F6), C04_whole_run_panics_only_for_layer_7 / C04_whole_run_outcomes (the same "
           "for the whole `check` run: scanner, dispatcher, all validators, collector), C04_frame_view_panics_only_for_layer_7 / C04_frame_view_outcomes / "
           "C04_known_finding_layer_7_witness (the two frame views), C04_scanner_terminates_on_every_input / C04_scanner_packet_bound (ARBITRARY bytes, every configuration: the reader loop "
           "ends within length/64 + 2 rounds and hands on at most length/64 packets); the panic prediction of the extracted run and view models is compared with the binary on every unfiltered "
           "run; a fixed corpus of the crash inputs of every recorded or repaired finding and of inputs longer than the reader's look-ahead runs first.",
    "C16": "ALSO (session 3): the modes that print no report (three views, filtered writing) are modelled as a whole run (Model/SystemView.v run_reportless): "
           "C16_reportless_exit (exit status N exactly when an error was counted or a fatal error is held at the end, 0 exactly when neither), "
           "C16_reportless_exit_without_option, C16_reportless_abort_only_for_layer_7; the extracted function predicts the exit status of every run of the "
           "report-less group of the contract stream and is compared with the binary; independently the exit status is judged against the statistics the run writes.",
    "C13": "ALSO: since defect F17 was repaired C13_frame_verdict and C13_lane_count_rule carry no hypothesis on the lane numbers of the fatal list; "
           "C13_fatal_lanes_form_a_set (over ANY sequence of frames the list holds exactly the lanes that announced, each once -- lane A, lane B, lane A again included; "
           "instantiated with the fact re-read from add_fatal_lanes, which now demands a guarded push or sort + dedup).",
    "C19": "ALSO: C19_rdh_lane_faults (the `lane faults` column of an RDH row shows the most severe of the detector field's status bits 3 fatal / 2 error / 1 warning / "
           "0 lane missing data, for EVERY detector-field value; masks regenerated from the view code).",
    "C12": "ALSO: the bad-identifier packets of the link stream carry a header-size byte different from 0x40 in a third of the cases (the word offsets must still start 64 bytes behind the RDH).",
    "C18": "ALSO: the cut-input stream through the binary also runs the two readout-frame views (judged on: ends normally, no panic).",
}
EXTRA["C13"] += (" The binary run of every stave stream is repeated with -m: error total, frame-level codes, staves with errors and the exit status under -E 9 must not change.")
EXTRA["C16"] += (" A statistics file recorded from the run and edited in its error section only (total_errors / unique_error_codes) must be answered with the configured exit status, with and without -m.")
EXTRA["C04"] += (" The corpus also holds a stave whose lanes carry a configured chip order plus / minus one chip, checked with chip orders configured without a chip count.")
for _k, _v in EXTRA.items():
    CLAIMED[_k]["text"] = CLAIMED[_k]["text"] + " " + _v


def main():
    checks = []
    for pid in ALL:
        if pid not in CLAIMED:
            continue
        c = CLAIMED[pid]
        checks.append({
            "property_id": pid,
            "quick_cmd": "./fv check %s --tier quick" % pid,
            "thorough_cmd": "./fv check %s --tier thorough" % pid,
            "evidence_file": "evidence/%s.json" % pid,
            "replay_cmd_template": "./fv replay {path}",
            "engine": "coq+correspondence",
            "level_claimed": {"category": "proof", "text": c["text"], "design_ref": c["design_ref"]},
            "level_note": c["note"],
            "technique": c["technique"],
        })
    man = {
        "version": 1,
        "setup_cmd": "./fv setup",
        "hooks": {
            "guard": "crambl_fastpasta_verif",
            "enable": "RUSTFLAGS=\"--cfg crambl_fastpasta_verif\" (set by ./fv for every cargo build of the harness crate, which compiles /repo's two library crates from the working tree)",
            "baseline_off_cmd": "cd /repo && cargo test --workspace --no-fail-fast --offline",
            "source_commits": HOOK_COMMITS,
            "add_only": True,
        },
        "engines": [
            {"name": "coq", "path": "coq/", "serves_properties": sorted(CLAIMED), "kind_free_text": "Coq 8.16.1 development: Gen (regenerated facts), Model, Spec, Proofs, Props"},
            {"name": "gen", "path": "gen/extract_facts.py", "serves_properties": sorted(CLAIMED), "kind_free_text": "source-fact translator, rerun on every check"},
            {"name": "fp_harness", "path": "harness/", "serves_properties": sorted(CLAIMED), "kind_free_text": "Rust crate linking /repo's libraries (path deps) for in-process correspondence; also builds a CLI twin of fastpasta's main"},
            {"name": "fpmodel", "path": "ocaml/driver.ml", "serves_properties": sorted(CLAIMED), "kind_free_text": "extracted Coq model + OCaml driver"},
        ],
        "checks": checks,
        "notes": "Technique family: machine-checked proof in Coq; see DESIGN.md. ./fv is the orchestrator (DESIGN.md calls it vp; renamed to avoid the sandbox's own vp command).",
        "not_applicable": [{"property_id": p, "reason": NOT_APPLICABLE.get(p, PENDING_REASON)} for p in ALL if p not in CLAIMED],
    }
    with open(os.path.join(VERIF, "MANIFEST.json"), "w") as f:
        json.dump(man, f, indent=1)
    print("MANIFEST.json: %d checks, %d not claimed" % (len(checks), len(man["not_applicable"])))


HOOK_COMMITS = ["f32fed4", "00af9e0", "ea3c868"]
FIX_COMMITS = ["2eb10e8", "024b878", "afd2aa3", "f731241", "add603d", "adf846c", "02e4e23", "df2db44", "fe06634", "1cace01", "d5169ec", "3c83aed"]
NOT_APPLICABLE = {}

if __name__ == "__main__":
    main()
