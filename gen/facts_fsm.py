"""G2: facts of the ITS payload FSM (its_payload_fsm_cont.rs, its/lib.rs)."""
import re

DEFAULT_PAT = [0x20, 0x28, 0x40, 0x46, 0x48, 0x4E, 0x50, 0x56, 0x58, 0x5E]
DATA_STATES = ["DATA_By_WasData", "DATA_By_NoDataFalse", "c_DATA_By_WasData", "c_DATA_By_Next"]


def data_pattern(text, X):
    """first arm pattern of the form a..=b | c..=d | ... in `text` -> flat list"""
    m = re.search(r"((?:" + X.INT_RE + r"\s*\.\.=\s*" + X.INT_RE + r"\s*\|?\s*)+)=>", text)
    if not m:
        return None
    nums = re.findall(X.INT_RE, m.group(1))
    try:
        return [X.parse_int(n) for n in nums]
    except ValueError:
        return None


def g2(F, X):
    src = X.strip_comments(X.read(X.FP + "/analyze/validators/its/its_payload_fsm_cont.rs"))
    adv = X.fn_body(src, "advance") or ""
    for st in DATA_STATES:
        m = re.search(r"state::" + re.escape(st) + r"\s*\(\s*stm\s*\)\s*=>\s*match\s+gbt_word\s*\[\s*9\s*\]\s*\{", adv)
        pat = None
        if m:
            # text of this arm up to the next `state::` arm
            rest = adv[m.end():]
            n = re.search(r"\bstate::[A-Za-z_0-9]+\s*\(\s*stm\s*\)\s*=>", rest)
            arm = rest[: n.start()] if n else rest
            pat = data_pattern(arm, X)
        F.add("fsm_data_pat_" + st.lower(), "list N", pat, DEFAULT_PAT,
              "its_payload_fsm_cont.rs advance arm " + st + " data-id pattern")
    lib = X.strip_comments(X.read(X.FP + "/analyze/validators/its/lib.rs"))
    body = X.fn_body(lib, "from_id")
    F.add("from_id_data_pat", "list N", data_pattern(body, X) if body else None, DEFAULT_PAT,
          "its/lib.rs ItsPayloadWord::from_id data-id pattern")
    # the sm! transition table: event -> list of (from, to)
    smb = X.block_after(src, r"\bsm!\s*\{")
    names = ["IHW_", "TDH_", "DATA_", "DDW0_", "DDW0_or_TDH_", "DDW0_or_TDH_or_IHW_", "c_IHW_", "c_TDH_", "c_DATA_"]
    events = ["_Next", "_NoDataTrue", "_NoDataFalse", "_WasDdw0", "_WasData", "_WasTDTpacketDoneFalse",
              "_WasTDTpacketDoneTrue", "_WasIhw"]
    default = [[6, 7], [7, 8], [1, 5], [4, 5], [5, 5], [1, 2], [4, 2], [5, 2], [3, 0], [4, 0], [5, 0],
               [2, 2], [8, 8], [2, 6], [8, 6], [2, 5], [8, 5], [0, 1], [5, 1]]
    table = None
    if smb:
        table = []
        ok = True
        for ei, ev in enumerate(events):
            blk = X.block_after(smb, r"\b" + re.escape(ev) + r"\s*\{")
            if blk is None:
                ok = False
                break
            for a, b in re.findall(r"([A-Za-z_0-9]+)\s*=>\s*([A-Za-z_0-9]+)", blk):
                if a not in names or b not in names:
                    ok = False
                    break
                table.append([names.index(a), names.index(b)])
        if not ok:
            table = None
    F.add("sm_transitions", "list (list N)", table, default, "its_payload_fsm_cont.rs sm! block (from,to) pairs in event order")


def register(X, EXTRA):
    EXTRA.append(lambda F: g2(F, X))
