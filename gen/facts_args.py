"""G9: the shape of Config::validate_args (fastpasta/src/config/lib.rs) -- the start-up validation of the option combination (C16).
The fact is `true` when the function consists of exactly the tests Model/Args.v models, in the modelled order; any other shape makes it
`false` and the obligation C16_args_source_shape stops type-checking."""
import re


def g_args(F, X):
    src = X.strip_comments(X.read(X.FP + "/config/lib.rs"))
    body = X.fn_body(src, "validate_args")
    v = None
    if body:
        b = re.sub(r"\s+", " ", body)
        pats = [
            r"matches!\( ?check, CheckCommands::Sanity\(_\) ?\) && target == System::ITS_Stave",
            r"!matches!\( ?target, System::ITS_Stave ?\) && self\.check_its_trigger_period\(\)\.is_some\(\)",
            r"self\.any_errors_exit_code\(\)\.is_some_and\( ?\|val\| val == 0 ?\)",
            r"!path_str\.is_file\(\)",
            r"path_str\.extension\(\)\.is_none\(\)",
            r"path_str\.extension\(\)\.unwrap\(\) != \"json\" && path_str\.extension\(\)\.unwrap\(\) != \"toml\"",
        ]
        pos = []
        for p in pats:
            m = re.search(p, b)
            pos.append(m.start() if m else -1)
        v = all(x >= 0 for x in pos) and pos == sorted(pos) \
            and b.count("check_its_trigger_period().is_some()") == 3 and b.count("return Err(") == 8 \
            and "ends_with" not in b and "contains(" not in b and "starts_with" not in b and b.rstrip().endswith("Ok(())") \
            and b.count("if ") == 11
    F.add("args_validation_as_modelled", "bool", v, True,
          "config/lib.rs validate_args: sanity+its-stave, trigger period outside `check all its-stave` (3 sites), exit code 0, "
          "input stats file missing / without extension / extension other than json, toml (compared with Path::extension) -- 8 rejections, in this order")

    # the option combination is validated BEFORE anything with a side effect runs: init_config parses, validates (returning the rejection
    # with `?`), and only then handles the custom checks (which may WRITE custom_checks.toml) and publishes the configuration (seed C16-J)
    csrc = X.strip_comments(X.read(X.FP + "/config.rs"))
    cb = X.fn_body(csrc, "init_config")
    w = None
    if cb:
        c = re.sub(r"\s+", " ", cb)
        i1, i2, i3 = c.find("cfg.validate_args()?;"), c.find("cfg.handle_custom_checks()"), c.find("CONFIG.set(cfg)")
        w = 0 <= i1 < i2 < i3 and c.count("validate_args") == 1 and c.count("handle_custom_checks") == 1
    F.add("args_validated_before_side_effects", "bool", w, True,
          "config.rs init_config: parse; validate_args()?; handle_custom_checks(); CONFIG.set -- in this order")


def register(X, EXTRA):
    EXTRA.append(lambda F: g_args(F, X))
