"""G3: the statistics structs and their comparison (C15).

For every statistics struct S the translator re-reads, from the current sources,
  * the declared fields, in order                                     -> <S>_nfields, names in facts.json
  * the fields serde would skip (#[serde(skip...)])                    -> <S>_serde_skipped
  * the argument list of the `validate_fields!(S, ...)` invocation     -> <S>_macro   (field indices)
  * the struct literal that `validate_other` rebuilds from `other`     -> <S>_recon   (field index, source field index or 255 = default value)
  * the sub-structs whose own `validate_other` is called               -> <S>_deleg   (self field index, other field index)
and, for the macro itself, whether it compares `self.$field != other.$field` and pushes a message (validate_macro_compares_all).
Nothing here decides the property: the Coq side computes `desc_ok` from these lists and the theorems are stated under that computation.
"""
import re

DEFAULT = 255

STRUCTS = [
    # coq name, rust name, file (relative to fastpasta/src/stats)
    ("sc", "StatsCollector", "stats_collector.rs", "validate_other_stats"),
    ("rdh", "RdhStats", "stats_collector/rdh_stats.rs", "validate_other"),
    ("err", "ErrorStats", "stats_collector/error_stats.rs", "validate_other"),
    ("trg", "TriggerStats", "stats_collector/trigger_stats.rs", "validate_other"),
    ("its", "ItsStats", "stats_collector/its_stats.rs", "validate_other"),
    ("alp", "AlpideStats", "stats_collector/its_stats/alpide_stats.rs", "validate_other"),
    ("rof", "ReadoutFlags", "stats_collector/its_stats/alpide_stats.rs", "validate_other"),
]

SUBS = {"sc": ["is_finalized", "rdh_stats", "error_stats", "alpide_stats"], "rdh": ["its_stats", "trigger_stats"], "alp": ["readout_flags"]}

SNAP = {
    "sc": dict(fields=["is_finalized", "rdh_stats", "error_stats", "alpide_stats"], skipped=[], macro=[], recon=[], deleg=[(1, 1), (2, 2), (3, 3)]),
    "rdh": dict(fields=["rdhs_seen", "rdhs_filtered", "rdh_version", "hbfs_seen", "payload_size", "data_format", "links", "fee_id", "system_id",
                        "run_trigger_type", "its_stats", "trigger_stats"], skipped=[],
                macro=list(range(10)), recon=[(i, i) for i in range(10)] + [(10, DEFAULT), (11, DEFAULT)], deleg=[(10, 10), (11, 11)]),
    "err": dict(fields=["fatal_error", "reported_errors", "custom_checks_stats_errors", "total_errors", "unique_error_codes", "staves_with_errors"],
                skipped=[], macro=list(range(6)), recon=[(i, i) for i in range(6)], deleg=[]),
    "trg": dict(fields=["orbit", "hb", "hbr", "hc", "pht", "pp", "cal", "sot", "eot", "soc", "eoc", "tf", "fe_rst", "rt", "rs", "lhc_gap1",
                        "lhc_gap2", "tpc_sync", "tpc_rst", "tof"], skipped=[], macro=list(range(20)), recon=[(i, i) for i in range(20)], deleg=[]),
    "its": dict(fields=["layer_staves_seen"], skipped=[], macro=[0], recon=[(0, 0)], deleg=[]),
    "alp": dict(fields=["readout_flags"], skipped=[], macro=[], recon=[], deleg=[(0, 0)]),
    "rof": dict(fields=["chip_trailers_seen", "busy_violations", "data_overrun", "transmission_in_fatal", "flushed_incomplete", "strobe_extended",
                        "busy_transitions"], skipped=[], macro=[0, 1, 4, 5, 6, 2, 3], recon=[(i, i) for i in [0, 1, 4, 5, 6, 2, 3]], deleg=[]),
}


def split_top(text):
    """split at commas that are not nested in () <> [] {}"""
    out, depth, cur = [], 0, ""
    for ch in text:
        if ch in "(<[{":
            depth += 1
        elif ch in ")>]}":
            depth -= 1
        if ch == "," and depth == 0:
            out.append(cur)
            cur = ""
        else:
            cur += ch
    if cur.strip():
        out.append(cur)
    return [x.strip() for x in out if x.strip()]


def brace_block(src, start):
    """src[start] is just after an opening brace; returns the text up to its closing brace"""
    depth, i = 1, start
    while i < len(src) and depth:
        if src[i] == "{":
            depth += 1
        elif src[i] == "}":
            depth -= 1
        i += 1
    return src[start:i - 1]


def struct_fields(src, name):
    m = re.search(r"\bstruct\s+" + name + r"\s*\{", src)
    if not m:
        return None, None
    body = brace_block(src, m.end())
    fields, skipped = [], []
    for item in split_top(body):
        attrs = re.findall(r"#\[([^\]]*)\]", item)
        item2 = re.sub(r"#\[[^\]]*\]", "", item).strip()
        fm = re.match(r"(?:pub(?:\([^)]*\))?\s+)?([A-Za-z_][A-Za-z0-9_]*)\s*:", item2)
        if not fm:
            return None, None
        fields.append(fm.group(1))
        if any("serde" in a and ("skip" in a or "default" in a or "rename" in a or "flatten" in a) for a in attrs):
            skipped.append(len(fields) - 1)
    # struct-level serde attributes that change the shape of the file are reported as "everything skipped"
    pre = src[max(0, m.start() - 400):m.start()]
    last_attrs = re.findall(r"#\[([^\]]*)\]", pre.split("}")[-1])
    derives = " ".join(last_attrs)
    if "Serialize" not in derives or "Deserialize" not in derives:
        skipped = list(range(len(fields)))
    return fields, skipped


def impl_block(src, name):
    out = []
    for m in re.finditer(r"\bimpl\s+" + name + r"\s*\{", src):
        out.append(brace_block(src, m.end()))
    return "\n".join(out)


def accessor_field(impl, acc):
    """field returned by `fn acc(&self) -> .. { self.f }` / `&self.f` / `self.f.as_ref()` ..."""
    m = re.search(r"\bfn\s+" + acc + r"\s*\(\s*&self\s*\)[^{]*\{", impl)
    if not m:
        return None
    body = brace_block(impl, m.end()).strip()
    fm = re.fullmatch(r"&?\s*self\s*\.\s*([A-Za-z_][A-Za-z0-9_]*)\s*(?:\.\s*(?:as_ref|clone|as_deref)\s*\(\s*\))?", body)
    return fm.group(1) if fm else None


def source_of(expr, impl, var="other"):
    e = expr.strip()
    if re.fullmatch(r"[A-Za-z_][A-Za-z0-9_:<>]*::default\s*\(\s*\)", e) or e == "Default::default()":
        return DEFAULT
    m = re.fullmatch(r"&?\s*" + var + r"\s*\.\s*([A-Za-z_][A-Za-z0-9_]*)\s*(\(\s*\))?\s*(?:\.\s*clone\s*\(\s*\))?", e)
    if not m:
        return None
    if m.group(2):
        return accessor_field(impl, m.group(1))
    return m.group(1)


def analyse(X, coq, rust, rel, vfn):
    src = X.strip_comments(X.read(X.FP + "/stats/" + rel))
    fields, skipped = struct_fields(src, rust)
    if fields is None:
        return None
    idx = {f: i for i, f in enumerate(fields)}
    impl = impl_block(src, rust)
    # macro invocation (comments are stripped, so a commented-out invocation is absent)
    macro = []
    mm = re.search(r"validate_fields!\s*\(\s*" + rust + r"\s*((?:,\s*[A-Za-z_][A-Za-z0-9_]*\s*)*),?\s*\)", impl)
    if mm:
        names = [x.strip() for x in mm.group(1).split(",") if x.strip()]
        if any(n not in idx for n in names):
            return None
        macro = [idx[n] for n in names]
    body = X.fn_body(impl, vfn)
    if body is None:
        return None
    # the reconstructed struct handed to validate_fields
    recon = []
    vm = re.search(r"self\s*\.\s*validate_fields\s*\(\s*&\s*([A-Za-z_][A-Za-z0-9_]*)\s*\)", body)
    if macro and not vm:
        return None
    if vm:
        var = vm.group(1)
        lm = re.search(r"let\s+" + var + r"\s*=\s*(?:Self|" + rust + r")\s*\{", body)
        if lm:
            lit = brace_block(body, lm.end())
            # which variable do the initialisers read from: the function's parameter
            pm = re.search(r"\bfn\s+" + vfn + r"\s*\(\s*&self\s*,\s*([A-Za-z_][A-Za-z0-9_]*)\s*:", impl)
            pvar = pm.group(1) if pm else "other"
            for item in split_top(lit):
                im = re.match(r"([A-Za-z_][A-Za-z0-9_]*)\s*:\s*(.*)$", item, flags=re.S)
                if not im or im.group(1) not in idx:
                    return None
                s = source_of(im.group(2), impl, pvar)
                if s is None:
                    return None
                if s != DEFAULT:
                    if s not in idx:
                        return None
                    s = idx[s]
                recon.append((idx[im.group(1)], s))
        else:
            # validate_fields(&other) on the parameter itself: identity
            recon = [(i, i) for i in range(len(fields))]
    # delegated sub-structs
    deleg = []
    for dm in re.finditer(r"self\s*\.\s*([A-Za-z_][A-Za-z0-9_]*)\s*(\(\s*\))?\s*\.\s*validate_other\s*\(\s*&?\s*([A-Za-z_][A-Za-z0-9_]*)\s*\.\s*([A-Za-z_][A-Za-z0-9_]*)\s*(\(\s*\))?\s*\)", body):
        a = accessor_field(impl, dm.group(1)) if dm.group(2) else dm.group(1)
        b = accessor_field(impl, dm.group(4)) if dm.group(5) else dm.group(4)
        if a not in idx or b not in idx:
            return None
        deleg.append((idx[a], idx[b]))
    return dict(fields=fields, skipped=skipped, macro=macro, recon=recon, deleg=deleg)


def g_stats(F, X):
    names = {}
    for coq, rust, rel, vfn in STRUCTS:
        snap = SNAP[coq]
        got = analyse(X, coq, rust, rel, vfn)
        if coq == "sc" and got is not None:
            # the optional ALPIDE part is compared through `if let Some(..) = self.alpide_stats() { if let Some(..) = other.alpide_stats() {
            #   alpide_stats.validate_other(other_alpide_stats) } else { errs.push(..) } }`
            src = X.strip_comments(X.read(X.FP + "/stats/" + rel))
            body = X.fn_body(impl_block(src, rust), vfn) or ""
            am = re.search(r"if\s+let\s+Some\s*\(\s*(\w+)\s*\)\s*=\s*self\s*\.\s*alpide_stats\s*\(\s*\)\s*\{\s*if\s+let\s+Some\s*\(\s*(\w+)\s*\)\s*=\s*other\s*\.\s*alpide_stats\s*\(\s*\)\s*\{"
                           r"\s*if\s+let\s+Err\s*\(\s*mut\s+\w+\s*\)\s*=\s*(\w+)\s*\.\s*validate_other\s*\(\s*(\w+)\s*\)", body)
            idx = {f: i for i, f in enumerate(got["fields"])}
            if am and am.group(3) == am.group(1) and am.group(4) == am.group(2) and "alpide_stats" in idx and \
                    re.search(r"\}\s*else\s*\{\s*errs\s*\.\s*push\s*\(", body):
                got["deleg"].append((idx["alpide_stats"], idx["alpide_stats"]))
        g = got if got is not None else None
        F.add(coq + "_nfields", "N", len(g["fields"]) if g else None, len(snap["fields"]), "stats/%s struct %s: number of fields" % (rel, rust))
        F.add(coq + "_serde_skipped", "list N", g["skipped"] if g else None, snap["skipped"], "stats/%s struct %s: fields with serde attributes that change the file" % (rel, rust))
        F.add(coq + "_macro", "list N", g["macro"] if g else None, snap["macro"], "stats/%s validate_fields!(%s, ..) argument list (field indices)" % (rel, rust))
        F.add(coq + "_recon", "list (N * N)", g["recon"] if g else None, snap["recon"], "stats/%s %s::%s: struct rebuilt from `other` (field, source field or 255 = default)" % (rel, rust, vfn))
        F.add(coq + "_deleg", "list (N * N)", g["deleg"] if g else None, snap["deleg"], "stats/%s %s::%s: sub-structs compared by their own validate_other (self field, other field)" % (rel, rust, vfn))
        names[coq] = (g or snap)["fields"]
        for sub in SUBS.get(coq, []):
            fl = (g or snap)["fields"]
            F.add("%s_idx_%s" % (coq, sub), "N", fl.index(sub) if (g and sub in fl) else None, snap["fields"].index(sub),
                  "stats/%s struct %s: position of the field %s" % (rel, rust, sub))
    F.prov["_stats_field_names"] = {"status": "source", "where": "field names per statistics struct (for messages)", "value": names}
    lib = X.strip_comments(X.read(X.FP + "/stats/lib.rs"))
    val = None
    mm = re.search(r"macro_rules!\s*validate_fields\s*\{", lib)
    if mm:
        mb = brace_block(lib, mm.end())
        val = bool(re.search(r"\$\(\s*if\s+self\s*\.\s*\$field\s*!=\s*other\s*\.\s*\$field\s*\{\s*errs\s*\.\s*push\s*\(", mb)) and \
            bool(re.search(r"if\s+errs\s*\.\s*is_empty\s*\(\s*\)\s*\{\s*Ok\s*\(\s*\(\s*\)\s*\)\s*\}\s*else\s*\{\s*Err\s*\(\s*errs\s*\)", mb))
    F.add("validate_macro_compares_all", "bool", val, True, "stats/lib.rs validate_fields!: one `self.f != other.f` test and message per listed field, Err iff any")
    ct = X.strip_comments(X.read(X.FP + "/controller.rs"))
    body = X.fn_body(ct, "run")
    val = None
    if body:
        m = re.search(r"validate_other_stats\s*\([^{;]*?\)\s*\.\s*is_err\s*\(\s*\)\s*\{\s*self\s*\.\s*any_errors_flag\s*\.\s*store\s*\(\s*true", body, flags=re.S)
        m2 = re.search(r"validate_other_stats", body)
        if m2:
            val = bool(m)
    F.add("stats_mismatch_sets_flag", "bool", val, True, "controller.rs run: a failed comparison with the input statistics file sets the any-errors flag")
    val = None
    if body:
        i_fin = body.find("stats_collector.finalize(")
        i_wr = body.find("write_stats(")
        i_val = body.find("validate_other_stats(")
        if i_wr >= 0 and i_val >= 0:
            # ... and the finalize call is UNCONDITIONAL (brace depth 0 of the function body): report skipped or not, view or check or
            # `-o stdout`, the statistics are sorted and completed before they are written or compared (seed C05-K guarded it by view())
            val = 0 <= i_fin < i_wr < i_val and body[:i_fin].count("{") == body[:i_fin].count("}")
    F.add("stats_finalized_before_write_and_compare", "bool", val, True,
          "controller.rs run: an unconditional finalize precedes write_stats precedes validate_other_stats")
    sc = X.strip_comments(X.read(X.FP + "/stats/stats_collector.rs"))
    wb = X.fn_body(sc, "write_stats_str")
    val = None
    if wb:
        val = bool(re.search(r"fs::write\s*\(\s*path\s*,\s*stats_str\s*\)", wb))
    F.add("stats_file_replaced_on_write", "bool", val, True, "stats_collector.rs write_stats_str: the file is written with fs::write (create + truncate)")


def register(X, EXTRA):
    EXTRA.append(lambda F: g_stats(F, X))
