"""G8: the leading offset of every error message is printed in UPPER-case hexadecimal with the 0x prefix (`{..mem_pos..:#X}`), which is what
ErrorStats::sort_error_msgs_by_mem_pos parses back (`^0x(?<mem_pos>[0-9A-F]+)`, panicking on a message it cannot parse) and what the
model abstracts as the numeric field m_off.  The fact is `true` when every format placeholder that names a memory position in the message
producing sources (analyze/validators/**, the reader crate) has exactly the spec `:#X`, there are at least ten of them, and the parsing regex is the expected one (seed C04-J: one
message printed with `:#x` aborts the statistics thread when its offset starts with a letter digit)."""
import os
import re


def g_msg(F, X):
    files = []
    for base in (X.FP + "/analyze/validators", "alice_protocol_reader/src"):
        for root, _d, fs in os.walk(os.path.join(X.REPO, base)):
            for fn in fs:
                if fn.endswith(".rs"):
                    files.append(os.path.relpath(os.path.join(root, fn), X.REPO))
    n = 0
    ok = True
    for rel in sorted(files):
        src = X.strip_comments(X.read(rel))
        # code under #[cfg(test)] is not part of the binary
        cut = src.find("#[cfg(test)]")
        if cut >= 0:
            src = src[:cut]
        for m in re.finditer(r"\{(\w*(?:mem_pos|memory_address)\w*)(:[^}]*)?\}", src):
            n += 1
            if (m.group(2) or "") != ":#X":
                ok = False
    es = X.strip_comments(X.read(X.FP + "/stats/stats_collector/error_stats.rs"))
    body = X.fn_body(es, "sort_error_msgs_by_mem_pos") or ""
    rx = 'Regex::new(r"^0x(?<mem_pos>[0-9A-F]+)")' in body and "from_str_radix(&addr[\"mem_pos\"], 16)" in body
    v = bool(ok and n >= 10 and rx) if files else None
    F.add("error_offsets_upper_hex", "bool", v, True,
          "every `{..mem_pos..}` / `{..memory_address..}` placeholder of fastpasta/src/analyze/validators/** and alice_protocol_reader/src/** has the spec "
          ":#X (>= 10 sites), and sort_error_msgs_by_mem_pos parses ^0x[0-9A-F]+ in radix 16")


def register(X, EXTRA):
    EXTRA.append(lambda F: g_msg(F, X))
