"""Constants and structural facts of the views (C19): analyze/view/lib.rs, analyze/view/its_readout_frame*.rs,
words/its/status_words/util.rs, alice_protocol_reader rdh3.rs det_field_util."""
import re


def const_u(X, src, name):
    m = re.search(r"\bconst\s+" + name + r"\s*:\s*u(?:8|16|32|64)\s*=\s*(" + X.INT_RE + r")\s*;", src)
    return X.parse_int(m.group(1)) if m else None


def mask_in_fn(X, src, fn, pat):
    body = X.fn_body(src, fn)
    if not body:
        return None
    m = re.search(pat, body)
    return [X.parse_int(g) for g in m.groups()] if m else None


def g_view(F, X):
    lib = X.strip_comments(X.read(X.FP + "/analyze/view/lib.rs"))
    for name, dflt in (("PHT_BIT_MASK", 16), ("SOC_BIT_MASK", 512), ("SOT_BIT_MASK", 128), ("HB_BIT_MASK", 2)):
        F.add("view_" + name.lower(), "N", const_u(X, lib, name), dflt, "analyze/view/lib.rs const " + name)
    body = X.fn_body(lib, "trigger_type_string_from_int")
    order = None
    if body:
        found = re.findall(r"trigger_type\s*&\s*([A-Z_]+)\s*!=\s*0", body)
        names = {"SOC_BIT_MASK": 0, "SOT_BIT_MASK": 1, "HB_BIT_MASK": 2, "PHT_BIT_MASK": 3}
        if found and all(f in names for f in found):
            order = [names[f] for f in found]
    F.add("view_trigger_priority", "list N", order, [0, 1, 2, 3], "analyze/view/lib.rs trigger_type_string_from_int: order of the tests (0 SOC, 1 SOT, 2 HB, 3 PhT)")
    pos = X.fn_body(lib, "calc_current_word_mem_pos")
    pad = None
    hdr = None
    if pos:
        m = re.search(r"if\s+data_format\s*==\s*0\s*\{\s*(" + X.INT_RE + r")\s*\}\s*else\s*\{\s*(" + X.INT_RE + r")\s*\}", pos)
        m2 = re.search(r"let\s+gbt_word_memory_size_bytes\s*:\s*u64\s*=\s*(" + X.INT_RE + r")\s*\+\s*gbt_word_padding", pos)
        m3 = re.search(r"relative_mem_pos\s*\+\s*rdh_mem_pos\s*\+\s*(" + X.INT_RE + r")", pos)
        if m and m2 and m3 and X.parse_int(m.group(2)) == 0 and X.parse_int(m2.group(1)) == 10:
            pad = X.parse_int(m.group(1))
            hdr = X.parse_int(m3.group(1))
    F.add("view_word_padding_fmt0", "N", pad, 6, "analyze/view/lib.rs calc_current_word_mem_pos: padding per word when data_format == 0 (else 0), word size 10")
    F.add("view_payload_start", "N", hdr, 64, "analyze/view/lib.rs calc_current_word_mem_pos: payload starts this many bytes after the RDH offset")
    # which data format the offsets of a packet's words are computed with
    own = None
    for rel in ("its_readout_frame/its_readout_frame_view.rs", "its_readout_frame/its_readout_frame_data_view.rs"):
        src = X.strip_comments(X.read(X.FP + "/analyze/view/" + rel))
        m = re.search(r"mem_pos_calc_to_string\s*\(\s*idx\s*,\s*([^,]+?)\s*,", src)
        ok = bool(m) and re.fullmatch(r"rdh\s*\.\s*data_format\s*\(\s*\)", m.group(1)) is not None and \
            bool(re.search(r"for\s*\(\s*rdh\s*,\s*payload\s*,\s*rdh_mem_pos\s*\)\s*in\s+cdp_array", src))
        own = ok if own is None else (own and ok)
    F.add("view_word_offsets_use_own_rdh_format", "bool", own, True, "its_readout_frame*_view.rs: word offsets are computed with the data format of the word's own RDH")
    util = X.strip_comments(X.read(X.FP + "/words/its/status_words/util.rs"))
    F.add("view_tdh_soc", "list N", mask_in_fn(X, util, "tdh_soc_trigger", r"const\s+SOC_BIT_MASK\s*:\s*u8\s*=\s*(" + X.INT_RE + r")\s*;\s*tdh_slice\s*\[\s*(\d+)\s*\]\s*&\s*SOC_BIT_MASK\s*!=\s*0"),
          [2, 1], "util.rs tdh_soc_trigger: mask, byte index")
    F.add("view_tdh_internal", "list N", mask_in_fn(X, util, "tdh_internal_trigger", r"tdh_slice\s*\[\s*(\d+)\s*\]\s*&\s*(" + X.INT_RE + r")\s*!=\s*0"),
          [1, 16], "util.rs tdh_internal_trigger: byte index, mask")
    F.add("view_tdh_physics", "list N", mask_in_fn(X, util, "tdh_physics_trigger", r"tdh_slice\s*\[\s*(\d+)\s*\]\s*&\s*(" + X.INT_RE + r")\s*!=\s*0"),
          [0, 16], "util.rs tdh_physics_trigger: byte index, mask")
    lanes = None
    w = mask_in_fn(X, util, "ddw0_tdt_lane_status_any_warning", r"const\s+LANE_WARNING_MASK\s*:\s*u8\s*=\s*(" + X.INT_RE + r")\s*;\s*let\s+\w+\s*=\s*&\s*ddw0_slice\s*\[\s*\.\.\s*(\d+)\s*\]")
    e = mask_in_fn(X, util, "ddw0_tdt_lane_status_any_error", r"const\s+LANE_ERROR_MASK\s*:\s*u8\s*=\s*(" + X.INT_RE + r")\s*;\s*let\s+\w+\s*=\s*&\s*ddw0_slice\s*\[\s*\.\.\s*(\d+)\s*\]")
    fb = X.fn_body(util, "ddw0_tdt_lane_status_any_fatal")
    f = None
    if fb:
        ms = re.findall(r"const\s+LANE_FATAL_MASK\d\s*:\s*u8\s*=\s*(" + X.INT_RE + r")\s*;", fb)
        n = re.search(r"&\s*ddw0_slice\s*\[\s*\.\.\s*(\d+)\s*\]", fb)
        if len(ms) == 4 and n and len(re.findall(r"\*byte\s*&\s*LANE_FATAL_MASK\d\s*==\s*LANE_FATAL_MASK\d", fb)) == 4:
            f = [X.parse_int(x) for x in ms] + [int(n.group(1))]
    if w and e and f:
        lanes = [w[0], w[1], e[0], e[1]] + f
    F.add("view_lane_status_masks", "list N", lanes, [85, 7, 170, 7, 3, 12, 48, 192, 7],
          "util.rs lane status: warning mask, bytes; error mask, bytes; the four fatal masks, bytes")
    r3 = X.strip_comments(X.read(X.AR + "/rdh/rdh3.rs"))
    det = []
    for fn in ("lane_fatal", "lane_error", "lane_warning", "lane_missing_data"):
        m = mask_in_fn(X, r3, fn, r"det_field\s*&\s*(" + X.INT_RE + r")\s*!=\s*0")
        det.append(m[0] if m else None)
    F.add("view_det_field_masks", "list N", det if all(x is not None for x in det) else None, [8, 4, 2, 1],
          "rdh3.rs det_field_util: lane_fatal, lane_error, lane_warning, lane_missing_data masks")


def register(X, EXTRA):
    EXTRA.append(lambda F: g_view(F, X))
