"""G1/G4: how TriggerStats::collect_stats counts the trigger-type bits (C14): one independent `self.<counter> += (trigger & <mask> != 0) as u32;`
per counter.  The fact is the list of masks in the order of the statements; when any counter is fed another way (a match over several
bits, an else-if cascade) its statement is not of this shape and the list comes out shorter -- the obligation C14_trigger_bits_as_modelled
(the list = 2^i for the model's 20 bits, in order) stops type-checking."""
import re


def g_trig(F, X):
    src = X.strip_comments(X.read(X.FP + "/stats/stats_collector/trigger_stats.rs"))
    body = X.fn_body(src, "collect_stats")
    v = None
    if body:
        stmts = [x.strip() for x in body.split(";") if x.strip()]
        masks = []
        ok = True
        for st in stmts:
            m = re.fullmatch(r"self\s*\.\s*(\w+)\s*\+=\s*\(\s*trigger\s*&\s*(" + X.INT_RE + r")\s*!=\s*0\s*\)\s*as\s+u32", st)
            if m:
                masks.append(X.parse_int(m.group(2)))
            else:
                ok = False
        v = masks if ok else masks[:0] + [x for x in masks]   # statements of another shape simply do not contribute
    F.add("trigger_stat_masks", "list N", v,
          [1 << i for i in list(range(15)) + [27, 28, 29, 30, 31]],
          "trigger_stats.rs collect_stats: the masks of the statements `self.<counter> += (trigger & <mask> != 0) as u32;`, in order")


def register(X, EXTRA):
    EXTRA.append(lambda F: g_trig(F, X))
