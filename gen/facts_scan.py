"""G9: structural facts of the input scanner (input_scanner.rs)."""
import re


def g(F, X):
    sc = X.strip_comments(X.read(X.AR + "/input_scanner.rs"))
    body = X.fn_body(sc, "load_cdp")
    val = None
    if body:
        load = re.search(r"self\s*\.\s*load_rdh_cru\s*\(", body)
        # the variable returned as the third component of the CDP tuple
        ret = re.search(r"Ok\s*\(\s*\(\s*rdh\s*,\s*payload\s*,\s*([A-Za-z_][A-Za-z0-9_]*)\s*\)\s*\)", body)
        if load and ret:
            var = ret.group(1)
            let = re.search(r"let\s+" + re.escape(var) + r"\s*=\s*self\s*\.\s*(?:tracker\s*\.\s*current_mem_address|current_mem_pos)\s*\(\s*\)", body)
            if let:
                val = let.start() > load.start()
    F.add("cdp_offset_sampled_after", "bool", val, True,
          "input_scanner.rs load_cdp: is the packet offset sampled after load_rdh_cru has positioned the tracker on the returned RDH")


def register(X, EXTRA):
    EXTRA.append(lambda F: g(F, X))
