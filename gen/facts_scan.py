"""G9: structural facts of the input scanner (input_scanner.rs)."""
import re


def g(F, X):
    sc = X.strip_comments(X.read(X.AR + "/input_scanner.rs"))
    body = X.fn_body(sc, "load_cdp")
    val = None
    if body:
        load = re.search(r"self\s*\.\s*load_rdh_cru\s*\(", body)
        # the variable returned as the third component of the CDP tuple
        ret = re.search(r"Ok\s*\(\s*\(\s*rdh\s*,\s*payload\s*,\s*([A-Za-z_][A-Za-z0-9_]*)\s*\)\s*\)", body)
        if load and ret:
            var = ret.group(1)
            let = re.search(r"let\s+" + re.escape(var) + r"\s*=\s*self\s*\.\s*(?:tracker\s*\.\s*current_mem_address|current_mem_pos)\s*\(\s*\)", body)
            if let:
                val = let.start() > load.start()
    F.add("cdp_offset_sampled_after", "bool", val, True,
          "input_scanner.rs load_cdp: is the packet offset sampled after load_rdh_cru has positioned the tracker on the returned RDH")


def register(X, EXTRA):
    EXTRA.append(lambda F: g(F, X))


def g2(F, X):
    lib = X.strip_comments(X.read(X.AR + "/lib.rs"))
    body = X.fn_body(lib, "get_array_batch")
    val = None
    if body:
        # match arms of the load_cdp result: which error kinds end the batch but keep what was read
        arms = re.findall(r"Err\s*\(\s*e\s*\)\s*if\s*(.*?)=>\s*\{([^}]*)\}", body, flags=re.S)
        kinds_break = set()
        for cond, blk in arms:
            if "break" in blk:
                kinds_break.update(re.findall(r"ErrorKind::([A-Za-z]+)", cond))
        if arms:
            val = "InvalidInput" in kinds_break
    F.add("batch_kept_on_invalid_input", "bool", val, True,
          "alice_protocol_reader lib.rs get_array_batch: does an InvalidInput error (pipe seek past the end) end the batch keeping the CDPs already read")


_old_register = register


def register(X, EXTRA):
    _old_register(X, EXTRA)
    EXTRA.append(lambda F: g2(F, X))


def g3(F, X):
    es = X.strip_comments(X.read(X.FP + "/stats/stats_collector/error_stats.rs"))
    body = X.fn_body(es, "sort_error_msgs_by_mem_pos")
    stable = None
    if body:
        if re.search(r"\.\s*sort_unstable(_by|_by_key)?\s*\(", body):
            stable = False
        elif re.search(r"\.\s*sort(_by|_by_key|_by_cached_key)?\s*\(", body):
            # ... and it is performed unconditionally (nothing returns or branches before it) on the number parsed from the hexadecimal
            # address, not on the text of the message
            m = re.search(r"\.\s*sort(_by|_by_key|_by_cached_key)?\s*\(", body)
            before = body[:m.start()]
            stable = not re.search(r"\breturn\b|\bif\b|\bmatch\b|\bwhile\b|\bfor\b", before) and "from_str_radix" in body[m.start():]
    F.add("error_sort_is_stable", "bool", stable, True,
          "error_stats.rs sort_error_msgs_by_mem_pos: is the sort by leading offset a stable sort")
    fin = X.fn_body(es, "finalize_stats")
    muted = None
    if fin and "sort_error_msgs_by_mem_pos" in fin:
        # is the call guarded by `if !mute_errors { ... }`
        m = re.search(r"if\s*!\s*mute_errors\s*\{([^}]*)\}", fin)
        muted = not (m is not None and "sort_error_msgs_by_mem_pos" in m.group(1))
        # stricter: the call stands at the top level of the function body -- inside no `if` / block at all -- and nothing returns before it
        # (seed C15-H guarded it by another flag)
        i = fin.find("sort_error_msgs_by_mem_pos")
        depth = fin[:i].count("{") - fin[:i].count("}")
        muted = muted and depth == 0 and not re.search(r"\breturn\b", fin[:i])
    F.add("error_sort_when_muted", "bool", muted, True,
          "error_stats.rs finalize_stats: is the error list sorted also when errors are muted")


_old_register2 = register


def register(X, EXTRA):
    _old_register2(X, EXTRA)
    EXTRA.append(lambda F: g3(F, X))


def g4(F, X):
    st = X.strip_comments(X.read(X.FP + "/stats.rs"))
    body = X.fn_body(st, "from_system_id")
    tab = None
    if body:
        ids = [int(x) for x in re.findall(r"(\d+)\s*=>\s*Ok\s*\(\s*SystemId::", body)]
        if ids:
            tab = ids
    F.add("system_id_table", "list N", tab, [3, 4, 5, 6, 7, 8, 10, 15, 17, 18, 19, 32, 33, 34, 35, 36, 37, 38, 39, 255],
          "stats.rs SystemId::from_system_id: the recognised system ids")


_old_register3 = register


def register(X, EXTRA):
    _old_register3(X, EXTRA)
    EXTRA.append(lambda F: g4(F, X))


def g5(F, X):
    ct = X.strip_comments(X.read(X.FP + "/controller.rs"))
    body = X.fn_body(ct, "run")
    val = None
    if body:
        # the condition under which the any-errors flag is set after processing
        m = re.search(r"if\s+([^{]*?)\{\s*self\s*\.\s*any_errors_flag\s*\.\s*store\s*\(\s*true", body, flags=re.S)
        if m:
            val = "any_fatal_err" in m.group(1) or "fatal" in m.group(1)
    F.add("fatal_sets_any_errors_flag", "bool", val, True,
          "controller.rs run: is the any-errors flag also set when a fatal error was received")


_old_register4 = register


def register(X, EXTRA):
    _old_register4(X, EXTRA)
    EXTRA.append(lambda F: g5(F, X))
